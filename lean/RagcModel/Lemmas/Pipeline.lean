import RagcModel.Model.Pipeline
/-!
Helper definitions and lemmas for the pipeline protocol model (C04, C05).
-/
set_option linter.unusedSimpArgs false
set_option linter.unusedVariables false
namespace Ragc.Pipeline

/-! ### generic list facts -/

def sumBy {α : Type} (f : α → Nat) (l : List α) : Nat := (l.map f).sum

@[simp] theorem sumBy_nil {α} (f : α → Nat) : sumBy f [] = 0 := rfl
@[simp] theorem sumBy_cons {α} (f : α → Nat) (a : α) (l : List α) : sumBy f (a :: l) = f a + sumBy f l := by
  simp [sumBy]
@[simp] theorem sumBy_append {α} (f : α → Nat) (l m : List α) : sumBy f (l ++ m) = sumBy f l + sumBy f m := by
  simp [sumBy]

theorem sumBy_set {α} (f : α → Nat) (l : List α) (i : Nat) (a b : α) (h : l[i]? = some a) :
    sumBy f (l.set i b) + f a = sumBy f l + f b := by
  induction l generalizing i with
  | nil => simp at h
  | cons x xs ih =>
    cases i with
    | zero => simp at h; subst h; simp; omega
    | succ i => simp at h; have := ih i h; simp; omega

theorem sumBy_erase {α} [DecidableEq α] (f : α → Nat) (l : List α) (x : α) (h : x ∈ l) :
    sumBy f (l.erase x) + f x = sumBy f l := by
  induction l with
  | nil => simp at h
  | cons y ys ih =>
    by_cases hy : y = x
    · subst hy; simp; omega
    · have hx : x ∈ ys := by
        rcases List.mem_cons.mp h with h | h
        · exact absurd h.symm hy
        · exact h
      have := ih hx
      rw [List.erase_cons_tail (by simpa using hy)]
      simp; omega

theorem sumBy_const {α} (f : α → Nat) (l : List α) (a : α) (h : ∀ v ∈ l, v = a) :
    sumBy f l = l.length * f a := by
  induction l with
  | nil => simp
  | cons y ys ih =>
    have hy : y = a := h y (by simp)
    have := ih (fun v hv => h v (by simp [hv]))
    subst hy; simp [this, Nat.succ_mul]; omega

theorem sumBy_map_const {α} (f : α → Nat) (l : List α) (b : α) :
    sumBy f (l.map (fun _ => b)) = l.length * f b := by
  induction l with
  | nil => simp
  | cons y ys ih => simp [ih, Nat.succ_mul]; omega

/-! ### guarded actions = transition function -/
theorem stepI_of_step? {fx : Bool} {s s' : State} {e : Event} (h : step? fx s e = some s') : StepI fx s e s' := by
  cases e with
  | prod =>
    simp only [step?] at h
    split at h
    · simp at h
    · rename_i x p hp
      split at h
      · rename_i hg; simp at h; subst h; exact .push hp hg
      · simp at h
    · rename_i p hp
      split at h
      · rename_i hg; simp at h; subst h; exact .waitEmpty hp hg
      · simp at h
    · rename_i p hp; simp at h; subst h; exact .close hp
  | pull w x =>
    simp only [step?] at h
    split at h
    · rename_i hg; simp at h; subst h; exact .pull hg.1 hg.2
    · simp at h
  | exit w =>
    simp only [step?] at h
    split at h
    · rename_i hg; simp at h; subst h; exact .exit hg.1 hg.2.1 hg.2.2
    · simp at h
  | buffer w =>
    simp only [step?] at h
    split at h
    · rename_i c hg; simp at h; subst h; exact .buffer hg
    · simp at h
  | release j =>
    simp only [step?] at h
    split at h
    · rename_i hg
      obtain ⟨h1, h4, hne, hall⟩ := hg
      split at h
      · rename_i hj; subst hj; simp at h; subst h; exact .release1 hne hall
      · rename_i hj; simp at h; subst h; exact .release (by omega) h4 hne hall
    · simp at h
  | advance w =>
    simp only [step?] at h
    split at h
    · rename_i j hg
      split at h
      · rename_i hj; simp at h; subst h; exact .advance hg hj.1 hj.2
      · split at h
        · rename_i hj; subst hj; simp at h; subst h; exact .advance4 hg
        · simp at h
    · simp at h

theorem step?_of_stepI {fx : Bool} {s s' : State} {e : Event} (h : StepI fx s e s') : step? fx s e = some s' := by
  cases h with
  | push hp hg => simp [step?, hp, hg]
  | waitEmpty hp hg => simp [step?, hp, hg]
  | close hp => simp [step?, hp]
  | pull hw hm => simp [step?, hw, hm]
  | exit hw hc hq => simp [step?, hw, hc, hq]
  | buffer hw => simp [step?, hw]
  | release1 hne hall => simp only [step?]; rw [if_pos ⟨by omega, by omega, hne, hall⟩]; simp
  | release h2 h4 hne hall =>
    simp only [step?]; rw [if_pos ⟨by omega, h4, hne, hall⟩, if_neg (by omega)]
  | advance hw h1 h4 => simp only [step?, hw]; rw [if_pos ⟨h1, h4⟩]
  | advance4 hw => simp [step?, hw]

/-! ### the potential (C05) -/

def qpot (x : Item) : Nat := if x.isTok then 10 else 2
def ipot : Instr → Nat
  | .push x => qpot x + 1
  | _ => 1
def wpot : WState → Nat
  | .idle => 1
  | .working _ => 2
  | .bar j => 12 - 2 * j
  | .ph j => 11 - 2 * j
  | .exited => 0
/-- the potential -/
def Φ (s : State) : Nat := sumBy ipot s.prog + sumBy qpot s.queue + sumBy wpot s.workers

theorem step?_decreases (fx : Bool) (s s' : State) (e : Event) (h : step? fx s e = some s') : Φ s' < Φ s := by
  cases e with
  | prod =>
    simp only [step?] at h
    split at h
    · simp at h
    · split at h
      · simp at h; subst h; simp_all [Φ, ipot]; omega
      · simp at h
    · split at h
      · simp at h; subst h; simp_all [Φ, ipot]
      · simp at h
    · simp at h; subst h; simp_all [Φ, ipot]
  | pull w x =>
    simp only [step?] at h
    split at h
    · rename_i hg
      simp at h; subst h
      have h1 := sumBy_erase qpot s.queue x hg.2.1
      have h2 := sumBy_set wpot s.workers w .idle (if x.isTok then .bar 1 else .working x.seq) hg.1
      simp only [Φ]
      cases hx : x.isTok <;> simp [hx, wpot, qpot] at h1 h2 ⊢ <;> omega
    · simp at h
  | exit w =>
    simp only [step?] at h
    split at h
    · rename_i hg
      simp at h; subst h
      have h2 := sumBy_set wpot s.workers w .idle .exited hg.1
      simp [Φ, wpot] at h2 ⊢; omega
    · simp at h
  | buffer w =>
    simp only [step?] at h
    split at h
    · rename_i c hg
      simp at h; subst h
      have h2 := sumBy_set wpot s.workers w (.working c) .idle hg
      simp [Φ, wpot] at h2 ⊢; omega
    · simp at h
  | release j =>
    simp only [step?] at h
    split at h
    · rename_i hg
      obtain ⟨h1, h4, hne, hall⟩ := hg
      have hc := sumBy_const wpot s.workers (.bar j) hall
      have hm := sumBy_map_const wpot s.workers (.ph j)
      have hl : 0 < s.workers.length := List.length_pos_iff.mpr hne
      have hw : s.workers.length * wpot (.ph j) < s.workers.length * wpot (.bar j) := by
        apply Nat.mul_lt_mul_of_pos_left _ hl
        simp [wpot]; omega
      split at h <;> (simp at h; subst h; simp only [Φ]; omega)
    · simp at h
  | advance w =>
    simp only [step?] at h
    split at h
    · rename_i j hg
      split at h
      · simp at h; subst h
        have h2 := sumBy_set wpot s.workers w (.ph j) (.bar (j+1)) hg
        simp [Φ, wpot] at h2 ⊢; omega
      · split at h
        · simp at h; subst h
          have h2 := sumBy_set wpot s.workers w (.ph j) .idle hg
          simp [Φ, wpot] at h2 ⊢; omega
        · simp at h
    · simp at h

/-! ### well-formed programs and the C05 invariant -/

@[simp] theorem items_nil : items [] = [] := rfl
@[simp] theorem items_push (x : Item) (p : List Instr) : items (.push x :: p) = x :: items p := rfl
@[simp] theorem items_wait (p : List Instr) : items (.waitEmpty :: p) = items p := rfl
@[simp] theorem items_close (p : List Instr) : items (.close :: p) = items p := rfl
theorem items_append (a b : List Instr) : items (a ++ b) = items a ++ items b := by
  induction a with
  | nil => simp
  | cons i a ih => cases i <;> simp [ih]

theorem mem_items {x : Item} {p : List Instr} : x ∈ items p ↔ Instr.push x ∈ p := by
  induction p with
  | nil => simp
  | cons i p ih => cases i <;> simp [ih]

/-! weights -/
def tokW (x : Item) : Nat := if x.isTok then 1 else 0
def ctgW (c : Nat) (x : Item) : Nat := if x.isTok = false ∧ x.seq = c then 1 else 0
def bar1W (w : WState) : Nat := if w = .bar 1 then 1 else 0
def workW (c : Nat) (w : WState) : Nat := if w = .working c then 1 else 0

/-- Tokens come in runs of exactly `N`: scanning the body with `k` = number of tokens of the
current run seen so far, anything that is not a token push may only occur between complete runs
(`k = 0`), `close` does not occur, and the body ends between runs. -/
inductive TokRuns (N : Nat) : Nat → List Instr → Prop where
  | nil : TokRuns N 0 []
  | contig {x : Item} {rest : List Instr} : x.isTok = false → TokRuns N 0 rest → TokRuns N 0 (.push x :: rest)
  | wait {rest : List Instr} : TokRuns N 0 rest → TokRuns N 0 (.waitEmpty :: rest)
  | token {k : Nat} {x : Item} {rest : List Instr} : x.isTok = true → k + 1 < N → TokRuns N (k + 1) rest →
      TokRuns N k (.push x :: rest)
  | tokenLast {k : Nat} {x : Item} {rest : List Instr} : x.isTok = true → k + 1 = N → TokRuns N 0 rest →
      TokRuns N k (.push x :: rest)

structure WellFormedShape (N : Nat) (prog : List Instr) : Prop where
  npos : 1 ≤ N
  shape : ∃ body, prog = body ++ [.close] ∧ .close ∉ body ∧ TokRuns N 0 body

def WellFormedProgram (N cap : Nat) (prog : List Instr) : Prop :=
  WellFormedShape N prog ∧ ∀ x ∈ items prog, x.size ≤ cap

theorem sumBy_zero {α} (f : α → Nat) (l : List α) (h : ∀ x ∈ l, f x = 0) : sumBy f l = 0 := by
  induction l with
  | nil => simp
  | cons a l ih => simp [h a (by simp), ih (fun x hx => h x (by simp [hx]))]

theorem tokRuns_dvd {N k : Nat} {p : List Instr} (h : TokRuns N k p) : N ∣ k + sumBy tokW (items p) := by
  induction h with
  | nil => simp
  | contig hx _ ih => simpa [tokW, hx] using ih
  | wait _ ih => simpa using ih
  | @token k x rest hx _ _ ih =>
    simp [tokW, hx]; rw [show k + (1 + sumBy tokW (items rest)) = k + 1 + sumBy tokW (items rest) by omega]; exact ih
  | @tokenLast k x rest hx hk _ ih =>
    simp [tokW, hx]
    obtain ⟨c, hc⟩ := ih
    exact ⟨1 + c, by rw [Nat.mul_add]; simp at hc; omega⟩

def ModeA (ws : List WState) : Prop :=
  ∀ v ∈ ws, v = .idle ∨ (∃ c, v = .working c) ∨ v = .ph 4 ∨ v = .bar 1 ∨ v = .exited
def ModeB (ws : List WState) : Prop :=
  ∃ j, 1 ≤ j ∧ j ≤ 3 ∧ ∀ v ∈ ws, v = .ph j ∨ v = .bar (j + 1)

structure Inv5 (fx : Bool) (prog0 : List Instr) (N : Nat) (s : State) : Prop where
  len : s.workers.length = N
  sizes : fx = false → ∀ x ∈ items s.prog, x.size ≤ s.cap
  closedProg : s.closed = true → s.prog = []
  openProg : s.closed = false → ∃ body, s.prog = body ++ [.close] ∧ .close ∉ body
  exitedClosed : .exited ∈ s.workers → s.closed = true ∧ s.queue = []
  shape : ModeA s.workers ∨ ModeB s.workers
  tokAcc : N * s.batches.length + sumBy bar1W s.workers + sumBy tokW s.queue + sumBy tokW (items s.prog)
             = sumBy tokW (items prog0)
  ctgAcc : ∀ c, s.batches.flatten.count c + s.buffered.count c + sumBy (workW c) s.workers
             + sumBy (ctgW c) s.queue + sumBy (ctgW c) (items s.prog) = sumBy (ctgW c) (items prog0)

theorem mem_of_getElem? {α} {l : List α} {i : Nat} {a : α} (h : l[i]? = some a) : a ∈ l :=
  List.mem_of_getElem? h

theorem modeA_set {ws : List WState} {w : Nat} {v : WState} (h : ModeA ws)
    (hv : v = .idle ∨ (∃ c, v = .working c) ∨ v = .ph 4 ∨ v = .bar 1 ∨ v = .exited) : ModeA (ws.set w v) := by
  intro u hu
  rcases List.mem_or_eq_of_mem_set hu with hu | hu
  · exact h u hu
  · subst hu; exact hv

theorem modeB_not_mem {ws : List WState} (h : ModeB ws) {v : WState} (hv : v ∈ ws) :
    v ≠ .idle ∧ (∀ c, v ≠ .working c) ∧ v ≠ .ph 4 ∧ v ≠ .bar 1 ∧ v ≠ .exited := by
  obtain ⟨j, h1, h3, hall⟩ := h
  rcases hall v hv with h | h <;> subst h <;> simp <;> omega

theorem inv5_init {fx : Bool} {prog : List Instr} {N cap : Nat} (hwf : WellFormedShape N prog)
    (hsz : fx = false → ∀ x ∈ items prog, x.size ≤ cap) : Inv5 fx prog N (init prog cap N) := by
  obtain ⟨body, hb, hc, _⟩ := hwf.shape
  refine ⟨by simp [init], hsz, by simp [init], fun _ => ⟨body, hb, hc⟩, ?_, Or.inl ?_, ?_, ?_⟩
  · simp [init]
  · intro v hv; simp [init] at hv; exact Or.inl hv.2
  · have : sumBy bar1W (List.replicate N WState.idle) = 0 := sumBy_zero _ _ (fun x hx => by
      simp at hx; simp [hx.2, bar1W])
    simp [init, this]
  · intro c
    have : sumBy (workW c) (List.replicate N WState.idle) = 0 := sumBy_zero _ _ (fun x hx => by
      simp at hx; simp [hx.2, workW])
    simp [init, this]

theorem inv5_step {fx : Bool} {prog0 : List Instr} {N : Nat} {s s' : State} {e : Event}
    (hi : Inv5 fx prog0 N s) (h : StepI fx s e s') : Inv5 fx prog0 N s' := by
  obtain ⟨hlen, hsz, hcp, hop, hex, hsh, htok, hctg⟩ := hi
  cases h with
  | push hp hg =>
    rename_i x p
    have hcl : s.closed = false := hg.1
    obtain ⟨body, hb, hc⟩ := hop hcl
    refine ⟨hlen, ?_, ?_, ?_, ?_, hsh, ?_, ?_⟩
    · intro hf y hy; exact hsz hf y (by simp [hp, hy])
    · simp [hcl]
    · intro _
      cases body with
      | nil => simp [hp] at hb
      | cons i b => simp [hp] at hb; exact ⟨b, hb.2, fun hm => hc (by simp [hm])⟩
    · intro hm; have := (hex hm).1; simp [hcl] at this
    · simp [hp] at htok ⊢; omega
    · intro c; have := hctg c; simp [hp] at this ⊢; omega
  | waitEmpty hp hq =>
    rename_i p
    refine ⟨hlen, ?_, ?_, ?_, hex, hsh, ?_, ?_⟩
    · intro hf y hy; exact hsz hf y (by simp [hp, hy])
    · intro hc; have := hcp hc; simp [hp] at this
    · intro hcl
      obtain ⟨body, hb, hc⟩ := hop hcl
      cases body with
      | nil => simp [hp] at hb
      | cons i b => simp [hp] at hb; exact ⟨b, hb.2, fun hm => hc (by simp [hm])⟩
    · simp [hp] at htok ⊢; omega
    · intro c; have := hctg c; simp [hp] at this ⊢; omega
  | close hp =>
    rename_i p
    have hcl : s.closed = false := by
      cases hc : s.closed with
      | false => rfl
      | true => have := hcp hc; simp [hp] at this
    obtain ⟨body, hb, hc⟩ := hop hcl
    have hpnil : p = [] := by
      cases body with
      | nil => simp [hp] at hb; exact hb
      | cons i b => simp [hp] at hb; exact absurd (by simp [hb.1]) hc
    refine ⟨hlen, ?_, ?_, ?_, ?_, hsh, ?_, ?_⟩
    · intro hf y hy; exact hsz hf y (by simp [hp, hy])
    · intro _; exact hpnil
    · intro h; simp at h
    · intro hm; have := (hex hm).1; simp [hcl] at this
    · simp [hp] at htok ⊢; omega
    · intro c; have := hctg c; simp [hp] at this ⊢; omega
  | pull hw hm =>
    rename_i w x
    have hidle : WState.idle ∈ s.workers := mem_of_getElem? hw
    have hA : ModeA s.workers := by
      rcases hsh with h | h
      · exact h
      · exact absurd rfl (modeB_not_mem h hidle).1
    have hnotex : WState.exited ∉ s.workers := by
      intro hm2; have := (hex hm2).2; rw [this] at hm; exact absurd hm.1 (by simp)
    refine ⟨by simp [hlen], hsz, hcp, hop, ?_, Or.inl ?_, ?_, ?_⟩
    · intro hm2
      rcases List.mem_or_eq_of_mem_set hm2 with h | h
      · exact absurd h hnotex
      · cases hx : x.isTok <;> simp [hx] at h
    · apply modeA_set hA
      cases hx : x.isTok <;> simp
    · have h1 := sumBy_erase tokW s.queue x hm.1
      have h2 := sumBy_set bar1W s.workers w .idle (if x.isTok then .bar 1 else .working x.seq) hw
      cases hx : x.isTok <;> simp [hx, tokW, bar1W] at h1 h2 ⊢ <;> omega
    · intro c
      have h0 := hctg c
      have h1 := sumBy_erase (ctgW c) s.queue x hm.1
      have h2 := sumBy_set (workW c) s.workers w .idle (if x.isTok then .bar 1 else .working x.seq) hw
      cases hx : x.isTok
      · by_cases hc : x.seq = c <;> simp [hx, hc, ctgW, workW] at h0 h1 h2 ⊢ <;> omega
      · simp [hx, ctgW, workW] at h0 h1 h2 ⊢; omega
  | exit hw hc hq =>
    rename_i w
    have hidle : WState.idle ∈ s.workers := mem_of_getElem? hw
    have hA : ModeA s.workers := by
      rcases hsh with h | h
      · exact h
      · exact absurd rfl (modeB_not_mem h hidle).1
    refine ⟨by simp [hlen], hsz, hcp, hop, fun _ => ⟨hc, hq⟩, Or.inl ?_, ?_, ?_⟩
    · exact modeA_set hA (by simp)
    · have h2 := sumBy_set bar1W s.workers w .idle .exited hw
      simp [bar1W] at h2 ⊢; omega
    · intro c
      have h0 := hctg c
      have h2 := sumBy_set (workW c) s.workers w .idle .exited hw
      simp [workW] at h0 h2 ⊢; omega
  | buffer hw =>
    rename_i w c
    have hwk : WState.working c ∈ s.workers := mem_of_getElem? hw
    have hA : ModeA s.workers := by
      rcases hsh with h | h
      · exact h
      · exact absurd rfl ((modeB_not_mem h hwk).2.1 c)
    refine ⟨by simp [hlen], hsz, hcp, hop, ?_, Or.inl ?_, ?_, ?_⟩
    · intro hm2
      rcases List.mem_or_eq_of_mem_set hm2 with h | h
      · exact hex h
      · simp at h
    · exact modeA_set hA (by simp)
    · have h2 := sumBy_set bar1W s.workers w (.working c) .idle hw
      simp [bar1W] at h2 ⊢; omega
    · intro d
      have h0 := hctg d
      have h2 := sumBy_set (workW d) s.workers w (.working c) .idle hw
      by_cases hd : c = d
      · subst hd; simp [workW, List.count_append] at h0 h2 ⊢; omega
      · have hd' : ¬ d = c := fun h => hd h.symm
        simp [workW, hd, List.count_append] at h0 h2 ⊢; omega
  | release1 hne hall =>
    have hb1 := sumBy_const bar1W s.workers (.bar 1) hall
    have hb2 := sumBy_map_const bar1W s.workers (.ph 1)
    refine ⟨by simp [hlen], hsz, hcp, hop, ?_, Or.inr ⟨1, by omega, by omega, ?_⟩, ?_, ?_⟩
    · intro hm; simp at hm
    · intro v hv; simp at hv; exact Or.inl hv.2.symm
    · simp [bar1W] at hb1 hb2
      simp only [hb2, List.length_append, List.length_singleton]
      rw [hb1, hlen] at htok
      rw [Nat.mul_add]; omega
    · intro c
      have h0 := hctg c
      have hw1 := sumBy_const (workW c) s.workers (.bar 1) hall
      have hw2 := sumBy_map_const (workW c) s.workers (.ph 1)
      simp [workW] at hw1 hw2
      simp [hw2, List.count_append] at h0 ⊢
      rw [hw1] at h0; omega
  | release h2 h4 hne hall =>
    rename_i j
    have hb1 := sumBy_const bar1W s.workers (.bar j) hall
    have hb2 := sumBy_map_const bar1W s.workers (.ph j)
    have hj1 : ¬ j = 1 := by omega
    obtain ⟨v0, hv0⟩ := List.exists_mem_of_ne_nil _ hne
    have hB : ModeB s.workers := by
      rcases hsh with h | h
      · have := h v0 hv0; rw [hall v0 hv0] at this; simp at this; omega
      · exact h
    refine ⟨by simp [hlen], hsz, hcp, hop, ?_, ?_, ?_, ?_⟩
    · intro hm; simp at hm
    · by_cases hj : j = 4
      · left; intro v hv; simp at hv; subst hj; simp [hv.2]
      · right; exact ⟨j, by omega, by omega, fun v hv => by simp at hv; exact Or.inl hv.2.symm⟩
    · simp [bar1W, hj1] at hb1 hb2
      simp only [hb2]; rw [hb1] at htok; omega
    · intro c
      have h0 := hctg c
      have hw1 := sumBy_const (workW c) s.workers (.bar j) hall
      have hw2 := sumBy_map_const (workW c) s.workers (.ph j)
      simp [workW] at hw1 hw2
      simp only [hw2]; rw [hw1] at h0; omega
  | advance hw h1 h4 =>
    rename_i w j
    have hph : WState.ph j ∈ s.workers := mem_of_getElem? hw
    have hB : ModeB s.workers := by
      rcases hsh with h | h
      · have := h _ hph; simp at this; omega
      · exact h
    refine ⟨by simp [hlen], hsz, hcp, hop, ?_, Or.inr ?_, ?_, ?_⟩
    · intro hm2
      rcases List.mem_or_eq_of_mem_set hm2 with h | h
      · exact hex h
      · simp at h
    · obtain ⟨j', h1', h3', hall⟩ := hB
      have hjj : j = j' := by
        rcases hall _ hph with h | h <;> simp at h; exact h
      subst hjj
      refine ⟨j, h1', h3', fun v hv => ?_⟩
      rcases List.mem_or_eq_of_mem_set hv with h | h
      · exact hall v h
      · exact Or.inr h
    · have h2 := sumBy_set bar1W s.workers w (.ph j) (.bar (j+1)) hw
      have : ¬ j = 0 := by omega
      simp [bar1W, this] at h2 ⊢; omega
    · intro c
      have h0 := hctg c
      have h2 := sumBy_set (workW c) s.workers w (.ph j) (.bar (j+1)) hw
      simp [workW] at h0 h2 ⊢; omega
  | advance4 hw =>
    rename_i w
    have hph : WState.ph 4 ∈ s.workers := mem_of_getElem? hw
    have hA : ModeA s.workers := by
      rcases hsh with h | h
      · exact h
      · exact absurd rfl (modeB_not_mem h hph).2.2.1
    refine ⟨by simp [hlen], hsz, hcp, hop, ?_, Or.inl ?_, ?_, ?_⟩
    · intro hm2
      rcases List.mem_or_eq_of_mem_set hm2 with h | h
      · exact hex h
      · simp at h
    · exact modeA_set hA (by simp)
    · have h2 := sumBy_set bar1W s.workers w (.ph 4) .idle hw
      simp [bar1W] at h2 ⊢; omega
    · intro c
      have h0 := hctg c
      have h2 := sumBy_set (workW c) s.workers w (.ph 4) .idle hw
      simp [workW] at h0 h2 ⊢; omega


/-! ### progress (C05) -/

theorem taskLt_irrefl (a : Item) : ¬ taskLt a a := by unfold taskLt; omega
theorem taskLt_trans {a b c : Item} (h1 : taskLt a b) (h2 : taskLt b c) : taskLt a c := by
  unfold taskLt at *; omega
theorem taskLt_asymm {a b : Item} (h1 : taskLt a b) : ¬ taskLt b a := by
  unfold taskLt at *; omega

theorem exists_isMax (q : List Item) (h : q ≠ []) : ∃ x, isMax q x := by
  induction q with
  | nil => exact absurd rfl h
  | cons a q ih =>
    by_cases hq : q = []
    · subst hq; exact ⟨a, by simp, fun y hy => by simp at hy; subst hy; exact taskLt_irrefl _⟩
    · obtain ⟨m, hm, hmax⟩ := ih hq
      by_cases hma : taskLt m a
      · refine ⟨a, by simp, fun y hy => ?_⟩
        rcases List.mem_cons.mp hy with h | h
        · subst h; exact taskLt_irrefl _
        · intro hay; exact hmax y h (taskLt_trans hma hay)
      · refine ⟨m, by simp [hm], fun y hy => ?_⟩
        rcases List.mem_cons.mp hy with h | h
        · subst h; exact hma
        · exact hmax y h

theorem exists_idx {α} {l : List α} {v : α} (h : v ∈ l) : ∃ i : Nat, l[i]? = some v :=
  List.mem_iff_getElem?.mp h

theorem sumBy_eq_zero {α} {f : α → Nat} {l : List α} (h : sumBy f l = 0) : ∀ x ∈ l, f x = 0 := by
  induction l with
  | nil => simp
  | cons a l ih =>
    simp at h
    intro x hx
    rcases List.mem_cons.mp hx with hx | hx
    · subst hx; exact h.1
    · exact ih h.2 x hx

theorem sumBy_le_length {α} {f : α → Nat} {l : List α} (h : ∀ x ∈ l, f x ≤ 1) : sumBy f l ≤ l.length := by
  induction l with
  | nil => simp
  | cons a l ih =>
    have := ih (fun x hx => h x (by simp [hx]))
    have := h a (by simp)
    simp; omega

theorem sumBy_lt_length {α} {f : α → Nat} {l : List α} (h : ∀ x ∈ l, f x ≤ 1) {a : α} (ha : a ∈ l) (h0 : f a = 0) :
    sumBy f l < l.length := by
  induction l with
  | nil => simp at ha
  | cons b l ih =>
    have hl := sumBy_le_length (fun x hx => h x (List.mem_cons_of_mem b hx))
    rcases List.mem_cons.mp ha with hab | hab
    · subst hab; simp [h0]; omega
    · have := ih (fun x hx => h x (by simp [hx])) hab
      have := h b (by simp)
      simp; omega

/-- No reachable non-final state is stuck (both push guards). -/
theorem inv5_progress {fx : Bool} {prog0 : List Instr} {N : Nat} {s : State}
    (hN : 1 ≤ N) (hdvd : N ∣ sumBy tokW (items prog0))
    (hi : Inv5 fx prog0 N s) (hnf : ¬ Final s) : ∃ s', Step fx s s' := by
  obtain ⟨hlen, hsz, hcp, hop, hex, hsh, htok, hctg⟩ := hi
  have hne : s.workers ≠ [] := by
    intro h; rw [h] at hlen; simp at hlen; omega
  by_cases h1 : ∃ c, WState.working c ∈ s.workers
  · obtain ⟨c, hc⟩ := h1
    obtain ⟨w, hw⟩ := exists_idx hc
    exact ⟨_, .buffer w, step?_of_stepI (.buffer hw)⟩
  by_cases h2 : ∃ j, WState.ph j ∈ s.workers
  · obtain ⟨j, hj⟩ := h2
    obtain ⟨w, hw⟩ := exists_idx hj
    rcases hsh with hA | hB
    · have := hA _ hj; simp at this; subst this
      exact ⟨_, .advance w, step?_of_stepI (.advance4 hw)⟩
    · obtain ⟨j', h1', h3', hall⟩ := hB
      have hjj : j = j' := by
        rcases hall _ hj with h | h <;> simp at h; exact h
      subst hjj
      exact ⟨_, .advance w, step?_of_stepI (.advance hw h1' (by omega))⟩
  by_cases h3 : WState.idle ∈ s.workers
  · obtain ⟨w, hw⟩ := exists_idx h3
    by_cases hq : s.queue = []
    · cases hcl : s.closed with
      | true => exact ⟨_, .exit w, step?_of_stepI (.exit hw hcl hq)⟩
      | false =>
        obtain ⟨body, hb, hc⟩ := hop hcl
        cases hp : s.prog with
        | nil => rw [hp] at hb; simp at hb
        | cons i p =>
          cases i with
          | push x =>
            refine ⟨_, .prod, step?_of_stepI (.push hp ⟨hcl, ?_⟩)⟩
            cases hfx : fx with
            | true => exact Or.inr ⟨rfl, hq⟩
            | false =>
              left
              have := hsz hfx x (by simp [hp])
              simp [State.cur, hq]; exact this
          | waitEmpty => exact ⟨_, .prod, step?_of_stepI (.waitEmpty hp hq)⟩
          | close => exact ⟨_, .prod, step?_of_stepI (.close hp)⟩
    · obtain ⟨x, hx⟩ := exists_isMax s.queue hq
      exact ⟨_, .pull w x, step?_of_stepI (.pull hw hx)⟩
  -- every worker waits at a barrier or has exited
  rcases hsh with hA | hB
  · have hall : ∀ v ∈ s.workers, v = .bar 1 ∨ v = .exited := by
      intro v hv
      rcases hA v hv with h | ⟨c, h⟩ | h | h | h
      · subst h; exact absurd hv h3
      · subst h; exact absurd ⟨c, hv⟩ h1
      · subst h; exact absurd ⟨4, hv⟩ h2
      · exact Or.inl h
      · exact Or.inr h
    by_cases h4 : WState.exited ∈ s.workers
    · obtain ⟨hcl, hq⟩ := hex h4
      have hp := hcp hcl
      rw [hq, hp] at htok
      simp at htok
      have hlt : sumBy bar1W s.workers < N := by
        rw [← hlen]
        exact sumBy_lt_length (fun x _ => by simp [bar1W]; split <;> omega) h4 (by simp [bar1W])
      have hd : N ∣ sumBy bar1W s.workers := by
        rw [← htok] at hdvd
        exact (Nat.dvd_add_right (Nat.dvd_mul_right N _)).mp hdvd
      have hz : sumBy bar1W s.workers = 0 := Nat.eq_zero_of_dvd_of_lt hd hlt
      exfalso; apply hnf
      refine ⟨hp, hq, fun v hv => ?_⟩
      rcases hall v hv with h | h
      · have := sumBy_eq_zero hz v hv; simp [bar1W, h] at this
      · exact h
    · have hall1 : ∀ v ∈ s.workers, v = .bar 1 := by
        intro v hv
        rcases hall v hv with h | h
        · exact h
        · subst h; exact absurd hv h4
      exact ⟨_, .release 1, step?_of_stepI (.release1 hne hall1)⟩
  · obtain ⟨j, hj1, hj3, hall⟩ := hB
    have hall1 : ∀ v ∈ s.workers, v = .bar (j + 1) := by
      intro v hv
      rcases hall v hv with h | h
      · subst h; exact absurd ⟨j, hv⟩ h2
      · exact h
    exact ⟨_, .release (j + 1), step?_of_stepI (.release (by omega) (by omega) hne hall1)⟩


/-! ### reachability, bound, final states (C05) -/

theorem sumBy_tokW (l : List Item) : sumBy tokW l = tokCount l := by
  induction l with
  | nil => rfl
  | cons a l ih => simp [tokCount, tokW, List.countP_cons] at ih ⊢; rw [ih]; cases a.isTok <;> simp; omega

theorem sumBy_ctgW (c : Nat) (l : List Item) : sumBy (ctgW c) l = (contigSeqs l).count c := by
  induction l with
  | nil => rfl
  | cons a l ih =>
    simp only [sumBy_cons, ih, contigSeqs, ctgW]
    cases h : a.isTok
    · by_cases hc : a.seq = c <;> simp [h, hc, List.filter_cons, List.count_cons] <;> omega
    · simp [h, List.filter_cons]

theorem sumBy_bar1W (l : List WState) : sumBy bar1W l = l.count (.bar 1) := by
  induction l with
  | nil => rfl
  | cons a l ih =>
    simp only [sumBy_cons, ih, bar1W, List.count_cons]
    by_cases h : a = .bar 1 <;> simp [h] <;> omega

theorem inv5_reachable {fx : Bool} {prog : List Instr} {N cap : Nat} {s : State}
    (hwf : WellFormedShape N prog) (hsz : fx = false → ∀ x ∈ items prog, x.size ≤ cap)
    (hr : Reachable fx prog cap N s) : Inv5 fx prog N s := by
  induction hr with
  | init => exact inv5_init hwf hsz
  | step _ hs ih => obtain ⟨e, he⟩ := hs; exact inv5_step ih (stepI_of_step? he)

theorem wf_dvd {N : Nat} {prog : List Instr} (hwf : WellFormedShape N prog) : N ∣ sumBy tokW (items prog) := by
  obtain ⟨body, hb, _, hr⟩ := hwf.shape
  subst hb
  have := tokRuns_dvd hr
  simpa [items_append] using this

theorem exec_bounded (fx : Bool) (s : State) (trace : List State) (h : IsExec fx s trace) : trace.length ≤ Φ s := by
  induction trace generalizing s with
  | nil => simp
  | cons t rest ih =>
    obtain ⟨⟨e, he⟩, hrest⟩ := h
    have := step?_decreases fx s t e he
    have := ih t hrest
    simp; omega

theorem inv5_final {fx : Bool} {prog : List Instr} {N : Nat} {s : State} (hi : Inv5 fx prog N s) (hf : Final s) :
    (s.batches.flatten ++ s.buffered).Perm (contigSeqs (items prog)) ∧ N * s.batches.length = tokCount (items prog) := by
  obtain ⟨hp, hq, hw⟩ := hf
  have hz1 : sumBy bar1W s.workers = 0 := sumBy_zero _ _ (fun v hv => by simp [hw v hv, bar1W])
  constructor
  · rw [List.perm_iff_count]
    intro c
    have := hi.ctgAcc c
    have hz2 : sumBy (workW c) s.workers = 0 := sumBy_zero _ _ (fun v hv => by simp [hw v hv, workW])
    rw [hp, hq, hz2] at this
    simp at this
    rw [List.count_append, ← sumBy_ctgW]; omega
  · have := hi.tokAcc
    rw [hp, hq, hz1] at this
    simp at this
    rw [← sumBy_tokW]; exact this


/-! ### PrioSep, round annotations and the C04 invariant -/

/-! PrioSep -/

/-- every item pushed after `x` and before the next `waitEmpty` that belongs to a later round is
strictly below `x` in the task order -/
def sepFrom (x : Item) : List Instr → Prop
  | [] => True
  | .waitEmpty :: _ => True
  | .push y :: r => (x.rd < y.rd → taskLt y x) ∧ sepFrom x r
  | .close :: r => sepFrom x r

/-- For items `x` pushed before `y` with `rd x < rd y`: `taskLt y x`, or a `waitEmpty` lies between
them in the program. -/
def PrioSep : List Instr → Prop
  | [] => True
  | .push x :: r => sepFrom x r ∧ PrioSep r
  | _ :: r => PrioSep r

instance sepFromDec (x : Item) : (p : List Instr) → Decidable (sepFrom x p)
  | [] => isTrue trivial
  | .waitEmpty :: _ => isTrue trivial
  | .push y :: r => by
      unfold sepFrom
      have := sepFromDec x r
      exact inferInstance
  | .close :: r => by unfold sepFrom; exact sepFromDec x r

instance prioSepDec : (p : List Instr) → Decidable (PrioSep p)
  | [] => isTrue trivial
  | .push x :: r => by
      unfold PrioSep
      have := prioSepDec r
      exact inferInstance
  | .waitEmpty :: r => by unfold PrioSep; exact prioSepDec r
  | .close :: r => by unfold PrioSep; exact prioSepDec r

def ctgRW (r c : Nat) (x : Item) : Nat := if x.rd = 2 * r ∧ x.seq = c then 1 else 0
def tokRW (r : Nat) (x : Item) : Nat := if x.rd = 2 * r + 1 then 1 else 0

/-- the ghost round indices are consistent: non-decreasing along the push sequence, even for
contigs and odd for tokens, exactly `N` tokens in each round `< rounds prog` and nothing beyond -/
structure RdOk (N : Nat) (prog : List Instr) : Prop where
  sorted : (items prog).Pairwise (fun a b => a.rd ≤ b.rd)
  parity : ∀ x ∈ items prog, (x.isTok = true ↔ x.rd % 2 = 1)
  runs : ∀ r, sumBy (tokRW r) (items prog) = if r < rounds prog then N else 0
  bound : ∀ x ∈ items prog, x.rd < 2 * rounds prog

structure Inv4 (prog0 : List Instr) (N : Nat) (s : State) : Prop where
  sub : ∀ x, x ∈ s.queue ∨ x ∈ items s.prog → x ∈ items prog0
  progSorted : (items s.prog).Pairwise (fun a b => a.rd ≤ b.rd)
  qBeforeProg : ∀ q ∈ s.queue, ∀ p ∈ items s.prog, q.rd ≤ p.rd
  sepQ : ∀ x ∈ s.queue, sepFrom x s.prog
  sepP : PrioSep s.prog
  qOrd : ∀ x ∈ s.queue, ∀ y ∈ s.queue, x.rd < y.rd → taskLt y x
  low : ∀ x, x ∈ s.queue ∨ x ∈ items s.prog → 2 * s.batches.length ≤ x.rd
  lowTok : 0 < sumBy bar1W s.workers → ∀ x, x ∈ s.queue ∨ x ∈ items s.prog → 2 * s.batches.length + 1 ≤ x.rd
  bufA : s.buffered = [] ∨ ModeA s.workers
  accE : ∀ c, s.buffered.count c + sumBy (workW c) s.workers + sumBy (ctgRW s.batches.length c) s.queue
            + sumBy (ctgRW s.batches.length c) (items s.prog) = sumBy (ctgRW s.batches.length c) (items prog0)
  accT : sumBy bar1W s.workers + sumBy (tokRW s.batches.length) s.queue + sumBy (tokRW s.batches.length) (items s.prog)
            = sumBy (tokRW s.batches.length) (items prog0)
  future : ∀ f : Item → Nat, (∀ x, x.rd < 2 * s.batches.length + 2 → f x = 0) →
            sumBy f s.queue + sumBy f (items s.prog) = sumBy f (items prog0)
  done : ∀ i (h : i < s.batches.length), ∀ c, (s.batches[i]).count c = sumBy (ctgRW i c) (items prog0)
  rle : s.batches.length ≤ rounds prog0

theorem sepFrom_tail {x : Item} {i : Instr} {p : List Instr} (hi : i ≠ .waitEmpty) (h : sepFrom x (i :: p)) : sepFrom x p := by
  cases i with
  | push y => exact h.2
  | waitEmpty => exact absurd rfl hi
  | close => exact h

theorem prioSep_tail {i : Instr} {p : List Instr} (h : PrioSep (i :: p)) : PrioSep p := by
  cases i with
  | push y => exact h.2
  | waitEmpty => exact h
  | close => exact h

theorem pull_min_rd_aux {q : List Item} {x : Item} (hord : ∀ a ∈ q, ∀ b ∈ q, a.rd < b.rd → taskLt b a)
    (hm : isMax q x) : ∀ y ∈ q, x.rd ≤ y.rd := by
  intro y hy
  apply Nat.le_of_not_lt
  intro hlt
  exact hm.2 y hy (hord y hy x hm.1 hlt)

theorem sumBy_bar1W_all {ws : List WState} (h : sumBy bar1W ws = ws.length) : ∀ v ∈ ws, v = .bar 1 := by
  induction ws with
  | nil => simp
  | cons a l ih =>
    have hl : sumBy bar1W l ≤ l.length := sumBy_le_length (fun x _ => by simp [bar1W]; split <;> omega)
    simp at h
    have ha : bar1W a ≤ 1 := by simp [bar1W]; split <;> omega
    intro v hv
    rcases List.mem_cons.mp hv with hv | hv
    · subst hv
      have : bar1W v = 1 := by omega
      simp [bar1W] at this; exact this
    · exact ih (by omega) v hv

theorem items_sorted_tail {i : Instr} {p : List Instr} (h : (items (i :: p)).Pairwise (fun a b => a.rd ≤ b.rd)) :
    (items p).Pairwise (fun a b => a.rd ≤ b.rd) := by
  cases i with
  | push y => simp at h; exact h.2
  | waitEmpty => exact h
  | close => exact h

theorem modeB_weights {ws : List WState} (h : ModeB ws) (c : Nat) : sumBy bar1W ws = 0 ∧ sumBy (workW c) ws = 0 := by
  obtain ⟨j, h1, h3, hall⟩ := h
  constructor
  · apply sumBy_zero; intro v hv
    rcases hall v hv with h | h <;> subst h <;> simp [bar1W]; omega
  · apply sumBy_zero; intro v hv
    rcases hall v hv with h | h <;> subst h <;> simp [workW]


/-! ### the C04 invariant is inductive -/

theorem inv4_step {fx : Bool} {prog0 : List Instr} {N : Nat} {s s' : State} {e : Event}
    (hN : 1 ≤ N) (hok : RdOk N prog0)
    (h5 : Inv5 fx prog0 N s) (h4 : Inv4 prog0 N s) (h : StepI fx s e s') : Inv4 prog0 N s' := by
  obtain ⟨hsub, hsort, hqp, hsepQ, hsepP, hqord, hlow, hlowT, hbufA, hE, hT, hfut, hdone, hrle⟩ := h4
  cases h with
  | push hp hg =>
    rename_i x p
    have hsort' : (items p).Pairwise (fun a b => a.rd ≤ b.rd) := by rw [hp] at hsort; exact items_sorted_tail hsort
    have hxp : ∀ y ∈ items p, x.rd ≤ y.rd := by
      rw [hp] at hsort; simp at hsort; exact hsort.1
    refine ⟨?_, hsort', ?_, ?_, ?_, ?_, ?_, ?_, hbufA, ?_, ?_, ?_, hdone, hrle⟩
    · intro y hy; apply hsub; simp [hp] at hy ⊢
      rcases hy with (hy | hy) | hy <;> simp [hy]
    · intro q hq y hy; simp at hq
      rcases hq with hq | hq
      · exact hqp q hq y (by simp [hp, hy])
      · subst hq; exact hxp y hy
    · intro y hy; simp at hy
      rcases hy with hy | hy
      · have := hsepQ y hy; rw [hp] at this; exact this.2
      · subst hy; rw [hp] at hsepP; exact hsepP.1
    · rw [hp] at hsepP; exact hsepP.2
    · intro a ha b hb hab; simp at ha hb
      rcases ha with ha | ha <;> rcases hb with hb | hb
      · exact hqord a ha b hb hab
      · subst hb; have := hsepQ a ha; rw [hp] at this; exact this.1 hab
      · subst ha; have := hqp b hb a (by simp [hp]); omega
      · subst ha; subst hb; omega
    · intro y hy; apply hlow; simp [hp] at hy ⊢
      rcases hy with (hy | hy) | hy <;> simp [hy]
    · intro hb y hy; apply hlowT hb; simp [hp] at hy ⊢
      rcases hy with (hy | hy) | hy <;> simp [hy]
    · intro c; have := hE c; simp [hp] at this ⊢; omega
    · simp [hp] at hT ⊢; omega
    · intro f hf; have := hfut f hf; simp [hp] at this ⊢; omega
  | waitEmpty hp hq =>
    rename_i p
    have hit : items s.prog = items p := by simp [hp]
    refine ⟨?_, ?_, ?_, ?_, ?_, hqord, ?_, ?_, hbufA, ?_, ?_, ?_, hdone, hrle⟩
    · intro y hy; apply hsub; simpa [hit] using hy
    · simpa [hit] using hsort
    · simpa [hit] using hqp
    · intro y hy; simp [hq] at hy
    · rw [hp] at hsepP; exact hsepP
    · intro y hy; apply hlow; simpa [hit] using hy
    · intro hb y hy; apply hlowT hb; simpa [hit] using hy
    · intro c; have := hE c; simpa [hit] using this
    · simpa [hit] using hT
    · intro f hf; have := hfut f hf; simpa [hit] using this
  | close hp =>
    rename_i p
    have hit : items s.prog = items p := by simp [hp]
    refine ⟨?_, ?_, ?_, ?_, ?_, hqord, ?_, ?_, hbufA, ?_, ?_, ?_, hdone, hrle⟩
    · intro y hy; apply hsub; simpa [hit] using hy
    · simpa [hit] using hsort
    · simpa [hit] using hqp
    · intro y hy; have := hsepQ y hy; rw [hp] at this; exact this
    · rw [hp] at hsepP; exact hsepP
    · intro y hy; apply hlow; simpa [hit] using hy
    · intro hb y hy; apply hlowT hb; simpa [hit] using hy
    · intro c; have := hE c; simpa [hit] using this
    · simpa [hit] using hT
    · intro f hf; have := hfut f hf; simpa [hit] using this
  | pull hw hm =>
    rename_i w x
    have hidle : WState.idle ∈ s.workers := mem_of_getElem? hw
    have hA : ModeA s.workers := by
      rcases h5.shape with h | h
      · exact h
      · exact absurd rfl (modeB_not_mem h hidle).1
    have hmin := pull_min_rd_aux hqord hm
    have hxlow := hlow x (Or.inl hm.1)
    have hx0 : x ∈ items prog0 := hsub x (Or.inl hm.1)
    have hxhi : x.rd ≤ 2 * s.batches.length + 1 := by
      apply Nat.le_of_not_lt
      intro hgt
      have hz1 : sumBy (tokRW s.batches.length) s.queue = 0 := sumBy_zero _ _ (fun y hy => by
        have := hmin y hy; simp [tokRW]; omega)
      have hz2 : sumBy (tokRW s.batches.length) (items s.prog) = 0 := sumBy_zero _ _ (fun y hy => by
        have := hqp x hm.1 y hy; simp [tokRW]; omega)
      have hb := hok.bound x hx0
      have hr := hok.runs s.batches.length
      rw [if_pos (by omega)] at hr
      rw [hz1, hz2, hr] at hT
      have hall := sumBy_bar1W_all (by rw [h5.len]; omega : sumBy bar1W s.workers = s.workers.length)
      have := hall _ hidle
      simp at this
    have hmemE : ∀ y, y ∈ s.queue.erase x → y ∈ s.queue := fun y hy => List.mem_of_mem_erase hy
    have hfx : ∀ f : Item → Nat, sumBy f (s.queue.erase x) + f x = sumBy f s.queue := fun f => sumBy_erase f s.queue x hm.1
    have hpar := hok.parity x hx0
    by_cases hrd : x.rd = 2 * s.batches.length
    · -- a contig of the current round
      have hxt : x.isTok = false := by
        cases hx : x.isTok with
        | false => rfl
        | true => have := hpar.mp hx; omega
      have hb1 := sumBy_set bar1W s.workers w .idle (.working x.seq) hw
      simp [bar1W] at hb1
      refine ⟨?_, hsort, ?_, ?_, hsepP, ?_, ?_, ?_, Or.inr ?_, ?_, ?_, ?_, hdone, hrle⟩
      · intro y hy; apply hsub; rcases hy with hy | hy
        · exact Or.inl (hmemE y hy)
        · exact Or.inr hy
      · intro q hq; exact hqp q (hmemE q hq)
      · intro y hy; exact hsepQ y (hmemE y hy)
      · intro a ha b hb; exact hqord a (hmemE a ha) b (hmemE b hb)
      · intro y hy; apply hlow; rcases hy with hy | hy
        · exact Or.inl (hmemE y hy)
        · exact Or.inr hy
      · simp only [hxt]
        intro hb y hy
        have hb' : 0 < sumBy bar1W s.workers := by simp at hb; omega
        apply hlowT hb'; rcases hy with hy | hy
        · exact Or.inl (hmemE y hy)
        · exact Or.inr hy
      · simp only [hxt]; exact modeA_set hA (by simp)
      · intro c
        have h0 := hE c
        have h1 := hfx (ctgRW s.batches.length c)
        have h2 := sumBy_set (workW c) s.workers w .idle (.working x.seq) hw
        by_cases hc : x.seq = c <;> simp [hxt, hc, hrd, ctgRW, workW] at h0 h1 h2 ⊢ <;> omega
      · have h1 := hfx (tokRW s.batches.length)
        simp [hxt, hrd, tokRW] at h1 hT ⊢
        omega
      · intro f hf
        have h0 := hfut f hf
        have h1 := hfx f
        have : f x = 0 := hf x (by show x.rd < 2 * s.batches.length + 2; omega)
        simp at h0 ⊢; omega
    · -- a token of the current round
      have hrd1 : x.rd = 2 * s.batches.length + 1 := by omega
      have hxt : x.isTok = true := hpar.mpr (by omega)
      have hb1 := sumBy_set bar1W s.workers w .idle (.bar 1) hw
      simp [bar1W] at hb1
      refine ⟨?_, hsort, ?_, ?_, hsepP, ?_, ?_, ?_, Or.inr ?_, ?_, ?_, ?_, hdone, hrle⟩
      · intro y hy; apply hsub; rcases hy with hy | hy
        · exact Or.inl (hmemE y hy)
        · exact Or.inr hy
      · intro q hq; exact hqp q (hmemE q hq)
      · intro y hy; exact hsepQ y (hmemE y hy)
      · intro a ha b hb; exact hqord a (hmemE a ha) b (hmemE b hb)
      · intro y hy; apply hlow; rcases hy with hy | hy
        · exact Or.inl (hmemE y hy)
        · exact Or.inr hy
      · intro _ y hy
        rcases hy with hy | hy
        · have := hmin y (hmemE y hy); simp at this ⊢; omega
        · have := hqp x hm.1 y hy; simp at this ⊢; omega
      · simp only [hxt]; exact modeA_set hA (by simp)
      · intro c
        have h0 := hE c
        have h1 := hfx (ctgRW s.batches.length c)
        have h2 := sumBy_set (workW c) s.workers w .idle (.bar 1) hw
        simp [hxt, hrd1, ctgRW, workW] at h0 h1 h2 ⊢; omega
      · have h1 := hfx (tokRW s.batches.length)
        simp [hxt, hrd1, tokRW] at h1 hT ⊢
        omega
      · intro f hf
        have h0 := hfut f hf
        have h1 := hfx f
        have : f x = 0 := hf x (by show x.rd < 2 * s.batches.length + 2; omega)
        simp at h0 ⊢; omega
  | exit hw hc hq =>
    rename_i w
    have hidle : WState.idle ∈ s.workers := mem_of_getElem? hw
    have hA : ModeA s.workers := by
      rcases h5.shape with h | h
      · exact h
      · exact absurd rfl (modeB_not_mem h hidle).1
    have hb1 := sumBy_set bar1W s.workers w .idle .exited hw
    simp [bar1W] at hb1
    refine ⟨hsub, hsort, hqp, hsepQ, hsepP, hqord, hlow, ?_, Or.inr (modeA_set hA (by simp)), ?_, ?_, hfut, hdone, hrle⟩
    · intro hb; apply hlowT; simp at hb; omega
    · intro c
      have h0 := hE c
      have h2 := sumBy_set (workW c) s.workers w .idle .exited hw
      simp [workW] at h0 h2 ⊢; omega
    · simp at hT ⊢; omega
  | buffer hw =>
    rename_i w c
    have hwk : WState.working c ∈ s.workers := mem_of_getElem? hw
    have hA : ModeA s.workers := by
      rcases h5.shape with h | h
      · exact h
      · exact absurd rfl ((modeB_not_mem h hwk).2.1 c)
    have hb1 := sumBy_set bar1W s.workers w (.working c) .idle hw
    simp [bar1W] at hb1
    refine ⟨hsub, hsort, hqp, hsepQ, hsepP, hqord, hlow, ?_, Or.inr (modeA_set hA (by simp)), ?_, ?_, hfut, hdone, hrle⟩
    · intro hb; apply hlowT; simp at hb; omega
    · intro d
      have h0 := hE d
      have h2 := sumBy_set (workW d) s.workers w (.working c) .idle hw
      by_cases hd : c = d
      · subst hd; simp [workW, List.count_append] at h0 h2 ⊢; omega
      · simp [workW, hd, List.count_append] at h0 h2 ⊢; omega
    · simp at hT ⊢; omega
  | release1 hne hall =>
    have hb1 := sumBy_const bar1W s.workers (.bar 1) hall
    simp [bar1W] at hb1
    have hpos : 0 < sumBy bar1W s.workers := by rw [hb1, h5.len]; omega
    have hlow1 := hlowT hpos
    have hr := hok.runs s.batches.length
    have hrlt : s.batches.length < rounds prog0 := by
      apply Nat.lt_of_not_le; intro hge
      rw [if_neg (by omega)] at hr
      rw [hr] at hT; omega
    rw [if_pos hrlt] at hr
    rw [hr, hb1, h5.len] at hT
    have hz1 := sumBy_eq_zero (by omega : sumBy (tokRW s.batches.length) s.queue = 0)
    have hz2 := sumBy_eq_zero (by omega : sumBy (tokRW s.batches.length) (items s.prog) = 0)
    have hlow2 : ∀ x, x ∈ s.queue ∨ x ∈ items s.prog → 2 * (s.batches.length + 1) ≤ x.rd := by
      intro x hx
      have h1 := hlow1 x hx
      have h2 : tokRW s.batches.length x = 0 := by
        rcases hx with hx | hx
        · exact hz1 x hx
        · exact hz2 x hx
      simp [tokRW] at h2; omega
    have hmapb : sumBy bar1W (s.workers.map (fun _ => WState.ph 1)) = 0 := by
      rw [sumBy_map_const]; simp [bar1W]
    refine ⟨hsub, hsort, hqp, hsepQ, hsepP, hqord, ?_, ?_, Or.inl rfl, ?_, ?_, ?_, ?_, ?_⟩
    · simpa using hlow2
    · intro hb; simp only [hmapb] at hb; omega
    · intro c
      have hmapw : sumBy (workW c) (s.workers.map (fun _ => WState.ph 1)) = 0 := by
        rw [sumBy_map_const]; simp [workW]
      have := hfut (ctgRW (s.batches.length + 1) c) (fun x hx => by simp [ctgRW]; omega)
      simp [hmapw] at this ⊢; exact this
    · have := hfut (tokRW (s.batches.length + 1)) (fun x hx => by simp [tokRW]; omega)
      simp [hmapb] at this ⊢; exact this
    · intro f hf
      simp at hf ⊢
      exact hfut f (fun x hx => hf x (by omega))
    · intro i hi c
      simp at hi
      by_cases hlt : i < s.batches.length
      · rw [List.getElem_append_left hlt]; exact hdone i hlt c
      · have hieq : i = s.batches.length := by omega
        subst hieq
        rw [List.getElem_append_right (by omega)]
        simp
        have h0 := hE c
        have hw0 : sumBy (workW c) s.workers = 0 := by
          rw [sumBy_const (workW c) s.workers (.bar 1) hall]; simp [workW]
        have hq0 : sumBy (ctgRW s.batches.length c) s.queue = 0 := sumBy_zero _ _ (fun x hx => by
          have := hlow1 x (Or.inl hx); simp [ctgRW]; omega)
        have hp0 : sumBy (ctgRW s.batches.length c) (items s.prog) = 0 := sumBy_zero _ _ (fun x hx => by
          have := hlow1 x (Or.inr hx); simp [ctgRW]; omega)
        omega
    · simp; omega
  | release h2 h4 hne hall =>
    rename_i j
    have hj1 : ¬ j = 1 := by omega
    have hb1 := sumBy_const bar1W s.workers (.bar j) hall
    have hb2 := sumBy_map_const bar1W s.workers (.ph j)
    simp [bar1W, hj1] at hb1 hb2
    obtain ⟨v0, hv0⟩ := List.exists_mem_of_ne_nil _ hne
    have hbuf : s.buffered = [] := by
      rcases hbufA with h | h
      · exact h
      · have := h v0 hv0; rw [hall v0 hv0] at this; simp at this; omega
    refine ⟨hsub, hsort, hqp, hsepQ, hsepP, hqord, hlow, ?_, Or.inl hbuf, ?_, ?_, hfut, hdone, hrle⟩
    · intro hb; simp only [hb2] at hb; omega
    · intro c
      have h0 := hE c
      have hw1 := sumBy_const (workW c) s.workers (.bar j) hall
      have hw2 := sumBy_map_const (workW c) s.workers (.ph j)
      simp [workW] at hw1 hw2
      simp only [hw2]; rw [hw1] at h0; omega
    · simp only [hb2]; rw [hb1] at hT; omega
  | advance hw h1 h4' =>
    rename_i w j
    have hph : WState.ph j ∈ s.workers := mem_of_getElem? hw
    have hbuf : s.buffered = [] := by
      rcases hbufA with h | h
      · exact h
      · have := h _ hph; simp at this; omega
    have hb1 := sumBy_set bar1W s.workers w (.ph j) (.bar (j+1)) hw
    have : ¬ j = 0 := by omega
    simp [bar1W, this] at hb1
    refine ⟨hsub, hsort, hqp, hsepQ, hsepP, hqord, hlow, ?_, Or.inl hbuf, ?_, ?_, hfut, hdone, hrle⟩
    · intro hb; apply hlowT; simp at hb; omega
    · intro c
      have h0 := hE c
      have h2 := sumBy_set (workW c) s.workers w (.ph j) (.bar (j+1)) hw
      simp [workW] at h0 h2 ⊢; omega
    · simp at hT ⊢; omega
  | advance4 hw =>
    rename_i w
    have hph : WState.ph 4 ∈ s.workers := mem_of_getElem? hw
    have hA : ModeA s.workers := by
      rcases h5.shape with h | h
      · exact h
      · exact absurd rfl (modeB_not_mem h hph).2.2.1
    have hb1 := sumBy_set bar1W s.workers w (.ph 4) .idle hw
    simp [bar1W] at hb1
    refine ⟨hsub, hsort, hqp, hsepQ, hsepP, hqord, hlow, ?_, Or.inr (modeA_set hA (by simp)), ?_, ?_, hfut, hdone, hrle⟩
    · intro hb; apply hlowT; simp at hb; omega
    · intro c
      have h0 := hE c
      have h2 := sumBy_set (workW c) s.workers w (.ph 4) .idle hw
      simp [workW] at h0 h2 ⊢; omega
    · simp at hT ⊢; omega


/-! ### initial state, reachability and final states (C04) -/

theorem inv4_init {prog : List Instr} {N cap : Nat} (hsep : PrioSep prog) (hok : RdOk N prog) :
    Inv4 prog N (init prog cap N) := by
  have hb : sumBy bar1W (List.replicate N WState.idle) = 0 := sumBy_zero _ _ (fun x hx => by
    simp at hx; simp [hx.2, bar1W])
  refine ⟨?_, hok.sorted, ?_, ?_, hsep, ?_, ?_, ?_, Or.inl rfl, ?_, ?_, ?_, ?_, ?_⟩
  · intro x hx; simpa [init] using hx
  · intro q hq; simp [init] at hq
  · intro q hq; simp [init] at hq
  · intro q hq; simp [init] at hq
  · intro x _; simp [init]
  · intro h; simp [init, hb] at h
  · intro c
    have : sumBy (workW c) (List.replicate N WState.idle) = 0 := sumBy_zero _ _ (fun x hx => by
      simp at hx; simp [hx.2, workW])
    simp [init, this]
  · simp [init, hb]
  · intro f _; simp [init]
  · intro i hi; simp [init] at hi
  · simp [init]

theorem inv45_reachable {fx : Bool} {prog : List Instr} {N cap : Nat} {s : State}
    (hwf : WellFormedShape N prog) (hsz : fx = false → ∀ x ∈ items prog, x.size ≤ cap)
    (hsep : PrioSep prog) (hok : RdOk N prog)
    (hr : Reachable fx prog cap N s) : Inv5 fx prog N s ∧ Inv4 prog N s := by
  induction hr with
  | init => exact ⟨inv5_init hwf hsz, inv4_init hsep hok⟩
  | step _ hs ih =>
    obtain ⟨e, he⟩ := hs
    have hI := stepI_of_step? he
    exact ⟨inv5_step ih.1 hI, inv4_step hwf.npos hok ih.1 ih.2 hI⟩

theorem sumBy_ctgRW {l : List Item} (hpar : ∀ x ∈ l, (x.isTok = true ↔ x.rd % 2 = 1)) (r c : Nat) :
    sumBy (ctgRW r c) l = ((l.filter (fun x => !x.isTok && x.rd == 2 * r)).map Item.seq).count c := by
  induction l with
  | nil => rfl
  | cons a l ih =>
    have iha := ih (fun x hx => hpar x (by simp [hx]))
    have hpa := hpar a (by simp)
    simp only [sumBy_cons, iha, ctgRW, List.filter_cons]
    by_cases hrd : a.rd = 2 * r
    · have hat : a.isTok = false := by
        cases h : a.isTok with
        | false => rfl
        | true => have := hpa.mp h; omega
      by_cases hc : a.seq = c <;> simp [hrd, hat, hc, List.count_cons] <;> omega
    · simp [hrd]

theorem inv45_final {fx : Bool} {prog : List Instr} {N : Nat} {s : State} (hN : 1 ≤ N) (hok : RdOk N prog)
    (h5 : Inv5 fx prog N s) (h4 : Inv4 prog N s) (hf : Final s) :
    s.buffered = [] ∧ s.batches.length = rounds prog ∧
      ∀ r (h : r < s.batches.length), (s.batches[r]).Perm (roundContigs prog r) := by
  obtain ⟨hp, hq, hw⟩ := hf
  have hz1 : sumBy bar1W s.workers = 0 := sumBy_zero _ _ (fun v hv => by simp [hw v hv, bar1W])
  have hlen : s.batches.length = rounds prog := by
    apply Nat.le_antisymm h4.rle
    apply Nat.le_of_not_lt; intro hlt
    have hT := h4.accT
    rw [hok.runs, if_pos hlt, hz1, hp, hq] at hT
    simp at hT; omega
  refine ⟨?_, hlen, ?_⟩
  · -- nothing was buffered after the last round
    apply List.eq_nil_iff_forall_not_mem.mpr
    intro c hc
    have hE := h4.accE c
    have hz : sumBy (ctgRW s.batches.length c) (items prog) = 0 := sumBy_zero _ _ (fun x hx => by
      have := hok.bound x hx; simp [ctgRW]; omega)
    rw [hz] at hE
    have : 0 < s.buffered.count c := List.count_pos_iff.mpr hc
    omega
  · intro r hr
    rw [List.perm_iff_count]
    intro c
    rw [h4.done r hr c, roundContigs, sumBy_ctgRW hok.parity]


/-! ### Scan: a local criterion for generated programs -/

/-- scanning state: round `r`, `k` tokens of the current run seen, `d` = a contig was pushed in the
current round, `hi` = upper bound for the priority of the next item -/
structure SS where
  r : Nat
  k : Nat
  d : Bool
  hi : Int

/-- A sufficient local criterion for everything C04/C05 need from a program body: within a stretch
without `waitEmpty` priorities never increase, drop strictly after a complete token run, contigs
have cost `≥ 1`, round indices follow the token runs. -/
inductive Scan (N : Nat) : SS → List Instr → SS → Prop where
  | nil (st : SS) : Scan N st [] st
  | contig {r : Nat} {d : Bool} {hi : Int} {x : Item} {rest : List Instr} {st' : SS} :
      x.isTok = false → x.rd = 2 * r → 1 ≤ x.cost → x.prio ≤ hi →
      Scan N ⟨r, 0, true, x.prio⟩ rest st' → Scan N ⟨r, 0, d, hi⟩ (.push x :: rest) st'
  | token {r k : Nat} {d : Bool} {hi : Int} {x : Item} {rest : List Instr} {st' : SS} :
      x.isTok = true → x.rd = 2 * r + 1 → x.prio ≤ hi → k + 1 < N →
      Scan N ⟨r, k + 1, d, x.prio⟩ rest st' → Scan N ⟨r, k, d, hi⟩ (.push x :: rest) st'
  | tokenLast {r k : Nat} {d : Bool} {hi : Int} {x : Item} {rest : List Instr} {st' : SS} :
      x.isTok = true → x.rd = 2 * r + 1 → x.prio ≤ hi → k + 1 = N →
      Scan N ⟨r + 1, 0, false, x.prio - 1⟩ rest st' → Scan N ⟨r, k, d, hi⟩ (.push x :: rest) st'
  | wait {r : Nat} {d : Bool} {hi hi' : Int} {rest : List Instr} {st' : SS} :
      Scan N ⟨r, 0, d, hi'⟩ rest st' → Scan N ⟨r, 0, d, hi⟩ (.waitEmpty :: rest) st'

theorem scan_append {N : Nat} {st st1 st2 : SS} {l1 l2 : List Instr}
    (h1 : Scan N st l1 st1) (h2 : Scan N st1 l2 st2) : Scan N st (l1 ++ l2) st2 := by
  induction h1 with
  | nil st => simpa using h2
  | contig a b c d _ ih => exact .contig a b c d (ih h2)
  | token a b c d _ ih => exact .token a b c d (ih h2)
  | tokenLast a b c d _ ih => exact .tokenLast a b c d (ih h2)
  | wait _ ih => exact .wait (ih h2)

theorem scan_no_close {N : Nat} {st st' : SS} {l : List Instr} (h : Scan N st l st') : Instr.close ∉ l := by
  induction h with
  | nil st => simp
  | contig _ _ _ _ _ ih => simp [ih]
  | token _ _ _ _ _ ih => simp [ih]
  | tokenLast _ _ _ _ _ ih => simp [ih]
  | wait _ ih => simp [ih]

theorem scan_tokRuns {N : Nat} {st st' : SS} {l : List Instr} (h : Scan N st l st') (hk : st'.k = 0) :
    TokRuns N st.k l := by
  induction h with
  | nil st => rw [hk]; exact .nil
  | contig a _ _ _ _ ih => exact .contig a (ih hk)
  | token a _ _ d _ ih => exact .token a d (ih hk)
  | tokenLast a _ _ d _ ih => exact .tokenLast a d (ih hk)
  | wait _ ih => exact .wait (ih hk)

/-! PrioSep from Scan -/

def Dom (x : Item) (st : SS) : Prop :=
  st.hi ≤ x.prio ∧ (x.rd < 2 * st.r → st.hi < x.prio) ∧ x.rd ≤ 2 * st.r + 1 ∧
    (x.rd % 2 = 0 → 1 ≤ x.cost)

theorem tok_cost {x : Item} (h : x.isTok = true) : x.cost = 0 := by
  cases x <;> simp [Item.isTok] at h ⊢ <;> rfl

theorem scan_sepFrom {N : Nat} {st st' : SS} {l : List Instr} (h : Scan N st l st') (x : Item)
    (hd : Dom x st) : sepFrom x l := by
  induction h with
  | nil st => trivial
  | @contig r d hi y rest st' ht hrd hc hp _ ih =>
    obtain ⟨h1, h2, h3, h4⟩ := hd
    simp at h1 h2 h3
    refine ⟨fun hlt => ?_, ih ⟨?_, ?_, ?_, h4⟩⟩
    · left; have := h2 (by omega); omega
    · simp; omega
    · simp; intro hlt; have := h2 hlt; omega
    · simpa using h3
  | @token r k d hi y rest st' ht hrd hp hk _ ih =>
    obtain ⟨h1, h2, h3, h4⟩ := hd
    simp at h1 h2 h3
    refine ⟨fun hlt => ?_, ih ⟨?_, ?_, ?_, h4⟩⟩
    · by_cases hs : x.rd < 2 * r
      · left; have := h2 hs; omega
      · have hx : x.rd = 2 * r := by omega
        have hc := h4 (by omega)
        unfold taskLt
        rw [tok_cost ht]
        omega
    · simp; omega
    · simp; intro hlt; have := h2 hlt; omega
    · simpa using h3
  | @tokenLast r k d hi y rest st' ht hrd hp hk _ ih =>
    obtain ⟨h1, h2, h3, h4⟩ := hd
    simp at h1 h2 h3
    refine ⟨fun hlt => ?_, ih ⟨?_, ?_, ?_, h4⟩⟩
    · by_cases hs : x.rd < 2 * r
      · left; have := h2 hs; omega
      · have hx : x.rd = 2 * r := by omega
        have hc := h4 (by omega)
        unfold taskLt
        rw [tok_cost ht]
        omega
    · simp; omega
    · simp; intro _; omega
    · simp; omega
  | wait _ _ => trivial

theorem scan_prioSep {N : Nat} {st st' : SS} {l : List Instr} (h : Scan N st l st') : PrioSep l := by
  induction h with
  | nil st => trivial
  | @contig r d hi y rest st' ht hrd hc hp hs ih =>
    exact ⟨scan_sepFrom hs y ⟨by simp, by simp; omega, by simp; omega, fun _ => hc⟩, ih⟩
  | @token r k d hi y rest st' ht hrd hp hk hs ih =>
    exact ⟨scan_sepFrom hs y ⟨by simp, by simp; omega, by simp; omega, fun h => by omega⟩, ih⟩
  | @tokenLast r k d hi y rest st' ht hrd hp hk hs ih =>
    exact ⟨scan_sepFrom hs y ⟨by simp; omega, by simp; omega, by simp; omega, fun h => by omega⟩, ih⟩
  | wait _ ih => exact ih

theorem prioSep_append_close {l : List Instr} (h : PrioSep l) : PrioSep (l ++ [.close]) := by
  have hs : ∀ (x : Item) (l : List Instr), sepFrom x l → sepFrom x (l ++ [.close]) := by
    intro x l
    induction l with
    | nil => intro _; trivial
    | cons i l ih =>
      intro h
      cases i with
      | push y => exact ⟨h.1, ih h.2⟩
      | waitEmpty => trivial
      | close => exact ih h
  induction l with
  | nil => trivial
  | cons i l ih =>
    cases i with
    | push y => exact ⟨hs y l h.1, ih h.2⟩
    | waitEmpty => exact ih h
    | close => exact ih h


/-! ### Scan gives the round annotations (RdOk) and the shape -/

def lb (st : SS) : Nat := 2 * st.r + (if st.k = 0 then 0 else 1)
def level (st : SS) : Nat := 3 * st.r + (if st.k = 0 then (if st.d then 1 else 0) else 2)
def lvl (x : Item) : Nat := 3 * (x.rd / 2) + 1 + x.rd % 2
def seen (N : Nat) (st : SS) (ρ : Nat) : Nat := if ρ < st.r then N else if ρ = st.r then st.k else 0

theorem scan_lb {N : Nat} {st st' : SS} {l : List Instr} (h : Scan N st l st') :
    ∀ x ∈ items l, lb st ≤ x.rd := by
  induction h with
  | nil st => simp
  | contig _ hrd _ _ _ ih =>
    intro x hx; simp at hx; rcases hx with hx | hx
    · subst hx; simp [lb]; omega
    · have := ih x hx; simp [lb] at this ⊢; omega
  | token _ hrd _ _ _ ih =>
    intro x hx; simp at hx; rcases hx with hx | hx
    · subst hx; simp [lb]; split <;> omega
    · have := ih x hx; simp [lb] at this ⊢; split <;> omega
  | tokenLast _ hrd _ _ _ ih =>
    intro x hx; simp at hx; rcases hx with hx | hx
    · subst hx; simp [lb]; split <;> omega
    · have := ih x hx; simp [lb] at this ⊢; split <;> omega
  | wait _ ih => intro x hx; simp at hx; have := ih x hx; simpa [lb] using this

theorem scan_sorted {N : Nat} {st st' : SS} {l : List Instr} (h : Scan N st l st') :
    (items l).Pairwise (fun a b => a.rd ≤ b.rd) := by
  induction h with
  | nil st => simp
  | contig _ hrd _ _ hs ih =>
    simp; refine ⟨fun y hy => ?_, ih⟩
    have := scan_lb hs y hy; simp [lb] at this; omega
  | token _ hrd _ _ hs ih =>
    simp; refine ⟨fun y hy => ?_, ih⟩
    have := scan_lb hs y hy; simp [lb] at this; omega
  | tokenLast _ hrd _ _ hs ih =>
    simp; refine ⟨fun y hy => ?_, ih⟩
    have := scan_lb hs y hy; simp [lb] at this; omega
  | wait _ ih => simpa using ih

theorem scan_parity {N : Nat} {st st' : SS} {l : List Instr} (h : Scan N st l st') :
    ∀ x ∈ items l, (x.isTok = true ↔ x.rd % 2 = 1) := by
  induction h with
  | nil st => simp
  | contig ht hrd _ _ _ ih =>
    intro x hx; simp at hx; rcases hx with hx | hx
    · subst hx; simp [ht]; omega
    · exact ih x hx
  | token ht hrd _ _ _ ih =>
    intro x hx; simp at hx; rcases hx with hx | hx
    · subst hx; simp [ht]; omega
    · exact ih x hx
  | tokenLast ht hrd _ _ _ ih =>
    intro x hx; simp at hx; rcases hx with hx | hx
    · subst hx; simp [ht]; omega
    · exact ih x hx
  | wait _ ih => intro x hx; simp at hx; exact ih x hx

theorem level_c (r : Nat) (p : Int) : level ⟨r, 0, true, p⟩ = 3 * r + 1 := by simp [level]
theorem level_t (r k : Nat) (d : Bool) (p : Int) : level ⟨r, k + 1, d, p⟩ = 3 * r + 2 := by simp [level]
theorem level_n (r : Nat) (p : Int) : level ⟨r + 1, 0, false, p⟩ = 3 * r + 3 := by simp [level]; omega
theorem level_le0 (r : Nat) (d : Bool) (p : Int) : level ⟨r, 0, d, p⟩ ≤ 3 * r + 1 := by
  simp [level]; split <;> omega
theorem level_le (r k : Nat) (d : Bool) (p : Int) : level ⟨r, k, d, p⟩ ≤ 3 * r + 2 := by
  simp [level]; split <;> (try split) <;> omega

theorem scan_level_mono {N : Nat} {st st' : SS} {l : List Instr} (h : Scan N st l st') : level st ≤ level st' := by
  induction h with
  | nil st => exact Nat.le_refl _
  | @contig r d hi x rest st' _ _ _ _ _ ih => have := level_le0 r d hi; rw [level_c] at ih; omega
  | @token r k d hi x rest st' _ _ _ _ _ ih => have := level_le r k d hi; rw [level_t] at ih; omega
  | @tokenLast r k d hi x rest st' _ _ _ _ _ ih => have := level_le r k d hi; rw [level_n] at ih; omega
  | @wait r d hi hi' rest st' _ ih =>
    have : level ⟨r, 0, d, hi⟩ = level ⟨r, 0, d, hi'⟩ := by simp [level]
    omega

theorem scan_lvl {N : Nat} {st st' : SS} {l : List Instr} (h : Scan N st l st') :
    ∀ x ∈ items l, lvl x ≤ level st' := by
  induction h with
  | nil st => simp
  | contig _ hrd _ _ hs ih =>
    intro x hx; simp at hx; rcases hx with hx | hx
    · subst hx; have := scan_level_mono hs; rw [level_c] at this; simp [lvl, hrd]; omega
    · exact ih x hx
  | token _ hrd _ _ hs ih =>
    intro x hx; simp at hx; rcases hx with hx | hx
    · subst hx; have := scan_level_mono hs; rw [level_t] at this; simp [lvl, hrd]; omega
    · exact ih x hx
  | tokenLast _ hrd _ _ hs ih =>
    intro x hx; simp at hx; rcases hx with hx | hx
    · subst hx; have := scan_level_mono hs; rw [level_n] at this; simp [lvl, hrd]; omega
    · exact ih x hx
  | wait _ ih => intro x hx; simp at hx; exact ih x hx

theorem seen_tok (N r k ρ : Nat) (d : Bool) (p q : Int) :
    seen N ⟨r, k, d, p⟩ ρ + (if ρ = r then 1 else 0) = seen N ⟨r, k + 1, d, q⟩ ρ := by
  unfold seen
  by_cases h1 : ρ < r
  · have : ¬ ρ = r := by omega
    simp [h1, this]
  · by_cases h2 : ρ = r
    · simp [h2]
    · simp [h1, h2]

theorem seen_tokLast (N r k ρ : Nat) (d : Bool) (p q : Int) (hk : k + 1 = N) :
    seen N ⟨r, k, d, p⟩ ρ + (if ρ = r then 1 else 0) = seen N ⟨r + 1, 0, false, q⟩ ρ := by
  unfold seen
  by_cases h1 : ρ < r
  · have : ¬ ρ = r := by omega
    have : ρ < r + 1 := by omega
    simp [h1, *]
  · by_cases h2 : ρ = r
    · subst h2; simp; omega
    · have : ¬ ρ < r + 1 := by omega
      simp [h1, h2, this]

theorem scan_counts {N : Nat} {st st' : SS} {l : List Instr} (h : Scan N st l st') (ρ : Nat) :
    seen N st ρ + sumBy (tokRW ρ) (items l) = seen N st' ρ := by
  induction h with
  | nil st => simp
  | @contig r d hi x rest st' _ hrd _ _ _ ih =>
    have e : tokRW ρ x = 0 := by simp [tokRW, hrd]; omega
    have e2 : seen N ⟨r, 0, d, hi⟩ ρ = seen N ⟨r, 0, true, x.prio⟩ ρ := rfl
    simp only [items_push, sumBy_cons]; omega
  | @token r k d hi x rest st' _ hrd _ hk _ ih =>
    have e : tokRW ρ x = if ρ = r then 1 else 0 := by
      simp only [tokRW, hrd]
      by_cases h : ρ = r
      · simp [h]
      · simp [h]; omega
    have e2 := seen_tok N r k ρ d hi x.prio
    simp only [items_push, sumBy_cons]; omega
  | @tokenLast r k d hi x rest st' _ hrd _ hk _ ih =>
    have e : tokRW ρ x = if ρ = r then 1 else 0 := by
      simp only [tokRW, hrd]
      by_cases h : ρ = r
      · simp [h]
      · simp [h]; omega
    have e2 := seen_tokLast N r k ρ d hi (x.prio - 1) hk
    simp only [items_push, sumBy_cons]; omega
  | @wait r d hi hi' rest st' _ ih =>
    have e2 : seen N ⟨r, 0, d, hi⟩ ρ = seen N ⟨r, 0, d, hi'⟩ ρ := rfl
    simp only [items_wait]; omega

theorem maxRd_cons (a : Item) (l : List Item) : maxRd (a :: l) = max a.rd (maxRd l) := rfl

theorem maxRd_ge {l : List Item} {x : Item} (h : x ∈ l) : x.rd ≤ maxRd l := by
  induction l with
  | nil => simp at h
  | cons a l ih =>
    rw [maxRd_cons]
    rcases List.mem_cons.mp h with h | h
    · subst h; omega
    · have := ih h; omega

theorem maxRd_le {l : List Item} {b : Nat} (h : ∀ x ∈ l, x.rd ≤ b) : maxRd l ≤ b := by
  induction l with
  | nil => simp [maxRd]
  | cons a l ih =>
    have h1 := h a (by simp)
    have h2 := ih (fun x hx => h x (by simp [hx]))
    rw [maxRd_cons]; omega

theorem exists_of_sumBy_pos {α} {f : α → Nat} {l : List α} (h : 0 < sumBy f l) : ∃ x ∈ l, 0 < f x := by
  induction l with
  | nil => simp at h
  | cons a l ih =>
    by_cases ha : 0 < f a
    · exact ⟨a, by simp, ha⟩
    · simp at h
      obtain ⟨x, hx, hfx⟩ := ih (by omega)
      exact ⟨x, by simp [hx], hfx⟩

theorem scan_rdOk {N R : Nat} {hi hi' : Int} {body : List Instr} (hN : 1 ≤ N)
    (h : Scan N ⟨0, 0, false, hi⟩ body ⟨R, 0, false, hi'⟩) : RdOk N (body ++ [.close]) ∧ rounds (body ++ [.close]) = R := by
  have hit : items (body ++ [.close]) = items body := by simp [items_append]
  have hcnt : ∀ ρ, sumBy (tokRW ρ) (items body) = if ρ < R then N else 0 := by
    intro ρ
    have := scan_counts h ρ
    simp only [seen] at this
    by_cases h1 : ρ < R
    · simp [h1] at this ⊢; exact this
    · by_cases h2 : ρ = R
      · subst h2; simp at this ⊢; exact this
      · simp [h1, h2] at this ⊢; exact this
  have hbound : ∀ x ∈ items body, x.rd < 2 * R := by
    intro x hx
    have := scan_lvl h x hx
    simp [lvl, level] at this; omega
  have hR : rounds (body ++ [.close]) = R := by
    unfold rounds; rw [hit]
    by_cases h0 : R = 0
    · subst h0
      have : maxRd (items body) ≤ 0 := maxRd_le (fun x hx => by have := hbound x hx; omega)
      omega
    · have hc := hcnt (R - 1)
      rw [if_pos (by omega)] at hc
      obtain ⟨x, hx, hfx⟩ := exists_of_sumBy_pos (by omega : 0 < sumBy (tokRW (R - 1)) (items body))
      have hxr : x.rd = 2 * (R - 1) + 1 := by
        apply Classical.byContradiction; intro hne; simp [tokRW, hne] at hfx
      have h1 := maxRd_ge hx
      have h2 : maxRd (items body) ≤ 2 * R - 1 := maxRd_le (fun y hy => by have := hbound y hy; omega)
      omega
  refine ⟨⟨?_, ?_, ?_, ?_⟩, hR⟩
  · rw [hit]; exact scan_sorted h
  · rw [hit]; exact scan_parity h
  · intro r; rw [hit, hR]; exact hcnt r
  · rw [hit, hR]; exact hbound

theorem scan_wellFormedShape {N R : Nat} {hi hi' : Int} {d : Bool} {body : List Instr} (hN : 1 ≤ N)
    (h : Scan N ⟨0, 0, false, hi⟩ body ⟨R, 0, d, hi'⟩) : WellFormedShape N (body ++ [.close]) :=
  ⟨hN, body, rfl, scan_no_close h, scan_tokRuns h rfl⟩


/-! ### the generated programs satisfy Scan -/

theorem tokens_scan_aux (N r : Nat) (d : Bool) (q : Nat) (p : Int) :
    ∀ (m k : Nat) (hi : Int), k + m = N → 1 ≤ m → p ≤ hi →
      Scan N ⟨r, k, d, hi⟩ (List.replicate m (.push (.token q p (2 * r + 1)))) ⟨r + 1, 0, false, p - 1⟩ := by
  intro m
  induction m with
  | zero => intro k hi _ h; omega
  | succ m ih =>
    intro k hi hk _ hp
    rw [List.replicate_succ]
    by_cases hm : m = 0
    · subst hm
      exact .tokenLast rfl rfl hp (by omega) (.nil _)
    · exact .token rfl rfl hp (by omega) (ih (k + 1) p (by omega) (by omega) (Int.le_refl _))

theorem tokens_scan {N : Nat} (hN : 1 ≤ N) (r : Nat) (d : Bool) (q : Nat) (p hi : Int) (hp : p ≤ hi) :
    Scan N ⟨r, 0, d, hi⟩ (tokens N q p (2 * r + 1)) ⟨r + 1, 0, false, p - 1⟩ :=
  tokens_scan_aux N r d q p N 0 hi (by omega) hN hp

theorem pushContig_scan {N pack : Nat} (single : Bool) (hN : 1 ≤ N) (g : Gen) (cur hi : Int) (sz : Nat) (d : Bool)
    (h1 : cur ≤ hi) (h2 : g.nextPrio < cur) (hsz : 1 ≤ sz) :
    Scan N ⟨g.rd, 0, d, hi⟩ (pushContig single N pack g cur sz).1
      ⟨(pushContig single N pack g cur sz).2.1.rd, 0, true, (pushContig single N pack g cur sz).2.2⟩ ∧
    (pushContig single N pack g cur sz).2.1.nextPrio < (pushContig single N pack g cur sz).2.2 ∧
    g.nextPrio - 1 ≤ (pushContig single N pack g cur sz).2.1.nextPrio ∧
    (single = false → (pushContig single N pack g cur sz).2.1.rd = g.rd) := by
  unfold pushContig
  split
  · rename_i hs
    refine ⟨?_, by simp; omega, by simp, ?_⟩
    · apply scan_append (tokens_scan hN g.rd d g.seq cur hi h1)
      exact .contig rfl (by simp [Item.rd]; omega) (by simpa [Item.cost] using hsz) (by simp [Item.prio]; omega) (.nil _)
    · intro hf; simp [hf] at hs
  · refine ⟨?_, by simpa using h2, by simp; omega, by simp⟩
    exact .contig rfl rfl (by simpa [Item.cost] using hsz) (by simpa [Item.prio] using h1) (.nil _)

theorem pushContigs_scan {N pack : Nat} (single : Bool) (hN : 1 ≤ N) :
    ∀ (l : List Nat) (g : Gen) (cur hi : Int) (d : Bool), cur ≤ hi → g.nextPrio < cur → (∀ sz ∈ l, 1 ≤ sz) →
    ∃ d' hi', Scan N ⟨g.rd, 0, d, hi⟩ (pushContigs single N pack g cur l).1
        ⟨(pushContigs single N pack g cur l).2.rd, 0, d', hi'⟩ ∧
      (pushContigs single N pack g cur l).2.nextPrio < hi' ∧
      g.nextPrio - l.length ≤ (pushContigs single N pack g cur l).2.nextPrio ∧
      (single = false → (pushContigs single N pack g cur l).2.rd = g.rd) := by
  intro l
  induction l with
  | nil =>
    intro g cur hi d h1 h2 _
    exact ⟨d, hi, .nil _, by simp [pushContigs]; omega, by simp [pushContigs], by simp [pushContigs]⟩
  | cons sz rest ih =>
    intro g cur hi d h1 h2 hsz
    obtain ⟨hs1, hlt, hlow, hrd⟩ := pushContig_scan (pack := pack) single hN g cur hi sz d h1 h2 (hsz sz (by simp))
    obtain ⟨d', hi', hs2, hlt2, hlow2, hrd2⟩ := ih (pushContig single N pack g cur sz).2.1 (pushContig single N pack g cur sz).2.2
      (pushContig single N pack g cur sz).2.2 true (Int.le_refl _) hlt (fun z hz => hsz z (by simp [hz]))
    refine ⟨d', hi', ?_, ?_, ?_, ?_⟩
    · simp only [pushContigs]; exact scan_append hs1 hs2
    · simpa [pushContigs] using hlt2
    · simp only [pushContigs, List.length_cons]; push_cast; omega
    · intro hf; simp only [pushContigs]; rw [hrd2 hf, hrd hf]

theorem pushSample_scan {N pack : Nat} (single : Bool) (hN : 1 ≤ N) (s : List Nat) (g : Gen) (hi : Int) (d : Bool)
    (h1 : g.nextPrio ≤ hi) :
    ∃ d' hi', Scan N ⟨g.rd, 0, d, hi⟩ (pushSample single N pack g s).1
        ⟨(pushSample single N pack g s).2.rd, 0, d', hi'⟩ ∧
      (pushSample single N pack g s).2.nextPrio ≤ hi' ∧
      g.nextPrio - (s.length + 1 : Nat) ≤ (pushSample single N pack g s).2.nextPrio ∧
      (single = false → (pushSample single N pack g s).2.rd = g.rd) := by
  have hfl : (s.filter (· ≠ 0)).length ≤ s.length := List.length_filter_le _ _
  have hfz : ∀ z ∈ s.filter (· ≠ 0), 1 ≤ z := by
    intro z hz; simp at hz; omega
  cases hl : s.filter (· ≠ 0) with
  | nil =>
    have e : pushSample single N pack g s = ([], g) := by simp only [pushSample, hl]
    rw [e]
    exact ⟨d, hi, .nil _, h1, by push_cast; omega, fun _ => rfl⟩
  | cons a t =>
    have e : pushSample single N pack g s
        = pushContigs single N pack { g with nextPrio := g.nextPrio - 1 } g.nextPrio (s.filter (· ≠ 0)) := by
      simp only [pushSample, hl]
    rw [e]
    obtain ⟨d', hi', hs, hlt, hlow, hrd⟩ := pushContigs_scan (pack := pack) single hN (s.filter (· ≠ 0))
      { g with nextPrio := g.nextPrio - 1 } g.nextPrio hi d h1 (by simp; omega) hfz
    refine ⟨d', hi', hs, by omega, ?_, hrd⟩
    have hfl' : ((s.filter (· ≠ 0)).length : Int) ≤ (s.length : Int) := by exact_mod_cast hfl
    simp only [] at hlow
    push_cast
    show g.nextPrio - ((s.length : Int) + 1) ≤ _
    have hlow' : g.nextPrio - 1 - ((s.filter (· ≠ 0)).length : Int) ≤ _ := hlow
    omega

def weight (samples : List (List Nat)) : Nat := (samples.map (fun s => s.length + 1)).sum

theorem pushSamples_scan {N pack : Nat} (single : Bool) (hN : 1 ≤ N) :
    ∀ (ss : List (List Nat)) (g : Gen) (hi : Int) (d : Bool), g.nextPrio ≤ hi →
    ∃ d' hi', Scan N ⟨g.rd, 0, d, hi⟩ (pushSamples single N pack g ss).1
        ⟨(pushSamples single N pack g ss).2.rd, 0, d', hi'⟩ ∧
      (pushSamples single N pack g ss).2.nextPrio ≤ hi' ∧
      g.nextPrio - (weight ss : Nat) ≤ (pushSamples single N pack g ss).2.nextPrio ∧
      (single = false → (pushSamples single N pack g ss).2.rd = g.rd) := by
  intro ss
  induction ss with
  | nil => intro g hi d h1; exact ⟨d, hi, .nil _, h1, by simp [pushSamples, weight], fun _ => rfl⟩
  | cons s rest ih =>
    intro g hi d h1
    obtain ⟨d1, hi1, hs1, hle1, hlow1, hrd1⟩ := pushSample_scan (pack := pack) single hN s g hi d h1
    obtain ⟨d2, hi2, hs2, hle2, hlow2, hrd2⟩ := ih (pushSample single N pack g s).2 hi1 d1 hle1
    refine ⟨d2, hi2, ?_, ?_, ?_, ?_⟩
    · simp only [pushSamples]; exact scan_append hs1 hs2
    · simpa [pushSamples] using hle2
    · simp only [pushSamples, weight, List.map_cons, List.sum_cons] at hlow2 ⊢
      push_cast at hlow1 hlow2 ⊢; omega
    · intro hf; simp only [pushSamples]; rw [hrd2 hf, hrd1 hf]


/-! ### programOf satisfies Scan -/

theorem weight_cons (s : List Nat) (ss : List (List Nat)) : weight (s :: ss) = s.length + 1 + weight ss := by
  simp [weight]

theorem weight_filtered (samples : List (List Nat)) :
    weight ((samples.map (fun s => s.filter (· ≠ 0))).filter (· ≠ [])) ≤ weight samples := by
  induction samples with
  | nil => simp [weight]
  | cons s ss ih =>
    have hfl : (s.filter (· ≠ 0)).length ≤ s.length := List.length_filter_le _ _
    simp only [List.map_cons, List.filter_cons]
    split
    · rw [weight_cons, weight_cons]; omega
    · rw [weight_cons]; omega

theorem final_scan {N : Nat} (hN : 1 ≤ N) (g : Gen) (d : Bool) (hi : Int) (h : 1000000 ≤ hi) :
    Scan N ⟨g.rd, 0, d, hi⟩ (tokens N 0 1000000 (2 * g.rd + 1)) ⟨g.rd + 1, 0, false, 1000000 - 1⟩ :=
  tokens_scan hN g.rd d 0 1000000 hi h

theorem programMulti_scan {N pack : Nat} (hN : 1 ≤ N) (samples : List (List Nat)) (hw : weight samples < 2146483647) :
    ∃ body R hi', programMulti N pack samples = body ++ [.close] ∧
      Scan N ⟨0, 0, false, 2147483647⟩ body ⟨R, 0, false, hi'⟩ := by
  obtain ⟨d1, hi1, hs1, hle1, hlow1, hrd1⟩ := pushSample_scan (pack := pack) false hN (samples.headD []) Gen.init 2147483647 false (by simp [Gen.init])
  let g1 := (pushSample false N pack Gen.init (samples.headD [])).2
  have hsf : Scan N ⟨g1.rd, 0, d1, 1000000⟩ (syncAndFlush N g1).1 ⟨g1.rd + 1, 0, false, g1.nextPrio⟩ := by
    simp only [syncAndFlush]
    exact scan_append (tokens_scan hN g1.rd d1 g1.seq 1000000 1000000 (Int.le_refl _)) (.wait (.nil _))
  let g2 := (syncAndFlush N g1).2
  have hg2 : g2.nextPrio = g1.nextPrio ∧ g2.rd = g1.rd + 1 := by simp [g2, syncAndFlush]
  obtain ⟨d3, hi3, hs3, hle3, hlow3, hrd3⟩ := pushSamples_scan (pack := pack) false hN samples.tail g2 g1.nextPrio false (by omega)
  let g3 := (pushSamples false N pack g2 samples.tail).2
  have hwt : (samples.headD []).length + 1 + weight samples.tail ≤ weight samples + 1 := by
    cases samples with
    | nil => simp [weight]
    | cons s ss => simp [weight_cons]
  have hg3 : 1000000 ≤ hi3 := by
    have : Gen.init.nextPrio = 2147483647 := rfl
    have h1 : (2147483647 : Int) - ((samples.headD []).length + 1 : Nat) ≤ g1.nextPrio := by rw [← this]; exact hlow1
    have h3 : g2.nextPrio - (weight samples.tail : Nat) ≤ g3.nextPrio := hlow3
    have h4 : g3.nextPrio ≤ hi3 := hle3
    push_cast at h1 h3
    omega
  have hfin := final_scan hN g3 d3 hi3 hg3
  refine ⟨(pushSample false N pack Gen.init (samples.headD [])).1 ++ [.waitEmpty] ++ (syncAndFlush N g1).1
      ++ (pushSamples false N pack g2 samples.tail).1 ++ tokens N 0 1000000 (2 * g3.rd + 1), g3.rd + 1, 1000000 - 1, ?_, ?_⟩
  · simp [programMulti, finalOps, g1, g2, g3, List.append_assoc]
  · have e0 : Gen.init.rd = 0 := rfl
    rw [e0] at hs1
    refine scan_append (scan_append (scan_append (scan_append hs1 (.wait (hi' := 1000000) (.nil _))) hsf) ?_) hfin
    rw [← hg2.2]; exact hs3

theorem programSingle_scan {N pack : Nat} (hN : 1 ≤ N) (samples : List (List Nat)) (hw : weight samples < 2146483647) :
    ∃ body R hi', programSingle N pack samples = body ++ [.close] ∧
      Scan N ⟨0, 0, false, 2147483647⟩ body ⟨R, 0, false, hi'⟩ := by
  have hwf := weight_filtered samples
  unfold programSingle
  cases hfs : (samples.map (fun s => s.filter (· ≠ 0))).filter (· ≠ []) with
  | nil =>
    refine ⟨tokens N 0 1000000 (2 * Gen.init.rd + 1), Gen.init.rd + 1, 1000000 - 1, by simp [finalOps], ?_⟩
    exact final_scan hN Gen.init false 2147483647 (by decide)
  | cons s rest =>
    rw [hfs, weight_cons] at hwf
    obtain ⟨d1, hi1, hs1, hle1, hlow1, hrd1⟩ := pushSample_scan (pack := pack) true hN s Gen.init 2147483647 false (by simp [Gen.init])
    let g1 := (pushSample true N pack Gen.init s).2
    obtain ⟨d3, hi3, hs3, hle3, hlow3, hrd3⟩ := pushSamples_scan (pack := pack) true hN rest g1 hi1 d1 hle1
    let g3 := (pushSamples true N pack g1 rest).2
    have hg3 : 1000000 ≤ hi3 := by
      have : Gen.init.nextPrio = 2147483647 := rfl
      have h1 : (2147483647 : Int) - (s.length + 1 : Nat) ≤ g1.nextPrio := by rw [← this]; exact hlow1
      have h3 : g1.nextPrio - (weight rest : Nat) ≤ g3.nextPrio := hlow3
      have h4 : g3.nextPrio ≤ hi3 := hle3
      push_cast at h1 h3
      omega
    have hfin := final_scan hN g3 d3 hi3 hg3
    have hmid : Scan N ⟨g1.rd, 0, d1, hi1⟩ (if rest = [] then [] else [Instr.waitEmpty]) ⟨g1.rd, 0, d1, hi1⟩ := by
      split
      · exact .nil _
      · exact .wait (.nil _)
    refine ⟨(pushSample true N pack Gen.init s).1 ++ (if rest = [] then [] else [Instr.waitEmpty])
        ++ (pushSamples true N pack g1 rest).1 ++ tokens N 0 1000000 (2 * g3.rd + 1), g3.rd + 1, 1000000 - 1, ?_, ?_⟩
    · simp [finalOps, g1, g3, List.append_assoc]
    · have e0 : Gen.init.rd = 0 := rfl
      rw [e0] at hs1
      exact scan_append (scan_append (scan_append hs1 hmid) hs3) hfin

theorem programOf_scan {N pack : Nat} (single : Bool) (hN : 1 ≤ N) (samples : List (List Nat))
    (hw : weight samples < 2146483647) :
    ∃ body R hi', programOf single N pack samples = body ++ [.close] ∧
      Scan N ⟨0, 0, false, 2147483647⟩ body ⟨R, 0, false, hi'⟩ := by
  unfold programOf
  split
  · exact programSingle_scan hN samples hw
  · exact programMulti_scan hN samples hw


/-! ### replay, and what a pull returns -/

/-- run a list of actions -/
def run (fx : Bool) (s : State) : List Event → Option State
  | [] => some s
  | e :: es => (step? fx s e).bind (fun s' => run fx s' es)

theorem run_reachable {fx : Bool} {prog : List Instr} {cap N : Nat} {s s' : State} {es : List Event}
    (hr : Reachable fx prog cap N s) (h : run fx s es = some s') : Reachable fx prog cap N s' := by
  induction es generalizing s with
  | nil => simp [run] at h; subst h; exact hr
  | cons e es ih =>
    simp only [run] at h
    cases hs : step? fx s e with
    | none => simp [hs] at h
    | some t => simp [hs] at h; exact ih (.step hr ⟨e, hs⟩) h

theorem sumBy_tokRW (r : Nat) (l : List Item) : sumBy (tokRW r) l = l.countP (fun y => y.rd == 2 * r + 1) := by
  induction l with
  | nil => rfl
  | cons a l ih =>
    simp only [sumBy_cons, ih, tokRW, List.countP_cons]
    by_cases h : a.rd = 2 * r + 1 <;> simp [h] <;> omega

/-- a pulled item belongs to the round being collected -/
theorem inv4_pull {fx : Bool} {prog0 : List Instr} {N : Nat} {s : State} {w : Nat} {x : Item}
    (hok : RdOk N prog0) (h5 : Inv5 fx prog0 N s) (h4 : Inv4 prog0 N s)
    (hw : s.workers[w]? = some .idle) (hm : isMax s.queue x) :
    (∀ y ∈ s.queue, x.rd ≤ y.rd) ∧ (∀ y ∈ items s.prog, x.rd ≤ y.rd) ∧
      2 * s.batches.length ≤ x.rd ∧ x.rd ≤ 2 * s.batches.length + 1 := by
  have hidle : WState.idle ∈ s.workers := mem_of_getElem? hw
  have hmin := pull_min_rd_aux h4.qOrd hm
  refine ⟨hmin, h4.qBeforeProg x hm.1, h4.low x (Or.inl hm.1), ?_⟩
  have hx0 : x ∈ items prog0 := h4.sub x (Or.inl hm.1)
  apply Nat.le_of_not_lt
  intro hgt
  have hz1 : sumBy (tokRW s.batches.length) s.queue = 0 := sumBy_zero _ _ (fun y hy => by
    have := hmin y hy; simp [tokRW]; omega)
  have hz2 : sumBy (tokRW s.batches.length) (items s.prog) = 0 := sumBy_zero _ _ (fun y hy => by
    have := h4.qBeforeProg x hm.1 y hy; simp [tokRW]; omega)
  have hb := hok.bound x hx0
  have hr := hok.runs s.batches.length
  rw [if_pos (by omega)] at hr
  have hT := h4.accT
  rw [hz1, hz2, hr] at hT
  have hall := sumBy_bar1W_all (by rw [h5.len]; omega : sumBy bar1W s.workers = s.workers.length)
  have := hall _ hidle
  simp at this


/-! ### PrioSep in words -/

theorem sepFrom_iff (x : Item) (p : List Instr) :
    sepFrom x p ↔ ∀ b y c, p = b ++ Instr.push y :: c → x.rd < y.rd → taskLt y x ∨ Instr.waitEmpty ∈ b := by
  induction p with
  | nil => simp [sepFrom]
  | cons i r ih =>
    cases i with
    | waitEmpty =>
      simp only [sepFrom, true_iff]
      intro b y c h _
      cases b with
      | nil => simp at h
      | cons j b' => simp at h; right; simp [← h.1]
    | push z =>
      simp only [sepFrom]
      constructor
      · rintro ⟨h1, h2⟩ b y c h hlt
        cases b with
        | nil => simp at h; obtain ⟨hz, _⟩ := h; subst hz; exact Or.inl (h1 hlt)
        | cons j b' =>
          simp at h
          rcases (ih.mp h2) b' y c h.2 hlt with h3 | h3
          · exact Or.inl h3
          · exact Or.inr (by simp [h3])
      · intro h
        refine ⟨fun hlt => ?_, ih.mpr (fun b y c hb hlt => ?_)⟩
        · rcases h [] z r rfl hlt with h3 | h3
          · exact h3
          · simp at h3
        · rcases h (Instr.push z :: b) y c (by simp [hb]) hlt with h3 | h3
          · exact Or.inl h3
          · simp at h3; exact Or.inr h3
    | close =>
      simp only [sepFrom]
      constructor
      · intro h2 b y c h hlt
        cases b with
        | nil => simp at h
        | cons j b' =>
          simp at h
          rcases (ih.mp h2) b' y c h.2 hlt with h3 | h3
          · exact Or.inl h3
          · exact Or.inr (by simp [h3])
      · intro h
        refine ih.mpr (fun b y c hb hlt => ?_)
        rcases h (Instr.close :: b) y c (by simp [hb]) hlt with h3 | h3
        · exact Or.inl h3
        · simp at h3; exact Or.inr h3

/-- `PrioSep` says what its description says. -/
theorem prioSep_iff_splits (p : List Instr) :
    PrioSep p ↔ ∀ a x b y c, p = a ++ Instr.push x :: (b ++ Instr.push y :: c) → x.rd < y.rd →
      taskLt y x ∨ Instr.waitEmpty ∈ b := by
  induction p with
  | nil => simp [PrioSep]
  | cons i r ih =>
    have key : (∀ a x b y c, i :: r = a ++ Instr.push x :: (b ++ Instr.push y :: c) → x.rd < y.rd →
          taskLt y x ∨ Instr.waitEmpty ∈ b) ↔
        ((∀ x, i = Instr.push x → sepFrom x r) ∧ PrioSep r) := by
      constructor
      · intro h
        refine ⟨fun x hx => (sepFrom_iff x r).mpr (fun b y c hb hlt => ?_), ih.mpr (fun a x b y c hb hlt => ?_)⟩
        · exact h [] x b y c (by simp [hx, hb]) hlt
        · exact h (i :: a) x b y c (by simp [hb]) hlt
      · rintro ⟨h1, h2⟩ a x b y c hb hlt
        cases a with
        | nil =>
          simp at hb
          exact (sepFrom_iff x r).mp (h1 x hb.1) b y c hb.2 hlt
        | cons j a' =>
          simp at hb
          exact ih.mp h2 a' x b y c hb.2 hlt
    rw [key]
    cases i with
    | push z =>
      simp only [PrioSep]
      constructor
      · rintro ⟨h1, h2⟩; exact ⟨fun x hx => by cases hx; exact h1, h2⟩
      · rintro ⟨h1, h2⟩; exact ⟨h1 z rfl, h2⟩
    | waitEmpty => simp [PrioSep]
    | close => simp [PrioSep]


end Ragc.Pipeline
