import RagcModel.Lemmas.WriterContig
/-!
Helper lemmas for `read_write` (C01/C02), part 4: from well-formed decisions to the bases of every
contig — the piece ↔ group bookkeeping of `DecisionsOK`, `writeGroups`, and the descriptors of
`Writer.catalogue`, composed with `planGroup_spec` and `decodeContig_ok`.
-/
namespace Ragc.WriterLemmas
open Ragc.Agc3 Ragc.Writer Ragc.Segment Ragc.Range

/-! ## unpacking `decisionsOK` -/

structure ContigOK (k : Nat) (c : Writer.Contig) (ds : List PieceDec) : Prop where
  name : nameOK c.name = true
  ne : c.data ≠ []
  len : c.data.length < 2 ^ 32
  cnt : ds.length < 2 ^ 32
  tiles : tilesB k c.data.length (ds.map (·.len)) = true

structure SampleOK (k : Nat) (s : Writer.Sample) (dcs : List (List PieceDec)) : Prop where
  name : nameOK s.name = true
  cnt : s.contigs.length < 2 ^ 32
  shape : dcs.length = s.contigs.length
  contigs : ∀ x ∈ List.zip s.contigs dcs, ContigOK k x.1 x.2

structure DecOK (cfg : Cfg) (inp : List Writer.Sample) (dec : Decisions) : Prop where
  k1 : 1 ≤ cfg.k
  k32 : cfg.k < 2 ^ 32
  mm32 : cfg.minMatch < 2 ^ 32
  seg32 : cfg.segSize < 2 ^ 32
  pred : cfg.segSize + cfg.k ≤ 2 ^ 31
  nS : inp.length < 2 ^ 32
  shape : dec.pieces.length = inp.length
  samples : ∀ x ∈ List.zip inp dec.pieces, SampleOK cfg.k x.1 x.2
  nodup : (dec.groups.map (·.id)).Nodup
  groups : ∀ G ∈ dec.groups, G.id < 2 ^ 32 ∧ G.members ≠ [] ∧ G.members.length + 1 < 2 ^ 31 ∧
    ∀ rj ∈ List.zipIdx G.members, ∃ d, lookup3 dec.pieces rj.1 = some d ∧ d.group = G.id ∧ d.slot = rj.2
  pieces : ∀ rd ∈ allRefs dec, ∃ G, Writer.findGroup dec rd.2.group = some G ∧ G.members[rd.2.slot]? = some rd.1
  total : (allRefs dec).length + 1 < 2 ^ 31

theorem decOK_of (cfg : Cfg) (inp : List Writer.Sample) (dec : Decisions) (h : DecisionsOK cfg inp dec) :
    DecOK cfg inp dec := by
  unfold DecisionsOK decisionsOK at h
  simp only [Bool.and_eq_true, decide_eq_true_eq, List.all_eq_true] at h
  obtain ⟨⟨⟨⟨⟨⟨⟨⟨⟨⟨⟨h1, h2⟩, h3⟩, h4⟩, h5⟩, h6⟩, h7⟩, h8⟩, h9⟩, h10⟩, h11⟩, h12⟩ := h
  refine ⟨h1, h2, h3, h4, h5, h6, h7, ?_, h9, ?_, ?_, h12⟩
  · intro x hx
    obtain ⟨⟨⟨a1, a2⟩, a3⟩, a4⟩ := h8 x hx
    refine ⟨a1, a2, a3, ?_⟩
    intro y hy
    obtain ⟨⟨⟨⟨b1, b2⟩, b3⟩, b4⟩, b5⟩ := a4 y hy
    exact ⟨b1, b2, b3, b4, b5⟩
  · intro G hG
    obtain ⟨⟨⟨a1, a2⟩, a2'⟩, a3⟩ := h10 G hG
    refine ⟨a1, a2, a2', ?_⟩
    intro rj hrj
    have := a3 rj hrj
    cases hl : lookup3 dec.pieces rj.1 with
    | none => rw [hl] at this; simp at this
    | some d =>
      rw [hl] at this
      simp only [Bool.and_eq_true, decide_eq_true_eq] at this
      exact ⟨d, rfl, this.1, this.2⟩
  · intro rd hrd
    have := h11 rd hrd
    cases hf : Writer.findGroup dec rd.2.group with
    | none => rw [hf] at this; simp at this
    | some G =>
      rw [hf] at this
      simp only [decide_eq_true_eq] at this
      exact ⟨G, rfl, this⟩

/-! ## list plumbing -/

theorem zipWith_get {α β γ : Type} (f : α → β → γ) (l : List α) (l' : List β) (i : Nat) (a : α) (b : β)
    (h1 : l[i]? = some a) (h2 : l'[i]? = some b) : (List.zipWith f l l')[i]? = some (f a b) := by
  rw [List.getElem?_zipWith, h1, h2]

theorem zipWith_get_inv {α β γ : Type} (f : α → β → γ) (l : List α) (l' : List β) (i : Nat) (y : γ)
    (h : (List.zipWith f l l')[i]? = some y) : ∃ a b, l[i]? = some a ∧ l'[i]? = some b ∧ y = f a b := by
  rw [List.getElem?_zipWith] at h
  cases h1 : l[i]? with
  | none => rw [h1] at h; simp at h
  | some a =>
    cases h2 : l'[i]? with
    | none => rw [h1, h2] at h; simp at h
    | some b =>
      rw [h1, h2] at h
      simp only [Option.some.injEq] at h
      exact ⟨a, b, rfl, rfl, h.symm⟩

theorem mem_zip_of_get {α β : Type} (l : List α) (l' : List β) (i : Nat) (a : α) (b : β)
    (h1 : l[i]? = some a) (h2 : l'[i]? = some b) : (a, b) ∈ List.zip l l' :=
  List.mem_iff_getElem?.mpr ⟨i, List.getElem?_zip_eq_some.mpr ⟨h1, h2⟩⟩

theorem cutPieces_lengths (k : Nat) (c : List Nat) :
    ∀ (lens : List Nat) (e : Nat), tilesFromB k c.length e lens = true →
      (cutPieces k (c.drop (e - k)) lens).map List.length = lens := by
  intro lens
  induction lens with
  | nil => intro e _; rfl
  | cons l ls ih =>
    intro e h
    simp only [tilesFromB, Bool.and_eq_true, decide_eq_true_eq] at h
    obtain ⟨⟨⟨hke, hkl⟩, hle⟩, hrest⟩ := h
    have hlen : ((c.drop (e - k)).take l).length = l := by
      simp only [List.length_take, List.length_drop]; omega
    have e1 : (c.drop (e - k)).drop (l - k) = c.drop (e - k + l - k) := by
      rw [List.drop_drop]; congr 1; omega
    simp only [cutPieces, List.map_cons, hlen, e1, ih (e - k + l) hrest]

theorem cutPieces_lengths0 (k : Nat) (c : List Nat) (lens : List Nat) (h : tilesB k c.length lens = true) :
    (cutPieces k c lens).map List.length = lens := by
  cases lens with
  | nil => rfl
  | cons l ls =>
    simp only [tilesB, Bool.and_eq_true, decide_eq_true_eq] at h
    have hlen : (c.take l).length = l := by simp only [List.length_take]; omega
    simp only [cutPieces, List.map_cons, hlen, cutPieces_lengths k c ls l h.2]

/-! ## stored pieces -/

/-- what `lookup3 (storedAll …)` returns -/
theorem stored_lookup (k : Nat) (inp : List Writer.Sample) (dec : Decisions) (s c j : Nat)
    (smp : Writer.Sample) (ctg : Writer.Contig) (dcs : List (List PieceDec)) (ds : List PieceDec) (d : PieceDec)
    (p : List Nat)
    (h1 : inp[s]? = some smp) (h2 : smp.contigs[c]? = some ctg) (h3 : dec.pieces[s]? = some dcs)
    (h4 : dcs[c]? = some ds) (h5 : ds[j]? = some d)
    (h6 : (cutPieces k ctg.data (ds.map (·.len)))[j]? = some p) :
    lookup3 (storedAll k inp dec) (s, c, j) = some (Writer.orient d.rev p) := by
  unfold lookup3 storedAll
  simp only []
  rw [zipWith_get _ _ _ s smp dcs h1 h3]
  simp only [Option.bind_some]
  rw [zipWith_get _ _ _ c ctg ds h2 h4]
  simp only [Option.bind_some]
  unfold storedContig
  rw [zipWith_get _ _ _ j d p h5 h6]

theorem stored_lookup_inv (k : Nat) (inp : List Writer.Sample) (dec : Decisions) (r : PieceRef) (x : List Nat)
    (h : lookup3 (storedAll k inp dec) r = some x) :
    ∃ smp ctg dcs ds d p, inp[r.1]? = some smp ∧ smp.contigs[r.2.1]? = some ctg ∧
      dec.pieces[r.1]? = some dcs ∧ dcs[r.2.1]? = some ds ∧ ds[r.2.2]? = some d ∧
      (cutPieces k ctg.data (ds.map (·.len)))[r.2.2]? = some p ∧ x = Writer.orient d.rev p := by
  unfold lookup3 storedAll at h
  cases hs : (List.zipWith (fun s dcs => List.zipWith (storedContig k) s.contigs dcs) inp dec.pieces)[r.1]? with
  | none => rw [hs] at h; simp at h
  | some t1 =>
    rw [hs] at h
    simp only [Option.bind_some] at h
    obtain ⟨smp, dcs, h1, h3, rfl⟩ := zipWith_get_inv _ _ _ _ _ hs
    cases hc : (List.zipWith (storedContig k) smp.contigs dcs)[r.2.1]? with
    | none => rw [hc] at h; simp at h
    | some t2 =>
      rw [hc] at h
      simp only [Option.bind_some] at h
      obtain ⟨ctg, ds, h2, h4, rfl⟩ := zipWith_get_inv _ _ _ _ _ hc
      unfold storedContig at h
      obtain ⟨d, p, h5, h6, rfl⟩ := zipWith_get_inv _ _ _ _ _ h
      exact ⟨smp, ctg, dcs, ds, d, p, h1, h2, h3, h4, h5, h6, rfl⟩

/-- every stored piece is non-empty and over the literal codes -/
theorem stored_ok (cfg : Cfg) (inp : List Writer.Sample) (dec : Decisions) (hok : DecOK cfg inp dec)
    (hcodes : codesOK inp) (r : PieceRef) (x : List Nat)
    (h : lookup3 (storedAll cfg.k inp dec) r = some x) : x ≠ [] ∧ Ragc.Props.C09.codesOK x := by
  obtain ⟨smp, ctg, dcs, ds, d, p, h1, h2, h3, h4, h5, h6, rfl⟩ := stored_lookup_inv cfg.k inp dec r x h
  have hS := hok.samples _ (mem_zip_of_get _ _ _ _ _ h1 h3)
  have hC := hS.contigs _ (mem_zip_of_get _ _ _ _ _ h2 h4)
  have ht := tiles_of_check cfg.k ctg.data _ hC.tiles
  have hp : p ∈ cutPieces cfg.k ctg.data (ds.map (·.len)) := List.mem_iff_getElem?.mpr ⟨_, h6⟩
  have hne := tiles_nonempty cfg.k hok.k1 _ _ ht hC.ne p hp
  have hmem := Ragc.Roundtrip.tiles_mem cfg.k _ _ ht p hp
  constructor
  · intro hc
    have := congrArg List.length hc
    rw [orient_eq, Ragc.Roundtrip.orient_length] at this
    exact hne (List.eq_nil_of_length_eq_zero this)
  · intro b hb
    rw [orient_eq] at hb
    exact Ragc.Roundtrip.orient_mem_le _ _ _ (by decide)
      (fun y hy => hcodes smp (List.mem_of_getElem? h1) ctg (List.mem_of_getElem? h2) y (hmem y hy)) b hb

/-! ## pieces ↔ groups -/

theorem mem_allRefs (dec : Decisions) (s c j : Nat) (dcs : List (List PieceDec)) (ds : List PieceDec)
    (d : PieceDec) (h3 : dec.pieces[s]? = some dcs) (h4 : dcs[c]? = some ds) (h5 : ds[j]? = some d) :
    ((s, c, j), d) ∈ allRefs dec := by
  unfold allRefs
  simp only [List.mem_flatMap, List.mem_map]
  refine ⟨(dcs, s), List.mem_zipIdx_iff_getElem?.mpr h3, (ds, c), List.mem_zipIdx_iff_getElem?.mpr h4,
    (d, j), List.mem_zipIdx_iff_getElem?.mpr h5, rfl⟩

theorem find_by_id (outs : List GroupOut) :
    ∀ (gi : Nat) (h : gi < outs.length), (outs.map (·.id)).Nodup →
      outs.find? (fun o => o.id == outs[gi].id) = some outs[gi] := by
  induction outs with
  | nil => intro gi h; simp at h
  | cons o os ih =>
    intro gi h hnd
    cases gi with
    | zero => simp
    | succ gi =>
      simp only [List.length_cons] at h
      simp only [List.map_cons, List.nodup_cons] at hnd
      have hne : o.id ≠ os[gi].id := by
        intro hc
        apply hnd.1
        rw [hc]
        exact List.mem_map.mpr ⟨os[gi], List.getElem_mem _, rfl⟩
      simp only [List.getElem_cons_succ, List.find?_cons, beq_eq_false_iff_ne.mpr hne]
      exact ih gi (by omega) hnd.2

theorem planGroup_spec_id (mm : Nat) (G : GroupDec) (datas : List (List Nat)) (P : GroupPlan)
    (h : planGroup mm G datas = some P) : P.id = G.id := by
  unfold planGroup at h
  split at h
  · split at h
    · simp at h
    · split at h
      · simp at h
      · simp only [Option.some.injEq] at h; subst h; rfl
  · simp only [Option.some.injEq] at h; subst h; rfl

/-- what `writeGroups` did for the group at position `gi` -/
theorem writeGroups_at (cfg : Cfg) (zc : Nat → List Nat → List Nat) (stored : List (List (List (List Nat))))
    (gs : List GroupDec) (outs : List GroupOut) (hw : writeGroups cfg zc stored gs = some outs) :
    outs.length = gs.length ∧
    ∀ gi (h : gi < gs.length) (ho : gi < outs.length), ∃ datas P,
      gs[gi].members.mapM (lookup3 stored) = some datas ∧
      planGroup cfg.minMatch gs[gi] datas = some P ∧ outs[gi] = storeGroup cfg zc gs[gi].tuples P := by
  unfold writeGroups at hw
  obtain ⟨hl, hall⟩ := mapM_option_spec _ gs outs hw
  refine ⟨hl, ?_⟩
  intro gi h ho
  have := hall gi h ho
  cases hm : gs[gi].members.mapM (lookup3 stored) with
  | none => rw [hm] at this; simp at this
  | some datas =>
    rw [hm] at this
    simp only [Option.bind_some] at this
    unfold writeGroup at this
    cases hp : planGroup cfg.minMatch gs[gi] datas with
    | none => rw [hp] at this; simp at this
    | some P =>
      rw [hp] at this
      simp only [Option.map_some, Option.some.injEq] at this
      exact ⟨datas, P, rfl, hp, this.symm⟩

/-- **The bases of every contig come back** from the decoder's group table: for well-formed
decisions, if the decoded groups hold what each group's plan says (`GDMatches`, established by
`decodeGroup_plan`), then `decodeContig` on the descriptors the writer registers returns the
contig and reports no violation. -/
theorem contig_bases (cfg : Cfg) (inp : List Writer.Sample) (dec : Decisions) (zc : Nat → List Nat → List Nat)
    (outs : List GroupOut) (hok : DecOK cfg inp dec) (hcodes : codesOK inp)
    (hw : writeGroups cfg zc (storedAll cfg.k inp dec) dec.groups = some outs)
    (gds : Array GroupD)
    (hgds : ∀ G ∈ dec.groups, ∀ datas P, G.members.mapM (lookup3 (storedAll cfg.k inp dec)) = some datas →
      planGroup cfg.minMatch G datas = some P → ∃ GD, Agc3.findGroup gds G.id = some GD ∧ GDMatches GD P)
    (s c : Nat) (smp : Writer.Sample) (ctg : Writer.Contig) (dcs : List (List PieceDec)) (ds : List PieceDec)
    (h1 : inp[s]? = some smp) (h2 : smp.contigs[c]? = some ctg) (h3 : dec.pieces[s]? = some dcs)
    (h4 : dcs[c]? = some ds) (sn nm : List Nat) (a : Acc) :
    decodeContig cfg.k cfg.minMatch gds sn a (nm, ds.map (descOf outs))
      = (a, ⟨nm, ds.map (descOf outs), ctg.data⟩) := by
  have hS := hok.samples _ (mem_zip_of_get _ _ _ _ _ h1 h3)
  have hC := hS.contigs _ (mem_zip_of_get _ _ _ _ _ h2 h4)
  have ht := tiles_of_check cfg.k ctg.data _ hC.tiles
  have hlens := cutPieces_lengths0 cfg.k ctg.data _ hC.tiles
  have hplen : (cutPieces cfg.k ctg.data (ds.map (·.len))).length = ds.length := by
    rw [cutPieces_length]; simp
  obtain ⟨hol, hwat⟩ := writeGroups_at cfg zc _ _ _ hw
  apply decodeContig_ok cfg.k cfg.minMatch gds sn nm a _ (cutPieces cfg.k ctg.data (ds.map (·.len))) ctg.data
    (by rw [hplen]; simp) ?_ ht
  intro j hj hp
  simp only [List.length_map] at hj
  simp only [List.getElem_map]
  have h5 : ds[j]? = some ds[j] := List.getElem?_eq_getElem hj
  have h6 : (cutPieces cfg.k ctg.data (ds.map (·.len)))[j]? = some (cutPieces cfg.k ctg.data (ds.map (·.len)))[j] :=
    List.getElem?_eq_getElem hp
  -- the raw length of the descriptor is the length of the piece
  have hrl : ds[j].len = (cutPieces cfg.k ctg.data (ds.map (·.len)))[j].length := by
    have := congrArg (fun l => l[j]?) hlens
    simp only [List.getElem?_map, h6, h5, Option.map_some, Option.some.injEq] at this
    exact this.symm
  refine ⟨?_, hrl⟩
  -- the group of the piece
  obtain ⟨G, hfG, hmem⟩ := hok.pieces _ (mem_allRefs dec s c j dcs ds ds[j] h3 h4 h5)
  simp only [] at hfG hmem
  have hGin : G ∈ dec.groups := List.mem_of_find?_eq_some hfG
  have hGid : G.id = ds[j].group := by
    have := List.find?_some hfG
    simpa using this
  obtain ⟨gi, hgi, rfl⟩ := List.getElem_of_mem hGin
  obtain ⟨datas, P, hdat, hplan, hout⟩ := hwat gi hgi (by omega)
  obtain ⟨GD, hfind, hmatch⟩ := hgds _ hGin datas P hdat hplan
  obtain ⟨hdl, hdall⟩ := mapM_option_spec _ _ _ hdat
  obtain ⟨hPid, _, _, hseg⟩ := planGroup_spec cfg.minMatch _ datas P hplan (by
    intro x hx
    obtain ⟨t, ht', rfl⟩ := List.getElem_of_mem hx
    exact stored_ok cfg inp dec hok hcodes _ _ (hdall t (by omega) ht'))
  -- the slot of the piece
  have hslot : ds[j].slot < dec.groups[gi].members.length := by
    apply Classical.byContradiction
    intro hc
    rw [List.getElem?_eq_none (by omega)] at hmem
    cases hmem
  have hslot' : ds[j].slot < datas.length := by omega
  have hdata : datas[ds[j].slot] = Writer.orient ds[j].rev (cutPieces cfg.k ctg.data (ds.map (·.len)))[j] := by
    have e1 := hdall ds[j].slot hslot hslot'
    have e2 : dec.groups[gi].members[ds[j].slot] = (s, c, j) := by
      rw [List.getElem?_eq_getElem hslot] at hmem
      simpa using hmem
    rw [e2, stored_lookup cfg.k inp dec s c j smp ctg dcs ds ds[j] _ h1 h2 h3 h4 h5 h6] at e1
    simpa using e1.symm
  -- the ids the catalogue uses are the plan's
  have hids : idsOf outs ds[j].group = P.ids := by
    unfold idsOf
    have hoid : ∀ t (ht1 : t < outs.length) (ht2 : t < dec.groups.length), outs[t].id = dec.groups[t].id := by
      intro t ht1 ht2
      obtain ⟨dt, Pt, hdt, hpt, hot⟩ := hwat t ht2 ht1
      rw [hot]
      simp only [storeGroup]
      exact (planGroup_spec_id cfg.minMatch _ dt Pt hpt)
    have hmapid : outs.map (·.id) = dec.groups.map (·.id) := by
      apply List.ext_getElem (by simp [hol])
      intro t ht1 ht2
      simp only [List.getElem_map]
      exact hoid t (by simpa using ht1) (by simpa using ht2)
    have := find_by_id outs gi (by omega) (by rw [hmapid]; exact hok.nodup)
    rw [hoid gi (by omega) hgi, hGid] at this
    rw [this, hout]
    rfl
  have hsa := (hseg ds[j].slot hslot').2
  rw [hdata] at hsa
  have := getSegment_plan cfg.minMatch gds P GD (P.ids.getD ds[j].slot 0) _ ds[j].rev ds[j].len
    (by rw [hPid]; exact hfind) hmatch hsa
  unfold descOf
  rw [hids, ← hGid, ← hPid]
  exact this

theorem outs_ids (cfg : Cfg) (zc : Nat → List Nat → List Nat) (stored : List (List (List (List Nat))))
    (gs : List GroupDec) (outs : List GroupOut) (hw : writeGroups cfg zc stored gs = some outs) :
    outs.map (·.id) = gs.map (·.id) := by
  obtain ⟨hol, hwat⟩ := writeGroups_at cfg zc stored gs outs hw
  apply List.ext_getElem (by simp [hol])
  intro t ht1 ht2
  simp only [List.getElem_map]
  obtain ⟨dt, Pt, _, hpt, hot⟩ := hwat t (by simpa using ht2) (by simpa using ht1)
  rw [hot]
  exact planGroup_spec_id cfg.minMatch _ dt Pt hpt

/-- the group, plan and id behind the descriptor of one piece -/
theorem piece_plan (cfg : Cfg) (inp : List Writer.Sample) (dec : Decisions) (zc : Nat → List Nat → List Nat)
    (outs : List GroupOut) (hok : DecOK cfg inp dec) (hcodes : codesOK inp)
    (hw : writeGroups cfg zc (storedAll cfg.k inp dec) dec.groups = some outs)
    (s c j : Nat) (dcs : List (List PieceDec)) (ds : List PieceDec) (d : PieceDec)
    (h3 : dec.pieces[s]? = some dcs) (h4 : dcs[c]? = some ds) (h5 : ds[j]? = some d) :
    ∃ G datas P, G ∈ dec.groups ∧ G.id = d.group ∧ G.id < 2 ^ 32 ∧
      G.members.mapM (lookup3 (storedAll cfg.k inp dec)) = some datas ∧
      planGroup cfg.minMatch G datas = some P ∧ idsOf outs d.group = P.ids ∧
      d.slot < datas.length ∧ datas.length + 1 < 2 ^ 31 ∧ P.ids.getD d.slot 0 ≤ datas.length := by
  obtain ⟨hol, hwat⟩ := writeGroups_at cfg zc _ _ _ hw
  obtain ⟨G, hfG, hmem⟩ := hok.pieces _ (mem_allRefs dec s c j dcs ds d h3 h4 h5)
  simp only [] at hfG hmem
  have hGin : G ∈ dec.groups := List.mem_of_find?_eq_some hfG
  have hGid : G.id = d.group := by
    have := List.find?_some hfG
    simpa using this
  obtain ⟨gi, hgi, rfl⟩ := List.getElem_of_mem hGin
  obtain ⟨datas, P, hdat, hplan, hout⟩ := hwat gi hgi (by omega)
  obtain ⟨hdl, hdall⟩ := mapM_option_spec _ _ _ hdat
  obtain ⟨hPid, _, _, hseg⟩ := planGroup_spec cfg.minMatch _ datas P hplan (by
    intro x hx
    obtain ⟨t, ht', rfl⟩ := List.getElem_of_mem hx
    exact stored_ok cfg inp dec hok hcodes _ _ (hdall t (by omega) ht'))
  have hslot : d.slot < dec.groups[gi].members.length := by
    apply Classical.byContradiction
    intro hc
    rw [List.getElem?_eq_none (by omega)] at hmem
    cases hmem
  have hids : idsOf outs d.group = P.ids := by
    unfold idsOf
    have hmapid := outs_ids cfg zc _ _ _ hw
    have hoid : outs[gi].id = dec.groups[gi].id := by
      have := congrArg (fun l => l[gi]?) hmapid
      simpa [List.getElem?_map, List.getElem?_eq_getElem hgi, List.getElem?_eq_getElem (show gi < outs.length by omega)] using this
    have := find_by_id outs gi (by omega) (by rw [hmapid]; exact hok.nodup)
    rw [hoid, hGid] at this
    rw [this, hout]
    rfl
  have hG := hok.groups _ hGin
  exact ⟨_, datas, P, hGin, hGid, hG.1, hdat, hplan, hids, by omega, by rw [hdl]; exact hG.2.2.1,
    (hseg d.slot (by omega)).1⟩

end Ragc.WriterLemmas
