import RagcModel.Model.Details
/-! Registration order: samples in first-seen order, contigs in push order (C03). -/
namespace Ragc.Details
open Ragc.Names

/-- Specification: keep the first occurrence of every element, in order. -/
def firstSeen : List Name → List Name
  | [] => []
  | a :: l => a :: (firstSeen l).filter (fun x => x ≠ a)

/-- The same with an accumulator (what a loop that pushes unseen elements computes). -/
def accSeen (acc : List Name) (l : List Name) : List Name :=
  l.foldl (fun acc a => if a ∈ acc then acc else acc ++ [a]) acc

theorem accSeen_eq (l : List Name) : ∀ acc : List Name,
    accSeen acc l = acc ++ (firstSeen l).filter (fun x => x ∉ acc) := by
  induction l with
  | nil => intro acc; simp [accSeen, firstSeen]
  | cons a l ih =>
    intro acc
    have hstep : accSeen acc (a :: l) = accSeen (if a ∈ acc then acc else acc ++ [a]) l := by
      simp [accSeen]
    rw [hstep]
    by_cases ha : a ∈ acc
    · rw [if_pos ha, ih acc]
      simp only [firstSeen, List.filter_cons, List.filter_filter]
      have : decide (a ∉ acc) = false := by simp [ha]
      rw [this]
      simp only [Bool.false_eq_true, if_false]
      congr 1
      apply List.filter_congr
      intro x _
      by_cases hx : x ∈ acc
      · simp [hx]
      · have : x ≠ a := fun e => hx (e ▸ ha)
        simp [hx, this]
    · rw [if_neg ha, ih (acc ++ [a])]
      simp only [firstSeen, List.filter_cons, List.filter_filter]
      have : decide (a ∉ acc) = true := by simp [ha]
      rw [this]
      simp only [if_true, List.append_assoc, List.singleton_append]
      congr 2
      apply List.filter_congr
      intro x _
      by_cases hx : x ∈ acc
      · simp [hx]
      · by_cases hxa : x = a
        · simp [hxa]
        · simp [hx, hxa]

theorem accSeen_nil (l : List Name) : accSeen [] l = firstSeen l := by
  rw [accSeen_eq]; simp

/-! ### One registration -/

theorem any_name_iff (ss : List Sample) (s : Name) :
    ss.any (fun x => x.name == s) = true ↔ s ∈ samplesList ss := by
  constructor
  · intro h
    rcases List.any_eq_true.mp h with ⟨x, hx, hxs⟩
    exact List.mem_map.mpr ⟨x, hx, by simpa using hxs⟩
  · intro h
    rcases List.mem_map.mp h with ⟨x, hx, hxs⟩
    exact List.any_eq_true.mpr ⟨x, hx, by simpa using hxs⟩

theorem samplesList_addToSample (ss : List Sample) (s c : Name) :
    samplesList (addToSample ss s c) = samplesList ss := by
  induction ss with
  | nil => simp [addToSample]
  | cons x xs ih =>
    simp only [addToSample]
    by_cases h : x.name = s
    · rw [if_pos h]; simp [samplesList]
    · rw [if_neg h]; simp only [samplesList, List.map_cons] at ih ⊢; rw [ih]

theorem samplesList_registerStored (ss : List Sample) (s c : Name) :
    samplesList (registerStored ss s c)
      = if s ∈ samplesList ss then samplesList ss else samplesList ss ++ [s] := by
  unfold registerStored
  by_cases h : s ∈ samplesList ss
  · rw [if_pos ((any_name_iff ss s).mpr h), if_pos h, samplesList_addToSample]
  · have : ¬ (ss.any (fun x => x.name == s) = true) := fun e => h ((any_name_iff ss s).mp e)
    rw [if_neg this, if_neg h]; simp [samplesList]

def contigsOf (ss : List Sample) (s : Name) : List Name := (contigList ss s).getD []

theorem contigNames_addContig (cs : List Contig) (c : Name) :
    (addContig cs c).map Contig.name
      = if c ∈ cs.map Contig.name then cs.map Contig.name else cs.map Contig.name ++ [c] := by
  unfold addContig
  have hiff : cs.any (fun x => x.name == c) = true ↔ c ∈ cs.map Contig.name := by
    constructor
    · intro h
      rcases List.any_eq_true.mp h with ⟨x, hx, hxs⟩
      exact List.mem_map.mpr ⟨x, hx, by simpa using hxs⟩
    · intro h
      rcases List.mem_map.mp h with ⟨x, hx, hxs⟩
      exact List.any_eq_true.mpr ⟨x, hx, by simpa using hxs⟩
  by_cases h : c ∈ cs.map Contig.name
  · rw [if_pos (hiff.mpr h), if_pos h]
  · have : ¬ (cs.any (fun x => x.name == c) = true) := fun e => h (hiff.mp e)
    rw [if_neg this, if_neg h]; simp

theorem contigsOf_addToSample (ss : List Sample) (s c s' : Name) (hs : s ∈ samplesList ss) :
    contigsOf (addToSample ss s c) s'
      = if s = s' then (if c ∈ contigsOf ss s then contigsOf ss s else contigsOf ss s ++ [c])
        else contigsOf ss s' := by
  induction ss with
  | nil => simp [samplesList] at hs
  | cons x xs ih =>
    simp only [addToSample]
    by_cases hx : x.name = s
    · rw [if_pos hx]
      by_cases hss : s = s'
      · subst hss
        rw [if_pos rfl]
        simp only [contigsOf, contigList, List.find?_cons, hx, beq_self_eq_true, Option.map_some,
          Option.getD_some]
        exact contigNames_addContig x.contigs c
      · rw [if_neg hss]
        have : (x.name == s') = false := by simp [hx, hss]
        simp only [contigsOf, contigList, List.find?_cons, this]
    · rw [if_neg hx]
      have hs' : s ∈ samplesList xs := by
        simp only [samplesList, List.map_cons, List.mem_cons] at hs
        rcases hs with h | h
        · exact absurd h.symm hx
        · exact h
      have ih' := ih hs'
      by_cases hxs' : x.name = s'
      · have hne : ¬ s = s' := fun e => hx (e ▸ hxs')
        rw [if_neg hne]
        simp only [contigsOf, contigList, List.find?_cons, hxs', beq_self_eq_true]
      · have : (x.name == s') = false := by simp [hxs']
        have h2 : (x.name == s) = false := by simp [hx]
        simp only [contigsOf, contigList, List.find?_cons, this, h2] at ih' ⊢
        exact ih'

theorem contigsOf_not_mem (ss : List Sample) (s : Name) (h : s ∉ samplesList ss) : contigsOf ss s = [] := by
  unfold contigsOf contigList
  have : ss.find? (fun x => x.name == s) = none := by
    rw [List.find?_eq_none]
    intro x hx hxs
    exact h (by simp only [samplesList, List.mem_map]; exact ⟨x, hx, by simpa using hxs⟩)
  rw [this]; rfl

theorem contigsOf_append_new (ss : List Sample) (s c s' : Name) (h : s ∉ samplesList ss) :
    contigsOf (ss ++ [{ name := s, contigs := [{ name := c, segs := [] }] }]) s'
      = if s = s' then [c] else contigsOf ss s' := by
  by_cases hss : s = s'
  · subst hss
    rw [if_pos rfl]
    unfold contigsOf contigList
    have : ss.find? (fun x => x.name == s) = none := by
      rw [List.find?_eq_none]
      intro x hx hxs
      exact h (by simp only [samplesList, List.mem_map]; exact ⟨x, hx, by simpa using hxs⟩)
    simp [List.find?_append, this]
  · rw [if_neg hss]
    unfold contigsOf contigList
    have hb : ((s == s') = false) := by simp [hss]
    cases hf : ss.find? (fun x => x.name == s') with
    | none => simp [List.find?_append, hf, hb]
    | some y => simp [List.find?_append, hf]

theorem contigsOf_registerStored (ss : List Sample) (s c s' : Name) :
    contigsOf (registerStored ss s c) s'
      = if s = s' then (if c ∈ contigsOf ss s then contigsOf ss s else contigsOf ss s ++ [c])
        else contigsOf ss s' := by
  unfold registerStored
  by_cases h : s ∈ samplesList ss
  · rw [if_pos ((any_name_iff ss s).mpr h)]
    exact contigsOf_addToSample ss s c s' h
  · have : ¬ (ss.any (fun x => x.name == s) = true) := fun e => h ((any_name_iff ss s).mp e)
    rw [if_neg this, contigsOf_append_new ss s c s' h, contigsOf_not_mem ss s h]
    simp

/-! ### A sequence of registrations -/

/-- `registerAll` when every stored sample name is given explicitly. -/
def registerAllStored : List Sample → List (Name × Name) → List Sample
  | ss, [] => ss
  | ss, (s, c) :: r => registerAllStored (registerStored ss s c) r

theorem registerAll_nonempty (pairs : List (Name × Name)) : ∀ ss : List Sample,
    (∀ p ∈ pairs, p.1 ≠ []) → registerAll ss pairs = some (registerAllStored ss pairs) := by
  induction pairs with
  | nil => intro ss _; rfl
  | cons p r ih =>
    intro ss h
    obtain ⟨s, c⟩ := p
    have hs : s ≠ [] := h (s, c) (by simp)
    have hst : storedName s c = some s := by
      unfold storedName
      have : s.isEmpty = false := by cases s <;> simp_all
      rw [this]; rfl
    simp only [registerAll, register, hst, registerAllStored]
    exact ih _ (fun q hq => h q (by simp [hq]))

theorem samplesList_registerAllStored (pairs : List (Name × Name)) : ∀ ss : List Sample,
    samplesList (registerAllStored ss pairs) = accSeen (samplesList ss) (pairs.map Prod.fst) := by
  induction pairs with
  | nil => intro ss; simp [registerAllStored, accSeen]
  | cons p r ih =>
    intro ss
    obtain ⟨s, c⟩ := p
    simp only [registerAllStored, List.map_cons]
    rw [ih, samplesList_registerStored]
    simp [accSeen]

theorem contigsOf_registerAllStored (pairs : List (Name × Name)) (s' : Name) : ∀ ss : List Sample,
    contigsOf (registerAllStored ss pairs) s'
      = accSeen (contigsOf ss s') ((pairs.filter (fun p => p.1 = s')).map Prod.snd) := by
  induction pairs with
  | nil => intro ss; simp [registerAllStored, accSeen]
  | cons p r ih =>
    intro ss
    obtain ⟨s, c⟩ := p
    simp only [registerAllStored]
    rw [ih, contigsOf_registerStored]
    by_cases hss : s = s'
    · subst hss
      simp [accSeen]
    · simp [hss, accSeen]

end Ragc.Details
