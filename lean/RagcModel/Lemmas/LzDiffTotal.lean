import RagcModel.Model.LzDiff
/-!
C09: the encoder never panics with the real index. `encLoop` returns `none` only through an
out-of-range k-mer read; a supplier whose positions all leave room for a k-mer in the padded
reference (or are ≥ its length, which the code skips) cannot cause one, and the linear-probing
table built by `build_index_lp` only ever stores such positions.
-/
namespace Ragc.Model.LzDiff
open Ragc.Gen

/-- every proposed position is skipped (`h_pos >= reference.len()`) or leaves room for a k-mer. -/
def SupOK (S : UInt64 → List Nat) (refP : Array Nat) (k : Nat) : Prop :=
  ∀ code h, h ∈ S code → refP.size ≤ h ∨ h + k ≤ refP.size

theorem getCodeGo_ne_oob (a : Array Nat) : ∀ (n off : Nat) (code : UInt64), off + n ≤ a.size →
    getCodeGo a off n code ≠ .oob := by
  intro n
  induction n with
  | zero => intro off code _; simp [getCodeGo]
  | succ n ih =>
    intro off code h
    simp only [getCodeGo]
    have hlt : off < a.size := by omega
    rw [Array.getElem?_eq_getElem hlt]
    simp only
    split
    · simp
    · exact ih (off + 1) _ (by omega)

theorem getCode_ne_oob (a : Array Nat) (off k : Nat) (h : off + k ≤ a.size) : getCode a off k ≠ .oob :=
  getCodeGo_ne_oob a k off 0 h

theorem getCodeSkip1_ne_oob (prev : UInt64) (a : Array Nat) (off k : Nat) (hk : 1 ≤ k) (h : off + k ≤ a.size) :
    getCodeSkip1 prev a off k ≠ .oob := by
  unfold getCodeSkip1
  have hlt : off + (k - 1) < a.size := by omega
  rw [Array.getElem?_eq_getElem hlt]
  simp only
  split <;> simp

theorem nextCode_ne_oob (xprev : Option UInt64) (npl : Nat) (t : Array Nat) (i k : Nat) (hk : 1 ≤ k)
    (h : i + k ≤ t.size) : nextCode xprev npl t i k ≠ .oob := by
  unfold nextCode
  split
  · split
    · exact getCodeSkip1_ne_oob _ t i k hk h
    · exact getCode_ne_oob t i k h
  · exact getCode_ne_oob t i k h

theorem selectBest_ne_panic (mm k : Nat) (refP t : Array Nat) (code : UInt64) (ti maxLen npl : Nat) :
    ∀ (cands : List Nat) (b : Best), (∀ h, h ∈ cands → refP.size ≤ h ∨ h + k ≤ refP.size) →
      selectBest mm k refP t code ti maxLen npl cands b ≠ .panic := by
  intro cands
  induction cands with
  | nil =>
    intro b _
    simp only [selectBest]
    split <;> simp
  | cons hd tl ih =>
    intro b hc
    have htl : ∀ h, h ∈ tl → refP.size ≤ h ∨ h + k ≤ refP.size := fun h hh => hc h (by simp [hh])
    simp only [selectBest]
    split
    · exact ih b htl
    · next hsz =>
      split
      · next hoob =>
        have : hd + k ≤ refP.size := by
          rcases hc hd (by simp) with h | h
          · omega
          · exact h
        exact absurd hoob (getCode_ne_oob refP hd k this)
      · exact ih b htl
      · split
        · exact ih b htl
        · split
          · split
            · exact ih _ htl
            · exact ih b htl
          · exact ih b htl

/-- **The encoder loop is total for every well-behaved supplier.** -/
theorem encLoop_ne_none (S : UInt64 → List Nat) (mm : Nat) (hmm : lzHashingStep ≤ mm) (refP : Array Nat)
    (refLen : Nat) (t : Array Nat) (hS : SupOK S refP (keyLen mm))
    (i pred npl : Nat) (toks : List Tok) (xprev : Option UInt64) :
    encLoop S mm hmm refP refLen t i pred npl toks xprev ≠ none := by
  have hk : 1 ≤ keyLen mm := by unfold keyLen; omega
  fun_induction encLoop S mm hmm refP refLen t i pred npl toks xprev with
  | case1 i pred npl toks xprev hlt hx =>
    exact absurd hx (nextCode_ne_oob _ _ _ _ _ hk (by omega))
  | case2 i pred npl toks xprev hlt hx hn ih => exact ih
  | case3 i pred npl toks xprev hlt hx hn hc =>
    rw [Array.getElem?_eq_getElem (by omega)] at hc; cases hc
  | case4 i pred npl toks xprev hlt hx hn c hc ih => exact ih
  | case5 i pred npl toks xprev hlt code hx hf =>
    exact absurd hf (selectBest_ne_panic _ _ _ _ _ _ _ _ _ _ (hS code))
  | case6 i pred npl toks xprev hlt code hx hf hc =>
    rw [Array.getElem?_eq_getElem (by omega)] at hc; cases hc
  | case7 i pred npl toks xprev hlt code hx hf c hc ih => exact ih
  | case8 i pred npl toks xprev hlt code hx mpos bck fwd hf i' pred' toks' total amp tok toks'' ih =>
    exact ih
  | case9 i pred npl toks xprev hlt => simp

/-! ### the table only stores positions that leave room for a k-mer -/

/-- every slot is empty or `slot * HASHING_STEP + k < n` (`n` = padded reference length). -/
def TblOK (n k : Nat) (tbl : Array Nat) : Prop :=
  ∀ x, x ∈ tbl.toList → x = emptySlot ∨ x * lzHashingStep + k < n

theorem probeInsert_ok (n k : Nat) (v : Nat) (hv : v * lzHashingStep + k < n) :
    ∀ (tries : Nat) (tbl : Array Nat) (base j : Nat), TblOK n k tbl →
      TblOK n k (probeInsert tbl base v tries j) := by
  intro tries
  induction tries with
  | zero => intro tbl base j h; simpa [probeInsert] using h
  | succ tries ih =>
    intro tbl base j h
    simp only [probeInsert]
    split
    · intro x hx
      rw [Array.set!_eq_setIfInBounds, Array.toList_setIfInBounds] at hx
      rcases List.mem_or_eq_of_mem_set hx with hx | rfl
      · exact h x hx
      · exact Or.inr hv
    · exact ih tbl base (j + 1) h

theorem insertLoop_ok_tbl (refP : Array Nat) (k : Nat) (tbl : Array Nat) (i : Nat)
    (hi : i % lzHashingStep = 0) (h : TblOK refP.size k tbl) :
    TblOK refP.size k (insertLoop refP k tbl i) := by
  have h4 : 0 < lzHashingStep := by decide
  fun_induction insertLoop refP k tbl i with
  | case1 tbl i hlt code hc ih =>
    refine ih (by rw [Nat.add_mod_right]; exact hi) (probeInsert_ok _ _ _ ?_ _ _ _ _ h)
    have : i / lzHashingStep * lzHashingStep = i := Nat.div_mul_cancel (Nat.dvd_of_mod_eq_zero hi)
    omega
  | case2 tbl i hlt hc ih => exact ih (by rw [Nat.add_mod_right]; exact hi) h
  | case3 tbl i hlt => exact h

theorem buildIndex_ok (refP : Array Nat) (k : Nat) : TblOK refP.size k (buildIndex refP k) := by
  unfold buildIndex
  apply insertLoop_ok_tbl
  · exact Nat.zero_mod _
  · intro x hx
    rw [Array.toList_replicate, List.mem_replicate] at hx
    exact Or.inl hx.2

theorem probeLookup_ok (n k : Nat) (tbl : Array Nat) (htbl : TblOK n k tbl) (base : Nat) :
    ∀ (tries j : Nat) (h : Nat), h ∈ probeLookup tbl base tries j → h + k < n := by
  intro tries
  induction tries with
  | zero => intro j h hh; simp [probeLookup] at hh
  | succ tries ih =>
    intro j h hh
    simp only [probeLookup] at hh
    split at hh
    · simp at hh
    · next hne =>
      simp only [List.mem_cons] at hh
      rcases hh with rfl | hh
      · -- the slot read is a member of the table (otherwise `getD` gave the empty slot)
        rw [Array.getD_eq_getD_getElem?] at hne ⊢
        cases hget : tbl[(base + j) % tbl.size]? with
        | none => rw [hget] at hne; simp at hne
        | some x =>
          rw [hget] at hne
          simp only [Option.getD_some] at hne ⊢
          have hx : x ∈ tbl.toList := Array.mem_toList_iff.mpr (Array.mem_of_getElem? hget)
          rcases htbl x hx with h0 | h0
          · exact absurd h0 hne
          · exact h0
      · exact ih (j + 1) h hh

/-- the real index is a well-behaved supplier. -/
theorem exactSupplier_ok (mm : Nat) (refP : Array Nat) : SupOK (exactSupplier mm refP) refP (keyLen mm) := by
  intro code h hh
  right
  have := probeLookup_ok refP.size (keyLen mm) _ (buildIndex_ok refP (keyLen mm)) _ _ _ h hh
  omega

/-- **`LZDiff::encode` never panics** (model level) for `min_match_len ≥ HASHING_STEP`. -/
theorem encodeExact_isSome (mm : Nat) (ref tgt : List Nat) (hmm : lzHashingStep ≤ mm) :
    ∃ enc, encodeExact mm ref tgt = some enc := by
  rw [encodeExact_eq]
  unfold encode encodeToks
  rw [dif_pos hmm]
  split
  · exact ⟨_, rfl⟩
  · cases hl : encLoop (exactSupplier mm (padRef mm ref)) mm hmm (padRef mm ref) ref.length tgt.toArray 0 0 0 [] none with
    | none => exact absurd hl (encLoop_ne_none _ mm hmm _ _ _ (exactSupplier_ok mm _) _ _ _ _ _)
    | some res => exact ⟨_, rfl⟩

end Ragc.Model.LzDiff
