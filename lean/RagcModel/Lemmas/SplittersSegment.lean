import RagcModel.Lemmas.Segment
import RagcModel.Lemmas.SplittersSeg
/-!
Bridge between C10's model of `split_at_splitters_with_size` (`Model/Segment.lean`, split events
`cuts`, segments `build`) and C11's second pass (`findLoop`): the split events of the segmenter are
the loop picks of `findLoop isS 0`, and the interior segment lengths follow from the gaps.
-/
namespace Ragc.Splitters
open Ragc.Kmer Ragc.Segment

/-- The split events of `split_at_splitters_with_size` over the `Kmer` tracker are the loop picks
    of the second pass run with `segment_size = 0` and the splitter set as candidate test. -/
theorem cuts_eq_findLoop (isS : UInt64 → Bool) :
    ∀ (rest : List UInt8) (st : Kmer) (pos cl : Nat) (recent : List (Nat × UInt64)),
      (cuts kmerTracker isS true st pos rest).map (fun c => c.e)
        = ((findLoop isS 0 st cl recent pos (rest.map UInt8.toUInt64)).filter
            (fun p => !p.atEnd)).map (fun p => p.pos + 1) := by
  intro rest
  induction rest with
  | nil =>
    intro st pos cl recent
    rw [List.map_nil, findLoop]
    have e : (endPick isS recent).filter (fun p => !p.atEnd) = [] := by
      apply List.filter_eq_nil_iff.mpr
      intro p hp
      simp [(mem_endPick hp).2.1]
    rw [e]
    simp [cuts]
  | cons b rest ih =>
    intro st pos cl recent
    rw [List.map_cons, findLoop_cons]
    unfold cuts
    by_cases hb : b > 3
    · have hb' : b.toUInt64 > 3 := (u8_gt3_iff b).mpr hb
      rw [if_pos hb, if_pos hb']
      exact ih _ _ _ _
    · have hb' : ¬ b.toUInt64 > 3 := fun h => hb ((u8_gt3_iff b).mp h)
      rw [if_neg hb, if_neg hb']
      by_cases hf : isFull (insert st b.toUInt64) = true
      · by_cases hs : isS (data (insert st b.toUInt64)) = true
        · have hc : kmerTracker.isFull (kmerTracker.insert st b.toUInt64) = true
              ∧ isS (kmerTracker.data (kmerTracker.insert st b.toUInt64)) = true := ⟨hf, hs⟩
          have hp : (decide (cl ≥ 0) && isS (data (insert st b.toUInt64))) = true := by simp [hs]
          rw [if_pos hc, if_pos hf, if_pos hp]
          rw [List.filter_cons_of_pos (by simp), List.map_cons, List.map_cons]
          congr 1
          exact ih _ _ _ _
        · have hc : ¬ (kmerTracker.isFull (kmerTracker.insert st b.toUInt64) = true
              ∧ isS (kmerTracker.data (kmerTracker.insert st b.toUInt64)) = true) := fun h => hs h.2
          have hp : ¬ (decide (cl ≥ 0) && isS (data (insert st b.toUInt64))) = true := by simp [hs]
          rw [if_neg hc, if_pos hf, if_neg hp]
          exact ih _ _ _ _
      · have hc : ¬ (kmerTracker.isFull (kmerTracker.insert st b.toUInt64) = true
            ∧ isS (kmerTracker.data (kmerTracker.insert st b.toUInt64)) = true) := fun h => hf h.1
        rw [if_neg hc, if_neg hf]
        exact ih _ _ _ _

theorem finalSegments_length_le (ws : Bool) (contig : List UInt8) (s : Nat) (f : UInt64) (fd : Bool) :
    (finalSegments ws contig s f fd).length ≤ 1 := by
  unfold finalSegments
  by_cases h : s < contig.length
  · rw [if_pos h]
    by_cases h2 : (contig.drop s).isEmpty = true
    · simp [h2]
    · simp [h2]
  · rw [if_neg h]; simp

/-- Dropping the last two of `y :: B` leaves (at most) `y` and `B` without its last two. -/
theorem dropLast2_cons_subset {α : Type} (y : α) (B : List α) :
    ∀ x ∈ ((y :: B).dropLast).dropLast, x ∈ y :: (B.dropLast).dropLast := by
  match B with
  | [] => intro x hx; simp at hx
  | [b1] => intro x hx; simp at hx
  | [b1, b2] => intro x hx; simpa using hx
  | b1 :: b2 :: b3 :: B3 =>
    intro x hx
    simpa [List.dropLast_cons_cons] using hx

/-- Lengths of the segments cut after a split at `eprev`: every segment except the last two spans
    a gap of the (all but last) split positions plus the `k`-symbol overlap. -/
theorem build_interior_ge (k seg : Nat) (contig : List UInt8) :
    ∀ (tail : List Cut) (eprev : Nat) (f : UInt64) (fd : Bool), k ≤ eprev →
      (∀ c ∈ tail, c.e ≤ contig.length) →
      ((eprev :: tail.map (fun c => c.e)).dropLast).Pairwise (fun a b => a + seg ≤ b) →
      ∀ x ∈ ((build true k contig (eprev - k) f fd tail).dropLast).dropLast,
        seg + k ≤ x.data.length := by
  intro tail
  induction tail with
  | nil =>
    intro eprev f fd _ _ _ x hx
    exfalso
    have h1 := finalSegments_length_le true contig (eprev - k) f fd
    have : ((build true k contig (eprev - k) f fd []).dropLast).dropLast = [] := by
      apply List.eq_nil_of_length_eq_zero
      simp only [build, List.length_dropLast]; omega
    rw [this] at hx; cases hx
  | cons c tail ih =>
    intro eprev f fd hk hle hpw x hx
    cases tail with
    | nil =>
      exfalso
      have h1 := finalSegments_length_le true contig (c.e - k) c.v c.d
      have : ((build true k contig (eprev - k) f fd [c]).dropLast).dropLast = [] := by
        apply List.eq_nil_of_length_eq_zero
        simp only [build, List.length_dropLast, List.length_cons]; omega
      rw [this] at hx; cases hx
    | cons c' t =>
      -- gaps: eprev + seg ≤ c.e, and the rest of the chain
      have hpw' : (eprev :: (c.e :: (c'.e :: t.map (fun c => c.e)).dropLast)).Pairwise
          (fun a b => a + seg ≤ b) := by
        simpa [List.dropLast_cons_cons] using hpw
      have hgap : eprev + seg ≤ c.e := List.rel_of_pairwise_cons hpw' List.mem_cons_self
      have hrest : ((c.e :: (c' :: t).map (fun c => c.e)).dropLast).Pairwise
          (fun a b => a + seg ≤ b) := by
        have := (List.pairwise_cons.mp hpw').2
        simpa [List.dropLast_cons_cons] using this
      have hce : c.e ≤ contig.length := hle c List.mem_cons_self
      have hIH := ih c.e c.v c.d (by omega)
        (fun d hd => hle d (List.mem_cons_of_mem _ hd)) hrest
      -- unfold one step of `build`
      obtain ⟨y, hy, hb⟩ : ∃ y : Segment,
          y.data = (contig.drop (eprev - k)).take (c.e - (eprev - k))
          ∧ build true k contig (eprev - k) f fd (c :: c' :: t)
              = y :: build true k contig (c.e - k) c.v c.d (c' :: t) := ⟨_, rfl, rfl⟩
      rw [hb] at hx
      have hx' : x ∈ y :: ((build true k contig (c.e - k) c.v c.d (c' :: t)).dropLast).dropLast := by
        exact dropLast2_cons_subset y _ x hx
      rcases List.mem_cons.mp hx' with rfl | hx''
      · rw [hy, List.length_take, List.length_drop]
        omega
      · exact hIH x hx''

theorem cutsOK_le {k len : Nat} : ∀ (cs : List Cut) (lo : Nat), CutsOK k len lo cs →
    ∀ c ∈ cs, k ≤ c.e ∧ c.e ≤ len := by
  intro cs
  induction cs with
  | nil => intro lo _ c hc; cases hc
  | cons d ds ih =>
    intro lo h c hc
    rcases List.mem_cons.mp hc with rfl | hc
    · exact ⟨h.2.1, h.2.2.1⟩
    · exact ih d.e h.2.2.2 c hc

/-- From the gaps between split positions to the interior segment lengths of
    `split_at_splitters_with_size` (C10 model). -/
theorem split_interior_ge (isS : UInt64 → Bool) (k seg : Nat) (h1 : 1 ≤ k) (h32 : k ≤ 32)
    (contig : List UInt8) (segs : List Segment)
    (hs : splitAtSplittersWithSize contig isS k seg = some segs)
    (hgap : ((((findPicks isS k 0 (contig.map UInt8.toUInt64)).filter (fun p => !p.atEnd)).map
        Pick.pos).dropLast).Pairwise (fun a b => a + seg ≤ b)) :
    ∀ x ∈ ((segs.drop 1).dropLast).dropLast, seg + k ≤ x.data.length := by
  unfold splitAtSplittersWithSize at hs
  rw [splitConcrete_eq true contig isS k h1 h32,
    splitGeneric_eq kmerTracker (new k) isS true k contig h1] at hs
  have hs' := (Option.some.inj hs).symm
  by_cases hl : contig.length < k
  · rw [if_pos hl] at hs'
    intro x hx
    rw [hs'] at hx
    simp at hx
  · rw [if_neg hl] at hs'
    have hE := cuts_eq_findLoop isS contig (new k) 0 0 []
    have hok := cutsOK_le _ _ (cuts_ok (kmer_window k) isS true contig (new k) 0 (kmer_init k))
    -- gaps between all but the last split end positions
    have hgapE : (((cuts kmerTracker isS true (new k) 0 contig).map (fun c => c.e)).dropLast).Pairwise
        (fun a b => a + seg ≤ b) := by
      rw [hE]
      have : ((findLoop isS 0 (new k) 0 [] 0 (contig.map UInt8.toUInt64)).filter
          (fun p => !p.atEnd)).map (fun p => p.pos + 1)
          = (((findPicks isS k 0 (contig.map UInt8.toUInt64)).filter (fun p => !p.atEnd)).map
              Pick.pos).map (· + 1) := by
        rw [List.map_map]; rfl
      rw [this, ← List.map_dropLast, List.pairwise_map]
      exact hgap.imp (fun h => by omega)
    generalize cuts kmerTracker isS true (new k) 0 contig = cl at hs' hok hgapE
    intro x hx
    cases cl with
    | nil =>
      exfalso
      have := finalSegments_length_le true contig 0 MISSING_KMER false
      rw [hs'] at hx
      have h0 : (((build true k contig 0 MISSING_KMER false []).drop 1).dropLast).dropLast = [] := by
        apply List.eq_nil_of_length_eq_zero
        simp only [build, List.length_dropLast, List.length_drop]; omega
      rw [h0] at hx; cases hx
    | cons c1 tail =>
      have hb : build true k contig 0 MISSING_KMER false (c1 :: tail)
          = _ :: build true k contig (c1.e - k) c1.v c1.d tail := rfl
      rw [hs', hb, List.drop_succ_cons, List.drop_zero] at hx
      have hc1 := hok c1 List.mem_cons_self
      exact build_interior_ge k seg contig tail c1.e c1.v c1.d hc1.1
        (fun c hc => by have := (hok c (List.mem_cons_of_mem _ hc)).2; omega)
        (by simpa using hgapE) x hx

end Ragc.Splitters
