import RagcModel.Model.Splitters
/-!
Helper lemmas for C11 (splitter selection): run scanning of a sorted list, binary search,
the second pass (`findLoop`), and the window specification used for strand invariance.
-/
namespace Ragc.Splitters
open Ragc.Kmer

/-- Sorted in the sense of the radix sort's result. -/
abbrev Sorted (l : List UInt64) : Prop := l.Pairwise (· ≤ ·)

/-! ## UInt64 order, via `toNat` -/

theorem u64_le_antisymm {a b : UInt64} (h1 : a ≤ b) (h2 : b ≤ a) : a = b := by
  apply UInt64.toNat_inj.mp
  have := UInt64.le_iff_toNat_le.mp h1
  have := UInt64.le_iff_toNat_le.mp h2
  omega

theorem u64_lt_of_le_of_ne {a b : UInt64} (h1 : a ≤ b) (h2 : b ≠ a) : a < b := by
  apply UInt64.lt_iff_toNat_lt.mpr
  have := UInt64.le_iff_toNat_le.mp h1
  have : b.toNat ≠ a.toNat := fun h => h2 (UInt64.toNat_inj.mp h)
  omega

theorem u64_not_le_of_lt {a b : UInt64} (h : a < b) : ¬ b ≤ a := by
  intro h2
  have := UInt64.lt_iff_toNat_lt.mp h
  have := UInt64.le_iff_toNat_le.mp h2
  omega

theorem u64_lt_of_lt_of_le {a b c : UInt64} (h1 : a < b) (h2 : b ≤ c) : a < c := by
  apply UInt64.lt_iff_toNat_lt.mpr
  have := UInt64.lt_iff_toNat_lt.mp h1
  have := UInt64.le_iff_toNat_le.mp h2
  omega

theorem u64_le_trans {a b c : UInt64} (h1 : a ≤ b) (h2 : b ≤ c) : a ≤ c := by
  apply UInt64.le_iff_toNat_le.mpr
  have := UInt64.le_iff_toNat_le.mp h1
  have := UInt64.le_iff_toNat_le.mp h2
  omega

theorem u64_le_total (a b : UInt64) : a ≤ b ∨ b ≤ a := by
  rcases Nat.le_total a.toNat b.toNat with h | h
  · exact Or.inl (UInt64.le_iff_toNat_le.mpr h)
  · exact Or.inr (UInt64.le_iff_toNat_le.mpr h)

theorem u64_lt_irrefl (a : UInt64) : ¬ a < a := by
  intro h
  have := UInt64.lt_iff_toNat_lt.mp h
  omega

/-! ## Run scanning -/

theorem mem_emitRun {keep : Nat → Bool} {x z : UInt64} {c : Nat} :
    z ∈ emitRun keep x c ↔ z = x ∧ keep c = true := by
  unfold emitRun
  by_cases h : keep c = true
  · simp [h]
  · simp [h]

/-- In a sorted list starting with `x < y`, `x` does not occur after `y`. -/
theorem not_mem_of_sorted_lt {x y : UInt64} {ys : List UInt64} (hs : Sorted (y :: ys))
    (hxy : x < y) : x ∉ y :: ys := by
  intro hm
  rcases List.mem_cons.mp hm with rfl | hm
  · exact u64_lt_irrefl _ hxy
  · have := List.rel_of_pairwise_cons hs hm
    exact u64_not_le_of_lt hxy this

/-- Membership in the result of the run scan: `z` is emitted iff the length of its run
    (`c` already counted elements for the current value `x`) satisfies `keep`. -/
theorem mem_scanRuns (keep : Nat → Bool) :
    ∀ (ys : List UInt64) (x : UInt64) (c : Nat), Sorted (x :: ys) → ∀ z,
      (z ∈ scanRuns keep x c ys ↔
        (z = x ∧ keep (c + ys.count x) = true) ∨ (z ≠ x ∧ z ∈ ys ∧ keep (ys.count z) = true)) := by
  intro ys
  induction ys with
  | nil =>
    intro x c _ z
    simp [scanRuns, mem_emitRun]
  | cons y ys ih =>
    intro x c hs z
    have hs' : Sorted (y :: ys) := (List.pairwise_cons.mp hs).2
    have hxy : x ≤ y := List.rel_of_pairwise_cons hs List.mem_cons_self
    unfold scanRuns
    by_cases hyx : y = x
    · subst hyx
      rw [if_pos rfl]
      have hs2 : Sorted (y :: ys) := hs'
      rw [ih y (c + 1) hs2 z]
      have e1 : c + 1 + List.count y ys = c + List.count y (y :: ys) := by
        rw [List.count_cons_self]; omega
      rw [e1]
      by_cases hz : z = y
      · subst hz; simp
      · have e2 : List.count z (z :: ys) = List.count z ys + 1 := List.count_cons_self
        have e3 : List.count z (y :: ys) = List.count z ys := by
          rw [List.count_cons_of_ne (fun h => hz h.symm)]
        simp [hz, e3]
    · rw [if_neg hyx]
      have hlt : x < y := u64_lt_of_le_of_ne hxy hyx
      have hnx : x ∉ y :: ys := not_mem_of_sorted_lt hs' hlt
      have hc0 : List.count x (y :: ys) = 0 := List.count_eq_zero.mpr hnx
      rw [List.mem_append, mem_emitRun, ih y 1 hs' z, hc0, Nat.add_zero]
      by_cases hz : z = x
      · subst hz
        have hzy : z ≠ y := fun h => hyx h.symm
        have hnz : z ∉ ys := fun h => hnx (List.mem_cons_of_mem _ h)
        simp [hzy, hnz]
      · by_cases hzy : z = y
        · subst hzy
          have e : 1 + List.count z ys = List.count z (z :: ys) := by
            rw [List.count_cons_self]; omega
          simp [hz, e]
        · have e3 : List.count z (y :: ys) = List.count z ys := by
            rw [List.count_cons_of_ne (fun h => hzy h.symm)]
          simp [hz, hzy, e3]

/-- The result of the run scan is strictly increasing and bounded below by the current value. -/
theorem scanRuns_sorted (keep : Nat → Bool) :
    ∀ (ys : List UInt64) (x : UInt64) (c : Nat), Sorted (x :: ys) →
      (scanRuns keep x c ys).Pairwise (· < ·) ∧ ∀ z ∈ scanRuns keep x c ys, x ≤ z := by
  intro ys
  induction ys with
  | nil =>
    intro x c _
    unfold scanRuns emitRun
    by_cases h : keep c = true
    · simp [h]
    · simp [h]
  | cons y ys ih =>
    intro x c hs
    have hs' : Sorted (y :: ys) := (List.pairwise_cons.mp hs).2
    have hxy : x ≤ y := List.rel_of_pairwise_cons hs List.mem_cons_self
    unfold scanRuns
    by_cases hyx : y = x
    · subst hyx
      rw [if_pos rfl]
      exact ih y (c + 1) hs'
    · rw [if_neg hyx]
      have hlt : x < y := u64_lt_of_le_of_ne hxy hyx
      obtain ⟨hp, hb⟩ := ih y 1 hs'
      constructor
      · rw [List.pairwise_append]
        refine ⟨?_, hp, ?_⟩
        · unfold emitRun; by_cases h : keep c = true <;> simp [h]
        · intro a ha b hb'
          rw [mem_emitRun] at ha
          rw [ha.1]
          exact u64_lt_of_lt_of_le hlt (hb b hb')
      · intro z hz
        rcases List.mem_append.mp hz with h | h
        · rw [mem_emitRun] at h; rw [h.1]; exact UInt64.le_refl _
        · exact u64_le_trans hxy (hb z h)

/-- `scanRuns2` computes both scans at once. -/
theorem scanRuns2_eq : ∀ (ys : List UInt64) (x : UInt64) (c : Nat), 1 ≤ c →
    scanRuns2 x c ys
      = (scanRuns (fun c => c == 1) x c ys, scanRuns (fun c => decide (c > 1)) x c ys) := by
  intro ys
  induction ys with
  | nil =>
    intro x c hc
    unfold scanRuns2 scanRuns emitRun
    by_cases h : c = 1
    · subst h; simp
    · have h2 : c > 1 := by omega
      simp [h, h2]
  | cons y ys ih =>
    intro x c hc
    unfold scanRuns2 scanRuns
    by_cases hyx : y = x
    · rw [if_pos hyx, if_pos hyx, if_pos hyx]
      exact ih x (c + 1) (by omega)
    · rw [if_neg hyx, if_neg hyx, if_neg hyx]
      simp only [ih y 1 (Nat.le_refl 1)]
      unfold emitRun
      by_cases h : c = 1
      · subst h; simp
      · have h2 : c > 1 := by omega
        simp [h, h2]

/-! ## Sorting -/

theorem sortKmers_perm (l : List UInt64) : (sortKmers l).Perm l :=
  List.mergeSort_perm l _

theorem sortKmers_sorted (l : List UInt64) : Sorted (sortKmers l) := by
  have h := List.pairwise_mergeSort (le := fun (a b : UInt64) => decide (a ≤ b))
    (fun a b c hab hbc => by
      simp only [decide_eq_true_eq] at hab hbc ⊢
      exact u64_le_trans hab hbc)
    (fun a b => by
      simp only [Bool.or_eq_true, decide_eq_true_eq]
      exact u64_le_total a b) l
  unfold sortKmers
  exact h.imp (fun h => by simpa using h)

/-- The sorted permutation is unique: permuted inputs sort to the same list. -/
theorem sortKmers_congr {l₁ l₂ : List UInt64} (h : l₁.Perm l₂) : sortKmers l₁ = sortKmers l₂ := by
  have hp : (sortKmers l₁).Perm (sortKmers l₂) :=
    (sortKmers_perm l₁).trans (h.trans (sortKmers_perm l₂).symm)
  exact List.Perm.eq_of_pairwise (le := fun (a b : UInt64) => a ≤ b)
    (fun a b _ _ h1 h2 => u64_le_antisymm h1 h2) (sortKmers_sorted l₁) (sortKmers_sorted l₂) hp

/-! ## Binary search -/

/-- Soundness: a hit is an element of the array. -/
theorem bsearch_sound (a : Array UInt64) (x : UInt64) :
    ∀ (lo hi : Nat), bsearch a x lo hi = true → x ∈ a.toList := by
  intro lo hi
  induction lo, hi using bsearch.induct a x with
  | case1 lo hi h mid hm heq =>
    intro _
    rw [← heq]
    exact Array.getElem_mem_toList hm
  | case2 lo hi h mid hm hne hlt ih =>
    intro hb
    rw [bsearch] at hb
    simp only [h, ↓reduceDIte] at hb
    apply ih
    simpa [mid, hm, hne, hlt] using hb
  | case3 lo hi h mid hm hne hlt ih =>
    intro hb
    rw [bsearch] at hb
    simp only [h, ↓reduceDIte] at hb
    apply ih
    simpa [mid, hm, hne, hlt] using hb
  | case4 lo hi h mid hm =>
    intro hb
    rw [bsearch] at hb
    simp [h, mid, hm] at hb
  | case5 lo hi h =>
    intro hb
    rw [bsearch] at hb
    simp [h] at hb

theorem memSorted_sound {a : Array UInt64} {x : UInt64} (h : memSorted a x = true) :
    x ∈ a.toList := bsearch_sound a x 0 a.size h

/-- Completeness on a sorted array: every element in range is found. -/
theorem bsearch_complete (a : Array UInt64) (x : UInt64)
    (hs : ∀ (i j : Nat) (hi : i < a.size) (hj : j < a.size), i ≤ j → a[i] ≤ a[j]) :
    ∀ (lo hi : Nat), hi ≤ a.size →
      (∃ (i : Nat) (h : i < a.size), lo ≤ i ∧ i < hi ∧ a[i] = x) → bsearch a x lo hi = true := by
  intro lo hi
  induction lo, hi using bsearch.induct a x with
  | case1 lo hi h mid hm heq =>
    intro _ _
    rw [bsearch]
    simp only [h, ↓reduceDIte]
    simp [mid, hm, heq]
  | case2 lo hi h mid hm hne hlt ih =>
    intro hhi ⟨i, hi', hlo, hih, hx⟩
    rw [bsearch]
    simp only [h, ↓reduceDIte]
    have : bsearch a x (mid + 1) hi = true := by
      apply ih hhi
      refine ⟨i, hi', ?_, hih, hx⟩
      rcases Nat.lt_or_ge mid i with g | g
      · exact g
      · exfalso
        have h1 : a[i] ≤ a[mid] := hs i mid hi' hm g
        rw [hx] at h1
        exact u64_not_le_of_lt hlt h1
    simpa [mid, hm, hne, hlt] using this
  | case3 lo hi h mid hm hne hlt ih =>
    intro hhi ⟨i, hi', hlo, hih, hx⟩
    rw [bsearch]
    simp only [h, ↓reduceDIte]
    have : bsearch a x lo mid = true := by
      apply ih (by omega)
      refine ⟨i, hi', hlo, ?_, hx⟩
      rcases Nat.lt_or_ge i mid with g | g
      · exact g
      · exfalso
        have h1 : a[mid] ≤ a[i] := hs mid i hm hi' g
        rw [hx] at h1
        exact hlt (u64_lt_of_le_of_ne h1 (fun e => hne e.symm))
    simpa [mid, hm, hne, hlt] using this
  | case4 lo hi h mid hm =>
    intro hhi _
    exfalso
    omega
  | case5 lo hi h =>
    intro _ ⟨i, _, hlo, hih, _⟩
    exfalso
    omega

/-- For a sorted candidate list, `memSorted` on its array is exactly list membership
    (the behaviour of `AHashSet::contains` on the candidate set). -/
theorem memSorted_iff {l : List UInt64} (hs : Sorted l) (x : UInt64) :
    memSorted l.toArray x = true ↔ x ∈ l := by
  constructor
  · intro h
    have := memSorted_sound h
    simpa using this
  · intro hx
    unfold memSorted
    apply bsearch_complete
    · intro i j hi hj hij
      simp only [List.size_toArray] at hi hj
      simp only [List.getElem_toArray]
      rcases Nat.lt_or_ge i j with g | g
      · exact (List.pairwise_iff_getElem.mp hs) i j hi hj g
      · have : i = j := by omega
        subst this
        exact UInt64.le_refl _
    · exact Nat.le_refl _
    · obtain ⟨i, hi, hxi⟩ := List.getElem_of_mem hx
      exact ⟨i, by simpa using hi, Nat.zero_le _, by simpa using hi, by simpa using hxi⟩

/-! ## The second pass -/

theorem mem_endPick {isCand : UInt64 → Bool} :
    ∀ {recent : List (Nat × UInt64)} {p : Pick}, p ∈ endPick isCand recent →
      isCand p.kmer = true ∧ p.atEnd = true ∧ (p.pos, p.kmer) ∈ recent := by
  intro recent
  induction recent with
  | nil => intro p h; simp [endPick] at h
  | cons r rest ih =>
    intro p h
    obtain ⟨q, v⟩ := r
    unfold endPick at h
    by_cases hc : isCand v = true
    · rw [if_pos hc] at h
      have : p = ⟨q, v, true⟩ := by simpa using h
      subst this
      exact ⟨hc, rfl, List.mem_cons_self⟩
    · rw [if_neg hc] at h
      obtain ⟨h1, h2, h3⟩ := ih h
      exact ⟨h1, h2, List.mem_cons_of_mem _ h3⟩

theorem endPick_length_le (isCand : UInt64 → Bool) :
    ∀ (recent : List (Nat × UInt64)), (endPick isCand recent).length ≤ 1 := by
  intro recent
  induction recent with
  | nil => simp [endPick]
  | cons r rest ih =>
    obtain ⟨q, v⟩ := r
    unfold endPick
    by_cases hc : isCand v = true
    · rw [if_pos hc]; simp
    · rw [if_neg hc]; exact ih

/-- One unfolding of the loop body, as an equation (the `if` ladder of the Rust loop). -/
theorem findLoop_cons (isCand : UInt64 → Bool) (seg : Nat) (km : Kmer) (cl : Nat)
    (recent : List (Nat × UInt64)) (pos : Nat) (b : UInt64) (bs : List UInt64) :
    findLoop isCand seg km cl recent pos (b :: bs) =
      if b > 3 then findLoop isCand seg (reset km) (cl + 1) [] (pos + 1) bs
      else if isFull (insert km b) then
        if (decide (cl ≥ seg) && isCand (data (insert km b))) = true then
          ⟨pos, data (insert km b), false⟩ ::
            findLoop isCand seg (reset (insert km b)) 1 [] (pos + 1) bs
        else findLoop isCand seg (insert km b) (cl + 1) ((pos, data (insert km b)) :: recent)
          (pos + 1) bs
      else findLoop isCand seg (insert km b) (cl + 1) recent (pos + 1) bs := by
  rw [findLoop]

/-- Every pick (loop or end rule) passed the `candidates.contains` test. -/
theorem findLoop_isCand (isCand : UInt64 → Bool) (seg : Nat) :
    ∀ (bs : List UInt64) (km : Kmer) (cl : Nat) (recent : List (Nat × UInt64)) (pos : Nat),
      ∀ p ∈ findLoop isCand seg km cl recent pos bs, isCand p.kmer = true := by
  intro bs
  induction bs with
  | nil =>
    intro km cl recent pos p hp
    rw [findLoop] at hp
    exact (mem_endPick hp).1
  | cons b bs ih =>
    intro km cl recent pos p hp
    rw [findLoop_cons] at hp
    split at hp
    · exact ih _ _ _ _ p hp
    · split at hp
      · split at hp
        · rename_i hc
          rcases List.mem_cons.mp hp with rfl | hp
          · simp only [Bool.and_eq_true] at hc
            exact hc.2
          · exact ih _ _ _ _ p hp
        · exact ih _ _ _ _ p hp
      · exact ih _ _ _ _ p hp

/-- The invariant of `current_len` and `pos`:
    * a loop pick at `p.pos` needs `current_len ≥ segment_size` there, and `current_len` grows by
      one per base from its present value `cl`;
    * entries of `recent_kmers` are older than `pos`; the end pick is one of them or later;
    * loop picks are pairwise at least `segment_size` apart. -/
theorem findLoop_spacing (isCand : UInt64 → Bool) (seg : Nat) :
    ∀ (bs : List UInt64) (km : Kmer) (cl : Nat) (recent : List (Nat × UInt64)) (pos : Nat),
      (∀ p ∈ findLoop isCand seg km cl recent pos bs, p.atEnd = false →
          pos + seg ≤ p.pos + cl ∧ pos ≤ p.pos ∧ p.pos < pos + bs.length)
      ∧ ((findLoop isCand seg km cl recent pos bs).filter (fun p => !p.atEnd)).Pairwise
          (fun a b => a.pos + seg ≤ b.pos) := by
  intro bs
  induction bs with
  | nil =>
    intro km cl recent pos
    rw [findLoop]
    constructor
    · intro p hp hf
      have := (mem_endPick hp).2.1
      rw [this] at hf; cases hf
    · have : (endPick isCand recent).filter (fun p => !p.atEnd) = [] := by
        apply List.filter_eq_nil_iff.mpr
        intro p hp
        simp [(mem_endPick hp).2.1]
      rw [this]; exact List.Pairwise.nil
  | cons b bs ih =>
    intro km cl recent pos
    rw [findLoop_cons]
    split
    · obtain ⟨h1, h2⟩ := ih (reset km) (cl + 1) [] (pos + 1)
      refine ⟨fun p hp hf => ?_, h2⟩
      have := h1 p hp hf
      simp only [List.length_cons]; omega
    · split
      · split
        · rename_i hc
          simp only [Bool.and_eq_true, decide_eq_true_eq] at hc
          obtain ⟨h1, h2⟩ := ih (reset (insert km b)) 1 [] (pos + 1)
          constructor
          · intro p hp hf
            rcases List.mem_cons.mp hp with rfl | hp
            · simp only [List.length_cons]; omega
            · have := h1 p hp hf
              simp only [List.length_cons]; omega
          · rw [List.filter_cons_of_pos (by simp)]
            rw [List.pairwise_cons]
            refine ⟨fun q hq => ?_, h2⟩
            have hq' := List.mem_filter.mp hq
            have := h1 q hq'.1 (by simpa using hq'.2)
            show pos + seg ≤ q.pos
            omega
        · obtain ⟨h1, h2⟩ := ih (insert km b) (cl + 1) ((pos, data (insert km b)) :: recent) (pos + 1)
          refine ⟨fun p hp hf => ?_, h2⟩
          have := h1 p hp hf
          simp only [List.length_cons]; omega
      · obtain ⟨h1, h2⟩ := ih (insert km b) (cl + 1) recent (pos + 1)
        refine ⟨fun p hp hf => ?_, h2⟩
        have := h1 p hp hf
        simp only [List.length_cons]; omega

/-- An end pick is an entry of `recent_kmers`, hence not older than any lower bound on those. -/
theorem endPick_lower (isCand : UInt64 → Bool) (seg : Nat) :
    ∀ (bs : List UInt64) (km : Kmer) (cl : Nat) (recent : List (Nat × UInt64)) (pos L : Nat),
      L ≤ pos → (∀ r ∈ recent, L ≤ r.1) →
      ∀ e ∈ findLoop isCand seg km cl recent pos bs, e.atEnd = true → L ≤ e.pos := by
  intro bs
  induction bs with
  | nil =>
    intro km cl recent pos L _ hr e he _
    rw [findLoop] at he
    exact hr _ (mem_endPick he).2.2
  | cons b bs ih =>
    intro km cl recent pos L hL hr e he hat
    rw [findLoop_cons] at he
    split at he
    · exact ih _ _ _ _ L (by omega) (by simp) e he hat
    · split at he
      · split at he
        · rcases List.mem_cons.mp he with rfl | he
          · cases hat
          · exact ih _ _ _ _ L (by omega) (by simp) e he hat
        · refine ih _ _ _ _ L (by omega) ?_ e he hat
          intro r hr'
          rcases List.mem_cons.mp hr' with rfl | hr'
          · exact hL
          · exact hr r hr'
      · exact ih _ _ _ _ L (by omega) hr e he hat

/-- Shape of the result: loop picks first, then at most one end pick, which lies strictly after
    every loop pick and before the end of the contig (given that `recent` only holds earlier
    positions after the last loop pick). -/
theorem findLoop_shape (isCand : UInt64 → Bool) (seg : Nat) :
    ∀ (bs : List UInt64) (km : Kmer) (cl : Nat) (recent : List (Nat × UInt64)) (pos : Nat),
      (∀ r ∈ recent, r.1 < pos) →
      ∃ (loopPicks endPicks : List Pick),
        findLoop isCand seg km cl recent pos bs = loopPicks ++ endPicks
        ∧ (∀ p ∈ loopPicks, p.atEnd = false) ∧ (∀ e ∈ endPicks, e.atEnd = true)
        ∧ endPicks.length ≤ 1
        ∧ (∀ e ∈ endPicks, e.pos < pos + bs.length ∧ ∀ p ∈ loopPicks, p.pos < e.pos) := by
  intro bs
  induction bs with
  | nil =>
    intro km cl recent pos hr
    refine ⟨[], endPick isCand recent, by rw [findLoop]; rfl, by simp,
      fun e he => (mem_endPick he).2.1, endPick_length_le _ _, fun e he => ⟨?_, by simp⟩⟩
    have := hr _ (mem_endPick he).2.2
    simpa using this
  | cons b bs ih =>
    intro km cl recent pos hr
    rw [findLoop_cons]
    split
    · obtain ⟨lp, ep, h1, h2, h3, h4, h5⟩ := ih (reset km) (cl + 1) [] (pos + 1) (by simp)
      refine ⟨lp, ep, h1, h2, h3, h4, fun e he => ⟨?_, (h5 e he).2⟩⟩
      have := (h5 e he).1; simp only [List.length_cons]; omega
    · split
      · split
        · obtain ⟨lp, ep, h1, h2, h3, h4, h5⟩ :=
            ih (reset (insert km b)) 1 [] (pos + 1) (by simp)
          refine ⟨⟨pos, data (insert km b), false⟩ :: lp, ep, by rw [h1]; rfl, ?_, h3, h4, ?_⟩
          · intro p hp
            rcases List.mem_cons.mp hp with rfl | hp
            · rfl
            · exact h2 p hp
          · intro e he
            refine ⟨by have := (h5 e he).1; simp only [List.length_cons]; omega, ?_⟩
            intro p hp
            rcases List.mem_cons.mp hp with rfl | hp
            · -- the end pick comes from `recent`, which was cleared at this pick
              have hmem : e ∈ findLoop isCand seg (reset (insert km b)) 1 [] (pos + 1) bs := by
                rw [h1]; exact List.mem_append_right _ he
              have := endPick_lower isCand seg bs _ _ _ _ (pos + 1) (Nat.le_refl _) (by simp) e hmem (h3 e he)
              show pos < e.pos
              omega
            · exact (h5 e he).2 p hp
        · obtain ⟨lp, ep, h1, h2, h3, h4, h5⟩ :=
            ih (insert km b) (cl + 1) ((pos, data (insert km b)) :: recent) (pos + 1) (by
              intro r hr'
              rcases List.mem_cons.mp hr' with rfl | hr'
              · simp
              · have := hr r hr'; omega)
          refine ⟨lp, ep, h1, h2, h3, h4, fun e he => ⟨?_, (h5 e he).2⟩⟩
          have := (h5 e he).1; simp only [List.length_cons]; omega
      · obtain ⟨lp, ep, h1, h2, h3, h4, h5⟩ :=
          ih (insert km b) (cl + 1) recent (pos + 1) (fun r hr' => by have := hr r hr'; omega)
        refine ⟨lp, ep, h1, h2, h3, h4, fun e he => ⟨?_, (h5 e he).2⟩⟩
        have := (h5 e he).1; simp only [List.length_cons]; omega

/-! ## The three result sets of `determineSplitters` -/

theorem mem_removeNonSingletons {l : List UInt64} (hs : Sorted l) (z : UInt64) :
    z ∈ removeNonSingletons l ↔ l.count z = 1 := by
  cases l with
  | nil => simp [removeNonSingletons]
  | cons x xs =>
    unfold removeNonSingletons
    rw [mem_scanRuns _ xs x 1 hs z]
    by_cases hz : z = x
    · subst hz
      rw [List.count_cons_self]
      simp
    · rw [List.count_cons_of_ne (fun h => hz h.symm)]
      simp only [hz, false_and, ne_eq, not_false_eq_true, true_and, false_or, beq_iff_eq]
      constructor
      · exact fun h => h.2
      · intro h
        exact ⟨List.count_pos_iff.mp (by omega), h⟩

theorem mem_duplicatesOf {l : List UInt64} (hs : Sorted l) (z : UInt64) :
    z ∈ duplicatesOf l ↔ 2 ≤ l.count z := by
  cases l with
  | nil => simp [duplicatesOf]
  | cons x xs =>
    unfold duplicatesOf
    rw [mem_scanRuns _ xs x 1 hs z]
    by_cases hz : z = x
    · subst hz
      rw [List.count_cons_self]
      simp
    · rw [List.count_cons_of_ne (fun h => hz h.symm)]
      simp only [hz, false_and, ne_eq, not_false_eq_true, true_and, false_or, decide_eq_true_eq]
      constructor
      · intro h; exact h.2
      · intro h
        exact ⟨List.count_pos_iff.mp (by omega), h⟩

theorem removeNonSingletons_strict {l : List UInt64} (hs : Sorted l) :
    (removeNonSingletons l).Pairwise (· < ·) := by
  cases l with
  | nil => simp [removeNonSingletons]
  | cons x xs => exact (scanRuns_sorted _ xs x 1 hs).1

theorem duplicatesOf_strict {l : List UInt64} (hs : Sorted l) :
    (duplicatesOf l).Pairwise (· < ·) := by
  cases l with
  | nil => simp [duplicatesOf]
  | cons x xs => exact (scanRuns_sorted _ xs x 1 hs).1

theorem removeNonSingletonsWithDuplicates_eq (l : List UInt64) :
    removeNonSingletonsWithDuplicates l = (removeNonSingletons l, duplicatesOf l) := by
  cases l with
  | nil => rfl
  | cons x xs => exact scanRuns2_eq xs x 1 (Nat.le_refl 1)

/-- The second and third component of the result, spelled out. -/
theorem determineSplitters_snd (cs : List (List UInt64)) (k seg : Nat) :
    (determineSplitters cs k seg).2
      = (removeNonSingletons (sortKmers (allKmers cs k)), duplicatesOf (sortKmers (allKmers cs k))) :=
  rfl

theorem determineSplitters_fst (cs : List (List UInt64)) (k seg : Nat) :
    (determineSplitters cs k seg).1
      = cs.flatMap (findSplittersInContig
          (memSorted (removeNonSingletons (sortKmers (allKmers cs k))).toArray) k seg) :=
  rfl

theorem allKmers_cons (c : List UInt64) (cs : List (List UInt64)) (k : Nat) :
    allKmers (c :: cs) k = enumerateKmers c k ++ allKmers cs k := by
  simp [allKmers]

theorem allKmers_perm {c₁ c₂ : List (List UInt64)} (h : c₁.Perm c₂) (k : Nat) :
    (allKmers c₁ k).Perm (allKmers c₂ k) :=
  List.Perm.flatMap_right _ h

/-- The splitter list is the second pass run with the from-scratch candidate predicate
    "occurs exactly once among the canonical k-mers of the reference". -/
theorem determineSplitters_fst_spec (cs : List (List UInt64)) (k seg : Nat) :
    (determineSplitters cs k seg).1
      = cs.flatMap (findSplittersInContig
          (fun v => decide ((allKmers cs k).count v = 1)) k seg) := by
  rw [determineSplitters_fst]
  have hs := sortKmers_sorted (allKmers cs k)
  have : memSorted (removeNonSingletons (sortKmers (allKmers cs k))).toArray
      = fun v => decide ((allKmers cs k).count v = 1) := by
    funext v
    have h1 := memSorted_iff
      (List.Pairwise.imp (fun h => UInt64.le_of_lt h) (removeNonSingletons_strict hs)) v
    have h2 := mem_removeNonSingletons hs v
    have hc := (sortKmers_perm (allKmers cs k)).count_eq v
    rw [hc] at h2
    by_cases h : (allKmers cs k).count v = 1
    · simp only [h, decide_true]
      exact h1.mpr (h2.mpr h)
    · simp only [h, decide_false]
      cases hm : memSorted (removeNonSingletons (sortKmers (allKmers cs k))).toArray v with
      | false => rfl
      | true => exact absurd (h2.mp (h1.mp hm)) h
  rw [this]

/-! ## The window seen at a pick -/

theorem sp_feed_append (km : Kmer) (a b : List UInt64) : feed km (a ++ b) = feed (feed km a) b := by
  induction a generalizing km with
  | nil => rfl
  | cons x xs ih =>
    simp only [List.cons_append, feed]
    split <;> exact ih _

theorem sp_insert_k (km : Kmer) (b : UInt64) : (insert km b).k = km.k := by
  unfold Kmer.insert
  split <;> rfl

theorem sp_feed_k (km : Kmer) (l : List UInt64) : (feed km l).k = km.k := by
  induction l generalizing km with
  | nil => rfl
  | cons x xs ih =>
    simp only [feed]
    split
    · rw [ih]; rfl
    · rw [ih, sp_insert_k]

theorem sp_reset_eq_new {km : Kmer} {k : Nat} (h : km.k = k) : reset km = new k := by
  unfold reset new
  rw [h]

/-- "At position `q` of `c` the finder's window — restarted after position `s - 1` — is full and
    its canonical value is `v`": the automaton of `Kmer` fed with `c[s..q]` is full with data `v`.
    (By C20's `slide_eq_scratch` this says that `c[q+1-k..q]` consists of bases, lies inside
    `c[s..q]`, and `v` is its canonical packing.) -/
def WindowAt (k : Nat) (c : List UInt64) (s q : Nat) (v : UInt64) : Prop :=
  s ≤ q + 1 ∧ isFull (feed (new k) ((c.take (q + 1)).drop s)) = true
    ∧ data (feed (new k) ((c.take (q + 1)).drop s)) = v

theorem findLoop_window (isCand : UInt64 → Bool) (k seg : Nat) (c : List UInt64) :
    ∀ (bs done : List UInt64) (s : Nat) (km : Kmer) (cl : Nat) (recent : List (Nat × UInt64)),
      c = done ++ bs → s ≤ done.length → km = feed (new k) (done.drop s) →
      (∀ r ∈ recent, ∃ s', WindowAt k c s' r.1 r.2) →
      ∀ p ∈ findLoop isCand seg km cl recent done.length bs, ∃ s', WindowAt k c s' p.pos p.kmer := by
  intro bs
  induction bs with
  | nil =>
    intro done s km cl recent _ _ _ hr p hp
    rw [findLoop] at hp
    exact hr _ (mem_endPick hp).2.2
  | cons b bs ih =>
    intro done s km cl recent hc hs hkm hr p hp
    have hc' : c = (done ++ [b]) ++ bs := by rw [hc]; simp
    have hlen : (done ++ [b]).length = done.length + 1 := by simp
    have htake : c.take (done.length + 1) = done ++ [b] := by
      rw [hc', ← hlen, List.take_left]
    have hdrop : (done ++ [b]).drop s = done.drop s ++ [b] := List.drop_append_of_le_length hs
    rw [findLoop_cons] at hp
    split at hp
    · rename_i hb
      have hkm' : reset km = feed (new k) ((done ++ [b]).drop s) := by
        rw [hdrop, sp_feed_append, ← hkm]
        simp [feed, hb]
      rw [← hlen] at hp
      exact ih (done ++ [b]) s (reset km) _ [] hc' (by omega) hkm' (by simp) p hp
    · rename_i hb
      have hkm' : insert km b = feed (new k) ((done ++ [b]).drop s) := by
        rw [hdrop, sp_feed_append, ← hkm]
        simp [feed, hb]
      split at hp
      · rename_i hfull
        have hw : WindowAt k c s done.length (data (insert km b)) := by
          refine ⟨by omega, ?_, ?_⟩
          · rw [htake, ← hkm']; exact hfull
          · rw [htake, ← hkm']
        split at hp
        · rcases List.mem_cons.mp hp with rfl | hp
          · exact ⟨s, hw⟩
          · have hk : (insert km b).k = k := by
              rw [hkm', sp_feed_k]; rfl
            have hkm2 : reset (insert km b) = feed (new k) ((done ++ [b]).drop (done.length + 1)) := by
              rw [sp_reset_eq_new hk, ← hlen, List.drop_length]; rfl
            rw [← hlen] at hp
            exact ih (done ++ [b]) (done.length + 1) _ _ [] hc' (by omega) hkm2 (by simp) p hp
        · rw [← hlen] at hp
          refine ih (done ++ [b]) s _ _ _ hc' (by omega) hkm' ?_ p hp
          intro r hr'
          rcases List.mem_cons.mp hr' with rfl | hr'
          · exact ⟨s, hw⟩
          · exact hr r hr'
      · rw [← hlen] at hp
        exact ih (done ++ [b]) s _ _ _ hc' (by omega) hkm' hr p hp

theorem filter_loop_end {lp ep : List Pick} (h1 : ∀ p ∈ lp, p.atEnd = false)
    (h2 : ∀ e ∈ ep, e.atEnd = true) : (lp ++ ep).filter (fun p => !p.atEnd) = lp := by
  rw [List.filter_append]
  have a : lp.filter (fun p => !p.atEnd) = lp :=
    List.filter_eq_self.mpr (fun p hp => by simp [h1 p hp])
  have b : ep.filter (fun p => !p.atEnd) = [] :=
    List.filter_eq_nil_iff.mpr (fun p hp => by simp [h2 p hp])
  rw [a, b, List.append_nil]

/-! ## Strand symmetry of the k-mer multiset

Vocabulary (chosen so that C20's `Valid`, `rcWindow`, `specWindows`/`canon` are the instances
`BasesOnly`, `rcWin`, `windowsSpec canon`). -/

/-- Complement of a contig symbol: bases are complemented, every other code (N, IUPAC, 30) is
    kept — the harness' `rc_contig`. -/
def complSym (b : UInt64) : UInt64 := if b ≤ 3 then 3 - b else b

/-- Reverse complement of a contig. -/
def rcContig (c : List UInt64) : List UInt64 := (c.map complSym).reverse

/-- Reverse-complement the contigs selected by `flips` (missing flags mean "unchanged"). -/
def rcSome : List Bool → List (List UInt64) → List (List UInt64)
  | _, [] => []
  | [], c :: cs => c :: rcSome [] cs
  | f :: fs, c :: cs => (if f then rcContig c else c) :: rcSome fs cs

/-- All symbols are bases. -/
def BasesOnly (w : List UInt64) : Prop := ∀ b ∈ w, b ≤ 3

instance (w : List UInt64) : Decidable (BasesOnly w) := by unfold BasesOnly; infer_instance

/-- Reverse complement of a window of bases. -/
def rcWin (w : List UInt64) : List UInt64 := w.reverse.map (3 - ·)

/-- The window starting at the head of `t`, if it exists and consists of bases only. -/
def headWin (canonW : List UInt64 → UInt64) (k : Nat) (t : List UInt64) : List UInt64 :=
  if k ≤ t.length ∧ BasesOnly (t.take k) then [canonW (t.take k)] else []

/-- The window ending at the last symbol of `l`, if it exists and consists of bases only. -/
def lastWin (canonW : List UInt64 → UInt64) (k : Nat) (l : List UInt64) : List UInt64 :=
  if k ≤ l.length ∧ BasesOnly (l.drop (l.length - k)) then [canonW (l.drop (l.length - k))] else []

/-- From-scratch list of the values `canonW w` of all k-windows `w` of bases, by start position. -/
def windowsSpec (canonW : List UInt64 → UInt64) (k : Nat) : List UInt64 → List UInt64
  | [] => []
  | b :: bs => headWin canonW k (b :: bs) ++ windowsSpec canonW k bs

theorem windowsSpec_short (canonW : List UInt64 → UInt64) (k : Nat) :
    ∀ (l : List UInt64), l.length < k → windowsSpec canonW k l = [] := by
  intro l
  induction l with
  | nil => intro _; rfl
  | cons b bs ih =>
    intro h
    have h' : bs.length < k := by simp only [List.length_cons] at h; omega
    unfold windowsSpec headWin
    rw [if_neg (fun hh => by omega), ih h']
    rfl

theorem windowsSpec_snoc (canonW : List UInt64 → UInt64) (k : Nat) (hk : 1 ≤ k) (b : UInt64) :
    ∀ (l : List UInt64),
      windowsSpec canonW k (l ++ [b]) = windowsSpec canonW k l ++ lastWin canonW k (l ++ [b]) := by
  intro l
  induction l with
  | nil =>
    simp only [List.nil_append, windowsSpec, List.append_nil]
    unfold headWin lastWin
    by_cases h : k ≤ 1
    · have : k = 1 := by omega
      subst this
      simp
    · have h1 : ¬ k ≤ [b].length := by simpa using h
      rw [if_neg (fun hh => h1 hh.1), if_neg (fun hh => h1 hh.1)]
  | cons x l ih =>
    have hlen : (x :: l ++ [b]).length = l.length + 2 := by simp
    show headWin canonW k (x :: (l ++ [b])) ++ windowsSpec canonW k (l ++ [b])
        = (headWin canonW k (x :: l) ++ windowsSpec canonW k l) ++ lastWin canonW k (x :: (l ++ [b]))
    rw [ih]
    by_cases h1 : k ≤ l.length + 1
    · -- the head window does not reach `b`; the last window does not reach `x`
      have e1 : headWin canonW k (x :: (l ++ [b])) = headWin canonW k (x :: l) := by
        unfold headWin
        have t : (x :: (l ++ [b])).take k = (x :: l).take k := by
          rw [← List.cons_append, List.take_append_of_le_length (by simpa using h1)]
        rw [t]
        have c1 : k ≤ (x :: (l ++ [b])).length := by simp; omega
        have c2 : k ≤ (x :: l).length := by simpa using h1
        simp only [c1, c2, true_and]
      have e2 : lastWin canonW k (x :: (l ++ [b])) = lastWin canonW k (l ++ [b]) := by
        unfold lastWin
        have d : (x :: (l ++ [b])).drop ((x :: (l ++ [b])).length - k)
            = (l ++ [b]).drop ((l ++ [b]).length - k) := by
          have : (x :: (l ++ [b])).length - k = ((l ++ [b]).length - k) + 1 := by
            simp; omega
          rw [this, List.drop_succ_cons]
        rw [d]
        have c1 : k ≤ (x :: (l ++ [b])).length := by simp; omega
        have c2 : k ≤ (l ++ [b]).length := by simp; omega
        simp only [c1, c2, true_and]
      rw [e1, e2, List.append_assoc]
    · by_cases h2 : k = l.length + 2
      · -- the only window is the whole list
        have s1 : windowsSpec canonW k l = [] := windowsSpec_short _ _ _ (by omega)
        have e0 : lastWin canonW k (l ++ [b]) = [] := by
          unfold lastWin
          rw [if_neg (fun hh => by have := hh.1; simp at this; omega)]
        have e1 : headWin canonW k (x :: l) = [] := by
          unfold headWin
          rw [if_neg (fun hh => by have := hh.1; simp at this; omega)]
        have e2 : headWin canonW k (x :: (l ++ [b])) = lastWin canonW k (x :: (l ++ [b])) := by
          unfold headWin lastWin
          have t : (x :: (l ++ [b])).take k = x :: (l ++ [b]) :=
            List.take_of_length_le (by simp; omega)
          have d : (x :: (l ++ [b])).drop ((x :: (l ++ [b])).length - k) = x :: (l ++ [b]) := by
            have : (x :: (l ++ [b])).length - k = 0 := by simp; omega
            rw [this, List.drop_zero]
          rw [t, d]
        rw [s1, e0, e1, e2]
        simp
      · have c : ¬ k ≤ (x :: (l ++ [b])).length := by simp; omega
        have e0 : lastWin canonW k (x :: (l ++ [b])) = [] := by
          unfold lastWin; rw [if_neg (fun hh => c hh.1)]
        have e1 : headWin canonW k (x :: (l ++ [b])) = [] := by
          unfold headWin; rw [if_neg (fun hh => c hh.1)]
        have e2 : headWin canonW k (x :: l) = [] := by
          unfold headWin
          rw [if_neg (fun hh => by have := hh.1; simp at this; omega)]
        have e3 : lastWin canonW k (l ++ [b]) = [] := by
          unfold lastWin
          rw [if_neg (fun hh => by have := hh.1; simp at this; omega)]
        rw [e0, e1, e2, e3]
        simp

theorem complSym_le3_iff (b : UInt64) : complSym b ≤ 3 ↔ b ≤ 3 := by
  unfold complSym
  by_cases h : b ≤ 3
  · rw [if_pos h]
    refine ⟨fun _ => h, fun _ => ?_⟩
    apply UInt64.le_iff_toNat_le.mpr
    rw [UInt64.toNat_sub_of_le _ _ h]
    have : (3 : UInt64).toNat = 3 := rfl
    omega
  · rw [if_neg h]

theorem basesOnly_rcContig (w : List UInt64) : BasesOnly (rcContig w) ↔ BasesOnly w := by
  unfold BasesOnly rcContig
  constructor
  · intro h b hb
    have := h (complSym b) (List.mem_reverse.mpr (List.mem_map_of_mem hb))
    exact (complSym_le3_iff b).mp this
  · intro h b hb
    obtain ⟨a, ha, rfl⟩ := List.mem_map.mp (List.mem_reverse.mp hb)
    exact (complSym_le3_iff a).mpr (h a ha)

theorem rcContig_of_basesOnly {w : List UInt64} (h : BasesOnly w) : rcContig w = rcWin w := by
  unfold rcContig rcWin
  rw [List.map_reverse]
  congr 1
  apply List.map_congr_left
  intro b hb
  unfold complSym
  rw [if_pos (h b hb)]

theorem rcContig_length (c : List UInt64) : (rcContig c).length = c.length := by
  simp [rcContig]

theorem rcContig_cons (b : UInt64) (bs : List UInt64) :
    rcContig (b :: bs) = rcContig bs ++ [complSym b] := by
  simp [rcContig]

/-- The last window of the reverse complement is the first window of the contig. -/
theorem lastWin_rcContig (canonW : List UInt64 → UInt64) (k : Nat)
    (h_rc : ∀ w, BasesOnly w → w.length = k → canonW (rcWin w) = canonW w) (t : List UInt64) :
    lastWin canonW k (rcContig t) = headWin canonW k t := by
  unfold lastWin headWin
  rw [rcContig_length]
  by_cases hk : k ≤ t.length
  · have d : (rcContig t).drop (t.length - k) = rcContig (t.take k) := by
      unfold rcContig
      rw [List.drop_reverse, List.length_map]
      have : t.length - (t.length - k) = k := by omega
      rw [this, List.map_take]
    rw [d]
    by_cases hb : BasesOnly (t.take k)
    · rw [if_pos ⟨hk, (basesOnly_rcContig _).mpr hb⟩, if_pos ⟨hk, hb⟩, rcContig_of_basesOnly hb,
        h_rc _ hb (by rw [List.length_take]; omega)]
    · rw [if_neg (fun hh => hb ((basesOnly_rcContig _).mp hh.2)), if_neg (fun hh => hb hh.2)]
  · rw [if_neg (fun hh => hk hh.1), if_neg (fun hh => hk hh.1)]

/-- The multiset of window values of a contig equals that of its reverse complement. -/
theorem windowsSpec_rc (canonW : List UInt64 → UInt64) (k : Nat) (hk : 1 ≤ k)
    (h_rc : ∀ w, BasesOnly w → w.length = k → canonW (rcWin w) = canonW w) :
    ∀ (c : List UInt64), (windowsSpec canonW k (rcContig c)).Perm (windowsSpec canonW k c) := by
  intro c
  induction c with
  | nil => exact List.Perm.refl _
  | cons b bs ih =>
    rw [rcContig_cons, windowsSpec_snoc canonW k hk, ← rcContig_cons,
      lastWin_rcContig canonW k h_rc]
    show List.Perm _ (headWin canonW k (b :: bs) ++ windowsSpec canonW k bs)
    exact (List.Perm.append_right _ ih).trans List.perm_append_comm

theorem allKmers_rcSome (k : Nat)
    (h_enum_rc : ∀ c, (enumerateKmers (rcContig c) k).Perm (enumerateKmers c k)) :
    ∀ (cs : List (List UInt64)) (flips : List Bool),
      (allKmers (rcSome flips cs) k).Perm (allKmers cs k) := by
  intro cs
  induction cs with
  | nil => intro flips; cases flips <;> exact List.Perm.refl _
  | cons c cs ih =>
    intro flips
    cases flips with
    | nil =>
      show (allKmers (c :: rcSome [] cs) k).Perm _
      rw [allKmers_cons, allKmers_cons]
      exact List.Perm.append_left _ (ih [])
    | cons f fs =>
      show (allKmers ((if f then rcContig c else c) :: rcSome fs cs) k).Perm _
      rw [allKmers_cons, allKmers_cons]
      refine List.Perm.append ?_ (ih fs)
      cases f
      · exact List.Perm.refl _
      · exact h_enum_rc c

/-! ## The first-sample record rule -/

theorem takeWhile_run {α : Type} (p : α → Bool) :
    ∀ (run : List α) (x : α) (tail : List α), (∀ r ∈ run, p r = true) → p x = false →
      (run ++ x :: tail).takeWhile p = run := by
  intro run
  induction run with
  | nil => intro x tail _ hx; simp [hx]
  | cons a run ih =>
    intro x tail hr hx
    have ha : p a = true := hr a List.mem_cons_self
    simp only [List.cons_append, List.takeWhile, ha]
    rw [ih x tail (fun r h => hr r (List.mem_cons_of_mem _ h)) hx]

theorem takeWhile_all {α : Type} (p : α → Bool) :
    ∀ (run : List α), (∀ r ∈ run, p r = true) → run.takeWhile p = run := by
  intro run
  induction run with
  | nil => intro _; rfl
  | cons a run ih =>
    intro hr
    have ha : p a = true := hr a List.mem_cons_self
    simp only [List.takeWhile, ha]
    rw [ih (fun r h => hr r (List.mem_cons_of_mem _ h))]

/-! ## Empty records (skipped by the streaming variants) contribute nothing -/

theorem enumerateKmers_nil (k : Nat) : enumerateKmers [] k = [] := by
  unfold enumerateKmers
  split <;> rfl

theorem findSplittersInContig_nil (isCand : UInt64 → Bool) (k seg : Nat) :
    findSplittersInContig isCand k seg [] = [] := by
  simp [findSplittersInContig, findPicks, findLoop, endPick]

theorem flatMap_filter_nonempty {β : Type} (f : List UInt64 → List β) (hf : f [] = []) :
    ∀ (cs : List (List UInt64)), (cs.filter (fun c => !c.isEmpty)).flatMap f = cs.flatMap f := by
  intro cs
  induction cs with
  | nil => rfl
  | cons c cs ih =>
    cases c with
    | nil => simp [hf, ih]
    | cons x xs => simp [ih]

end Ragc.Splitters
