import RagcModel.Model.Tuple
/-!
Helper lemmas for C12 about `Model/Tuple.lean`: the per-tuple base-`mx` digit lemma, the chunk
induction for `packLoop`/`unpackLoop`, and the marker byte arithmetic.
-/
namespace Ragc.Tuple

/-- Induction from the right end of a list (core Lean has no `List.reverseRecOn`). -/
theorem list_snoc_induction {α : Type} {P : List α → Prop} (nil : P [])
    (snoc : ∀ l a, P l → P (l ++ [a])) : ∀ l, P l := by
  have key : ∀ n, ∀ l : List α, l.length = n → P l := by
    intro n
    induction n with
    | zero =>
      intro l hl
      have : l = [] := List.eq_nil_of_length_eq_zero hl
      subst this; exact nil
    | succ n ih =>
      intro l hl
      rcases List.eq_nil_or_concat l with h | ⟨l', b, h⟩
      · subst h; simp at hl
      · subst h
        rw [List.concat_eq_append] at hl ⊢
        simp only [List.length_append, List.length_cons, List.length_nil] at hl
        exact snoc _ _ (ih _ (by omega))
  intro l; exact key _ l rfl

theorem tupleVal_nil (mx : Nat) : tupleVal mx [] = 0 := rfl

theorem tupleVal_snoc (mx : Nat) (xs : List Nat) (b : Nat) :
    tupleVal mx (xs ++ [b]) = tupleVal mx xs * mx + b := by
  simp [tupleVal, List.foldl_append]

/-- A run of `k` symbols below `mx` has a value below `mx ^ k`. -/
theorem tupleVal_lt (mx : Nat) : ∀ xs : List Nat, (∀ b ∈ xs, b < mx) →
    tupleVal mx xs < mx ^ xs.length := by
  apply list_snoc_induction
  · intro _; simp [tupleVal_nil]
  · intro l a ih h
    have hl : ∀ b ∈ l, b < mx := fun b hb => h b (by simp [hb])
    have ha : a < mx := h a (by simp)
    have ih' := ih hl
    rw [tupleVal_snoc, List.length_append, List.length_singleton, Nat.pow_succ]
    have h1 : (tupleVal mx l + 1) * mx ≤ mx ^ l.length * mx := Nat.mul_le_mul_right mx ih'
    rw [Nat.add_mul, Nat.one_mul] at h1
    omega

/-- Per-tuple digit lemma: reading back as many base-`mx` digits as there were symbols returns
the symbols. -/
theorem digits_tupleVal (mx : Nat) : ∀ xs : List Nat, (∀ b ∈ xs, b < mx) →
    digits mx xs.length (tupleVal mx xs) = xs := by
  apply list_snoc_induction
  · intro _; rfl
  · intro l a ih h
    have hl : ∀ b ∈ l, b < mx := fun b hb => h b (by simp [hb])
    have ha : a < mx := h a (by simp)
    have hmx : 0 < mx := by omega
    rw [tupleVal_snoc, List.length_append, List.length_singleton, digits]
    have hd : (tupleVal mx l * mx + a) / mx = tupleVal mx l := by
      rw [Nat.mul_comm, Nat.mul_add_div hmx, Nat.div_eq_of_lt ha, Nat.add_zero]
    have hm : (tupleVal mx l * mx + a) % mx = a := by
      rw [Nat.mul_comm, Nat.mul_add_mod, Nat.mod_eq_of_lt ha]
    rw [hd, hm, ih hl]

/-- Every digit produced by `digits` is below the base. -/
theorem digits_lt (mx : Nat) (hmx : 0 < mx) : ∀ k c, ∀ d ∈ digits mx k c, d < mx := by
  intro k
  induction k with
  | zero => intro c d hd; simp [digits] at hd
  | succ k ih =>
    intro c d hd
    rw [digits, List.mem_append] at hd
    rcases hd with hd | hd
    · exact ih _ d hd
    · simp only [List.mem_singleton] at hd
      subst hd; exact Nat.mod_lt _ hmx

theorem length_digits (mx : Nat) : ∀ k c, (digits mx k c).length = k := by
  intro k
  induction k with
  | zero => intro c; rfl
  | succ k ih => intro c; rw [digits, List.length_append, ih]; rfl

theorem packLoop_of_le {n mx : Nat} {bs : List Nat} {rem : Nat} (h : 0 < n ∧ n ≤ rem) :
    packLoop n mx bs rem =
      (tupleVal mx (bs.take n) % 256) :: packLoop n mx (bs.drop n) (rem - n) := by
  rw [packLoop, dif_pos h]

theorem packLoop_of_not_le {n mx : Nat} {bs : List Nat} {rem : Nat} (h : ¬ (0 < n ∧ n ≤ rem)) :
    packLoop n mx bs rem = [tupleVal mx bs % 256] := by
  rw [packLoop, dif_neg h]

/-- `pack_tuples` emits `len / n` full tuples and one trailing tuple. -/
theorem length_packLoop (n mx : Nat) (hn : 0 < n) : ∀ rem (bs : List Nat),
    (packLoop n mx bs rem).length = rem / n + 1 := by
  intro rem
  induction rem using Nat.strongRecOn with
  | _ rem ih =>
    intro bs
    by_cases h : n ≤ rem
    · rw [packLoop_of_le ⟨hn, h⟩, List.length_cons, ih (rem - n) (by omega)]
      have : rem / n = (rem - n) / n + 1 := by
        rw [Nat.div_eq rem n, if_pos ⟨hn, h⟩]
      omega
    · rw [packLoop_of_not_le (by omega), List.length_singleton, Nat.div_eq_of_lt (by omega)]

/-- Every byte `pack_tuples` emits before the marker is a byte. -/
theorem packLoop_lt (n mx : Nat) : ∀ rem (bs : List Nat), ∀ t ∈ packLoop n mx bs rem, t < 256 := by
  intro rem
  induction rem using Nat.strongRecOn with
  | _ rem ih =>
    intro bs t ht
    by_cases h : 0 < n ∧ n ≤ rem
    · rw [packLoop_of_le h, List.mem_cons] at ht
      rcases ht with ht | ht
      · subst ht; exact Nat.mod_lt _ (by decide)
      · exact ih (rem - n) (by omega) _ t ht
    · rw [packLoop_of_not_le h, List.mem_singleton] at ht
      subst ht; exact Nat.mod_lt _ (by decide)

/-- Chunk induction: decoding the tuples of `bs` with the right trailing count returns `bs`.
`mx ^ n ≤ 256` says a full tuple fits a byte, so `c as u8` loses nothing. -/
theorem unpackLoop_packLoop (n mx outputSize : Nat) (hn : 0 < n) (hmx : 0 < mx)
    (hpow : mx ^ n ≤ 256) : ∀ rem (bs : List Nat), rem = bs.length → (∀ b ∈ bs, b < mx) →
    outputSize % n = rem % n →
    unpackLoop n mx outputSize (packLoop n mx bs rem) rem = some bs := by
  intro rem
  induction rem using Nat.strongRecOn with
  | _ rem ih =>
    intro bs hlen hb hmod
    by_cases h : n ≤ rem
    · rw [packLoop_of_le ⟨hn, h⟩, unpackLoop, if_pos h]
      have htake : (bs.take n).length = n := by rw [List.length_take]; omega
      have hbt : ∀ b ∈ bs.take n, b < mx := fun b hb' => hb b (List.mem_of_mem_take hb')
      have hbd : ∀ b ∈ bs.drop n, b < mx := fun b hb' => hb b (List.mem_of_mem_drop hb')
      have hv : tupleVal mx (bs.take n) < 256 := by
        have := tupleVal_lt mx _ hbt
        rw [htake] at this; omega
      have hdig : digits mx n (tupleVal mx (bs.take n) % 256) = bs.take n := by
        rw [Nat.mod_eq_of_lt hv]
        have := digits_tupleVal mx _ hbt
        rw [htake] at this; exact this
      have hmod' : outputSize % n = (rem - n) % n := by
        rw [hmod]; exact Nat.mod_eq_sub_mod h
      rw [ih (rem - n) (by omega) (bs.drop n) (by rw [List.length_drop]; omega) hbd hmod']
      simp only [Option.map_some, hdig, List.take_append_drop]
    · have hlt : rem < n := by omega
      rw [packLoop_of_not_le (by omega), unpackLoop, if_neg h]
      have hr : outputSize % n = bs.length := by
        rw [hmod, Nat.mod_eq_of_lt hlt]; exact hlen
      have hv : tupleVal mx bs < 256 := by
        have h1 := tupleVal_lt mx _ hb
        have h2 : mx ^ bs.length ≤ mx ^ n := Nat.pow_le_pow_right hmx (by omega)
        omega
      by_cases h0 : 0 < outputSize % n
      · rw [if_pos h0, hr, Nat.mod_eq_of_lt hv, digits_tupleVal mx _ hb]
      · rw [if_neg h0]
        have : bs = [] := List.eq_nil_of_length_eq_zero (by omega)
        rw [this]

/-- Marker byte arithmetic for the three packing widths: high nibble = width, low nibble =
number of trailing symbols. -/
theorem marker_fields (n r : Nat) (hn : n = 2 ∨ n = 3 ∨ n = 4) (hr : r < n) :
    ((((n % 256) <<< 4) % 256) ||| (r % 256)) >>> 4 = n ∧
    ((((n % 256) <<< 4) % 256) ||| (r % 256)) &&& 0xf = r := by
  rcases hn with rfl | rfl | rfl
  · have : r = 0 ∨ r = 1 := by omega
    rcases this with rfl | rfl <;> decide
  · have : r = 0 ∨ r = 1 ∨ r = 2 := by omega
    rcases this with rfl | rfl | rfl <;> decide
  · have : r = 0 ∨ r = 1 ∨ r = 2 ∨ r = 3 := by omega
    rcases this with rfl | rfl | rfl | rfl <;> decide

theorem markerByte_lt (n len : Nat) : markerByte n len < 256 := by
  unfold markerByte
  exact Nat.or_lt_two_pow (n := 8) (Nat.mod_lt _ (by decide)) (Nat.mod_lt _ (by decide))

/-- Decoding a packed string (either arithmetic profile) returns the symbols, for each of the
three (width, base) pairs of `bytes_to_tuples`. -/
theorem tuplesToBytesMode_packTuples (c : Bool) (n mx : Nat)
    (hcase : (n = 4 ∧ mx = 4) ∨ (n = 3 ∧ mx = 6) ∨ (n = 2 ∧ mx = 16))
    (bs : List Nat) (hb : ∀ b ∈ bs, b < mx) :
    tuplesToBytesMode c (packTuples n mx bs) = some bs := by
  have hn : n = 2 ∨ n = 3 ∨ n = 4 := by omega
  have hn0 : 0 < n := by omega
  have hmx : 0 < mx := by omega
  have hpow : mx ^ n ≤ 256 := by
    rcases hcase with ⟨rfl, rfl⟩ | ⟨rfl, rfl⟩ | ⟨rfl, rfl⟩ <;> decide
  have hr : bs.length % n < n := Nat.mod_lt _ hn0
  obtain ⟨hhi, hlo⟩ := marker_fields n (bs.length % n) hn hr
  have hlen : (packLoop n mx bs bs.length ++ [markerByte n bs.length]).length
      = bs.length / n + 2 := by
    rw [List.length_append, length_packLoop n mx hn0, List.length_singleton]
  have hloop := unpackLoop_packLoop n mx bs.length hn0 hmx hpow bs.length bs rfl hb rfl
  have hsize : (bs.length / n + 2 - 2) * n + bs.length % n = bs.length := by
    rw [Nat.add_sub_cancel]; exact Nat.div_add_mod' _ _
  have hsz : outputSizeOf c (bs.length / n + 2) n (bs.length % n) = some bs.length := by
    unfold outputSizeOf
    rw [if_pos (Nat.le_add_left 2 _), hsize]
  have hne : (packLoop n mx bs bs.length ++ [markerByte n bs.length]).isEmpty = false := by
    simp
  unfold tuplesToBytesMode packTuples
  rw [hne]
  simp only [Bool.false_eq_true, if_false, List.getLast?_concat, Option.getD_some,
    List.dropLast_concat, hlen]
  unfold markerByte
  rw [hhi, hlo, hsz]
  rcases hcase with ⟨rfl, rfl⟩ | ⟨rfl, rfl⟩ | ⟨rfl, rfl⟩
  · simpa using hloop
  · simpa using hloop
  · simpa using hloop

theorem maxElem_ge : ∀ (bs : List Nat) (a : Nat), ∀ b ∈ bs, b ≤ bs.foldl max a := by
  intro bs
  induction bs with
  | nil => intro a b hb; simp at hb
  | cons x xs ih =>
    intro a b hb
    rw [List.foldl_cons]
    rcases List.mem_cons.mp hb with rfl | hb
    · have : ∀ (l : List Nat) (a : Nat), a ≤ l.foldl max a := by
        intro l
        induction l with
        | nil => intro a; exact Nat.le_refl _
        | cons y ys ih2 =>
          intro a; rw [List.foldl_cons]
          exact Nat.le_trans (Nat.le_max_left a y) (ih2 _)
      exact Nat.le_trans (Nat.le_max_right a b) (this xs _)
    · exact ih _ b hb

/-- All symbols are at most the maximum `bytes_to_tuples` computes. -/
theorem le_maxElem (bs : List Nat) : ∀ b ∈ bs, b ≤ maxElem bs := maxElem_ge bs 0

end Ragc.Tuple
