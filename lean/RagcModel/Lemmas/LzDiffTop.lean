import RagcModel.Lemmas.LzDiffEnc
/-!
C09: what the emitted tokens look like (for `decode_serialize` and for the separator byte),
non-emptiness, and the `target == reference` test.
-/
namespace Ragc.Model.LzDiff
open Ragc.Gen

/-- Shape of an emitted token: literals carry a code with property `P`, run and match lengths are
    at least the minimum that their byte form subtracts. -/
def TokAll (mm : Nat) (P : Nat → Prop) : Tok → Prop
  | .lit c => P c
  | .bang => True
  | .nrun n => lzMinNRunLen ≤ n
  | .mtch _ none => True
  | .mtch _ (some l) => mm ≤ l

theorem mem_of_getElem?_array {t : Array Nat} {i c : Nat} (h : t[i]? = some c) : c ∈ t.toList :=
  Array.mem_toList_iff.mpr (Array.mem_of_getElem? h)

theorem encLoop_tokAll (P : Nat → Prop) (S : UInt64 → List Nat) (mm : Nat) (hmm : lzHashingStep ≤ mm)
    (refP : Array Nat) (refLen : Nat) (t : Array Nat) (hP : ∀ c, c ∈ t.toList → P c)
    (i pred npl : Nat) (toks : List Tok) (xprev : Option UInt64) (res : List Tok)
    (htoks : ∀ x, x ∈ toks → TokAll mm P x)
    (hres : encLoop S mm hmm refP refLen t i pred npl toks xprev = some res) :
    ∀ x, x ∈ res → TokAll mm P x := by
  fun_induction encLoop S mm hmm refP refLen t i pred npl toks xprev with
  | case1 i pred npl toks xprev hlt hx => cases hres
  | case2 i pred npl toks xprev hlt hx hn ih =>
    refine ih ?_ hres
    intro x hx'
    simp only [List.mem_cons] at hx'
    rcases hx' with rfl | hx'
    · exact hn
    · exact htoks x hx'
  | case3 i pred npl toks xprev hlt hx hn hc => cases hres
  | case4 i pred npl toks xprev hlt hx hn c hc ih =>
    refine ih ?_ hres
    intro x hx'
    simp only [List.mem_cons] at hx'
    rcases hx' with rfl | hx'
    · exact hP c (mem_of_getElem?_array hc)
    · exact htoks x hx'
  | case5 i pred npl toks xprev hlt code hx hf => cases hres
  | case6 i pred npl toks xprev hlt code hx hf hc => cases hres
  | case7 i pred npl toks xprev hlt code hx hf c hc ih =>
    refine ih ?_ hres
    intro x hx'
    simp only [List.mem_cons] at hx'
    rcases hx' with rfl | hx'
    · exact hP c (mem_of_getElem?_array hc)
    · exact htoks x hx'
  | case8 i pred npl toks xprev hlt code hx mpos bck fwd hf i' pred' toks' total amp tok toks'' ih =>
    refine ih ?_ hres
    intro x hx'
    simp only [List.mem_cons] at hx'
    rcases hx' with rfl | hx'
    · have htot := (findBest_sound hmm hf).tot
      show TokAll mm P (Tok.mtch _ (matchLenField refLen t.size i' total mpos fwd))
      unfold matchLenField
      split
      · exact True.intro
      · exact htot
    · rcases rewriteBang_mem _ _ _ _ _ x hx' with rfl | hm
      · exact True.intro
      · exact htoks x (List.mem_of_mem_drop hm)
  | case9 i pred npl toks xprev hlt =>
    simp only [Option.some.injEq] at hres
    subst hres
    intro x hx'
    unfold tailLits at hx'
    simp only [List.mem_append, List.mem_reverse, List.mem_map] at hx'
    rcases hx' with ⟨c, hc, rfl⟩ | hx'
    · rw [Array.toList_extract, List.extract_eq_take_drop] at hc
      exact hP c (List.mem_of_mem_drop (List.mem_of_mem_take hc))
    · exact htoks x hx'

/-- **Invariant E**: the loop never returns the empty token list once a token has been emitted or
    there is still input. -/
theorem encLoop_ne_nil (S : UInt64 → List Nat) (mm : Nat) (hmm : lzHashingStep ≤ mm)
    (refP : Array Nat) (refLen : Nat) (t : Array Nat)
    (i pred npl : Nat) (toks : List Tok) (xprev : Option UInt64) (res : List Tok)
    (h : toks ≠ [] ∨ i < t.size)
    (hres : encLoop S mm hmm refP refLen t i pred npl toks xprev = some res) : res ≠ [] := by
  fun_induction encLoop S mm hmm refP refLen t i pred npl toks xprev with
  | case1 i pred npl toks xprev hlt hx => cases hres
  | case2 i pred npl toks xprev hlt hx hn ih => exact ih (Or.inl (by simp)) hres
  | case3 i pred npl toks xprev hlt hx hn hc => cases hres
  | case4 i pred npl toks xprev hlt hx hn c hc ih => exact ih (Or.inl (by simp)) hres
  | case5 i pred npl toks xprev hlt code hx hf => cases hres
  | case6 i pred npl toks xprev hlt code hx hf hc => cases hres
  | case7 i pred npl toks xprev hlt code hx hf c hc ih => exact ih (Or.inl (by simp)) hres
  | case8 i pred npl toks xprev hlt code hx mpos bck fwd hf i' pred' toks' total amp tok toks'' ih =>
    exact ih (Or.inl (by simp)) hres
  | case9 i pred npl toks xprev hlt =>
    simp only [Option.some.injEq] at hres
    subst hres
    unfold tailLits
    rcases h with h | h
    · simp [h]
    · intro hnil
      simp only [List.append_eq_nil_iff, List.reverse_eq_nil_iff, List.map_eq_nil_iff] at hnil
      have hl : (t.extract i t.size).toList.length = 0 := by rw [hnil.1]; rfl
      simp only [Array.length_toList, Array.size_extract] at hl
      omega

/-! ### serialisation -/

theorem serialize_append (mm : Nat) (a b : List Tok) :
    serialize mm (a ++ b) = serialize mm a ++ serialize mm b := by
  induction a with
  | nil => simp [serialize]
  | cons x xs ih => simp [serialize, ih]

/-- `encLen` is `encoded.len()`: the byte length of what has been emitted (tokens newest first). -/
theorem encLen_eq (mm : Nat) (toks : List Tok) : encLen mm toks = (serialize mm toks.reverse).length := by
  induction toks with
  | nil => simp [encLen, serialize]
  | cons x xs ih =>
    simp only [encLen, List.reverse_cons, serialize_append, serialize, List.length_append,
      List.append_nil, ih]
    omega

theorem serialize_eq_nil (mm : Nat) (ts : List Tok) : serialize mm ts = [] ↔ ts = [] := by
  cases ts with
  | nil => simp [serialize]
  | cons x xs =>
    simp only [serialize, List.append_eq_nil_iff, reduceCtorEq, iff_false, not_and]
    intro h; exact absurd h (serTok_ne_nil mm x)

theorem mem_serialize (mm : Nat) (ts : List Tok) (b : Nat) :
    b ∈ serialize mm ts ↔ ∃ x, x ∈ ts ∧ b ∈ serTok mm x := by
  induction ts with
  | nil => simp [serialize]
  | cons x xs ih =>
    simp only [serialize, List.mem_append, ih, List.mem_cons]
    constructor
    · rintro (h | ⟨y, hy, hb⟩)
      · exact ⟨x, Or.inl rfl, h⟩
      · exact ⟨y, Or.inr hy, hb⟩
    · rintro ⟨y, rfl | hy, hb⟩
      · exact Or.inl hb
      · exact Or.inr ⟨y, hy, hb⟩

/-- every byte of a token whose literal code is below 190 is below 255. -/
theorem serTok_lt (mm : Nat) (x : Tok) (hx : TokAll mm (fun c => c < 190) x) :
    ∀ b, b ∈ serTok mm x → b < 255 := by
  intro b hb
  have hs : lzNRunStarter < 255 := by decide
  have hn : lzNCode < 255 := by decide
  cases x with
  | lit c =>
    have hc : c < 190 := hx
    simp only [serTok, List.mem_singleton] at hb
    omega
  | bang =>
    simp only [serTok, List.mem_singleton] at hb
    omega
  | nrun n =>
    simp only [serTok, List.mem_cons, List.mem_append, List.not_mem_nil, or_false] at hb
    rcases hb with rfl | hb | rfl
    · exact hs
    · have := natDigits_all _ b hb; omega
    · exact hn
  | mtch d len =>
    cases len with
    | none =>
      simp only [serTok, List.mem_append, List.mem_singleton] at hb
      rcases hb with hb | rfl
      · rcases appendInt_all d b hb with h | h <;> omega
      · omega
    | some l =>
      simp only [serTok, List.mem_append, List.mem_cons, List.not_mem_nil, or_false] at hb
      rcases hb with hb | rfl | hb | rfl
      · rcases appendInt_all d b hb with h | h <;> omega
      · omega
      · have := natDigits_all _ b hb; omega
      · omega

/-! ### the `target == reference` test (lines 405-410) -/

theorem zip_all_eq_iff : ∀ (a b c : List Nat), a.length = b.length →
    ((a.zip (b ++ c)).all (fun p => p.1 == p.2) = true ↔ a = b) := by
  intro a
  induction a with
  | nil =>
    intro b c h
    have : b = [] := List.eq_nil_of_length_eq_zero (by simpa using h.symm)
    subst this
    simp
  | cons x xs ih =>
    intro b c h
    cases b with
    | nil => simp at h
    | cons y ys =>
      simp only [List.length_cons, Nat.add_right_cancel_iff] at h
      simp only [List.cons_append, List.zip_cons_cons, List.all_cons, Bool.and_eq_true, beq_iff_eq,
        ih ys c h, List.cons.injEq]

theorem eqTest_iff (mm : Nat) (ref tgt : List Nat) :
    (tgt.length = ref.length ∧ (tgt.zip (padRef mm ref).toList).all (fun p => p.1 == p.2) = true) ↔ tgt = ref := by
  unfold padRef
  simp only []
  constructor
  · rintro ⟨h1, h2⟩
    exact (zip_all_eq_iff tgt ref _ h1).mp h2
  · rintro rfl
    exact ⟨rfl, (zip_all_eq_iff tgt tgt _ rfl).mpr rfl⟩

end Ragc.Model.LzDiff
