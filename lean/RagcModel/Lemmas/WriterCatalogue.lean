import RagcModel.Lemmas.WriterFixed
import RagcModel.Props.C03
/-!
Helper lemmas for `read_write` (C01/C02), part 8: the catalogue. `parseDetailsPart`, `decodeBatch`
and the batch loop of `decodeCatalogue` on the parts the reference writer stores
(`samplesPart`, `contigsPart`, `detailsPart` over `Details.storeBatches`), with the C03 round trips.
-/
namespace Ragc.WriterLemmas
open Ragc.Agc3 Ragc.Writer Ragc.Container Ragc.Details Ragc.Names

/-- catalogue entries as the C03 theorems need them -/
structure CatSampleOK (s : Details.Sample) : Prop where
  name : ∀ b ∈ s.name, 1 ≤ b ∧ b ≤ 127
  cnt : s.contigs.length < 2 ^ 32
  contigs : ∀ c ∈ s.contigs, (∀ b ∈ c.name, 1 ≤ b ∧ b ≤ 127) ∧ c.segs.length < 2 ^ 32 ∧
    ∀ g ∈ c.segs, g.group < 2 ^ 32 ∧ g.inGroup + 1 < 2 ^ 31 ∧ g.rawLen < 2 ^ 32

/-- the decoder's table of one sample -/
def tableOfSample (s : Details.Sample) : ContigTable := s.contigs.map fun c => (c.name, c.segs)

theorem readBack_md0 (d : List Nat) : Spec.readBack (d, 0) = (d, 0) := by
  unfold Spec.readBack
  split
  · rename_i he
    have : d = [] := List.isEmpty_iff.mp he
    subst this; rfl
  · rfl

theorem readBack_nonempty (d : List Nat) (m : Nat) (h : d ≠ []) : Spec.readBack (d, m) = (d, m) := by
  unfold Spec.readBack
  split
  · rename_i he; exact absurd (List.isEmpty_iff.mp he) h
  · rfl

theorem cutFrames_flatten : ∀ (fs : List (List Nat)), cutFrames (fs.map List.length) fs.flatten = some fs := by
  intro fs
  induction fs with
  | nil => rfl
  | cons f fs ih =>
    simp only [List.map_cons, List.flatten_cons, cutFrames, List.length_append]
    rw [if_neg (by omega), List.drop_left, List.take_left, ih]
    rfl

/-- the `collection-details` part is parsed back into its five frames -/
theorem parseDetailsPart_ok (zc : Nat → List Nat → List Nat) (names r0 r1 r2 r3 r4 : List Nat)
    (hfit : sizesFit zc ⟨names, [r0, r1, r2, r3, r4]⟩ = true) :
    parseDetailsPart (Spec.readBack (detailsPart zc ⟨names, [r0, r1, r2, r3, r4]⟩))
      = .ok ⟨[r0, r1, r2, r3, r4].map List.length, [r0, r1, r2, r3, r4].map (zc levelDetails), 0⟩ := by
  unfold detailsPart
  rw [readBack_md0]
  unfold parseDetailsPart
  simp only [sizesFit, List.all_cons, List.all_nil, Bool.and_true, Bool.and_eq_true, decide_eq_true_eq] at hfit
  obtain ⟨⟨a0, b0⟩, ⟨a1, b1⟩, ⟨a2, b2⟩, ⟨a3, b3⟩, a4, b4⟩ := hfit
  have hdec := decNats_encNats
    (sizeTable [r0, r1, r2, r3, r4] ([r0, r1, r2, r3, r4].map (zc levelDetails)))
    (([r0, r1, r2, r3, r4].map (zc levelDetails)).flatten) (by
      intro x hx
      simp only [sizeTable, List.map_cons, List.map_nil, List.zip_cons_cons, List.zip_nil_right,
        List.flatMap_cons, List.flatMap_nil, List.append_nil, List.cons_append, List.nil_append,
        List.mem_cons, List.not_mem_nil, or_false] at hx
      have : (4294967296 : Nat) = 2 ^ 32 := by decide
      rcases hx with h | h | h | h | h | h | h | h | h | h <;> (rw [h, this]; assumption))
  have hl : (sizeTable [r0, r1, r2, r3, r4] ([r0, r1, r2, r3, r4].map (zc levelDetails))).length = 10 := rfl
  rw [hl] at hdec
  simp only [hdec]
  have hcut := cutFrames_flatten ([r0, r1, r2, r3, r4].map (zc levelDetails))
  simp only [sizeTable, List.map_cons, List.map_nil, List.zip_cons_cons, List.zip_nil_right,
    List.flatMap_cons, List.flatMap_nil, List.append_nil, List.cons_append, List.nil_append] at hcut ⊢
  simp only [hcut]

theorem fits_self : ∀ (b : Batch), fits (b.map List.length) b = true := by
  intro b
  induction b with
  | nil => rfl
  | cons s ss ih => simp [fits, ih]

theorem zip_names_segs (s : Details.Sample) :
    List.zip (s.contigs.map Details.Contig.name) (s.contigs.map Details.Contig.segs) = tableOfSample s := by
  unfold tableOfSample
  induction s.contigs with
  | nil => rfl
  | cons c cs ih => simp [ih]

theorem zipWith_tables : ∀ (chunk : List Details.Sample),
    List.zipWith (fun ns ds => List.zip ns ds) (namesOf chunk) (segsOf chunk) = chunk.map tableOfSample := by
  intro chunk
  induction chunk with
  | nil => rfl
  | cons s ss ih =>
    simp only [namesOf, segsOf, List.map_cons, List.zipWith_cons_cons] at ih ⊢
    rw [ih, zip_names_segs]

theorem mapM_ok_of_forall {α ε : Type} (g : α → Except ε α) (h : ∀ x, g x = .ok x) :
    ∀ (l : List α), l.mapM g = .ok l := by
  intro l
  induction l with
  | nil => rfl
  | cons x xs ih =>
    rw [List.mapM_cons, h x, ih]
    rfl

/-- one batch of the catalogue is read back (C03 `names_roundtrip`, `details_roundtrip`) -/
theorem decodeBatch_ok (zc : Nat → List Nat → List Nat) (zd : List Nat → Option (List Nat))
    (hz : ∀ l x, zd (zc l x) = some x) (hne : ∀ l x, zc l x = [] → x = [])
    (k segSize : Nat) (hpred : segSize + k ≤ 2 ^ 31) (a : Acc) (idx avail : Nat)
    (chunk : List Details.Sample) (hok : ∀ s ∈ chunk, CatSampleOK s) (hlen : chunk.length < 2 ^ 32)
    (hav : chunk.length ≤ avail) :
    decodeBatch zd k segSize a idx avail (Spec.readBack (contigsPart zc (storeBatch segSize k chunk)))
      ⟨(storeBatch segSize k chunk).details.map List.length,
        (storeBatch segSize k chunk).details.map (zc levelDetails), 0⟩
      = .ok (a, chunk.map tableOfSample) := by
  have hraw : encodeNames (namesOf chunk) ≠ [] := by
    unfold encodeNames
    intro hc
    have := List.append_eq_nil_iff.mp hc
    exact Ragc.CollVarint.encode_ne_nil _ this.1
  have hframe : zc levelContigNames (encodeNames (namesOf chunk)) ≠ [] := fun hc => hraw (hne _ _ hc)
  have hnames := Ragc.Props.C03.names_roundtrip (namesOf chunk) avail
    (by simpa [namesOf] using hlen) (by simpa [namesOf] using hav)
    (by
      intro s hs
      obtain ⟨x, hx, rfl⟩ := List.mem_map.mp hs
      simpa using (hok x hx).cnt)
    (by
      intro s hs n hn
      obtain ⟨x, hx, rfl⟩ := List.mem_map.mp hs
      obtain ⟨c, hc, rfl⟩ := List.mem_map.mp hn
      exact ((hok x hx).contigs c hc).1)
  have hdet := Ragc.Props.C03.details_roundtrip segSize k (segsOf chunk) ((namesOf chunk).map List.length)
    hpred (by simpa [segsOf] using hlen)
    (by
      intro s hs
      obtain ⟨x, hx, rfl⟩ := List.mem_map.mp hs
      refine ⟨by simpa using (hok x hx).cnt, ?_⟩
      intro c hc
      obtain ⟨y, hy, rfl⟩ := List.mem_map.mp hc
      exact ((hok x hx).contigs y hy).2.1)
    (by
      intro s hs c hc g hg
      obtain ⟨x, hx, rfl⟩ := List.mem_map.mp hs
      obtain ⟨y, hy, rfl⟩ := List.mem_map.mp hc
      exact ((hok x hx).contigs y hy).2.2 g hg)
    (by
      have : (namesOf chunk).map List.length = (segsOf chunk).map List.length := by
        simp [namesOf, segsOf, List.map_map, Function.comp_def]
      rw [this]; exact fits_self _)
  unfold decodeBatch contigsPart storeBatch
  simp only []
  rw [readBack_nonempty _ _ hframe]
  simp only [hz, bind, Except.bind, pure, Except.pure, if_true, hnames, List.mapM_map]
  rw [mapM_ok_of_forall _ (fun x => by simp only [Function.comp, hz])]
  simp only [hdet]
  have hshape : (segsOf chunk).map List.length = (namesOf chunk).map List.length := by
    simp [namesOf, segsOf, List.map_map, Function.comp_def]
  simp [hshape, zipWith_tables]

/-! ## the batch loop -/

theorem storeBatches_nil (segSize k : Nat) : storeBatches segSize k 50 [] = [] := by
  rw [storeBatches]; simp

theorem storeBatches_cons (segSize k : Nat) (ss : List Details.Sample) (h : ss ≠ []) :
    storeBatches segSize k 50 ss = storeBatch segSize k (ss.take 50) :: storeBatches segSize k 50 (ss.drop 50) := by
  rw [storeBatches]
  rw [dif_neg (by simp [h])]

theorem storeBatches_length (segSize k : Nat) : ∀ (n : Nat) (ss : List Details.Sample), ss.length = n →
    (storeBatches segSize k 50 ss).length = (ss.length + 49) / 50 := by
  intro n
  induction n using Nat.strongRecOn with
  | _ n ih =>
    intro ss hn
    by_cases h : ss = []
    · subst h; rw [storeBatches_nil]; rfl
    · have hpos : 0 < ss.length := List.length_pos_iff.mpr h
      rw [storeBatches_cons _ _ _ h, List.length_cons,
        ih (ss.drop 50).length (by simp only [List.length_drop]; omega) _ rfl]
      simp only [List.length_drop]
      omega

/-- what `parseDetailsPart` returns for a stored batch -/
def parsedDetails (zc : Nat → List Nat → List Nat) (b : StoredBatch) : DetailsPart :=
  ⟨b.details.map List.length, b.details.map (zc levelDetails), 0⟩

theorem batchLoop_ok (zc : Nat → List Nat → List Nat) (zd : List Nat → Option (List Nat))
    (hz : ∀ l x, zd (zc l x) = some x) (hne : ∀ l x, zc l x = [] → x = [])
    (k segSize : Nat) (hpred : segSize + k ≤ 2 ^ 31) (all : List Details.Sample)
    (hall : ∀ s ∈ all, CatSampleOK s) (hn : all.length < 2 ^ 32) (a : Acc) :
    ∀ (n : Nat) (ss : List Details.Sample) (loaded idx : Nat) (out : Array ContigTable),
      ss.length = n → ss = all.drop loaded → loaded ≤ all.length → (ss ≠ [] → loaded = 50 * idx) →
      (List.zip ((storeBatches segSize k 50 ss).map fun b => Spec.readBack (contigsPart zc b))
          ((storeBatches segSize k 50 ss).map (parsedDetails zc))).foldlM
        (batchStep zd k segSize all.length ((all.length + packCard - 1) / packCard)) (a, out, loaded, idx)
        = .ok (a, out ++ (ss.map tableOfSample).toArray, all.length, idx + (storeBatches segSize k 50 ss).length) := by
  intro n
  induction n using Nat.strongRecOn with
  | _ n ih =>
    intro ss loaded idx out hlen hss hle hidx
    by_cases h : ss = []
    · subst h
      have : loaded = all.length := by
        have := congrArg List.length hss
        simp only [List.length_nil, List.length_drop] at this
        omega
      rw [storeBatches_nil]
      simp [this, pure, Except.pure]
    · have hpos : 0 < ss.length := List.length_pos_iff.mpr h
      have hloaded := hidx h
      have hsslen : ss.length = all.length - loaded := by rw [hss]; simp
      rw [storeBatches_cons _ _ _ h]
      simp only [List.map_cons, List.zip_cons_cons, List.foldlM_cons, List.length_cons]
      have hchunk : ∀ s ∈ ss.take 50, CatSampleOK s := fun s hs =>
        hall s (by rw [hss] at hs; exact List.mem_of_mem_drop (List.mem_of_mem_take hs))
      have hstep : batchStep zd k segSize all.length ((all.length + packCard - 1) / packCard) (a, out, loaded, idx)
          (Spec.readBack (contigsPart zc (storeBatch segSize k (ss.take 50))),
            parsedDetails zc (storeBatch segSize k (ss.take 50)))
          = .ok (a, out ++ ((ss.take 50).map tableOfSample).toArray, loaded + (ss.take 50).length, idx + 1) := by
        unfold batchStep parsedDetails
        simp only []
        rw [decodeBatch_ok zc zd hz hne k segSize hpred a idx (all.length - loaded) (ss.take 50) hchunk
          (by simp only [List.length_take]; omega) (by simp only [List.length_take]; omega)]
        simp only [bind, Except.bind, pure, Except.pure, List.length_map, List.length_take]
        rw [if_pos (by
          unfold packCard
          by_cases h50 : 50 ≤ ss.length
          · left; omega
          · right; omega)]
      rw [hstep]
      simp only [bind, Except.bind]
      have hrest := ih (ss.drop 50).length (by simp only [List.length_drop]; omega) (ss.drop 50)
        (loaded + (ss.take 50).length) (idx + 1) (out ++ ((ss.take 50).map tableOfSample).toArray) rfl
        (by
          by_cases h50 : 50 ≤ ss.length
          · have : (ss.take 50).length = 50 := by simp only [List.length_take]; omega
            rw [this]
            conv => lhs; rw [hss]
            rw [List.drop_drop]
          · rw [List.drop_eq_nil_of_le (by omega), List.drop_eq_nil_of_le (by
              simp only [List.length_take]; omega)])
        (by simp only [List.length_take]; omega)
        (by
          intro hne'
          have : 50 < ss.length := by
            apply Classical.byContradiction
            intro hc
            exact hne' (List.drop_eq_nil_of_le (by omega))
          simp only [List.length_take]; omega)
      rw [hrest]
      have e1 : out ++ ((ss.take 50).map tableOfSample).toArray ++ ((ss.drop 50).map tableOfSample).toArray
          = out ++ (ss.map tableOfSample).toArray := by
        rw [Array.append_assoc, List.append_toArray ((ss.take 50).map tableOfSample) ((ss.drop 50).map tableOfSample),
          ← List.map_append, List.take_append_drop]
      have e2 : idx + 1 + (storeBatches segSize k 50 (ss.drop 50)).length
          = idx + ((storeBatches segSize k 50 (ss.drop 50)).length + 1) := by omega
      rw [e1, e2]

end Ragc.WriterLemmas
