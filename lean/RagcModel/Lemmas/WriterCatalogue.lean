import RagcModel.Lemmas.WriterFixed
import RagcModel.Lemmas.WriterSamples
import RagcModel.Props.C03
/-!
Helper lemmas for `read_write` (C01/C02), part 8: the catalogue. `parseDetailsPart`, `decodeBatch`
and the batch loop of `decodeCatalogue` on the parts the reference writer stores
(`samplesPart`, `contigsPart`, `detailsPart` over `Details.storeBatches`), with the C03 round trips.
-/
namespace Ragc.WriterLemmas
open Ragc.Agc3 Ragc.Writer Ragc.Container Ragc.Details Ragc.Names

/-- catalogue entries as the C03 theorems need them -/
structure CatSampleOK (s : Details.Sample) : Prop where
  name : ∀ b ∈ s.name, 1 ≤ b ∧ b ≤ 127
  cnt : s.contigs.length < 2 ^ 32
  contigs : ∀ c ∈ s.contigs, (∀ b ∈ c.name, 1 ≤ b ∧ b ≤ 127) ∧ c.segs.length < 2 ^ 32 ∧
    ∀ g ∈ c.segs, g.group < 2 ^ 32 ∧ g.inGroup + 1 < 2 ^ 31 ∧ g.rawLen < 2 ^ 32

/-- the decoder's table of one sample -/
def tableOfSample (s : Details.Sample) : ContigTable := s.contigs.map fun c => (c.name, c.segs)

theorem readBack_md0 (d : List Nat) : Spec.readBack (d, 0) = (d, 0) := by
  unfold Spec.readBack
  split
  · rename_i he
    have : d = [] := List.isEmpty_iff.mp he
    subst this; rfl
  · rfl

theorem readBack_nonempty (d : List Nat) (m : Nat) (h : d ≠ []) : Spec.readBack (d, m) = (d, m) := by
  unfold Spec.readBack
  split
  · rename_i he; exact absurd (List.isEmpty_iff.mp he) h
  · rfl

theorem cutFrames_flatten : ∀ (fs : List (List Nat)), cutFrames (fs.map List.length) fs.flatten = some fs := by
  intro fs
  induction fs with
  | nil => rfl
  | cons f fs ih =>
    simp only [List.map_cons, List.flatten_cons, cutFrames, List.length_append]
    rw [if_neg (by omega), List.drop_left, List.take_left, ih]
    rfl

/-- the `collection-details` part is parsed back into its five frames -/
theorem parseDetailsPart_ok (zc : Nat → List Nat → List Nat) (names r0 r1 r2 r3 r4 : List Nat)
    (hfit : sizesFit zc ⟨names, [r0, r1, r2, r3, r4]⟩ = true) :
    parseDetailsPart (Spec.readBack (detailsPart zc ⟨names, [r0, r1, r2, r3, r4]⟩))
      = .ok ⟨[r0, r1, r2, r3, r4].map List.length, [r0, r1, r2, r3, r4].map (zc levelDetails), 0⟩ := by
  unfold detailsPart
  rw [readBack_md0]
  unfold parseDetailsPart
  simp only [sizesFit, List.all_cons, List.all_nil, Bool.and_true, Bool.and_eq_true, decide_eq_true_eq] at hfit
  obtain ⟨⟨a0, b0⟩, ⟨a1, b1⟩, ⟨a2, b2⟩, ⟨a3, b3⟩, a4, b4⟩ := hfit
  have hdec := decNats_encNats
    (sizeTable [r0, r1, r2, r3, r4] ([r0, r1, r2, r3, r4].map (zc levelDetails)))
    (([r0, r1, r2, r3, r4].map (zc levelDetails)).flatten) (by
      intro x hx
      simp only [sizeTable, List.map_cons, List.map_nil, List.zip_cons_cons, List.zip_nil_right,
        List.flatMap_cons, List.flatMap_nil, List.append_nil, List.cons_append, List.nil_append,
        List.mem_cons, List.not_mem_nil, or_false] at hx
      have : (4294967296 : Nat) = 2 ^ 32 := by decide
      rcases hx with h | h | h | h | h | h | h | h | h | h <;> (rw [h, this]; assumption))
  have hl : (sizeTable [r0, r1, r2, r3, r4] ([r0, r1, r2, r3, r4].map (zc levelDetails))).length = 10 := rfl
  rw [hl] at hdec
  simp only [hdec]
  have hcut := cutFrames_flatten ([r0, r1, r2, r3, r4].map (zc levelDetails))
  simp only [sizeTable, List.map_cons, List.map_nil, List.zip_cons_cons, List.zip_nil_right,
    List.flatMap_cons, List.flatMap_nil, List.append_nil, List.cons_append, List.nil_append] at hcut ⊢
  simp only [hcut]

theorem fits_self : ∀ (b : Batch), fits (b.map List.length) b = true := by
  intro b
  induction b with
  | nil => rfl
  | cons s ss ih => simp [fits, ih]

theorem zip_names_segs (s : Details.Sample) :
    List.zip (s.contigs.map Details.Contig.name) (s.contigs.map Details.Contig.segs) = tableOfSample s := by
  unfold tableOfSample
  induction s.contigs with
  | nil => rfl
  | cons c cs ih => simp [ih]

theorem zipWith_tables : ∀ (chunk : List Details.Sample),
    List.zipWith (fun ns ds => List.zip ns ds) (namesOf chunk) (segsOf chunk) = chunk.map tableOfSample := by
  intro chunk
  induction chunk with
  | nil => rfl
  | cons s ss ih =>
    simp only [namesOf, segsOf, List.map_cons, List.zipWith_cons_cons] at ih ⊢
    rw [ih, zip_names_segs]

theorem mapM_ok_of_forall {α ε : Type} (g : α → Except ε α) (h : ∀ x, g x = .ok x) :
    ∀ (l : List α), l.mapM g = .ok l := by
  intro l
  induction l with
  | nil => rfl
  | cons x xs ih =>
    rw [List.mapM_cons, h x, ih]
    rfl

/-- one batch of the catalogue is read back (C03 `names_roundtrip`, `details_roundtrip`) -/
theorem decodeBatch_ok (zc : Nat → List Nat → List Nat) (zd : List Nat → Option (List Nat))
    (hz : ∀ l x, zd (zc l x) = some x) (hne : ∀ l x, zc l x = [] → x = [])
    (k segSize : Nat) (hpred : segSize + k ≤ 2 ^ 31) (a : Acc) (idx avail : Nat)
    (chunk : List Details.Sample) (hok : ∀ s ∈ chunk, CatSampleOK s) (hlen : chunk.length < 2 ^ 32)
    (hav : chunk.length ≤ avail) :
    decodeBatch zd k segSize a idx avail (Spec.readBack (contigsPart zc (storeBatch segSize k chunk)))
      ⟨(storeBatch segSize k chunk).details.map List.length,
        (storeBatch segSize k chunk).details.map (zc levelDetails), 0⟩
      = .ok (a, chunk.map tableOfSample) := by
  have hraw : encodeNames (namesOf chunk) ≠ [] := by
    unfold encodeNames
    intro hc
    have := List.append_eq_nil_iff.mp hc
    exact Ragc.CollVarint.encode_ne_nil _ this.1
  have hframe : zc levelContigNames (encodeNames (namesOf chunk)) ≠ [] := fun hc => hraw (hne _ _ hc)
  have hnames := Ragc.Props.C03.names_roundtrip (namesOf chunk) avail
    (by simpa [namesOf] using hlen) (by simpa [namesOf] using hav)
    (by
      intro s hs
      obtain ⟨x, hx, rfl⟩ := List.mem_map.mp hs
      simpa using (hok x hx).cnt)
    (by
      intro s hs n hn
      obtain ⟨x, hx, rfl⟩ := List.mem_map.mp hs
      obtain ⟨c, hc, rfl⟩ := List.mem_map.mp hn
      exact ((hok x hx).contigs c hc).1)
  have hdet := Ragc.Props.C03.details_roundtrip segSize k (segsOf chunk) ((namesOf chunk).map List.length)
    hpred (by simpa [segsOf] using hlen)
    (by
      intro s hs
      obtain ⟨x, hx, rfl⟩ := List.mem_map.mp hs
      refine ⟨by simpa using (hok x hx).cnt, ?_⟩
      intro c hc
      obtain ⟨y, hy, rfl⟩ := List.mem_map.mp hc
      exact ((hok x hx).contigs y hy).2.1)
    (by
      intro s hs c hc g hg
      obtain ⟨x, hx, rfl⟩ := List.mem_map.mp hs
      obtain ⟨y, hy, rfl⟩ := List.mem_map.mp hc
      exact ((hok x hx).contigs y hy).2.2 g hg)
    (by
      have : (namesOf chunk).map List.length = (segsOf chunk).map List.length := by
        simp [namesOf, segsOf, List.map_map, Function.comp_def]
      rw [this]; exact fits_self _)
  unfold decodeBatch contigsPart storeBatch
  simp only []
  rw [readBack_nonempty _ _ hframe]
  simp only [hz, bind, Except.bind, pure, Except.pure, if_true, hnames, List.mapM_map]
  rw [mapM_ok_of_forall _ (fun x => by simp only [Function.comp, hz])]
  simp only [hdet]
  have hshape : (segsOf chunk).map List.length = (namesOf chunk).map List.length := by
    simp [namesOf, segsOf, List.map_map, Function.comp_def]
  simp [hshape, zipWith_tables]

/-! ## the batch loop -/

theorem storeBatches_nil (segSize k : Nat) : storeBatches segSize k 50 [] = [] := by
  rw [storeBatches]; simp

theorem storeBatches_cons (segSize k : Nat) (ss : List Details.Sample) (h : ss ≠ []) :
    storeBatches segSize k 50 ss = storeBatch segSize k (ss.take 50) :: storeBatches segSize k 50 (ss.drop 50) := by
  rw [storeBatches]
  rw [dif_neg (by simp [h])]

theorem storeBatches_length (segSize k : Nat) : ∀ (n : Nat) (ss : List Details.Sample), ss.length = n →
    (storeBatches segSize k 50 ss).length = (ss.length + 49) / 50 := by
  intro n
  induction n using Nat.strongRecOn with
  | _ n ih =>
    intro ss hn
    by_cases h : ss = []
    · subst h; rw [storeBatches_nil]; rfl
    · have hpos : 0 < ss.length := List.length_pos_iff.mpr h
      rw [storeBatches_cons _ _ _ h, List.length_cons,
        ih (ss.drop 50).length (by simp only [List.length_drop]; omega) _ rfl]
      simp only [List.length_drop]
      omega

/-- what `parseDetailsPart` returns for a stored batch -/
def parsedDetails (zc : Nat → List Nat → List Nat) (b : StoredBatch) : DetailsPart :=
  ⟨b.details.map List.length, b.details.map (zc levelDetails), 0⟩

theorem batchLoop_ok (zc : Nat → List Nat → List Nat) (zd : List Nat → Option (List Nat))
    (hz : ∀ l x, zd (zc l x) = some x) (hne : ∀ l x, zc l x = [] → x = [])
    (k segSize : Nat) (hpred : segSize + k ≤ 2 ^ 31) (all : List Details.Sample)
    (hall : ∀ s ∈ all, CatSampleOK s) (hn : all.length < 2 ^ 32) (a : Acc) :
    ∀ (n : Nat) (ss : List Details.Sample) (loaded idx : Nat) (out : Array ContigTable),
      ss.length = n → ss = all.drop loaded → loaded ≤ all.length → (ss ≠ [] → loaded = 50 * idx) →
      (List.zip ((storeBatches segSize k 50 ss).map fun b => Spec.readBack (contigsPart zc b))
          ((storeBatches segSize k 50 ss).map (parsedDetails zc))).foldlM
        (batchStep zd k segSize all.length ((all.length + packCard - 1) / packCard)) (a, out, loaded, idx)
        = .ok (a, out ++ (ss.map tableOfSample).toArray, all.length, idx + (storeBatches segSize k 50 ss).length) := by
  intro n
  induction n using Nat.strongRecOn with
  | _ n ih =>
    intro ss loaded idx out hlen hss hle hidx
    by_cases h : ss = []
    · subst h
      have : loaded = all.length := by
        have := congrArg List.length hss
        simp only [List.length_nil, List.length_drop] at this
        omega
      rw [storeBatches_nil]
      simp [this, pure, Except.pure]
    · have hpos : 0 < ss.length := List.length_pos_iff.mpr h
      have hloaded := hidx h
      have hsslen : ss.length = all.length - loaded := by rw [hss]; simp
      rw [storeBatches_cons _ _ _ h]
      simp only [List.map_cons, List.zip_cons_cons, List.foldlM_cons, List.length_cons]
      have hchunk : ∀ s ∈ ss.take 50, CatSampleOK s := fun s hs =>
        hall s (by rw [hss] at hs; exact List.mem_of_mem_drop (List.mem_of_mem_take hs))
      have hstep : batchStep zd k segSize all.length ((all.length + packCard - 1) / packCard) (a, out, loaded, idx)
          (Spec.readBack (contigsPart zc (storeBatch segSize k (ss.take 50))),
            parsedDetails zc (storeBatch segSize k (ss.take 50)))
          = .ok (a, out ++ ((ss.take 50).map tableOfSample).toArray, loaded + (ss.take 50).length, idx + 1) := by
        unfold batchStep parsedDetails
        simp only []
        rw [decodeBatch_ok zc zd hz hne k segSize hpred a idx (all.length - loaded) (ss.take 50) hchunk
          (by simp only [List.length_take]; omega) (by simp only [List.length_take]; omega)]
        simp only [bind, Except.bind, pure, Except.pure, List.length_map, List.length_take]
        rw [if_pos (by
          unfold packCard
          by_cases h50 : 50 ≤ ss.length
          · left; omega
          · right; omega)]
      rw [hstep]
      simp only [bind, Except.bind]
      have hrest := ih (ss.drop 50).length (by simp only [List.length_drop]; omega) (ss.drop 50)
        (loaded + (ss.take 50).length) (idx + 1) (out ++ ((ss.take 50).map tableOfSample).toArray) rfl
        (by
          by_cases h50 : 50 ≤ ss.length
          · have : (ss.take 50).length = 50 := by simp only [List.length_take]; omega
            rw [this]
            conv => lhs; rw [hss]
            rw [List.drop_drop]
          · rw [List.drop_eq_nil_of_le (by omega), List.drop_eq_nil_of_le (by
              simp only [List.length_take]; omega)])
        (by simp only [List.length_take]; omega)
        (by
          intro hne'
          have : 50 < ss.length := by
            apply Classical.byContradiction
            intro hc
            exact hne' (List.drop_eq_nil_of_le (by omega))
          simp only [List.length_take]; omega)
      rw [hrest]
      have e1 : out ++ ((ss.take 50).map tableOfSample).toArray ++ ((ss.drop 50).map tableOfSample).toArray
          = out ++ (ss.map tableOfSample).toArray := by
        rw [Array.append_assoc, List.append_toArray ((ss.take 50).map tableOfSample) ((ss.drop 50).map tableOfSample),
          ← List.map_append, List.take_append_drop]
      have e2 : idx + 1 + (storeBatches segSize k 50 (ss.drop 50)).length
          = idx + ((storeBatches segSize k 50 (ss.drop 50)).length + 1) := by omega
      rw [e1, e2]

/-! ## the writer's catalogue meets the C03 hypotheses -/

theorem tilesFromB_le (k n : Nat) : ∀ (lens : List Nat) (e : Nat), tilesFromB k n e lens = true →
    ∀ l ∈ lens, l ≤ n := by
  intro lens
  induction lens with
  | nil => intro e _ l hl; cases hl
  | cons x xs ih =>
    intro e h l hl
    simp only [tilesFromB, Bool.and_eq_true, decide_eq_true_eq] at h
    simp only [List.mem_cons] at hl
    rcases hl with rfl | hl
    · omega
    · exact ih _ h.2 l hl

theorem tilesB_le (k n : Nat) (lens : List Nat) (h : tilesB k n lens = true) : ∀ l ∈ lens, l ≤ n := by
  cases lens with
  | nil => intro l hl; cases hl
  | cons x xs =>
    simp only [tilesB, Bool.and_eq_true, decide_eq_true_eq] at h
    intro l hl
    simp only [List.mem_cons] at hl
    rcases hl with rfl | hl
    · exact h.1
    · exact tilesFromB_le k n xs x h.2 l hl

theorem nameOK_iff (n : List Nat) (h : nameOK n = true) : ∀ b ∈ n, 1 ≤ b ∧ b ≤ 127 := by
  intro b hb
  unfold nameOK at h
  have := List.all_eq_true.mp h b hb
  simpa using this

theorem mem_zipWith {α β γ : Type} (f : α → β → γ) (l : List α) (l' : List β) (x : γ)
    (h : x ∈ List.zipWith f l l') : ∃ (i : Nat) (a : α) (b : β), l[i]? = some a ∧ l'[i]? = some b ∧ x = f a b := by
  obtain ⟨i, hi⟩ := List.mem_iff_getElem?.mp h
  obtain ⟨a, b, h1, h2, h3⟩ := zipWith_get_inv f l l' i x hi
  exact ⟨i, a, b, h1, h2, h3⟩

theorem catalogue_ok (cfg : Cfg) (inp : List Writer.Sample) (dec : Decisions) (zc : Nat → List Nat → List Nat)
    (outs : List GroupOut) (hok : DecOK cfg inp dec) (hcodes : codesOK inp)
    (hw : writeGroups cfg zc (storedAll cfg.k inp dec) dec.groups = some outs) :
    ∀ x ∈ catalogue inp dec outs, CatSampleOK x := by
  intro x hx
  unfold catalogue at hx
  obtain ⟨s, smp, dcs, h1, h3, rfl⟩ := mem_zipWith _ _ _ _ hx
  have hS := hok.samples _ (mem_zip_of_get _ _ _ _ _ h1 h3)
  refine ⟨nameOK_iff _ hS.name, ?_, ?_⟩
  · simp only [List.length_zipWith]
    have hcnt : smp.contigs.length < 2 ^ 32 := hS.cnt
    omega
  · intro cc hcc
    obtain ⟨c, ctg, ds, h2, h4, rfl⟩ := mem_zipWith _ _ _ _ hcc
    have hC := hS.contigs _ (mem_zip_of_get _ _ _ _ _ h2 h4)
    refine ⟨nameOK_iff _ hC.name, by simpa using hC.cnt, ?_⟩
    intro g hg
    simp only [List.mem_map] at hg
    obtain ⟨d, hd, rfl⟩ := hg
    obtain ⟨j, hj⟩ := List.mem_iff_getElem?.mp hd
    obtain ⟨G, datas, P, _, hGid, hG32, _, _, hids, hslot, hbound, hid⟩ :=
      piece_plan cfg inp dec zc outs hok hcodes hw s c j dcs ds d h3 h4 hj
    have hlen : d.len ≤ ctg.data.length :=
      tilesB_le cfg.k _ _ hC.tiles d.len (List.mem_map.mpr ⟨d, hd, rfl⟩)
    have hl32 : ctg.data.length < 2 ^ 32 := hC.len
    unfold descOf
    simp only [hids]
    refine ⟨by rw [← hGid]; exact hG32, by omega, by omega⟩

theorem catalogue_length (inp : List Writer.Sample) (dec : Decisions) (outs : List GroupOut)
    (h : dec.pieces.length = inp.length) : (catalogue inp dec outs).length = inp.length := by
  unfold catalogue
  simp [List.length_zipWith, h]

theorem catalogue_names (inp : List Writer.Sample) (dec : Decisions) (outs : List GroupOut)
    (h : dec.pieces.length = inp.length) : (catalogue inp dec outs).map (·.name) = inp.map (·.name) := by
  unfold catalogue
  rw [List.map_zipWith]
  exact zipWith_fst (fun s : Writer.Sample => s.name) inp dec.pieces h

theorem catalogue_tables (inp : List Writer.Sample) (dec : Decisions) (outs : List GroupOut) :
    (catalogue inp dec outs).map tableOfSample
      = List.zipWith (fun s dcs => tableOf outs s.contigs dcs) inp dec.pieces := by
  unfold catalogue
  rw [List.map_zipWith]
  apply zipWith_congr_mem
  intro x _
  simp only [tableOfSample, tableOf, List.map_zipWith]

/-! ## `decodeCatalogue` -/

theorem mem_storeBatches (segSize k : Nat) : ∀ (n : Nat) (ss : List Details.Sample), ss.length = n →
    ∀ b ∈ storeBatches segSize k 50 ss, ∃ chunk, b = storeBatch segSize k chunk := by
  intro n
  induction n using Nat.strongRecOn with
  | _ n ih =>
    intro ss hn b hb
    by_cases h : ss = []
    · subst h; rw [storeBatches_nil] at hb; cases hb
    · have hpos : 0 < ss.length := List.length_pos_iff.mpr h
      rw [storeBatches_cons _ _ _ h] at hb
      simp only [List.mem_cons] at hb
      rcases hb with rfl | hb
      · exact ⟨_, rfl⟩
      · exact ih (ss.drop 50).length (by simp only [List.length_drop]; omega) _ rfl b hb

theorem mapM_ok_map {α β ε : Type} (f : α → Except ε β) (g : α → β) :
    ∀ (l : List α), (∀ x ∈ l, f x = .ok (g x)) → l.mapM f = .ok (l.map g) := by
  intro l
  induction l with
  | nil => intro _; rfl
  | cons x xs ih =>
    intro h
    rw [List.mapM_cons, h x (by simp), ih (fun y hy => h y (by simp [hy]))]
    rfl

theorem decodeCatalogue_ok (zc : Nat → List Nat → List Nat) (zd : List Nat → Option (List Nat))
    (hz : ∀ l x, zd (zc l x) = some x) (hne : ∀ l x, zc l x = [] → x = [])
    (cfg : Cfg) (dec : Decisions) (inp : List Writer.Sample) (outs : List GroupOut) (o : Opened)
    (cat : List Details.Sample)
    (h : Opens o (regNames dec) (partList cfg zc inp outs (storeBatches cfg.segSize cfg.k 50 cat)))
    (hfit : (storeBatches cfg.segSize cfg.k 50 cat).all (sizesFit zc) = true)
    (hcat : ∀ x ∈ cat, CatSampleOK x) (hlen : cat.length = inp.length) (hn : inp.length < 2 ^ 32)
    (hnameok : ∀ s ∈ inp, ∀ b ∈ s.name, 1 ≤ b ∧ b ≤ 127)
    (hpred : cfg.segSize + cfg.k ≤ 2 ^ 31) (a : Acc) :
    decodeCatalogue zd o cfg.k cfg.segSize a
      = .ok (a, inp.map (·.name), (cat.map tableOfSample).toArray, (storeBatches cfg.segSize cfg.k 50 cat).length) := by
  obtain ⟨p1, p2, p3, p4, p5⟩ := partsOf_fixed cfg zc inp outs (storeBatches cfg.segSize cfg.k 50 cat)
  obtain ⟨st1, hf1, hm1, hn1⟩ := find_stream o _ _ h (Writer.str "collection-samples")
    (fixed_mem_regNames dec _ (by decide))
  obtain ⟨st2, hf2, hm2, hn2⟩ := find_stream o _ _ h (Writer.str "collection-contigs")
    (fixed_mem_regNames dec _ (by decide))
  obtain ⟨st3, hf3, hm3, hn3⟩ := find_stream o _ _ h (Writer.str "collection-details")
    (fixed_mem_regNames dec _ (by decide))
  -- the sample names part
  have hraw : encodeSampleNames (inp.map (·.name)) ≠ [] := by
    unfold encodeSampleNames
    intro hc
    exact Ragc.CollVarint.encode_ne_nil _ (List.append_eq_nil_iff.mp hc).1
  have hsp : Spec.readBack (samplesPart zc inp)
      = (zc levelSamples (encodeSampleNames (inp.map (·.name))), (encodeSampleNames (inp.map (·.name))).length) :=
    readBack_nonempty _ _ (fun hc => hraw (hne _ _ hc))
  -- the descriptor parts parse
  have hparse : ((storeBatches cfg.segSize cfg.k 50 cat).map fun b => Spec.readBack (detailsPart zc b)).mapM parseDetailsPart
      = .ok ((storeBatches cfg.segSize cfg.k 50 cat).map (parsedDetails zc)) := by
    rw [List.mapM_map]
    apply mapM_ok_map
    intro b hb
    obtain ⟨chunk, rfl⟩ := mem_storeBatches cfg.segSize cfg.k _ cat rfl b hb
    have hfb := List.all_eq_true.mp hfit _ hb
    exact parseDetailsPart_ok zc _ _ _ _ _ _ hfb
  have hrc : readCollection o = .ok ⟨Spec.readBack (samplesPart zc inp),
      (storeBatches cfg.segSize cfg.k 50 cat).map (fun b => Spec.readBack (contigsPart zc b)),
      (storeBatches cfg.segSize cfg.k 50 cat).map (parsedDetails zc)⟩ := by
    unfold readCollection findFixed
    rw [str_eq, str_eq, str_eq, hf1, hf2, hf3]
    simp only [bind, Except.bind]
    rw [h.read st1 hm1, h.read st2 hm2, h.read st3 hm3, hn1, hn2, hn3, p3, p4, p5]
    simp only [hparse]
    rfl
  unfold decodeCatalogue
  rw [hrc]
  simp only [bind, Except.bind, hsp, hz, pure, Except.pure, if_true]
  rw [Ragc.Props.C03.sample_names_roundtrip _ (by simpa using hn) (by
    intro n hnm
    obtain ⟨s, hs, rfl⟩ := List.mem_map.mp hnm
    exact hnameok s hs)]
  simp only [List.length_map]
  have hnB : (storeBatches cfg.segSize cfg.k 50 cat).length = (inp.length + packCard - 1) / packCard := by
    rw [storeBatches_length _ _ _ cat rfl, hlen]
    unfold packCard
    congr 1
  rw [if_pos ⟨hnB, hnB⟩]
  have hloop := batchLoop_ok zc zd hz hne cfg.k cfg.segSize hpred cat hcat (by omega) a cat.length cat 0 0 #[]
    rfl (by simp) (by omega) (fun _ => rfl)
  rw [hlen] at hloop
  rw [hloop]
  simp [hlen]

end Ragc.WriterLemmas
