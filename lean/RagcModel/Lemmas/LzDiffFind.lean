import RagcModel.Model.LzDiff
/-!
C09: soundness of the verified selection (`find_best_match_lp` without the table): whatever
candidate positions are supplied, a reported match really is a match.
-/
namespace Ragc.Model.LzDiff
open Ragc.Gen

theorem matchLen_le (t r : Array Nat) : ∀ (n ti ri : Nat), matchLen t r ti ri n ≤ n := by
  intro n
  induction n with
  | zero => intro ti ri; simp [matchLen]
  | succ n ih =>
    intro ti ri
    simp only [matchLen]
    split
    · split
      · have := ih (ti + 1) (ri + 1); omega
      · omega
    · omega

/-- the symbols counted by `matching_length` are equal (and exist). -/
theorem matchLen_spec (t r : Array Nat) : ∀ (n ti ri j : Nat), j < matchLen t r ti ri n →
    ∃ a, t[ti + j]? = some a ∧ r[ri + j]? = some a := by
  intro n
  induction n with
  | zero => intro ti ri j h; simp [matchLen] at h
  | succ n ih =>
    intro ti ri j h
    simp only [matchLen] at h
    split at h
    · next a b ha hb =>
      split at h
      · next hab =>
        cases j with
        | zero => exact ⟨a, by simpa using ha, by simpa [hab] using hb⟩
        | succ j' =>
          obtain ⟨c, h1, h2⟩ := ih (ti + 1) (ri + 1) j' (by omega)
          refine ⟨c, ?_, ?_⟩
          · have : ti + (j' + 1) = ti + 1 + j' := by omega
            rw [this]; exact h1
          · have : ri + (j' + 1) = ri + 1 + j' := by omega
            rw [this]; exact h2
      · omega
    · omega

theorem backLen_le (t r : Array Nat) : ∀ (n ti ri : Nat), backLen t r ti ri n ≤ n := by
  intro n
  induction n with
  | zero => intro ti ri; simp [backLen]
  | succ n ih =>
    intro ti ri
    simp only [backLen]
    split
    · split
      · have := ih (ti - 1) (ri - 1); omega
      · omega
    · omega

/-- the symbols counted by the backward loop are equal (and exist), provided the bound
    `max_back ≤ min(h_pos, text_pos)` the code uses. -/
theorem backLen_spec (t r : Array Nat) : ∀ (n ti ri j : Nat), n ≤ ti → n ≤ ri →
    j < backLen t r ti ri n → ∃ a, t[ti - 1 - j]? = some a ∧ r[ri - 1 - j]? = some a := by
  intro n
  induction n with
  | zero => intro ti ri j _ _ h; simp [backLen] at h
  | succ n ih =>
    intro ti ri j hti hri h
    simp only [backLen] at h
    split at h
    · next a b ha hb =>
      split at h
      · next hab =>
        cases j with
        | zero => exact ⟨a, by simpa using ha, by simpa [hab] using hb⟩
        | succ j' =>
          obtain ⟨c, h1, h2⟩ := ih (ti - 1) (ri - 1) j' (by omega) (by omega) (by omega)
          refine ⟨c, ?_, ?_⟩
          · have : ti - 1 - (j' + 1) = ti - 1 - 1 - j' := by omega
            rw [this]; exact h1
          · have : ri - 1 - (j' + 1) = ri - 1 - 1 - j' := by omega
            rw [this]; exact h2
      · omega
    · omega

/-- A candidate `(p, b, f)` = (`h_pos`, `len_bck`, `len_fwd`) at text position `ti` is a real match:
    `f` symbols forward from `(ti, p)` and `b` symbols backward agree, `b` is covered by the
    previous literals, and `f` reaches the key length. -/
structure CandOK (refP t : Array Nat) (ti npl k p b f : Nat) : Prop where
  bnpl : b ≤ npl
  bti : b ≤ ti
  bp : b ≤ p
  fwd : ∀ j, j < f → ∃ a, t[ti + j]? = some a ∧ refP[p + j]? = some a
  bck : ∀ j, j < b → ∃ a, t[ti - 1 - j]? = some a ∧ refP[p - 1 - j]? = some a
  key : k ≤ f

/-- What `find_best_match_lp` guarantees about a reported match. -/
structure MatchOK (refP t : Array Nat) (ti npl mm k p b f : Nat) : Prop extends CandOK refP t ti npl k p b f where
  tot : mm ≤ b + f

theorem selectBest_sound {mm k : Nat} {refP t : Array Nat} {code : UInt64} {ti maxLen npl : Nat}
    (hmm : 0 < mm) :
    ∀ (cands : List Nat) (best : Best) {p b f : Nat},
      (best.bck + best.fwd = 0 ∨ CandOK refP t ti npl k best.pos best.bck best.fwd) →
      selectBest mm k refP t code ti maxLen npl cands best = .found p b f →
      MatchOK refP t ti npl mm k p b f := by
  intro cands
  induction cands with
  | nil =>
    intro best p b f hb h
    simp only [selectBest] at h
    split at h
    · next hge =>
      simp only [Found.found.injEq] at h
      obtain ⟨rfl, rfl, rfl⟩ := h
      rcases hb with hb | hb
      · omega
      · exact { toCandOK := hb, tot := hge }
    · cases h
  | cons hd tl ih =>
    intro best p b f hb h
    simp only [selectBest] at h
    split at h
    · exact ih best hb h
    · split at h
      · cases h
      · exact ih best hb h
      · split at h
        · exact ih best hb h
        · split at h
          · next hfk =>
            split at h
            · refine ih _ (Or.inr ?_) h
              exact {
                bnpl := Nat.le_trans (backLen_le _ _ _ _ _) (Nat.min_le_left _ _)
                bti := Nat.le_trans (backLen_le _ _ _ _ _)
                  (Nat.le_trans (Nat.min_le_right _ _) (Nat.min_le_right _ _))
                bp := Nat.le_trans (backLen_le _ _ _ _ _)
                  (Nat.le_trans (Nat.min_le_right _ _) (Nat.min_le_left _ _))
                fwd := fun j hj => matchLen_spec t refP _ ti hd j hj
                bck := fun j hj => backLen_spec t refP _ ti hd j
                  (Nat.le_trans (Nat.min_le_right _ _) (Nat.min_le_right _ _))
                  (Nat.le_trans (Nat.min_le_right _ _) (Nat.min_le_left _ _)) hj
                key := hfk }
            · exact ih best hb h
          · exact ih best hb h

/-- **Soundness of the finder for every candidate list.** -/
theorem findBest_sound {mm : Nat} {refP t : Array Nat} {code : UInt64} {ti npl : Nat} {cands : List Nat}
    {p b f : Nat} (hmm : lzHashingStep ≤ mm)
    (h : findBest mm refP t code ti npl cands = .found p b f) :
    MatchOK refP t ti npl mm (keyLen mm) p b f := by
  have h4 : 0 < mm := by
    have : 0 < lzHashingStep := by decide
    omega
  exact selectBest_sound h4 cands _ (Or.inl rfl) h

/-- The whole matched segment, counted from its back-extended start. -/
theorem MatchOK.segment {refP t : Array Nat} {ti npl mm k p b f : Nat}
    (h : MatchOK refP t ti npl mm k p b f) :
    ∀ j, j < b + f → ∃ a, t[ti - b + j]? = some a ∧ refP[p - b + j]? = some a := by
  intro j hj
  have h1 := h.bti
  have h2 := h.bp
  by_cases hjb : j < b
  · obtain ⟨a, ha, hb⟩ := h.bck (b - 1 - j) (by omega)
    refine ⟨a, ?_, ?_⟩
    · have : ti - b + j = ti - 1 - (b - 1 - j) := by omega
      rw [this]; exact ha
    · have : p - b + j = p - 1 - (b - 1 - j) := by omega
      rw [this]; exact hb
  · obtain ⟨a, ha, hb⟩ := h.fwd (j - b) (by omega)
    refine ⟨a, ?_, ?_⟩
    · have : ti - b + j = ti + (j - b) := by omega
      rw [this]; exact ha
    · have : p - b + j = p + (j - b) := by omega
      rw [this]; exact hb

theorem MatchOK.fwd_pos {refP t : Array Nat} {ti npl mm p b f : Nat} (hmm : lzHashingStep ≤ mm)
    (h : MatchOK refP t ti npl mm (keyLen mm) p b f) : 1 ≤ f := by
  have := h.key
  unfold keyLen at this
  omega

/-- the matched segment lies inside both sequences. -/
theorem MatchOK.bounds {refP t : Array Nat} {ti npl mm p b f : Nat} (hmm : lzHashingStep ≤ mm)
    (h : MatchOK refP t ti npl mm (keyLen mm) p b f) :
    ti + f ≤ t.size ∧ p + f ≤ refP.size := by
  have hf := h.fwd_pos hmm
  obtain ⟨a, ha, hb⟩ := h.fwd (f - 1) (by omega)
  have h1 : ti + (f - 1) < t.size := by
    rcases Nat.lt_or_ge (ti + (f - 1)) t.size with h | h
    · exact h
    · rw [Array.getElem?_eq_none h] at ha; cases ha
  have h2 : p + (f - 1) < refP.size := by
    rcases Nat.lt_or_ge (p + (f - 1)) refP.size with h | h
    · exact h
    · rw [Array.getElem?_eq_none h] at hb; cases hb
  omega

end Ragc.Model.LzDiff
