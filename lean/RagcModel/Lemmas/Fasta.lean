import RagcModel.Model.Fasta
/-!
Lemmas about `Model/Fasta.lean`: lines, the exact characterisation of the reader loop
(`readAll_eq_records`: leading blank lines skipped, every record returned, a record without a name
is an error), presentations, sample naming.
-/
namespace Ragc.Fasta

/-! ## lines -/

theorem lines_eq_readLine (t : Bytes) :
    lines t = match readLine t with
      | none => []
      | some (l, r) => l :: lines r := by
  induction t with
  | nil => simp [lines, readLine]
  | cons b rest ih =>
    by_cases hb : b = 10
    · simp [lines, readLine, hb]
    · simp only [lines, readLine, hb, if_false]
      rw [ih]
      cases readLine rest with
      | none => simp [lines]
      | some p => obtain ⟨l, r⟩ := p; simp

theorem lines_ne_nil {t : Bytes} (h : t ≠ []) : lines t ≠ [] := by
  cases t with
  | nil => exact absurd rfl h
  | cons b rest =>
    by_cases hb : b = 10
    · simp [lines, hb]
    · simp only [lines, hb, if_false]
      cases lines rest <;> simp

/-- a text that is empty or ends in `\n`. -/
def Closed (a : Bytes) : Prop := a = [] ∨ a.getLast? = some 10

theorem lines_append {a : Bytes} (b : Bytes) (h : Closed a) : lines (a ++ b) = lines a ++ lines b := by
  induction a with
  | nil => simp [lines]
  | cons x a ih =>
    have hc : Closed a ∨ (a = [] ∧ x = 10) := by
      rcases h with h | h
      · cases h
      · cases a with
        | nil => right; simpa using h
        | cons y a' => left; right; simpa [List.getLast?_cons_cons] using h
    by_cases hx : x = 10
    · have hca : Closed a := by
        rcases hc with hc | hc
        · exact hc
        · exact Or.inl hc.1
      simp [lines, hx, ih hca]
    · have hca : Closed a := by
        rcases hc with hc | hc
        · exact hc
        · exact absurd hc.2 hx
      have hne : a ≠ [] := by
        intro ha
        subst ha
        rcases h with h | h
        · cases h
        · simp at h; exact hx h
      simp only [List.cons_append, lines, hx, if_false, ih hca]
      have := lines_ne_nil hne
      cases hl : lines a with
      | nil => exact absurd hl this
      | cons l ls => simp

theorem lines_cons_ne {x : Nat} (t : Bytes) (hx : x ≠ 10) :
    lines (x :: t) = match lines t with
      | [] => [[x]]
      | l :: ls => (x :: l) :: ls := by
  simp only [lines, hx, if_false]
  cases lines t <;> rfl

theorem lines_line_nl {l : Bytes} (h : 10 ∉ l) : lines (l ++ [10]) = [l ++ [10]] := by
  induction l with
  | nil => simp [lines]
  | cons x l ih =>
    have hx : x ≠ 10 := by intro e; exact h (by simp [e])
    have hl : 10 ∉ l := by intro e; exact h (by simp [e])
    simp [lines, hx, ih hl]

theorem lines_line_open {l : Bytes} (h : 10 ∉ l) (hne : l ≠ []) : lines l = [l] := by
  induction l with
  | nil => exact absurd rfl hne
  | cons x l ih =>
    have hx : x ≠ 10 := by intro e; exact h (by simp [e])
    have hl : 10 ∉ l := by intro e; exact h (by simp [e])
    cases l with
    | nil => simp [lines, hx]
    | cons y l' => rw [lines_cons_ne _ hx, ih hl (by simp)]

theorem closed_append_nl (l : Bytes) : Closed (l ++ [10]) := by
  right; simp

theorem closed_append {a b : Bytes} (ha : Closed a) (hb : Closed b) : Closed (a ++ b) := by
  rcases hb with hb | hb
  · subst hb; simpa using ha
  · right
    cases b with
    | nil => simp at hb
    | cons y b' => simp [List.getLast?_append, hb]

/-! ## the reader loop -/

/-- All records of a list of lines when `h` is the current header line, `acc` the raw contig
collected so far: `(header line, raw contig)`; no truncation. -/
def allRecords : Bytes → Bytes → List Bytes → List (Bytes × Bytes)
  | h, acc, [] => [(h, acc)]
  | h, acc, l :: ls =>
    if isHeaderLine l then (h, acc) :: allRecords l [] ls else allRecords h (acc ++ l) ls

/-- The records of a list of lines as `read_contig_raw` frames them: the first line is taken as
a header line whatever it is. -/
def records : List Bytes → List (Bytes × Bytes)
  | [] => []
  | h :: ls => allRecords h [] ls

/-- What `recordResult` accepts: the id is not empty. -/
def good (p : Bytes × Bytes) : Bool := headerId p.1 ≠ []

def conv (p : Bytes × Bytes) : Bytes × Bytes := (headerId p.1, convert p.2)

/-- The reader loop on a list of records: every record, or `none` (`Err`) if one has no name. -/
def readRecords (rs : List (Bytes × Bytes)) : Option (List (Bytes × Bytes)) :=
  if rs.all good then some (rs.map conv) else none

theorem allRecords_readSeqLines (h acc : Bytes) (ls : List Bytes) :
    allRecords h acc ls = (h, (readSeqLines ls acc).1) ::
      (match (readSeqLines ls acc).2.1 with
        | none => []
        | some h' => allRecords h' [] (readSeqLines ls acc).2.2) := by
  induction ls generalizing acc with
  | nil => simp [allRecords, readSeqLines]
  | cons l ls ih =>
    by_cases hl : isHeaderLine l
    · simp [allRecords, readSeqLines, hl]
    · simp only [allRecords, readSeqLines, hl, Bool.false_eq_true, if_false]
      exact ih (acc ++ l)

theorem readAll_eq (r : Reader) :
    readAll r = match readContigRaw r with
      | (.eof, _) => some []
      | (.invalid, _) => none
      | (.record id raw, r') => (readAll r').map ((id, convert raw) :: ·) := by
  rw [readAll]
  split <;> rename_i heq <;> simp [heq]

theorem readSeqLines_none (ls : List Bytes) (acc : Bytes) (h : (readSeqLines ls acc).2.1 = none) :
    (readSeqLines ls acc).2.2 = [] := by
  induction ls generalizing acc with
  | nil => simp [readSeqLines]
  | cons l ls ih =>
    by_cases hl : isHeaderLine l
    · simp [readSeqLines, hl] at h
    · simp only [readSeqLines, hl, Bool.false_eq_true, if_false] at h ⊢; exact ih (acc ++ l) h

theorem readRecords_cons (p : Bytes × Bytes) (rs : List (Bytes × Bytes)) :
    readRecords (p :: rs) =
      if good p then (readRecords rs).map (conv p :: ·) else none := by
  simp only [readRecords, List.all_cons, List.map_cons]
  by_cases h1 : good p = true <;> by_cases h2 : rs.all good = true <;> simp [h1, h2]

theorem readAll_header (h : Bytes) (ls : List Bytes) :
    readAll ⟨ls, some h⟩ = readRecords (allRecords h [] ls) := by
  induction hn : ls.length using Nat.strongRecOn generalizing h ls with
  | _ n ih =>
    rw [readAll_eq, allRecords_readSeqLines, readRecords_cons]
    simp only [readContigRaw, takeHeaderLine]
    by_cases hg : good (h, (readSeqLines ls []).1) = true
    · have hg' : headerId h ≠ [] := by simpa [good] using hg
      simp only [recordResult, hg', if_false, hg, if_true, conv]
      congr 1
      cases hnh : (readSeqLines ls []).2.1 with
      | none =>
        rw [readAll_eq]
        simp [readContigRaw, takeHeaderLine, readSeqLines_none ls [] hnh, readRecords]
      | some h' =>
        simp only
        have hlt : (readSeqLines ls []).2.2.length < n := by
          have := readSeqLines_size ls []
          simp [hnh] at this
          omega
        exact ih _ hlt h' _ rfl
    · have hg' : headerId h = [] := by simpa [good] using hg
      simp [recordResult, hg', hg]

/-- The exact behaviour of the repaired reader loop on a list of lines: leading blank lines are
skipped, then every record is returned (also those without any line after the header) — or the
whole read fails if some record has no name. -/
theorem readAll_eq_records (ls : List Bytes) :
    readAll ⟨ls, none⟩ = readRecords (records (ls.dropWhile isBlankLine)) := by
  cases hd : ls.dropWhile isBlankLine with
  | nil =>
    rw [readAll_eq]
    simp [readContigRaw, takeHeaderLine, hd, records, readRecords]
  | cons h rest =>
    have h1 : readAll ⟨ls, none⟩ = readAll ⟨rest, some h⟩ := by
      rw [readAll_eq, readAll_eq (r := ⟨rest, some h⟩)]
      simp [readContigRaw, takeHeaderLine, hd]
    rw [h1, readAll_header]
    rfl

end Ragc.Fasta

namespace Ragc.Fasta

/-! ## the letter table -/

theorem cnvNum_length : Ragc.Gen.cnvNum.length = 128 := by decide +kernel
theorem keepAbove_eq : Ragc.Gen.keepAbove = 64 := rfl

set_option maxRecDepth 8192 in
/-- Per-byte facts of the generated table used by the sequence lemmas. -/
theorem table_facts : ∀ b, b < 128 →
    ((64 < b) = (isLetter b || isHighPunct b)) ∧
    (isLetter b = true → outLetter (cnv b) = normLetter b) ∧
    (isHighPunct b = true → outLetter (cnv b) = 78) ∧
    (isLetter b = true → cnv (toLower b) = cnv (toUpper b) ∧ 64 < toLower b ∧ toLower b < 128
      ∧ 64 < toUpper b ∧ toUpper b < 128 ∧ toUpper (toUpper b) = toUpper b) := by
  decide +kernel

theorem keep_iff (b : Nat) :
    (Ragc.Gen.keepAbove < b && b < Ragc.Gen.cnvNum.length) = (isLetter b || isHighPunct b) := by
  rw [cnvNum_length, keepAbove_eq]
  by_cases hb : b < 128
  · have := (table_facts b hb).1
    simp only [hb, decide_true, Bool.and_true]
    by_cases h : 64 < b <;> simp_all
  · have h1 : isLetter b = false := by
      simp only [isLetter, isUpper, isLower, Bool.or_eq_false_iff, Bool.and_eq_false_iff,
        decide_eq_false_iff_not]
      omega
    have h2 : isHighPunct b = false := by
      simp only [isHighPunct, Bool.or_eq_false_iff, Bool.and_eq_false_iff, decide_eq_false_iff_not]
      omega
    simp [hb, h1, h2]

theorem letter_lt {b : Nat} (h : isLetter b = true) : b < 128 := by
  simp only [isLetter, isUpper, isLower, Bool.or_eq_true, Bool.and_eq_true, decide_eq_true_eq] at h
  omega

theorem highPunct_lt {b : Nat} (h : isHighPunct b = true) : b < 128 := by
  simp only [isHighPunct, Bool.or_eq_true, Bool.and_eq_true, decide_eq_true_eq] at h
  omega

theorem not_letter_and_punct {b : Nat} (h : isLetter b = true) : isHighPunct b = false := by
  simp only [isLetter, isUpper, isLower, Bool.or_eq_true, Bool.and_eq_true, decide_eq_true_eq] at h
  simp only [isHighPunct, Bool.or_eq_false_iff, Bool.and_eq_false_iff, decide_eq_false_iff_not]
  omega

theorem convert_append (a b : Bytes) : convert (a ++ b) = convert a ++ convert b := by
  simp [convert]

theorem convert_cons (b : Nat) (l : Bytes) :
    convert (b :: l) = if (isLetter b || isHighPunct b) = true then cnv b :: convert l else convert l := by
  simp only [convert, List.filter_cons, keep_iff]
  split <;> simp

theorem convert_map_outLetter (raw : Bytes) : (convert raw).map outLetter = normaliseCode raw := by
  induction raw with
  | nil => rfl
  | cons b l ih =>
    rw [convert_cons]
    simp only [normaliseCode, List.filter_cons]
    by_cases h1 : isLetter b = true
    · have := (table_facts b (letter_lt h1)).2.1 h1
      simp only [h1, Bool.true_or, if_true, List.map_cons, this]
      rw [ih]; rfl
    · by_cases h2 : isHighPunct b = true
      · have := (table_facts b (highPunct_lt h2)).2.2.1 h2
        simp only [h1, h2, Bool.or_true, if_true, List.map_cons, this, Bool.false_eq_true, if_false]
        rw [ih]; rfl
      · simp only [h1, h2, Bool.or_self, Bool.false_eq_true, if_false]
        rw [ih]; rfl

theorem normaliseCode_eq_normalise {raw : Bytes} (h : ∀ b ∈ raw, isHighPunct b = false) :
    normaliseCode raw = normalise raw := by
  induction raw with
  | nil => rfl
  | cons b l ih =>
    have hb := h b (by simp)
    have hl := ih (fun x hx => h x (by simp [hx]))
    simp only [normaliseCode, normalise, List.filter_cons, hb, Bool.or_false] at hl ⊢
    by_cases h1 : isLetter b = true
    · simp only [h1, if_true, List.map_cons, List.cons.injEq, true_and]; exact hl
    · simp only [h1, Bool.false_eq_true, if_false]; exact hl

end Ragc.Fasta

namespace Ragc.Fasta

/-! ## presentations -/

theorem convert_cons_keep {b : Nat} (l : Bytes) (h1 : 64 < b) (h2 : b < 128) :
    convert (b :: l) = cnv b :: convert l := by
  simp [convert, List.filter_cons, cnvNum_length, keepAbove_eq, h1, h2]

set_option maxRecDepth 8192 in
theorem case_facts : ∀ b, b < 128 → isLetter b = true →
    isLetter (toLower b) = true ∧ isLetter (toUpper b) = true := by
  decide +kernel

/-- the lines of a presentation with their line ends (`renderLines` before flattening). -/
def pieces (nl : Bytes) (close : Bool) : List Bytes → List Bytes
  | [] => []
  | [c] => [if close then c ++ nl else c]
  | c :: d :: cs => (c ++ nl) :: pieces nl close (d :: cs)

theorem renderLines_eq_pieces (nl : Bytes) (close : Bool) (ls : List Bytes) :
    renderLines nl close ls = (pieces nl close ls).flatten := by
  induction ls with
  | nil => rfl
  | cons c cs ih =>
    cases cs with
    | nil => simp [renderLines, pieces]
    | cons d cs => simp [renderLines, pieces, ih]

theorem lineEnd_eq (crlf : Bool) : lineEnd crlf = (if crlf then [13] else []) ++ [10] := by
  cases crlf <;> rfl

theorem lines_closed_line {c : Bytes} (crlf : Bool) (hc : 10 ∉ c) :
    lines (c ++ lineEnd crlf) = [c ++ lineEnd crlf] ∧ Closed (c ++ lineEnd crlf) := by
  rw [lineEnd_eq, ← List.append_assoc]
  constructor
  · apply lines_line_nl
    cases crlf <;> simp [hc]
  · exact closed_append_nl _

theorem pieces_closed (crlf : Bool) (ls : List Bytes) :
    Closed (pieces (lineEnd crlf) true ls).flatten := by
  induction ls with
  | nil => left; rfl
  | cons c cs ih =>
    cases cs with
    | nil =>
      simp only [pieces, if_true, List.flatten_cons, List.flatten_nil, List.append_nil]
      rw [lineEnd_eq, ← List.append_assoc]; exact closed_append_nl _
    | cons d cs =>
      simp only [pieces, List.flatten_cons]
      apply closed_append _ ih
      rw [lineEnd_eq, ← List.append_assoc]; exact closed_append_nl _

theorem lines_pieces (crlf close : Bool) (ls : List Bytes)
    (h : ∀ l ∈ ls, 10 ∉ l ∧ l ≠ []) :
    lines (pieces (lineEnd crlf) close ls).flatten = pieces (lineEnd crlf) close ls := by
  induction ls with
  | nil => rfl
  | cons c cs ih =>
    have hc := h c (by simp)
    cases cs with
    | nil =>
      cases close
      · simp only [pieces, Bool.false_eq_true, if_false, List.flatten_cons, List.flatten_nil,
          List.append_nil]
        exact lines_line_open hc.1 hc.2
      · simp only [pieces, if_true, List.flatten_cons, List.flatten_nil, List.append_nil]
        exact (lines_closed_line crlf hc.1).1
    | cons d cs =>
      have := ih (fun l hl => h l (by simp [hl]))
      simp only [pieces, List.flatten_cons] at this ⊢
      rw [lines_append _ (lines_closed_line crlf hc.1).2, (lines_closed_line crlf hc.1).1, this]
      rfl

/-- lines of a whole presentation, mirroring `render`. -/
def renderPieces (fin : Bool) : List (Rec × RecStyle) → List Bytes
  | [] => []
  | [(r, s)] => pieces (lineEnd s.crlf) fin (recLines r s)
  | (r, s) :: p :: rest =>
    pieces (lineEnd s.crlf) true (recLines r s) ++ renderPieces fin (p :: rest)

/-! ### chunks -/

theorem chunks_eq (w : Nat) (l : Bytes) (hw : 0 < w) (hl : l ≠ []) :
    chunks w l = l.take w :: chunks w (l.drop w) := by
  rw [chunks]
  have : ¬ (w = 0 ∨ l = []) := by
    intro h; rcases h with h | h
    · omega
    · exact hl h
  simp [this]

theorem chunks_nil (w : Nat) : chunks w [] = [] := by
  rw [chunks]; simp

theorem chunks_spec (w : Nat) (hw : 0 < w) (l : Bytes) :
    (chunks w l).flatten = l ∧ (∀ c ∈ chunks w l, c ≠ [] ∧ ∀ b ∈ c, b ∈ l) ∧
      (l ≠ [] → chunks w l ≠ []) := by
  induction hn : l.length using Nat.strongRecOn generalizing l with
  | _ n ih =>
    by_cases hl : l = []
    · subst hl; simp [chunks_nil]
    · rw [chunks_eq w l hw hl]
      have hlen : (l.drop w).length < n := by
        have : 0 < l.length := List.length_pos_iff.mpr hl
        simp only [List.length_drop]; omega
      obtain ⟨h1, h2, _⟩ := ih _ hlen (l.drop w) rfl
      refine ⟨by simp [h1], ?_, by simp⟩
      intro c hc
      simp only [List.mem_cons] at hc
      rcases hc with hc | hc
      · subst hc
        constructor
        · intro e
          have : (l.take w).length = 0 := by rw [e]; rfl
          simp only [List.length_take] at this
          have : 0 < l.length := List.length_pos_iff.mpr hl
          omega
        · intro b hb; exact List.mem_of_mem_take hb
      · obtain ⟨a1, a2⟩ := h2 c hc
        exact ⟨a1, fun b hb => List.mem_of_mem_drop (a2 b hb)⟩

/-! ### case pattern -/

theorem applyCase_letters (lower : List Bool) (seq : Bytes) (h : ∀ b ∈ seq, isLetter b = true) :
    (∀ b ∈ applyCase lower seq, isLetter b = true) ∧
      convert (applyCase lower seq) = seq.map (fun b => cnv (toUpper b)) ∧
      (seq ≠ [] → applyCase lower seq ≠ []) := by
  induction seq generalizing lower with
  | nil => cases lower <;> simp [applyCase, convert]
  | cons b bs ih =>
    have hb := h b (by simp)
    have hlt := letter_lt hb
    have tf := (table_facts b hlt).2.2.2 hb
    have cf := case_facts b hlt hb
    have hbs : ∀ x ∈ bs, isLetter x = true := fun x hx => h x (by simp [hx])
    cases lower with
    | nil =>
      obtain ⟨i1, i2, _⟩ := ih [] hbs
      refine ⟨?_, ?_, by simp [applyCase]⟩
      · intro x hx
        simp only [applyCase, List.mem_cons] at hx
        rcases hx with hx | hx
        · rw [hx]; exact cf.2
        · exact i1 x hx
      · simp only [applyCase, List.map_cons]
        rw [convert_cons_keep _ tf.2.2.2.1 tf.2.2.2.2.1, i2]
    | cons c cs =>
      obtain ⟨i1, i2, _⟩ := ih cs hbs
      refine ⟨?_, ?_, by simp [applyCase]⟩
      · intro x hx
        simp only [applyCase, List.mem_cons] at hx
        rcases hx with hx | hx
        · rw [hx]; cases c
          · exact cf.2
          · exact cf.1
        · exact i1 x hx
      · simp only [applyCase, List.map_cons]
        cases c
        · simp only [Bool.false_eq_true, if_false]
          rw [convert_cons_keep _ tf.2.2.2.1 tf.2.2.2.2.1, i2]
        · simp only [if_true]
          rw [convert_cons_keep _ tf.2.1 tf.2.2.1, i2, tf.1]

end Ragc.Fasta

namespace Ragc.Fasta

/-! ### a valid record under any style -/

/-- What `parse_render` asks of a record: the header has no `\n`, its id (leading `>`s and the
ASCII white space at both ends removed) is not empty, and there is at least one base, all letters. -/
def ValidRec (r : Rec) : Prop :=
  10 ∉ r.header ∧ headerId (62 :: r.header) ≠ [] ∧ r.seq ≠ [] ∧ ∀ b ∈ r.seq, isLetter b = true

instance (r : Rec) : Decidable (ValidRec r) := by unfold ValidRec; infer_instance

def ValidPres (recs : List (Rec × RecStyle)) : Prop := ∀ p ∈ recs, ValidRec p.1 ∧ 1 ≤ p.2.width

instance (recs : List (Rec × RecStyle)) : Decidable (ValidPres recs) := by
  unfold ValidPres; infer_instance

/-- the chunk lines of a record under a style -/
def chunkLines (r : Rec) (s : RecStyle) : List Bytes := chunks s.width (applyCase s.lower r.seq)

theorem chunkLines_spec {r : Rec} {s : RecStyle} (hr : ValidRec r) (hs : 1 ≤ s.width) :
    chunkLines r s ≠ [] ∧ (∀ c ∈ chunkLines r s, 10 ∉ c ∧ c ≠ [] ∧ c.head? ≠ some 62) ∧
      convert (chunkLines r s).flatten = r.seq.map (fun b => cnv (toUpper b)) := by
  obtain ⟨_, _, hne, hlet⟩ := hr
  obtain ⟨a1, a2, a3⟩ := applyCase_letters s.lower r.seq hlet
  obtain ⟨c1, c2, c3⟩ := chunks_spec s.width (by omega) (applyCase s.lower r.seq)
  refine ⟨c3 (a3 hne), ?_, by simp only [chunkLines]; rw [c1, a2]⟩
  intro c hc
  obtain ⟨d1, d2⟩ := c2 c hc
  have hl : ∀ b ∈ c, isLetter b = true := fun b hb => a1 b (d2 b hb)
  refine ⟨?_, d1, ?_⟩
  · intro h10; have := hl 10 h10; simp [isLetter, isUpper, isLower] at this
  · cases c with
    | nil => exact absurd rfl d1
    | cons x xs =>
      intro h
      simp only [List.head?_cons, Option.some.injEq] at h
      have := hl x (by simp)
      rw [h] at this
      simp [isLetter, isUpper, isLower] at this

theorem pieces_cons_ne (nl : Bytes) (close : Bool) (c : Bytes) {cs : List Bytes} (h : cs ≠ []) :
    pieces nl close (c :: cs) = (c ++ nl) :: pieces nl close cs := by
  cases cs with
  | nil => exact absurd rfl h
  | cons d cs => rfl

theorem convert_lineEnd (crlf : Bool) : convert (lineEnd crlf) = [] := by
  cases crlf <;> decide

theorem convert_pieces (crlf close : Bool) (cs : List Bytes) :
    convert (pieces (lineEnd crlf) close cs).flatten = convert cs.flatten := by
  induction cs with
  | nil => rfl
  | cons c cs ih =>
    cases cs with
    | nil =>
      cases close <;> simp [pieces, convert_append, convert_lineEnd]
    | cons d cs =>
      simp only [pieces, List.flatten_cons, convert_append, convert_lineEnd, List.append_nil] at ih ⊢
      rw [ih]

theorem pieces_not_header (crlf close : Bool) (cs : List Bytes)
    (h : ∀ c ∈ cs, c ≠ [] ∧ c.head? ≠ some 62) :
    ∀ p ∈ pieces (lineEnd crlf) close cs, isHeaderLine p = false := by
  induction cs with
  | nil => simp [pieces]
  | cons c cs ih =>
    obtain ⟨h1, h2⟩ := h c (by simp)
    have hh : ∀ (t : Bytes), isHeaderLine (c ++ t) = false := by
      intro t
      cases c with
      | nil => exact absurd rfl h1
      | cons x xs =>
        simp only [isHeaderLine, List.cons_append, List.head?_cons] at h2 ⊢
        simpa using h2
    cases cs with
    | nil =>
      intro p hp
      simp only [pieces, List.mem_singleton] at hp
      subst hp
      cases close
      · simpa using hh []
      · simpa using hh _
    | cons d cs =>
      intro p hp
      simp only [pieces, List.mem_cons] at hp
      rcases hp with hp | hp
      · subst hp; exact hh _
      · exact ih (fun c hc => h c (by simp [hc])) p (by simpa [pieces] using hp)

theorem allRecords_skip (h acc : Bytes) (ps L : List Bytes)
    (hp : ∀ p ∈ ps, isHeaderLine p = false) :
    allRecords h acc (ps ++ L) = allRecords h (acc ++ ps.flatten) L := by
  induction ps generalizing acc with
  | nil => simp
  | cons p ps ih =>
    have := hp p (by simp)
    simp only [List.cons_append, allRecords, this, Bool.false_eq_true, if_false, List.flatten_cons]
    rw [ih _ (fun q hq => hp q (by simp [hq])), List.append_assoc]

/-- header line of a record in a presentation -/
def headerPiece (r : Rec) (s : RecStyle) : Bytes := 62 :: r.header ++ lineEnd s.crlf

/-- raw contig of a record in a presentation -/
def rawOf (r : Rec) (s : RecStyle) (close : Bool) : Bytes :=
  (pieces (lineEnd s.crlf) close (chunkLines r s)).flatten

theorem recPieces_eq {r : Rec} {s : RecStyle} (close : Bool) (hr : ValidRec r) (hs : 1 ≤ s.width) :
    pieces (lineEnd s.crlf) close (recLines r s) =
      headerPiece r s :: pieces (lineEnd s.crlf) close (chunkLines r s) := by
  have := (chunkLines_spec hr hs).1
  show pieces (lineEnd s.crlf) close ((62 :: r.header) :: chunkLines r s) = _
  rw [pieces_cons_ne _ _ _ this]
  rfl

theorem recLines_ok {r : Rec} {s : RecStyle} (hr : ValidRec r) (hs : 1 ≤ s.width) :
    ∀ l ∈ recLines r s, 10 ∉ l ∧ l ≠ [] := by
  intro l hl
  simp only [recLines, List.mem_cons] at hl
  rcases hl with hl | hl
  · subst hl
    refine ⟨?_, by simp⟩
    intro h
    simp only [List.mem_cons] at h
    rcases h with h | h
    · cases h
    · exact hr.1 h
  · have := (chunkLines_spec hr hs).2.1 l hl
    exact ⟨this.1, this.2.1⟩

theorem render_eq_pieces (fin : Bool) (recs : List (Rec × RecStyle)) :
    render fin recs = (renderPieces fin recs).flatten := by
  induction recs with
  | nil => rfl
  | cons p rest ih =>
    obtain ⟨r, s⟩ := p
    cases rest with
    | nil => simp [render, renderPieces, renderRec, renderLines_eq_pieces]
    | cons q rest =>
      simp only [render, renderPieces, renderRec, renderLines_eq_pieces, List.flatten_append]
      rw [ih]

theorem lines_render (fin : Bool) (recs : List (Rec × RecStyle)) (h : ValidPres recs) :
    lines (render fin recs) = renderPieces fin recs := by
  induction recs with
  | nil => rfl
  | cons p rest ih =>
    obtain ⟨r, s⟩ := p
    have hp := h (r, s) (by simp)
    cases rest with
    | nil =>
      simp only [render, renderPieces, renderRec, renderLines_eq_pieces]
      exact lines_pieces _ _ _ (recLines_ok hp.1 hp.2)
    | cons q rest =>
      have ih' := ih (fun x hx => h x (by simp [hx]))
      simp only [render, renderPieces, renderRec, renderLines_eq_pieces]
      rw [lines_append _ (pieces_closed _ _), lines_pieces _ _ _ (recLines_ok hp.1 hp.2), ih']

theorem records_renderPieces (fin : Bool) (recs : List (Rec × RecStyle)) (h : ValidPres recs) :
    ∃ closes : List Bool, closes.length = recs.length ∧
      records (renderPieces fin recs) =
        (recs.zip closes).map (fun x => (headerPiece x.1.1 x.1.2, rawOf x.1.1 x.1.2 x.2)) := by
  induction recs with
  | nil => exact ⟨[], rfl, rfl⟩
  | cons p rest ih =>
    obtain ⟨r, s⟩ := p
    have hp := h (r, s) (by simp)
    have hnh := pieces_not_header s.crlf
    have hck := (chunkLines_spec hp.1 hp.2).2.1
    cases rest with
    | nil =>
      refine ⟨[fin], rfl, ?_⟩
      simp only [renderPieces, recPieces_eq fin hp.1 hp.2, records]
      have := allRecords_skip (headerPiece r s) [] (pieces (lineEnd s.crlf) fin (chunkLines r s)) []
        (hnh fin _ (fun c hc => ⟨(hck c hc).2.1, (hck c hc).2.2⟩))
      simp only [List.append_nil, List.nil_append] at this
      rw [this]
      simp [allRecords, rawOf]
    | cons q rest =>
      obtain ⟨closes, hlen, hrec⟩ := ih (fun x hx => h x (by simp [hx]))
      refine ⟨true :: closes, by simp [hlen], ?_⟩
      obtain ⟨r2, s2⟩ := q
      have hq := h (r2, s2) (by simp)
      simp only [renderPieces, recPieces_eq true hp.1 hp.2, records, List.cons_append]
      rw [allRecords_skip _ _ _ _ (hnh true _ (fun c hc => ⟨(hck c hc).2.1, (hck c hc).2.2⟩))]
      -- the next record starts with its header piece
      have hshape : ∃ tl, renderPieces fin ((r2, s2) :: rest) = headerPiece r2 s2 :: tl := by
        cases rest with
        | nil => exact ⟨_, by simp only [renderPieces]; exact recPieces_eq fin hq.1 hq.2⟩
        | cons q3 rest3 =>
          refine ⟨pieces (lineEnd s2.crlf) true (chunkLines r2 s2) ++ renderPieces fin (q3 :: rest3), ?_⟩
          simp only [renderPieces, recPieces_eq true hq.1 hq.2, List.cons_append]
      obtain ⟨tl, htl⟩ := hshape
      rw [htl] at hrec ⊢
      simp only [records] at hrec
      simp only [allRecords, headerPiece, isHeaderLine, List.cons_append, List.head?_cons, if_true,
        List.nil_append]
      simp only [headerPiece, List.cons_append] at hrec
      rw [hrec]
      simp [rawOf, headerPiece]

end Ragc.Fasta

namespace Ragc.Fasta

theorem trimEnd_lineEnd (x : Bytes) (crlf : Bool) : trimEnd (x ++ lineEnd crlf) = trimEnd x := by
  cases crlf <;> simp [trimEnd, lineEnd, isWs, List.dropWhile_cons]

theorem headerId_lineEnd (h : Bytes) (crlf : Bool) :
    headerId (62 :: h ++ lineEnd crlf) = headerId (62 :: h) := by
  simp only [headerId, List.cons_append, List.dropWhile_cons, decide_true, if_true]
  rw [List.dropWhile_append]
  by_cases he : (List.dropWhile (fun x => decide (x = 62)) h).isEmpty = true
  · have he' : List.dropWhile (fun x => decide (x = 62)) h = [] := by simpa using he
    simp only [he, if_true, he']
    cases crlf <;> simp [lineEnd, trim, trimEnd, trimStart, isWs, List.dropWhile_cons]
  · simp only [he, Bool.false_eq_true, if_false, trim, trimEnd_lineEnd]

theorem rendered_good_conv {r : Rec} {s : RecStyle} (c : Bool) (hr : ValidRec r) (hs : 1 ≤ s.width) :
    good (headerPiece r s, rawOf r s c) = true ∧ conv (headerPiece r s, rawOf r s c) = canonRec r := by
  have hconv : convert (rawOf r s c) = r.seq.map (fun b => cnv (toUpper b)) := by
    simp only [rawOf]; rw [convert_pieces]; exact (chunkLines_spec hr hs).2.2
  have hid : headerId (headerPiece r s) = headerId (62 :: r.header) := headerId_lineEnd _ _
  constructor
  · simp only [good, decide_eq_true_eq, hid]
    exact hr.2.1
  · simp only [conv, canonRec, hid, hconv]

theorem takeWhile_all {α : Type} (p : α → Bool) (l : List α) (h : ∀ x ∈ l, p x = true) :
    l.takeWhile p = l := by
  induction l with
  | nil => rfl
  | cons a l ih =>
    simp [List.takeWhile_cons, h a (by simp), ih (fun x hx => h x (by simp [hx]))]

theorem dropWhile_nil_all {α : Type} (p : α → Bool) (l : List α) (h : l.dropWhile p = []) :
    ∀ x ∈ l, p x = true := by
  induction l with
  | nil => simp
  | cons a l ih =>
    by_cases ha : p a = true
    · simp only [List.dropWhile_cons, ha, if_true] at h
      intro x hx
      simp only [List.mem_cons] at hx
      rcases hx with hx | hx
      · rw [hx]; exact ha
      · exact ih h x hx
    · simp [List.dropWhile_cons, ha] at h

theorem isBlankLine_all {l : Bytes} (h : isBlankLine l = true) : ∀ b ∈ l, isWs b = true := by
  simp only [isBlankLine, trim, trimStart] at h
  have h := of_decide_eq_true h
  have h1 : ∀ b ∈ trimEnd l, isWs b = true := dropWhile_nil_all _ _ h
  simp only [trimEnd] at h1
  cases hd : List.dropWhile isWs l.reverse with
  | nil =>
    have := dropWhile_nil_all _ _ hd
    intro b hb; exact this b (by simpa using hb)
  | cons a t =>
    exfalso
    have ha : isWs a = true := h1 a (by rw [hd]; simp)
    have : ∀ (l : Bytes) (a : Nat) (t : Bytes), List.dropWhile isWs l = a :: t → isWs a = false := by
      intro l
      induction l with
      | nil => intro a t h; simp at h
      | cons x xs ih =>
        intro a t h
        by_cases hx : isWs x = true
        · simp only [List.dropWhile_cons, hx, if_true] at h; exact ih a t h
        · simp only [List.dropWhile_cons, hx, Bool.false_eq_true, if_false, List.cons.injEq] at h
          rw [← h.1]; simpa using hx
    rw [this _ a t hd] at ha
    cases ha

theorem renderPieces_head (fin : Bool) (recs : List (Rec × RecStyle)) (h : ValidPres recs) :
    (renderPieces fin recs).dropWhile isBlankLine = renderPieces fin recs := by
  cases recs with
  | nil => rfl
  | cons p rest =>
    obtain ⟨r, s⟩ := p
    have hp := h (r, s) (by simp)
    have hshape : ∃ tl, renderPieces fin ((r, s) :: rest) = headerPiece r s :: tl := by
      cases rest with
      | nil => exact ⟨_, by simp only [renderPieces]; exact recPieces_eq fin hp.1 hp.2⟩
      | cons q rest' =>
        refine ⟨pieces (lineEnd s.crlf) true (chunkLines r s) ++ renderPieces fin (q :: rest'), ?_⟩
        simp only [renderPieces, recPieces_eq true hp.1 hp.2, List.cons_append]
    obtain ⟨tl, htl⟩ := hshape
    rw [htl]
    have : isBlankLine (headerPiece r s) = false := by
      cases hb : isBlankLine (headerPiece r s) with
      | false => rfl
      | true =>
        have := isBlankLine_all hb 62 (by simp [headerPiece])
        simp [isWs] at this
    simp [this]

theorem parseFile_render (fin : Bool) (recs : List (Rec × RecStyle)) (h : ValidPres recs) :
    parseFile (render fin recs) = some (canon (recs.map (·.1))) := by
  obtain ⟨closes, hlen, hrec⟩ := records_renderPieces fin recs h
  simp only [parseFile, lines_render fin recs h, readAll_eq_records, renderPieces_head fin recs h, hrec]
  have hall : ∀ x ∈ (recs.zip closes),
      good (headerPiece x.1.1 x.1.2, rawOf x.1.1 x.1.2 x.2) = true ∧
      conv (headerPiece x.1.1 x.1.2, rawOf x.1.1 x.1.2 x.2) = canonRec x.1.1 := by
    intro x hx
    have hm : x.1 ∈ recs := (List.of_mem_zip hx).1
    exact rendered_good_conv x.2 (h _ hm).1 (h _ hm).2
  have hgood : ((recs.zip closes).map
      (fun x => (headerPiece x.1.1 x.1.2, rawOf x.1.1 x.1.2 x.2))).all good = true := by
    simp only [List.all_eq_true, List.mem_map]
    intro y hy
    obtain ⟨x, hx, rfl⟩ := hy
    exact (hall x hx).1
  simp only [readRecords, hgood, if_true, Option.some.injEq, canon]
  have : (recs.map (·.1)).map canonRec = (recs.zip closes).map (fun x => canonRec x.1.1) := by
    conv => lhs; rw [← List.map_fst_zip (l₁ := recs) (l₂ := closes) (by omega)]
    simp [List.map_map]
  rw [this, List.map_map]
  apply List.map_congr_left
  intro x hx
  exact (hall x hx).2

end Ragc.Fasta

namespace Ragc.Fasta

/-! ## records of a text (specification side) and what `create` gets to see -/

/-- the lines of a text after its leading blank lines. -/
def specLines (t : Bytes) : List Bytes := (lines t).dropWhile isBlankLine

/-- The records of a text as FASTA means them: leading blank lines do not count, a record is a
header line and every line up to the next header line: `(header line, raw lines concatenated)`. -/
def specRecords (t : Bytes) : List (Bytes × Bytes) := records (specLines t)

theorem parseFile_eq (t : Bytes) : parseFile t = readRecords (specRecords t) :=
  readAll_eq_records _

/-- the record has at least one base: a byte the reader keeps (a letter — or one of the 11 bytes
of `isHighPunct`, which the code does not drop). -/
def hasBase (p : Bytes × Bytes) : Bool := convert p.2 ≠ []

/-- FASTA text: after leading blank lines the first line is a header line, and every header has
a non-empty id. -/
def wellFormedText (t : Bytes) : Bool :=
  (match specLines t with
    | [] => true
    | h :: _ => isHeaderLine h) && (specRecords t).all (fun p => headerId p.1 ≠ [])

/-- "No record that has at least one base is left out": reading succeeds and what `create` pushes
is, in order, every record of the text that has a base. -/
def NoRecordDropped (t : Bytes) : Prop :=
  (createInput t).map (·.map (·.1)) = some (((specRecords t).filter hasBase).map (fun p => headerId p.1))

instance (t : Bytes) : Decidable (NoRecordDropped t) := by unfold NoRecordDropped; infer_instance

theorem noRecordDropped_of_good (t : Bytes) (h : (specRecords t).all good = true) :
    NoRecordDropped t := by
  simp only [NoRecordDropped, createInput, parseFile_eq, readRecords, h, if_true, Option.map_some,
    List.filter_map, List.map_map, Option.some.injEq]
  rfl

/-! ## sample naming -/

theorem stripPrefixRep_step (pre l : Bytes) (h : pre ≠ []) :
    stripPrefixRep pre (pre ++ l) = stripPrefixRep pre l := by
  rw [stripPrefixRep]
  have : pre.isPrefixOf (pre ++ l) = true := by
    rw [List.isPrefixOf_iff_prefix]; exact List.prefix_append _ _
  simp [h, this]

theorem stripPrefixRep_stop (pre l : Bytes) (h : pre.isPrefixOf l = false) :
    stripPrefixRep pre l = l := by
  rw [stripPrefixRep]; simp [h]

theorem trimEndMatches_suffix (suf l : Bytes) (h : suf ≠ []) :
    trimEndMatches suf (l ++ suf) = trimEndMatches suf l := by
  simp only [trimEndMatches, List.reverse_append]
  rw [stripPrefixRep_step _ _ (by simpa using h)]

theorem fileStem_ext (n ext : Bytes) (hn : n ≠ []) (hext : 46 ∉ ext) :
    fileStem (n ++ 46 :: ext) = n := by
  have hall : ∀ x ∈ ext.reverse, (decide (x ≠ 46)) = true := by
    intro x hx
    simp only [List.mem_reverse] at hx
    simp only [decide_eq_true_eq]
    intro e; subst e; exact hext hx
  have htw : (n ++ 46 :: ext).reverse.takeWhile (· ≠ 46) = ext.reverse := by
    simp only [List.reverse_append, List.reverse_cons, List.append_assoc, List.singleton_append]
    rw [List.takeWhile_append_of_pos hall]
    simp
  simp only [fileStem, htw]
  have hlen : ¬ (ext.reverse.length = (n ++ 46 :: ext).reverse.length) := by
    simp only [List.length_reverse, List.length_append, List.length_cons]; omega
  simp only [hlen, if_false]
  have hd : ((n ++ 46 :: ext).reverse.drop (ext.reverse.length + 1)).reverse = n := by
    simp only [List.reverse_append, List.reverse_cons, List.append_assoc, List.singleton_append]
    rw [show ext.reverse.length + 1 = (ext.reverse ++ [46]).length by simp]
    rw [show ext.reverse ++ 46 :: n.reverse = (ext.reverse ++ [46]) ++ n.reverse by simp]
    rw [List.drop_left]
    simp
  simp only [hd, hn, if_false]

theorem fileName_append (p s : Bytes) (hs : 47 ∉ s) : fileName (p ++ s) = fileName p ++ s := by
  have hall : ∀ x ∈ s.reverse, (decide (x ≠ 47)) = true := by
    intro x hx
    simp only [List.mem_reverse] at hx
    simp only [decide_eq_true_eq]
    intro e; subst e; exact hs hx
  simp only [fileName, List.reverse_append]
  rw [List.takeWhile_append_of_pos hall]
  simp

/-! ## streams -/

/-- the `(sample, contig, codes)` stream of records (after main.rs's skip of empty sequences). -/
def streamOf (fileSample : Bytes) (recs : List Rec) : List (Bytes × Bytes × Bytes) :=
  ((canon recs).filter (fun p => p.2 ≠ [])).map (fun p => (sampleOf fileSample p.1, p.1, p.2))

theorem fileStream_render (fileSample : Bytes) (fin : Bool) (pres : List (Rec × RecStyle))
    (h : ValidPres pres) :
    fileStream fileSample (render fin pres) = some (streamOf fileSample (pres.map (·.1))) := by
  simp only [fileStream, createInput, parseFile_render fin pres h, streamOf, Option.map_some]

theorem streamOf_append (s : Bytes) (a b : List Rec) :
    streamOf s (a ++ b) = streamOf s a ++ streamOf s b := by
  simp [streamOf, canon]

/-- the header (as the reader sees it) carries its own sample: ≥ 3 `#`-fields. -/
def IsPansn (r : Rec) : Prop := (parseSampleFromHeader (canonRec r).1).1 ≠ unknown

instance (r : Rec) : Decidable (IsPansn r) := by unfold IsPansn; infer_instance

theorem streamOf_pansn (s s' : Bytes) (recs : List Rec) (h : ∀ r ∈ recs, IsPansn r) :
    streamOf s recs = streamOf s' recs := by
  induction recs with
  | nil => rfl
  | cons r rs ih =>
    have hr := h r (by simp)
    have := ih (fun x hx => h x (by simp [hx]))
    simp only [streamOf, canon, List.map_cons, List.filter_cons] at this ⊢
    simp only [IsPansn] at hr
    split
    · rw [List.map_cons, List.map_cons, this]
      simp only [sampleOf, hr, ne_eq, not_false_eq_true, if_true]
    · exact this

end Ragc.Fasta

namespace Ragc.Fasta

/-! ## the writer's output is a presentation -/

set_option maxRecDepth 8192 in
theorem outLetter_facts : ∀ c, c < 16 →
    isLetter (cnv c) = true ∧ toUpper (cnv c) = cnv c ∧ cnv (cnv c) = c := by
  decide +kernel

/-- what a code reads back as after a write/read round: itself if `< 16`, else `N` = 4. -/
def reread (c : Nat) : Nat := if c < 16 then c else 4

theorem outLetter_spec (c : Nat) :
    isLetter (outLetter c) = true ∧ toUpper (outLetter c) = outLetter c ∧
      cnv (toUpper (outLetter c)) = reread c := by
  simp only [outLetter, reread]
  by_cases h : c < 16
  · have := outLetter_facts c h
    simp only [h, if_true, this.1, this.2.1, this.2.2, and_self]
  · simp only [h, if_false]; decide

/-- the style of `GenomeWriter`: 80 columns, LF, upper case. -/
def writerStyle : RecStyle := ⟨lineWidth, false, []⟩

theorem applyCase_nil_upper (l : Bytes) (h : ∀ b ∈ l, toUpper b = b) : applyCase [] l = l := by
  induction l with
  | nil => rfl
  | cons b bs ih =>
    simp only [applyCase, h b (by simp), ih (fun x hx => h x (by simp [hx]))]

theorem renderLines_closed (nl : Bytes) (ls : List Bytes) :
    renderLines nl true ls = (ls.map (· ++ nl)).flatten := by
  induction ls with
  | nil => rfl
  | cons c cs ih =>
    cases cs with
    | nil => simp [renderLines]
    | cons d cs => simp only [renderLines, ih]; simp

theorem render_closed (l : List (Rec × RecStyle)) :
    render true l = (l.map (fun p => renderRec p.1 p.2 true)).flatten := by
  induction l with
  | nil => rfl
  | cons p rest ih =>
    obtain ⟨r, s⟩ := p
    cases rest with
    | nil => simp [render]
    | cons q rest => simp only [render, ih]; simp

/-- `write_sample_fasta`'s output is the presentation of the read-back letters in the writer's style. -/
theorem writeFasta_eq_render (contigs : List (Bytes × Bytes)) :
    writeFasta contigs =
      render true (contigs.map (fun c => (⟨c.1, c.2.map outLetter⟩, writerStyle))) := by
  rw [render_closed]
  simp only [writeFasta, List.map_map]
  congr 1
  apply List.map_congr_left
  intro c _
  simp only [Function.comp, renderRec, recLines, writerStyle, lineEnd, Bool.false_eq_true, if_false,
    renderLines_closed, saveContig, List.map_cons, List.flatten_cons]
  rw [applyCase_nil_upper _ (by
    intro b hb
    simp only [List.mem_map] at hb
    obtain ⟨c, _, rfl⟩ := hb
    exact (outLetter_spec c).2.1)]
  simp

/-- a contig as an archive returns it, fit for writing: a name that is its own id (no `\n`, no
leading `>`, no white space at the ends, not empty) and at least one code. -/
def ValidContig (c : Bytes × Bytes) : Prop :=
  10 ∉ c.1 ∧ headerId (62 :: c.1) = c.1 ∧ c.1 ≠ [] ∧ c.2 ≠ []

instance (c : Bytes × Bytes) : Decidable (ValidContig c) := by unfold ValidContig; infer_instance

theorem validPres_of_contigs (contigs : List (Bytes × Bytes)) (h : ∀ c ∈ contigs, ValidContig c) :
    ValidPres (contigs.map (fun c => (⟨c.1, c.2.map outLetter⟩, writerStyle))) := by
  intro p hp
  simp only [List.mem_map] at hp
  obtain ⟨c, hc, rfl⟩ := hp
  obtain ⟨h1, h2, h3, h4⟩ := h c hc
  refine ⟨⟨h1, by simpa [h2] using h3, by simpa using h4, ?_⟩, by simp [writerStyle, lineWidth]⟩
  intro b hb
  simp only [List.mem_map] at hb
  obtain ⟨x, _, rfl⟩ := hb
  exact (outLetter_spec x).1

theorem canon_of_contigs (contigs : List (Bytes × Bytes)) (h : ∀ c ∈ contigs, ValidContig c) :
    canon ((contigs.map (fun c => ((⟨c.1, c.2.map outLetter⟩ : Rec), writerStyle))).map (·.1)) =
      contigs.map (fun c => (c.1, c.2.map reread)) := by
  simp only [canon, List.map_map]
  apply List.map_congr_left
  intro c hc
  simp only [Function.comp, canonRec, (h c hc).2.1, List.map_map, Prod.mk.injEq, true_and]
  apply List.map_congr_left
  intro x _
  exact (outLetter_spec x).2.2

end Ragc.Fasta
