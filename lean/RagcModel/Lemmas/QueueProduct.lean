import RagcModel.Lemmas.Pipeline
import RagcModel.Lemmas.QueueRefine
/-!
The pipeline of `Model/Pipeline.lean` with its queue replaced by the condvar-level queue of
`Model/Queue.lean` (for C05: termination does not depend on the queue being atomic).

A product state is a pipeline state `p` (its `queue`/`closed` components become ghost copies) and a
Queue-model state `q` with `N + 1` threads: thread `0` is the producer, thread `w + 1` is worker `w`.
The transitions (`pstep`):

* `stut e` — an event of the Queue model that does not complete a call: the producer enters `push`
  with the next item of its program, an idle worker enters `pull`, a thread goes to sleep, resumes
  after a notify, or wakes up spuriously; only `q` changes;
* `push w` / `pull t x w` / `eos t` / `close` — the linearisation event `pushAdmit 0 w` /
  `pullTake (t+1) (enc x) w` / `pullEos (t+1)` / `close 0` of the Queue model together with the
  completed-call step `prod` / `pull t x` / `exit t` / `prod` of the pipeline;
* `waitEmpty` — the producer, outside the queue, sees `len() = 0` (`drain`);
* `work e` — `buffer`, `release`, `advance`: worker steps that do not touch the queue.

`enc` translates pipeline items (`ContigTask`, ordered by `taskLt`) into Queue-model items (ordered
by a `Nat` key): `EncOK` asks that it keeps sizes and, on the items of the program, the order;
`rankEnc` is such a translation for every program.
-/
set_option linter.unusedVariables false
set_option linter.unusedSimpArgs false
namespace Ragc.Product
open Ragc

abbrev PItem := Pipeline.Item
abbrev QItem := Queue.Item

structure PState where
  p : Pipeline.State
  q : Queue.State
deriving DecidableEq, Repr

def init (prog : List Pipeline.Instr) (cap N : Nat) : PState :=
  ⟨Pipeline.init prog cap N, Queue.init (N + 1)⟩

inductive PEv where
  | stut (e : Queue.Event)
  | push (w : Option Nat)
  | pull (t : Nat) (x : PItem) (w : Option Nat)
  | eos (t : Nat)
  | close
  | waitEmpty
  | work (e : Pipeline.Event)
deriving DecidableEq, Repr

/-- a spurious wake-up -/
def PEv.isSpur : PEv → Bool
  | .stut e => e.isSpur
  | _ => false

/-- which non-completing Queue-model events the threads of the pipeline perform: the producer
(thread 0) starts `push` of the next item of its program, worker `w` (thread `w+1`) starts `pull`
when it is at the top of its loop; waits, wake-ups and spurious wake-ups of any thread. No `try_*`,
no second pusher, `close` only through `PEv.close`. -/
def stutOK (enc : PItem → QItem) (s : PState) : Queue.Event → Bool
  | .pushEnter t it =>
    match t, s.p.prog with
    | 0, .push x :: _ => decide (it = enc x)
    | _, _ => false
  | .pullEnter (w + 1) => decide (s.p.workers[w]? = some .idle)
  | .pushWait _ | .pushWake _ | .pushSpur _ | .pullWait _ | .pullWake _ | .pullSpur _ => true
  | _ => false

def workOK : Pipeline.Event → Bool
  | .buffer _ | .release _ | .advance _ => true
  | _ => false

/-- The transition function of the product (`none` = not enabled). The capacity is `s.p.cap`. -/
def pstep (enc : PItem → QItem) (s : PState) : PEv → Option PState
  | .stut e =>
    if stutOK enc s e = true then (Queue.step s.p.cap s.q e).map (fun q' => ⟨s.p, q'⟩) else none
  | .push w =>
    match s.p.prog with
    | .push _ :: _ =>
      (Queue.step s.p.cap s.q (.pushAdmit 0 w)).bind fun q' =>
        (Pipeline.step? true s.p .prod).map fun p' => ⟨p', q'⟩
    | _ => none
  | .pull t x w =>
    (Queue.step s.p.cap s.q (.pullTake (t + 1) (enc x) w)).bind fun q' =>
      (Pipeline.step? true s.p (.pull t x)).map fun p' => ⟨p', q'⟩
  | .eos t =>
    (Queue.step s.p.cap s.q (.pullEos (t + 1))).bind fun q' =>
      (Pipeline.step? true s.p (.exit t)).map fun p' => ⟨p', q'⟩
  | .close =>
    match s.p.prog with
    | .close :: _ =>
      (Queue.step s.p.cap s.q (.close 0)).bind fun q' =>
        (Pipeline.step? true s.p .prod).map fun p' => ⟨p', q'⟩
    | _ => none
  | .waitEmpty =>
    match s.p.prog with
    | .waitEmpty :: _ =>
      if s.q.items = [] then (Pipeline.step? true s.p .prod).map fun p' => ⟨p', s.q⟩ else none
    | _ => none
  | .work e =>
    if workOK e = true then (Pipeline.step? true s.p e).map fun p' => ⟨p', s.q⟩ else none

def prun (enc : PItem → QItem) : PState → List PEv → Option PState
  | s, [] => some s
  | s, e :: es => (pstep enc s e).bind fun s' => prun enc s' es

/-- reachable in the product -/
inductive PReach (enc : PItem → QItem) (prog : List Pipeline.Instr) (cap N : Nat) : PState → Prop where
  | init : PReach enc prog cap N (init prog cap N)
  | step {s s' : PState} {e : PEv} : PReach enc prog cap N s → pstep enc s e = some s' →
      PReach enc prog cap N s'

theorem prun_reach {enc : PItem → QItem} {prog : List Pipeline.Instr} {cap N : Nat} :
    ∀ (es : List PEv) {s s' : PState}, PReach enc prog cap N s → prun enc s es = some s' →
      PReach enc prog cap N s'
  | [], s, s', hr, h => by simp only [prun, Option.some.injEq] at h; exact h ▸ hr
  | e :: es, s, s', hr, h => by
    simp only [prun] at h
    cases hs : pstep enc s e with
    | none => simp [hs] at h
    | some s1 => simp only [hs, Option.bind_some] at h; exact prun_reach es (.step hr hs) h

/-- stuck: nothing but spurious wake-ups is enabled — no thread can take a step inside its call,
start the next call of its program, or do work outside the queue -/
def Stuck (enc : PItem → QItem) (s : PState) : Prop :=
  ∀ e s', pstep enc s e = some s' → e.isSpur = true

/-! ### translating items -/

structure EncOK (enc : PItem → QItem) (prog : List Pipeline.Instr) : Prop where
  size : ∀ x, (enc x).size = x.size
  key : ∀ a ∈ Pipeline.items prog, ∀ b ∈ Pipeline.items prog,
    (Pipeline.taskLt a b ↔ (enc a).prio < (enc b).prio)

/-- key of `x` = number of program items strictly below `x` (`taskLt` is a strict weak order) -/
def rankEnc (prog : List Pipeline.Instr) (x : PItem) : QItem :=
  ⟨x.seq, (Pipeline.items prog).countP (fun y => decide (Pipeline.taskLt y x)), x.size⟩

theorem countP_le_of_imp {α} {p q : α → Bool} {l : List α} (h : ∀ x ∈ l, p x = true → q x = true) :
    l.countP p ≤ l.countP q := by
  induction l with
  | nil => simp
  | cons a l ih =>
    have := ih (fun x hx => h x (List.mem_cons_of_mem _ hx))
    have ha := h a List.mem_cons_self
    simp only [List.countP_cons]
    cases hp : p a <;> cases hq : q a <;> simp_all <;> omega

theorem countP_lt_of_imp {α} {p q : α → Bool} {l : List α} (h : ∀ x ∈ l, p x = true → q x = true)
    {a : α} (ha : a ∈ l) (hpa : p a = false) (hqa : q a = true) : l.countP p < l.countP q := by
  induction l with
  | nil => simp at ha
  | cons b l ih =>
    simp only [List.countP_cons]
    rcases List.mem_cons.mp ha with rfl | ha'
    · have := countP_le_of_imp (fun x hx => h x (List.mem_cons_of_mem _ hx))
      simp [hpa, hqa]; omega
    · have := ih (fun x hx => h x (List.mem_cons_of_mem _ hx)) ha'
      have hb := h b List.mem_cons_self
      cases hp : p b <;> cases hq : q b <;> simp_all <;> omega

theorem taskLt_negtrans {y a b : PItem} (h : Pipeline.taskLt y b) :
    Pipeline.taskLt y a ∨ Pipeline.taskLt a b := by
  unfold Pipeline.taskLt at *; omega

theorem rankEnc_ok (prog : List Pipeline.Instr) : EncOK (rankEnc prog) prog := by
  refine ⟨fun _ => rfl, fun a ha b hb => ?_⟩
  simp only [rankEnc]
  constructor
  · intro hab
    refine countP_lt_of_imp (a := a) (fun y _ hy => ?_) ha ?_ ?_
    · simp only [decide_eq_true_eq] at hy ⊢; exact Pipeline.taskLt_trans hy hab
    · simpa using Pipeline.taskLt_irrefl a
    · simpa using hab
  · intro hlt
    refine Classical.byContradiction (fun hab => ?_)
    have : (Pipeline.items prog).countP (fun y => decide (Pipeline.taskLt y b)) ≤
        (Pipeline.items prog).countP (fun y => decide (Pipeline.taskLt y a)) := by
      refine countP_le_of_imp (fun y _ hy => ?_)
      simp only [decide_eq_true_eq] at hy ⊢
      exact (taskLt_negtrans hy).resolve_right hab
    omega

theorem sizeSum_map_enc {enc : PItem → QItem} (hs : ∀ x, (enc x).size = x.size) (l : List PItem) :
    Queue.sizeSum (l.map enc) = (l.map Pipeline.Item.size).sum := by
  induction l with
  | nil => rfl
  | cons a l ih => simp only [List.map_cons, Queue.sizeSum, List.sum_cons, ih, hs]

theorem perm_erase_map {enc : PItem → QItem} {l : List PItem} {items : List QItem} {x : PItem}
    (hp : (l.map enc).Perm items) (hx : x ∈ l) :
    ((l.erase x).map enc).Perm (items.erase (enc x)) := by
  have h1 : (l.map enc).Perm (enc x :: (l.erase x).map enc) := by
    have := (List.perm_cons_erase hx).map enc
    simpa using this
  have h2 := (h1.symm.trans hp).erase (enc x)
  simpa using h2

/-- a maximal item of the pipeline queue is a maximal item of the Queue-model queue … -/
theorem isMax_enc {enc : PItem → QItem} {prog : List Pipeline.Instr} (henc : EncOK enc prog)
    {l : List PItem} {items : List QItem} (hp : (l.map enc).Perm items)
    (hsub : ∀ y ∈ l, y ∈ Pipeline.items prog) {x : PItem} (hm : Pipeline.isMax l x) :
    Queue.isMax items (enc x) = true := by
  rw [Queue.isMax_iff]
  refine ⟨hp.mem_iff.mp (List.mem_map_of_mem hm.1), fun y' hy' => ?_⟩
  obtain ⟨y, hy, rfl⟩ := List.mem_map.mp (hp.mem_iff.mpr hy')
  have : ¬ (enc x).prio < (enc y).prio := fun h =>
    hm.2 y hy ((henc.key x (hsub x hm.1) y (hsub y hy)).mpr h)
  omega

/-- … and conversely -/
theorem isMax_dec {enc : PItem → QItem} {prog : List Pipeline.Instr} (henc : EncOK enc prog)
    {l : List PItem} {items : List QItem} (hp : (l.map enc).Perm items)
    (hsub : ∀ y ∈ l, y ∈ Pipeline.items prog) {it : QItem} (hm : Queue.isMax items it = true) :
    ∃ x, enc x = it ∧ Pipeline.isMax l x := by
  rw [Queue.isMax_iff] at hm
  obtain ⟨x, hx, rfl⟩ := List.mem_map.mp (hp.mem_iff.mpr hm.1)
  refine ⟨x, rfl, hx, fun y hy => ?_⟩
  have := hm.2 (enc y) (hp.mem_iff.mp (List.mem_map_of_mem hy))
  rw [henc.key x (hsub x hx) y (hsub y hy)]
  omega

/-! ### effects of single Queue-model events -/

theorem q_stutter {cap : Nat} {s s' : Queue.State} {e : Queue.Event}
    (hs : Queue.step cap s e = some s') (ho : Queue.opOf s e = none) :
    s'.items = s.items ∧ s'.closed = s.closed := by
  cases Queue.step_sound hs with
  | pushAdmit ht _ _ _ => simp [Queue.opOf, ht, Queue.TStatus.item?] at ho
  | tryPushAdmit _ _ _ _ => simp [Queue.opOf] at ho
  | pullEos _ _ _ => simp [Queue.opOf] at ho
  | pullTake _ _ _ _ => simp [Queue.opOf] at ho
  | tryPullTake _ _ _ _ => simp [Queue.opOf] at ho
  | close _ => simp [Queue.opOf] at ho
  | _ => exact ⟨rfl, rfl⟩

theorem q_accept {cap : Nat} {s s' : Queue.State} {t : Nat} {w : Option Nat}
    (hs : Queue.step cap s (.pushAdmit t w) = some s') :
    ∃ it, s.thr[t]? = some (.pushing it) ∧ s'.items = it :: s.items ∧ s'.closed = s.closed := by
  cases Queue.step_sound hs with
  | @pushAdmit _ _ it _ ht _ _ hn =>
    have := (Queue.notifNE_same hn).1
    exact ⟨it, ht, congrArg Queue.AbsQ.items this, congrArg Queue.AbsQ.closed this⟩

theorem q_take {cap : Nat} {s s' : Queue.State} {t : Nat} {it : QItem} {w : Option Nat}
    (hs : Queue.step cap s (.pullTake t it w) = some s') :
    s'.items = s.items.erase it ∧ s'.closed = s.closed := by
  cases Queue.step_sound hs with
  | pullTake _ _ _ hn =>
    have := (Queue.notifNF_same hn).1
    exact ⟨congrArg Queue.AbsQ.items this, congrArg Queue.AbsQ.closed this⟩

theorem q_eos {cap : Nat} {s s' : Queue.State} {t : Nat}
    (hs : Queue.step cap s (.pullEos t) = some s') : s'.items = s.items ∧ s'.closed = s.closed := by
  cases Queue.step_sound hs with
  | pullEos _ _ _ => exact ⟨rfl, rfl⟩

theorem q_close {cap : Nat} {s s' : Queue.State} {t : Nat}
    (hs : Queue.step cap s (.close t) = some s') : s'.items = s.items ∧ s'.closed = true := by
  cases Queue.step_sound hs with
  | close _ => exact ⟨rfl, rfl⟩

theorem step?_cap {fx : Bool} {s s' : Pipeline.State} {e : Pipeline.Event}
    (h : Pipeline.step? fx s e = some s') : s'.cap = s.cap := by
  cases Pipeline.stepI_of_step? h <;> rfl

/-! ### the invariant of the product -/

structure PInv (enc : PItem → QItem) (prog : List Pipeline.Instr) (cap N : Nat) (s : PState) :
    Prop where
  /-- safety: the pipeline component is a reachable state of the completed-call model -/
  reach : Pipeline.Reachable true prog cap N s.p
  cap_eq : s.p.cap = cap
  a : Queue.InvA cap s.q
  b : Queue.InvB s.q
  d : Queue.InvD cap 0 s.q
  /-- the ghost queue of the pipeline component is the queue of the Queue model -/
  perm : (s.p.queue.map enc).Perm s.q.items
  closed_eq : s.p.closed = s.q.closed
  len : s.q.thr.length = N + 1
  sub : ∀ x, x ∈ s.p.queue ∨ x ∈ Pipeline.items s.p.prog → x ∈ Pipeline.items prog
  /-- the producer is inside `push` only with the item its program pushes next -/
  c0 : ∀ st it, s.q.thr[0]? = some st → st.item? = some it →
    ∃ x rest, s.p.prog = .push x :: rest ∧ it = enc x
  /-- only workers at the top of their loop are inside `pull` -/
  c1 : ∀ t st, s.q.thr[t]? = some st → st.inPull = true →
    ∃ w, t = w + 1 ∧ s.p.workers[w]? = some .idle

theorem pinv_init (enc : PItem → QItem) (prog : List Pipeline.Instr) (cap N : Nat) :
    PInv enc prog cap N (init prog cap N) := by
  have hidle : ∀ (t : Nat) (st : Queue.TStatus), (Queue.init (N + 1)).thr[t]? = some st → st = .idle := by
    intro t st h
    exact (List.mem_replicate.mp (List.mem_of_getElem? h)).2
  refine ⟨.init, rfl, Queue.InvA_init _ _, Queue.InvB_init _, Queue.InvD_init _ _ _, ?_, rfl, ?_, ?_, ?_, ?_⟩
  · simp [init, Pipeline.init, Queue.init]
  · simp [init, Queue.init]
  · intro x hx
    rcases hx with hx | hx
    · simp [init, Pipeline.init] at hx
    · exact hx
  · intro st it h hit
    rw [hidle 0 st h] at hit
    simp [Queue.TStatus.item?] at hit
  · intro t st h hin
    rw [hidle t st h] at hin
    simp [Queue.TStatus.inPull] at hin

/-- the Queue-model part of the invariant after one Queue-model event that is not a second pusher -/
theorem pinv_q {enc : PItem → QItem} {prog : List Pipeline.Instr} {cap N : Nat} {s : PState}
    (hi : PInv enc prog cap N s) {e : Queue.Event} {q' : Queue.State}
    (hs : Queue.step cap s.q e = some q') (hp : Queue.OnlyPusher 0 e) :
    Queue.InvA cap q' ∧ Queue.InvB q' ∧ Queue.InvD cap 0 q' ∧ q'.thr.length = N + 1 :=
  ⟨Queue.InvA_step _ _ _ hi.a hs, Queue.InvB_step _ _ _ hi.b hs, Queue.InvD_step _ _ _ hi.d hp hs,
    (Queue.step_thr_length hs).trans hi.len⟩

theorem post_item {e : Queue.Event} {st : Queue.TStatus} {it : QItem}
    (h : (e.post st).item? = some it) (hpre : e.pre st = true) :
    (∃ t, e = .pushEnter t it) ∨ st.item? = some it := by
  cases e <;> cases st <;>
    simp_all [Queue.Event.post, Queue.Event.pre, Queue.TStatus.item?, Queue.TStatus.isIdle,
      Queue.TStatus.isPushing, Queue.TStatus.isNotifNF, Queue.TStatus.isWaitNF,
      Queue.TStatus.isPulling, Queue.TStatus.isNotifNE, Queue.TStatus.isWaitNE]

theorem post_inPull {e : Queue.Event} {st : Queue.TStatus}
    (h : (e.post st).inPull = true) (hpre : e.pre st = true) :
    (∃ t, e = .pullEnter t) ∨ st.inPull = true := by
  cases e <;> cases st <;>
    simp_all [Queue.Event.post, Queue.Event.pre, Queue.TStatus.inPull, Queue.TStatus.isIdle,
      Queue.TStatus.isPushing, Queue.TStatus.isNotifNF, Queue.TStatus.isWaitNF,
      Queue.TStatus.isPulling, Queue.TStatus.isNotifNE, Queue.TStatus.isWaitNE]

/-- after an event that leaves the acting thread outside the queue, every thread inside a call is
another thread and was inside the same call before -/
theorem thr_after {cap : Nat} {q q' : Queue.State} {e : Queue.Event}
    (hs : Queue.step cap q e = some q') (hpost : ∀ st, e.post st = .idle)
    {u : Nat} {st' : Queue.TStatus} (hu : q'.thr[u]? = some st') (hne : st' ≠ .idle) :
    u ≠ e.tid ∧ ∃ st, q.thr[u]? = some st ∧ st'.item? = st.item? ∧ st'.inPull = st.inPull := by
  obtain ⟨st, hst, hcase⟩ := Queue.step_thr hs hu
  rcases hcase with ⟨_, h⟩ | ⟨hut, h | h⟩
  · exact absurd (h.trans (hpost st)) hne
  · exact ⟨hut, st, hst, by rw [h], by rw [h]⟩
  · exact ⟨hut, st, hst, by rw [h, Queue.wakeAll_item], by rw [h, Queue.wakeAll_inPull]⟩

theorem set_keeps_idle {l : List Pipeline.WState} {w w' : Nat} {v : Pipeline.WState}
    (h : l[w']? = some .idle) (hv : w = w' → v = .idle) : (l.set w v)[w']? = some .idle := by
  rw [List.getElem?_set]
  by_cases hw : w = w'
  · have hlt : w < l.length := hw ▸ (List.getElem?_eq_some_iff.mp h).1
    simp [hw, hv hw, hw ▸ hlt]
  · simp [hw, h]

/-- steps of a worker outside the queue leave program, queue and `closed` alone, and a worker that
is at the top of its loop stays there -/
theorem work_effect {p p' : Pipeline.State} {e : Pipeline.Event} (hok : workOK e = true)
    (h : Pipeline.step? true p e = some p') :
    p'.prog = p.prog ∧ p'.queue = p.queue ∧ p'.closed = p.closed ∧
    (∀ w : Nat, p.workers[w]? = some Pipeline.WState.idle →
      p'.workers[w]? = some Pipeline.WState.idle) := by
  cases Pipeline.stepI_of_step? h with
  | push _ _ => simp [workOK] at hok
  | waitEmpty _ _ => simp [workOK] at hok
  | close _ => simp [workOK] at hok
  | pull _ _ => simp [workOK] at hok
  | exit _ _ _ => simp [workOK] at hok
  | buffer hw => exact ⟨rfl, rfl, rfl, fun w h => set_keeps_idle h (fun _ => rfl)⟩
  | release1 _ hall =>
    refine ⟨rfl, rfl, rfl, fun w h => ?_⟩
    have := hall _ (Pipeline.mem_of_getElem? h); cases this
  | release _ _ _ hall =>
    refine ⟨rfl, rfl, rfl, fun w h => ?_⟩
    have := hall _ (Pipeline.mem_of_getElem? h); cases this
  | @advance w j hw _ _ =>
    refine ⟨rfl, rfl, rfl, fun w' h => set_keeps_idle h (fun hww => ?_)⟩
    subst hww; rw [hw] at h; cases h
  | advance4 hw => exact ⟨rfl, rfl, rfl, fun w h => set_keeps_idle h (fun _ => rfl)⟩

theorem item_ne_idle {st : Queue.TStatus} {it : QItem} (h : st.item? = some it) : st ≠ .idle := by
  rintro rfl; simp [Queue.TStatus.item?] at h

theorem inPull_ne_idle {st : Queue.TStatus} (h : st.inPull = true) : st ≠ .idle := by
  rintro rfl; simp [Queue.TStatus.inPull] at h

/-- Every transition of the product preserves the invariant. -/
theorem pinv_step {enc : PItem → QItem} {prog : List Pipeline.Instr} {cap N : Nat} {s s' : PState}
    {e : PEv} (hi : PInv enc prog cap N s) (h : pstep enc s e = some s') : PInv enc prog cap N s' := by
  have hcap := hi.cap_eq
  cases e with
  | stut e =>
    simp only [pstep] at h
    split at h
    · next hok =>
      simp only [Option.map_eq_some_iff] at h
      obtain ⟨q', hq, rfl⟩ := h
      rw [hcap] at hq
      have hop : Queue.OnlyPusher 0 e := by
        cases e <;> first | trivial | skip
        simp only [stutOK] at hok
        split at hok
        · rfl
        · cases hok
      have hnone : Queue.opOf s.q e = none := by
        cases e <;> first | rfl | simp [stutOK] at hok
      obtain ⟨hitems, hclosed⟩ := q_stutter hq hnone
      obtain ⟨ha, hb, hd, hlen⟩ := pinv_q hi hq hop
      obtain ⟨st0, hst0, hpre⟩ := Queue.step_pre hq
      refine ⟨hi.reach, hcap, ha, hb, hd, hitems ▸ hi.perm, hclosed ▸ hi.closed_eq, hlen, hi.sub, ?_, ?_⟩
      · intro st' it hu hit
        obtain ⟨st, hst, hcase⟩ := Queue.step_thr hq hu
        rcases hcase with ⟨h0, hpost⟩ | ⟨_, hsame | hwake⟩
        · have hpre' : e.pre st = true := by rw [← h0, hst] at hst0; cases hst0; exact hpre
          rw [hpost] at hit
          rcases post_item hit hpre' with ⟨t, rfl⟩ | hold
          · simp only [stutOK] at hok
            split at hok
            · next x rest hprog => exact ⟨x, rest, hprog, of_decide_eq_true hok⟩
            · cases hok
          · exact hi.c0 st it hst hold
        · subst hsame; exact hi.c0 _ it hst hit
        · rw [hwake, Queue.wakeAll_item] at hit; exact hi.c0 st it hst hit
      · intro t st' hu hin
        obtain ⟨st, hst, hcase⟩ := Queue.step_thr hq hu
        rcases hcase with ⟨h0, hpost⟩ | ⟨_, hsame | hwake⟩
        · have hpre' : e.pre st = true := by rw [← h0, hst] at hst0; cases hst0; exact hpre
          rw [hpost] at hin
          rcases post_inPull hin hpre' with ⟨t', rfl⟩ | hold
          · simp only [Queue.Event.tid] at h0
            subst h0
            cases t with
            | zero => simp [stutOK] at hok
            | succ w => exact ⟨w, rfl, by simpa [stutOK] using hok⟩
          · exact hi.c1 t st hst hold
        · subst hsame; exact hi.c1 t _ hst hin
        · rw [hwake, Queue.wakeAll_inPull] at hin; exact hi.c1 t st hst hin
    · cases h
  | push w =>
    simp only [pstep] at h
    split at h
    · next x rest hprog =>
      simp only [Option.bind_eq_some_iff, Option.map_eq_some_iff] at h
      obtain ⟨q', hq, p', hp, rfl⟩ := h
      rw [hcap] at hq
      obtain ⟨it, hthr, hitems, hclosed⟩ := q_accept hq
      obtain ⟨x', rest', hprog', hit⟩ := hi.c0 _ it hthr rfl
      rw [hprog] at hprog'
      cases hprog'
      obtain ⟨ha, hb, hd, hlen⟩ := pinv_q hi hq trivial
      have hp2 : p'.prog = rest ∧ p'.queue = s.p.queue ++ [x] ∧ p'.closed = s.p.closed ∧
          p'.workers = s.p.workers := by
        cases Pipeline.stepI_of_step? hp with
        | push hp' _ => rw [hprog] at hp'; cases hp'; exact ⟨rfl, rfl, rfl, rfl⟩
        | waitEmpty hp' _ => rw [hprog] at hp'; cases hp'
        | close hp' => rw [hprog] at hp'; cases hp'
      obtain ⟨h1, h2, h3, h4⟩ := hp2
      refine ⟨.step hi.reach ⟨.prod, hp⟩, (step?_cap hp).trans hcap, ha, hb, hd, ?_, ?_, hlen, ?_, ?_, ?_⟩
      · simp only [h2, hitems, hit, List.map_append, List.map_cons, List.map_nil]
        exact (List.perm_append_singleton _ _).trans (hi.perm.cons _)
      · simp only [h3, hclosed]; exact hi.closed_eq
      · intro y hy
        simp only [h1, h2, List.mem_append, List.mem_singleton] at hy
        rcases hy with (hy | rfl) | hy
        · exact hi.sub y (.inl hy)
        · exact hi.sub y (.inr (by simp [hprog]))
        · exact hi.sub y (.inr (by simp [hprog, hy]))
      · intro st' it' hu hit'
        exact absurd rfl (thr_after hq (fun _ => rfl) hu (item_ne_idle hit')).1
      · intro t st' hu hin
        obtain ⟨_, st, hst, _, hin'⟩ := thr_after hq (fun _ => rfl) hu (inPull_ne_idle hin)
        simp only [h4]
        exact hi.c1 t st hst (hin' ▸ hin)
    · cases h
  | pull t x w =>
    simp only [pstep, Option.bind_eq_some_iff, Option.map_eq_some_iff] at h
    obtain ⟨q', hq, p', hp, rfl⟩ := h
    rw [hcap] at hq
    obtain ⟨hitems, hclosed⟩ := q_take hq
    obtain ⟨ha, hb, hd, hlen⟩ := pinv_q hi hq trivial
    have hp2 : x ∈ s.p.queue ∧ p'.prog = s.p.prog ∧ p'.queue = s.p.queue.erase x ∧
        p'.closed = s.p.closed ∧ ∃ v, p'.workers = s.p.workers.set t v := by
      cases Pipeline.stepI_of_step? hp with
      | pull _ hm => exact ⟨hm.1, rfl, rfl, rfl, _, rfl⟩
    obtain ⟨hx, h1, h2, h3, v, h4⟩ := hp2
    refine ⟨.step hi.reach ⟨_, hp⟩, (step?_cap hp).trans hcap, ha, hb, hd, ?_, ?_, hlen, ?_, ?_, ?_⟩
    · rw [h2, hitems]; exact perm_erase_map hi.perm hx
    · simp only [h3, hclosed]; exact hi.closed_eq
    · intro y hy
      rw [h1, h2] at hy
      rcases hy with hy | hy
      · exact hi.sub y (.inl (List.mem_of_mem_erase hy))
      · exact hi.sub y (.inr hy)
    · intro st' it' hu hit'
      obtain ⟨_, st, hst, hitem, _⟩ := thr_after hq (fun _ => rfl) hu (item_ne_idle hit')
      rw [h1]; exact hi.c0 st it' hst (hitem ▸ hit')
    · intro u st' hu hin
      obtain ⟨hne, st, hst, _, hin'⟩ := thr_after hq (fun _ => rfl) hu (inPull_ne_idle hin)
      obtain ⟨w', rfl, hw'⟩ := hi.c1 u st hst (hin' ▸ hin)
      refine ⟨w', rfl, ?_⟩
      rw [h4]
      exact set_keeps_idle hw' (fun htw => absurd (by simp [Queue.Event.tid, htw]) hne)
  | eos t =>
    simp only [pstep, Option.bind_eq_some_iff, Option.map_eq_some_iff] at h
    obtain ⟨q', hq, p', hp, rfl⟩ := h
    rw [hcap] at hq
    obtain ⟨hitems, hclosed⟩ := q_eos hq
    obtain ⟨ha, hb, hd, hlen⟩ := pinv_q hi hq trivial
    have hp2 : p'.prog = s.p.prog ∧ p'.queue = s.p.queue ∧ p'.closed = s.p.closed ∧
        ∃ v, p'.workers = s.p.workers.set t v := by
      cases Pipeline.stepI_of_step? hp with
      | exit _ _ _ => exact ⟨rfl, rfl, rfl, _, rfl⟩
    obtain ⟨h1, h2, h3, v, h4⟩ := hp2
    refine ⟨.step hi.reach ⟨_, hp⟩, (step?_cap hp).trans hcap, ha, hb, hd, ?_, ?_, hlen, ?_, ?_, ?_⟩
    · rw [h2, hitems]; exact hi.perm
    · simp only [h3, hclosed]; exact hi.closed_eq
    · intro y hy; rw [h1, h2] at hy; exact hi.sub y hy
    · intro st' it' hu hit'
      obtain ⟨_, st, hst, hitem, _⟩ := thr_after hq (fun _ => rfl) hu (item_ne_idle hit')
      rw [h1]; exact hi.c0 st it' hst (hitem ▸ hit')
    · intro u st' hu hin
      obtain ⟨hne, st, hst, _, hin'⟩ := thr_after hq (fun _ => rfl) hu (inPull_ne_idle hin)
      obtain ⟨w', rfl, hw'⟩ := hi.c1 u st hst (hin' ▸ hin)
      refine ⟨w', rfl, ?_⟩
      rw [h4]
      exact set_keeps_idle hw' (fun htw => absurd (by simp [Queue.Event.tid, htw]) hne)
  | close =>
    simp only [pstep] at h
    split at h
    · next rest hprog =>
      simp only [Option.bind_eq_some_iff, Option.map_eq_some_iff] at h
      obtain ⟨q', hq, p', hp, rfl⟩ := h
      rw [hcap] at hq
      obtain ⟨hitems, hclosed⟩ := q_close hq
      obtain ⟨ha, hb, hd, hlen⟩ := pinv_q hi hq trivial
      have hp2 : p'.prog = rest ∧ p'.queue = s.p.queue ∧ p'.closed = true ∧
          p'.workers = s.p.workers := by
        cases Pipeline.stepI_of_step? hp with
        | push hp' _ => rw [hprog] at hp'; cases hp'
        | waitEmpty hp' _ => rw [hprog] at hp'; cases hp'
        | close hp' => rw [hprog] at hp'; cases hp'; exact ⟨rfl, rfl, rfl, rfl⟩
      obtain ⟨h1, h2, h3, h4⟩ := hp2
      refine ⟨.step hi.reach ⟨.prod, hp⟩, (step?_cap hp).trans hcap, ha, hb, hd, ?_, ?_, hlen, ?_, ?_, ?_⟩
      · rw [h2, hitems]; exact hi.perm
      · rw [h3, hclosed]
      · intro y hy
        rw [h1, h2] at hy
        rcases hy with hy | hy
        · exact hi.sub y (.inl hy)
        · exact hi.sub y (.inr (by simp [hprog, hy]))
      · intro st' it' hu hit'
        exact absurd rfl (thr_after hq (fun _ => rfl) hu (item_ne_idle hit')).1
      · intro t st' hu hin
        obtain ⟨_, st, hst, _, hin'⟩ := thr_after hq (fun _ => rfl) hu (inPull_ne_idle hin)
        simp only [h4]
        exact hi.c1 t st hst (hin' ▸ hin)
    · cases h
  | waitEmpty =>
    simp only [pstep] at h
    split at h
    · next rest hprog =>
      split at h
      · simp only [Option.map_eq_some_iff] at h
        obtain ⟨p', hp, rfl⟩ := h
        have hp2 : p'.prog = rest ∧ p'.queue = s.p.queue ∧ p'.closed = s.p.closed ∧
            p'.workers = s.p.workers := by
          cases Pipeline.stepI_of_step? hp with
          | push hp' _ => rw [hprog] at hp'; cases hp'
          | waitEmpty hp' _ => rw [hprog] at hp'; cases hp'; exact ⟨rfl, rfl, rfl, rfl⟩
          | close hp' => rw [hprog] at hp'; cases hp'
        obtain ⟨h1, h2, h3, h4⟩ := hp2
        refine ⟨.step hi.reach ⟨.prod, hp⟩, (step?_cap hp).trans hcap, hi.a, hi.b, hi.d, ?_, ?_, hi.len, ?_, ?_, ?_⟩
        · rw [h2]; exact hi.perm
        · rw [h3]; exact hi.closed_eq
        · intro y hy
          rw [h1, h2] at hy
          rcases hy with hy | hy
          · exact hi.sub y (.inl hy)
          · exact hi.sub y (.inr (by simp [hprog, hy]))
        · intro st it hu hit
          obtain ⟨x, r, hx, _⟩ := hi.c0 st it hu hit
          rw [hprog] at hx; cases hx
        · intro t st hu hin
          simp only [h4]; exact hi.c1 t st hu hin
      · cases h
    · cases h
  | work e =>
    simp only [pstep] at h
    split at h
    · next hok =>
      simp only [Option.map_eq_some_iff] at h
      obtain ⟨p', hp, rfl⟩ := h
      obtain ⟨h1, h2, h3, h4⟩ := work_effect hok hp
      refine ⟨.step hi.reach ⟨_, hp⟩, (step?_cap hp).trans hcap, hi.a, hi.b, hi.d, ?_, ?_, hi.len, ?_, ?_, ?_⟩
      · rw [h2]; exact hi.perm
      · rw [h3]; exact hi.closed_eq
      · intro y hy; rw [h1, h2] at hy; exact hi.sub y hy
      · intro st it hu hit; rw [h1]; exact hi.c0 st it hu hit
      · intro t st hu hin
        obtain ⟨w, rfl, hw⟩ := hi.c1 t st hu hin
        exact ⟨w, rfl, h4 w hw⟩
    · cases h

theorem pinv_reach {enc : PItem → QItem} {prog : List Pipeline.Instr} {cap N : Nat} {s : PState}
    (h : PReach enc prog cap N s) : PInv enc prog cap N s := by
  induction h with
  | init => exact pinv_init enc prog cap N
  | step _ hs ih => exact pinv_step ih hs

/-! ### progress: a stuck product state is a final pipeline state -/

theorem step?_wlen {fx : Bool} {s s' : Pipeline.State} {e : Pipeline.Event}
    (h : Pipeline.step? fx s e = some s') : s'.workers.length = s.workers.length := by
  cases Pipeline.stepI_of_step? h <;> simp

theorem reach_wlen {fx : Bool} {prog : List Pipeline.Instr} {cap N : Nat} {p : Pipeline.State}
    (h : Pipeline.Reachable fx prog cap N p) : p.workers.length = N := by
  induction h with
  | init => simp [Pipeline.init]
  | step _ hs ih => obtain ⟨e, he⟩ := hs; exact (step?_wlen he).trans ih

theorem stut_step {enc : PItem → QItem} {s : PState} {cap : Nat} (hcap : s.p.cap = cap)
    {e : Queue.Event} {q' : Queue.State} (hok : stutOK enc s e = true)
    (hq : Queue.step cap s.q e = some q') : pstep enc s (.stut e) = some ⟨s.p, q'⟩ := by
  simp only [pstep, hok, ↓reduceIte, hcap, hq, Option.map_some]

theorem work_step {enc : PItem → QItem} {s : PState} {e : Pipeline.Event} {p' : Pipeline.State}
    (hok : workOK e = true) (he : Pipeline.step? true s.p e = some p') :
    pstep enc s (.work e) = some ⟨p', s.q⟩ := by
  simp only [pstep, hok, ↓reduceIte, he, Option.map_some]

section progress
variable {enc : PItem → QItem} {prog : List Pipeline.Instr} {cap N : Nat} {s : PState}

theorem pinv_cur (henc : EncOK enc prog) (hi : PInv enc prog cap N s) : s.p.cur = s.q.cur := by
  rw [Pipeline.State.cur, ← sizeSum_map_enc henc.size, Queue.sizeSum_perm hi.perm, hi.a.cur_eq]

theorem pinv_empty (hi : PInv enc prog cap N s) : s.p.queue = [] ↔ s.q.items = [] := by
  constructor
  · intro h; have := hi.perm; rw [h] at this; exact this.symm.eq_nil
  · intro h
    have := hi.perm; rw [h] at this
    exact List.map_eq_nil_iff.mp this.eq_nil

/-- a worker that is evaluating the loop condition of `pull` can move in the product: it takes a
maximal item, reports end-of-stream, or goes to sleep -/
theorem pulling_moves (henc : EncOK enc prog) (hi : PInv enc prog cap N s) {u : Nat}
    (hu : s.q.thr[u]? = some .pulling) :
    ∃ e s', pstep enc s e = some s' ∧ e.isSpur = false := by
  have hcap := hi.cap_eq
  obtain ⟨w, rfl, hw⟩ := hi.c1 u _ hu rfl
  by_cases he : s.q.items = []
  · have hpq : s.p.queue = [] := (pinv_empty hi).mpr he
    by_cases hcl : s.q.closed = true
    · have hq : Queue.step cap s.q (.pullEos (w + 1)) = some ((s.q.setT (w + 1) .idle).log (.eos (w + 1))) := by
        simp only [Queue.step, hu, he, hcl, and_self, ↓reduceIte]
      have hp := Pipeline.step?_of_stepI (fx := true) (.exit hw (hi.closed_eq.trans hcl) hpq)
      exact ⟨.eos w, _, by simp only [pstep, hcap, hq, hp, Option.bind_some, Option.map_some] <;> rfl, rfl⟩
    · have hcl' : s.q.closed = false := by simpa using hcl
      have hq : Queue.step cap s.q (.pullWait (w + 1)) = some (s.q.setT (w + 1) .waitNE) := by
        simp only [Queue.step, hu, he, hcl', and_self, ↓reduceIte]
      exact ⟨.stut (.pullWait (w + 1)), _, stut_step hcap rfl hq, rfl⟩
  · have hpq : s.p.queue ≠ [] := fun h => he ((pinv_empty hi).mp h)
    obtain ⟨x, hm⟩ := Pipeline.exists_isMax s.p.queue hpq
    have hmq := isMax_enc henc hi.perm (fun y hy => hi.sub y (.inl hy)) hm
    obtain ⟨v, q', hn⟩ := Queue.notifyNF_enabled ((s.q.setT (w + 1) .idle).take (w + 1) (enc x))
    have hq : Queue.step cap s.q (.pullTake (w + 1) (enc x) v) = some q' := by
      simp only [Queue.step, hu, hmq, and_self, ↓reduceIte, hn]
    have hp := Pipeline.step?_of_stepI (fx := true) (.pull hw hm)
    exact ⟨.pull w x v, _, by simp only [pstep, hcap, hq, hp, Option.bind_some, Option.map_some] <;> rfl, rfl⟩

/-- a worker at the top of its loop, while the completed-call model lets it pull an item or exit,
is not stuck in the product: it or — when it sleeps — a consumer to which the wake-up went can move -/
theorem worker_moves (henc : EncOK enc prog) (hi : PInv enc prog cap N s) {w : Nat}
    (hw : s.p.workers[w]? = some .idle)
    (hen : s.p.queue ≠ [] ∨ (s.p.closed = true ∧ s.p.queue = [])) :
    ∃ e s', pstep enc s e = some s' ∧ e.isSpur = false := by
  have hcap := hi.cap_eq
  have hwN : w + 1 < s.q.thr.length := by
    have := (List.getElem?_eq_some_iff.mp hw).1
    have := reach_wlen hi.reach
    rw [hi.len]; omega
  have hu : s.q.thr[w + 1]? = some (s.q.thr[w + 1]) := List.getElem?_eq_getElem hwN
  generalize s.q.thr[w + 1] = st at hu
  cases st with
  | idle =>
    have hq : Queue.step cap s.q (.pullEnter (w + 1)) = some (s.q.setT (w + 1) .pulling) := by
      simp only [Queue.step, hu, ↓reduceIte]
    exact ⟨.stut (.pullEnter (w + 1)), _, stut_step hcap (by simp [stutOK, hw]) hq, rfl⟩
  | pulling => exact pulling_moves henc hi hu
  | notifNE =>
    have hq : Queue.step cap s.q (.pullWake (w + 1)) = some (s.q.setT (w + 1) .pulling) := by
      simp only [Queue.step, hu, ↓reduceIte]
    exact ⟨.stut (.pullWake (w + 1)), _, stut_step hcap rfl hq, rfl⟩
  | waitNE =>
    have hpos : 0 < s.q.thr.countP Queue.TStatus.isWaitNE := Queue.countP_pos_of_get _ hu rfl
    rcases hen with hne | ⟨hcl, _⟩
    · have hqne : s.q.items ≠ [] := fun h => hne ((pinv_empty hi).mpr h)
      have hlen : 0 < s.q.items.length := List.length_pos_iff.mpr hqne
      have hcov := hi.b.ne hpos
      have : 0 < s.q.thr.countP Queue.TStatus.isNotifNE ∨ 0 < s.q.thr.countP Queue.TStatus.isPulling := by
        omega
      rcases this with h | h
      · obtain ⟨v, stv, hv, hp⟩ := Queue.exists_of_countP_pos h
        have : stv = .notifNE := by cases stv <;> simp [Queue.TStatus.isNotifNE] at hp; rfl
        subst this
        have hq : Queue.step cap s.q (.pullWake v) = some (s.q.setT v .pulling) := by
          simp only [Queue.step, hv, ↓reduceIte]
        exact ⟨.stut (.pullWake v), _, stut_step hcap rfl hq, rfl⟩
      · obtain ⟨v, stv, hv, hp⟩ := Queue.exists_of_countP_pos h
        have : stv = .pulling := by cases stv <;> simp [Queue.TStatus.isPulling] at hp; rfl
        subst this
        exact pulling_moves henc hi hv
    · have := hi.b.closedNE (hi.closed_eq.symm.trans hcl)
      omega
  | pushing it => have := hi.d.only (w + 1) _ hu (by simp [Queue.TStatus.item?]); omega
  | waitNF it => have := hi.d.only (w + 1) _ hu (by simp [Queue.TStatus.item?]); omega
  | notifNF it => have := hi.d.only (w + 1) _ hu (by simp [Queue.TStatus.item?]); omega

/-- the status of the producer's thread -/
theorem producer_status (hi : PInv enc prog cap N s) :
    ∃ st, s.q.thr[0]? = some st ∧ st.inPull = false := by
  have h0 : 0 < s.q.thr.length := by rw [hi.len]; omega
  refine ⟨s.q.thr[0], List.getElem?_eq_getElem h0, ?_⟩
  cases hin : (s.q.thr[0]).inPull with
  | false => rfl
  | true =>
    obtain ⟨w, hw, _⟩ := hi.c1 0 _ (List.getElem?_eq_getElem h0) hin
    omega

/-- while the completed-call model lets the producer complete its `push`, it can move in the
product: it is never asleep then (`no_lost_wakeup_not_full_single`) -/
theorem producer_push_moves (henc : EncOK enc prog) (hi : PInv enc prog cap N s) {x : PItem}
    {rest : List Pipeline.Instr} (hp : s.p.prog = .push x :: rest)
    (hg : Pipeline.pushGuard true s.p x) :
    ∃ e s', pstep enc s e = some s' ∧ e.isSpur = false := by
  have hcap := hi.cap_eq
  obtain ⟨st, h0, hin⟩ := producer_status hi
  have hcur := pinv_cur henc hi
  have hguard : (s.q.cur + (enc x).size ≤ cap ∨ s.q.items = []) ∧ s.q.closed = false := by
    obtain ⟨hc, hfit⟩ := hg
    refine ⟨?_, hi.closed_eq ▸ hc⟩
    rcases hfit with h | ⟨_, h⟩
    · left; rw [henc.size, ← hcur, ← hcap]; exact h
    · right; exact (pinv_empty hi).mp h
  have hitem : ∀ it, st.item? = some it → it = enc x := by
    intro it hit
    obtain ⟨x', r', hp', hx⟩ := hi.c0 st it h0 hit
    rw [hp] at hp'; cases hp'; exact hx
  cases st with
  | idle =>
    have hq : Queue.step cap s.q (.pushEnter 0 (enc x)) = some (s.q.setT 0 (.pushing (enc x))) := by
      simp only [Queue.step, h0, ↓reduceIte]
    exact ⟨.stut (.pushEnter 0 (enc x)), _, stut_step hcap (by simp [stutOK, hp]) hq, rfl⟩
  | pushing it =>
    have := hitem it rfl; subst this
    obtain ⟨w, q', hn⟩ := Queue.notifyNE_enabled ((s.q.setT 0 .idle).enq 0 (enc x))
    have hq : Queue.step cap s.q (.pushAdmit 0 w) = some q' := by
      simp only [Queue.step, h0, hguard, and_self, ↓reduceIte, hn]
    have hps := Pipeline.step?_of_stepI (fx := true) (.push hp hg)
    exact ⟨.push w, _, by simp only [pstep, hp, hcap, hq, hps, Option.bind_some, Option.map_some] <;> rfl, rfl⟩
  | waitNF it =>
    exfalso
    have := hitem it rfl; subst this
    obtain ⟨h1, h2, h3⟩ := hi.d.wait 0 _ h0
    rcases hguard.1 with h | h
    · omega
    · exact h2 h
  | notifNF it =>
    have hq : Queue.step cap s.q (.pushWake 0) = some (s.q.setT 0 (.pushing it)) := by
      simp only [Queue.step, h0]
    exact ⟨.stut (.pushWake 0), _, stut_step hcap rfl hq, rfl⟩
  | pulling => simp [Queue.TStatus.inPull] at hin
  | waitNE => simp [Queue.TStatus.inPull] at hin
  | notifNE => simp [Queue.TStatus.inPull] at hin

/-- when the producer's next instruction is not a `push`, its thread is outside the queue -/
theorem producer_idle (hi : PInv enc prog cap N s) (hnp : ∀ x rest, s.p.prog ≠ .push x :: rest) :
    s.q.thr[0]? = some .idle := by
  obtain ⟨st, h0, hin⟩ := producer_status hi
  cases st with
  | idle => exact h0
  | pushing it => obtain ⟨x, r, hp, _⟩ := hi.c0 _ it h0 rfl; exact absurd hp (hnp x r)
  | waitNF it => obtain ⟨x, r, hp, _⟩ := hi.c0 _ it h0 rfl; exact absurd hp (hnp x r)
  | notifNF it => obtain ⟨x, r, hp, _⟩ := hi.c0 _ it h0 rfl; exact absurd hp (hnp x r)
  | pulling => simp [Queue.TStatus.inPull] at hin
  | waitNE => simp [Queue.TStatus.inPull] at hin
  | notifNE => simp [Queue.TStatus.inPull] at hin

/-- Every step that the completed-call pipeline can take from `s.p` is matched by an enabled
non-spurious transition of the product (of the same thread, or — for a sleeping consumer — of the
consumer the wake-up went to). -/
theorem abstract_step_matched (henc : EncOK enc prog) (hi : PInv enc prog cap N s)
    {p' : Pipeline.State} (hs : Pipeline.Step true s.p p') :
    ∃ e s', pstep enc s e = some s' ∧ e.isSpur = false := by
  have hcap := hi.cap_eq
  obtain ⟨e, he⟩ := hs
  cases Pipeline.stepI_of_step? he with
  | push hp hg => exact producer_push_moves henc hi hp hg
  | waitEmpty hp hq0 =>
    have hqe := (pinv_empty hi).mp hq0
    exact ⟨.waitEmpty, _, by simp only [pstep, hp, hqe, ↓reduceIte, he, Option.map_some] <;> rfl, rfl⟩
  | close hp =>
    have h0 := producer_idle hi (fun x r h => by rw [hp] at h; cases h)
    obtain ⟨q', hq⟩ : ∃ q', Queue.step cap s.q (.close 0) = some q' := by
      simp only [Queue.step, h0, ↓reduceIte]; exact ⟨_, rfl⟩
    exact ⟨.close, _, by simp only [pstep, hp, hcap, hq, he, Option.bind_some, Option.map_some] <;> rfl, rfl⟩
  | pull hw hm => exact worker_moves henc hi hw (.inl (List.ne_nil_of_mem hm.1))
  | exit hw hc hq0 => exact worker_moves henc hi hw (.inr ⟨hc, hq0⟩)
  | buffer hw => exact ⟨.work _, _, work_step rfl he, rfl⟩
  | release1 _ _ => exact ⟨.work _, _, work_step rfl he, rfl⟩
  | release _ _ _ _ => exact ⟨.work _, _, work_step rfl he, rfl⟩
  | advance _ _ _ => exact ⟨.work _, _, work_step rfl he, rfl⟩
  | advance4 _ => exact ⟨.work _, _, work_step rfl he, rfl⟩

/-- A stuck product state projects to a final pipeline state, given that the completed-call
pipeline has no deadlock (`Props.C05.no_deadlock_fixed`). -/
theorem stuck_final (henc : EncOK enc prog)
    (hprog : ∀ p, Pipeline.Reachable true prog cap N p → ¬ Pipeline.Final p →
      ∃ p', Pipeline.Step true p p')
    (hi : PInv enc prog cap N s) (hst : Stuck enc s) : Pipeline.Final s.p := by
  refine Classical.byContradiction fun hnf => ?_
  obtain ⟨p', hs⟩ := hprog s.p hi.reach hnf
  obtain ⟨e, s', h, hspur⟩ := abstract_step_matched henc hi hs
  have := hst e s' h
  rw [hspur] at this
  cases this

end progress

/-! ### conversely, a final pipeline state is stuck (nothing is left to do) -/

section final
variable {enc : PItem → QItem} {prog : List Pipeline.Instr} {cap N : Nat} {s : PState}

theorem final_all_idle (hi : PInv enc prog cap N s) (hf : Pipeline.Final s.p) :
    ∀ (t : Nat) (st : Queue.TStatus), s.q.thr[t]? = some st → st = Queue.TStatus.idle := by
  intro t st ht
  obtain ⟨hp, _, hw⟩ := hf
  have hpull : st.inPull = true → False := by
    intro hin
    obtain ⟨w, _, hwi⟩ := hi.c1 t st ht hin
    have := hw _ (Pipeline.mem_of_getElem? hwi)
    cases this
  have hpush : ∀ it, st.item? = some it → False := by
    intro it hit
    have ht0 : t = 0 := hi.d.only t st ht (by rw [hit]; simp)
    subst ht0
    obtain ⟨x, r, hx, _⟩ := hi.c0 st it ht hit
    rw [hp] at hx; cases hx
  cases st with
  | idle => rfl
  | pushing it => exact (hpush it rfl).elim
  | waitNF it => exact (hpush it rfl).elim
  | notifNF it => exact (hpush it rfl).elim
  | pulling => exact (hpull rfl).elim
  | waitNE => exact (hpull rfl).elim
  | notifNE => exact (hpull rfl).elim

theorem final_stuck (hi : PInv enc prog cap N s) (hf : Pipeline.Final s.p) : Stuck enc s := by
  intro e s' h
  exfalso
  have hidle := final_all_idle hi hf
  obtain ⟨hp, hq0, hw⟩ := hf
  have noq : ∀ {e : Queue.Event} {q' : Queue.State}, Queue.step s.p.cap s.q e = some q' →
      e.pre .idle = true := by
    intro e q' hs
    obtain ⟨st, hst, hpre⟩ := Queue.step_pre hs
    rw [hidle _ _ hst] at hpre; exact hpre
  have nop : ∀ {e : Pipeline.Event} {p' : Pipeline.State}, Pipeline.step? true s.p e = some p' →
      False := by
    intro e p' hs
    have hex : ∀ {w : Nat} {v : Pipeline.WState}, s.p.workers[w]? = some v → v = .exited :=
      fun h => hw _ (Pipeline.mem_of_getElem? h)
    cases Pipeline.stepI_of_step? hs with
    | push h _ => rw [hp] at h; cases h
    | waitEmpty h _ => rw [hp] at h; cases h
    | close h => rw [hp] at h; cases h
    | pull h _ => cases hex h
    | exit h _ _ => cases hex h
    | buffer h => cases hex h
    | release1 hne hall =>
      obtain ⟨v, hv⟩ := List.exists_mem_of_ne_nil _ hne
      have h1 := hall v hv; have h2 := hw v hv; rw [h1] at h2; cases h2
    | release _ _ hne hall =>
      obtain ⟨v, hv⟩ := List.exists_mem_of_ne_nil _ hne
      have h1 := hall v hv; have h2 := hw v hv; rw [h1] at h2; cases h2
    | advance h _ _ => cases hex h
    | advance4 h => cases hex h
  cases e with
  | stut e =>
    simp only [pstep] at h
    split at h
    · next hok =>
      simp only [Option.map_eq_some_iff] at h
      obtain ⟨q', hs, _⟩ := h
      have hpre := noq hs
      cases e <;> simp [Queue.Event.pre, Queue.TStatus.isIdle, Queue.TStatus.isPushing,
        Queue.TStatus.isNotifNF, Queue.TStatus.isWaitNF, Queue.TStatus.isPulling,
        Queue.TStatus.isNotifNE, Queue.TStatus.isWaitNE] at hpre <;> simp [stutOK, hp] at hok
      next t =>
        cases t with
        | zero => simp [stutOK] at hok
        | succ w =>
          simp only [stutOK, decide_eq_true_eq] at hok
          have := hw _ (Pipeline.mem_of_getElem? hok); cases this
    · cases h
  | push w => simp only [pstep, hp] at h; cases h
  | pull t x w =>
    simp only [pstep, Option.bind_eq_some_iff, Option.map_eq_some_iff] at h
    obtain ⟨_, _, _, hs, _⟩ := h
    exact nop hs
  | eos t =>
    simp only [pstep, Option.bind_eq_some_iff, Option.map_eq_some_iff] at h
    obtain ⟨_, _, _, hs, _⟩ := h
    exact nop hs
  | close => simp only [pstep, hp] at h; cases h
  | waitEmpty => simp only [pstep, hp] at h; cases h
  | work e =>
    simp only [pstep] at h
    split at h
    · simp only [Option.map_eq_some_iff] at h
      obtain ⟨_, hs, _⟩ := h
      exact nop hs
    · cases h

end final

/-! ### executions without spurious wake-ups are bounded -/

/-- weights for the product: a thread outside the queue 5 (it may still start its next call),
notified 4, evaluating its loop condition 3, asleep 2 -/
def wt2 : Queue.TStatus → Nat
  | .idle => 5
  | .notifNF _ | .notifNE => 4
  | .pushing _ | .pulling => 3
  | .waitNF _ | .waitNE => 2

def mu2 (q : Queue.State) : Nat := (q.thr.map wt2).sum

theorem mu2_le (q : Queue.State) : mu2 q ≤ 5 * q.thr.length := by
  unfold mu2
  induction q.thr with
  | nil => simp
  | cons a l ih =>
    have : wt2 a ≤ 5 := by cases a <;> simp [wt2]
    simp only [List.map_cons, List.sum_cons, List.length_cons]; omega

theorem sum_wt2_set {l : List Queue.TStatus} {t : Nat} {a : Queue.TStatus} (b : Queue.TStatus)
    (h : l[t]? = some a) : ((l.set t b).map wt2).sum + wt2 a = (l.map wt2).sum + wt2 b := by
  induction l generalizing t with
  | nil => simp at h
  | cons x xs ih =>
    cases t with
    | zero =>
      simp only [List.getElem?_cons_zero, Option.some.injEq] at h
      subst h
      simp only [List.set_cons_zero, List.map_cons, List.sum_cons]; omega
    | succ t =>
      simp only [List.getElem?_cons_succ] at h
      have := ih h
      simp only [List.set_cons_succ, List.map_cons, List.sum_cons]; omega

/-- the potential of the product: the pipeline potential `Φ` of C05 first, the thread statuses second -/
def M (s : PState) : Nat := Pipeline.Φ s.p * (5 * s.q.thr.length + 1) + mu2 s.q

theorem stut_decreases {enc : PItem → QItem} {s : PState} {cap : Nat} {e : Queue.Event}
    {q' : Queue.State} (hok : stutOK enc s e = true) (hsp : e.isSpur = false)
    (hq : Queue.step cap s.q e = some q') : mu2 q' < mu2 s.q := by
  cases Queue.step_sound hq with
  | @pushEnter t it ht =>
    have := sum_wt2_set (.pushing it) ht
    simp only [mu2, Queue.State.setT, wt2] at this ⊢; omega
  | @pushWait t it ht _ _ _ =>
    have := sum_wt2_set (.waitNF it) ht
    simp only [mu2, Queue.State.setT, wt2] at this ⊢; omega
  | @pushWake t it ht =>
    have := sum_wt2_set (.pushing it) ht
    simp only [mu2, Queue.State.setT, wt2] at this ⊢; omega
  | pushSpur _ => simp [Queue.Event.isSpur] at hsp
  | @pullEnter t ht =>
    have := sum_wt2_set .pulling ht
    simp only [mu2, Queue.State.setT, wt2] at this ⊢; omega
  | @pullWait t ht _ _ =>
    have := sum_wt2_set .waitNE ht
    simp only [mu2, Queue.State.setT, wt2] at this ⊢; omega
  | @pullWake t ht =>
    have := sum_wt2_set .pulling ht
    simp only [mu2, Queue.State.setT, wt2] at this ⊢; omega
  | pullSpur _ => simp [Queue.Event.isSpur] at hsp
  | pushRefuse _ _ => simp [stutOK] at hok
  | pushAdmit _ _ _ _ => simp [stutOK] at hok
  | tryPushRefuse _ _ => simp [stutOK] at hok
  | tryPushWouldBlock _ _ _ _ => simp [stutOK] at hok
  | tryPushAdmit _ _ _ _ => simp [stutOK] at hok
  | pullEos _ _ _ => simp [stutOK] at hok
  | pullTake _ _ _ _ => simp [stutOK] at hok
  | tryPullEmpty _ _ => simp [stutOK] at hok
  | tryPullTake _ _ _ _ => simp [stutOK] at hok
  | close _ => simp [stutOK] at hok

theorem lex_lt {a a' K m m' : Nat} (h : a' < a) (hm : m' < K) : a' * K + m' < a * K + m := by
  have := Nat.mul_le_mul_right K (Nat.succ_le_of_lt h)
  rw [Nat.succ_mul] at this
  omega

/-- Every transition of the product except a spurious wake-up strictly decreases `M`. -/
theorem pstep_measure {enc : PItem → QItem} {s s' : PState} {e : PEv}
    (h : pstep enc s e = some s') (hsp : e.isSpur = false) : M s' < M s := by
  have both : ∀ {p' : Pipeline.State} {q' : Queue.State} {pe : Pipeline.Event} {qe : Queue.Event},
      Pipeline.step? true s.p pe = some p' → Queue.step s.p.cap s.q qe = some q' →
      M ⟨p', q'⟩ < M s := by
    intro p' q' pe qe hp hq
    have h1 := Pipeline.step?_decreases true _ _ _ hp
    have h2 := Queue.step_thr_length hq
    have h3 := mu2_le q'
    simp only [M, h2]
    exact lex_lt h1 (by omega)
  have ponly : ∀ {p' : Pipeline.State} {pe : Pipeline.Event},
      Pipeline.step? true s.p pe = some p' → M ⟨p', s.q⟩ < M s := by
    intro p' pe hp
    have h1 := Pipeline.step?_decreases true _ _ _ hp
    have h3 := mu2_le s.q
    simp only [M]
    exact lex_lt h1 (by omega)
  cases e with
  | stut e =>
    simp only [pstep] at h
    split at h
    · next hok =>
      simp only [Option.map_eq_some_iff] at h
      obtain ⟨q', hq, rfl⟩ := h
      have := stut_decreases hok hsp hq
      have h2 := Queue.step_thr_length hq
      simp only [M, h2]; omega
    · cases h
  | push w =>
    simp only [pstep] at h
    split at h
    · simp only [Option.bind_eq_some_iff, Option.map_eq_some_iff] at h
      obtain ⟨q', hq, p', hp, rfl⟩ := h
      exact both hp hq
    · cases h
  | pull t x w =>
    simp only [pstep, Option.bind_eq_some_iff, Option.map_eq_some_iff] at h
    obtain ⟨q', hq, p', hp, rfl⟩ := h
    exact both hp hq
  | eos t =>
    simp only [pstep, Option.bind_eq_some_iff, Option.map_eq_some_iff] at h
    obtain ⟨q', hq, p', hp, rfl⟩ := h
    exact both hp hq
  | close =>
    simp only [pstep] at h
    split at h
    · simp only [Option.bind_eq_some_iff, Option.map_eq_some_iff] at h
      obtain ⟨q', hq, p', hp, rfl⟩ := h
      exact both hp hq
    · cases h
  | waitEmpty =>
    simp only [pstep] at h
    split at h
    · split at h
      · simp only [Option.map_eq_some_iff] at h
        obtain ⟨p', hp, rfl⟩ := h
        exact ponly hp
      · cases h
    · cases h
  | work e =>
    simp only [pstep] at h
    split at h
    · simp only [Option.map_eq_some_iff] at h
      obtain ⟨p', hp, rfl⟩ := h
      exact ponly hp
    · cases h

theorem prun_bounded {enc : PItem → QItem} : ∀ (es : List PEv) {s s' : PState},
    prun enc s es = some s' → (∀ e ∈ es, e.isSpur = false) → es.length + M s' ≤ M s
  | [], s, s', h, _ => by simp only [prun, Option.some.injEq] at h; subst h; simp
  | e :: es, s, s', h, hsp => by
    simp only [prun] at h
    cases hs : pstep enc s e with
    | none => simp [hs] at h
    | some s1 =>
      simp only [hs, Option.bind_some] at h
      have h1 := pstep_measure hs (hsp e List.mem_cons_self)
      have h2 := prun_bounded es h (fun e' he' => hsp e' (List.mem_cons_of_mem _ he'))
      simp only [List.length_cons]; omega

/-! ### the product hides nothing: every step of a call in progress that the Queue model allows
is a transition of the product -/

theorem product_faithful {enc : PItem → QItem} {prog : List Pipeline.Instr} {cap N : Nat}
    {s : PState} (henc : EncOK enc prog) (hwf : Pipeline.WellFormedShape N prog)
    (hi : PInv enc prog cap N s) {e : Queue.Event} {q' : Queue.State}
    (hs : Queue.step cap s.q e = some q') (hns : e.isStart = false) :
    ∃ pe p', pstep enc s pe = some ⟨p', q'⟩ := by
  have hcap := hi.cap_eq
  have hcur := pinv_cur henc hi
  cases Queue.step_sound hs with
  | pushEnter _ => simp [Queue.Event.isStart] at hns
  | pushWait _ _ _ _ => exact ⟨.stut _, _, stut_step hcap rfl hs⟩
  | pushWake _ => exact ⟨.stut _, _, stut_step hcap rfl hs⟩
  | pushSpur _ => exact ⟨.stut _, _, stut_step hcap rfl hs⟩
  | @pushRefuse t it ht hcl =>
    exfalso
    have ht0 : t = 0 := hi.d.only t _ ht (by simp [Queue.TStatus.item?])
    subst ht0
    obtain ⟨x, r, hp, _⟩ := hi.c0 _ it ht rfl
    have := (Pipeline.inv5_reachable hwf (fun h => by simp at h) hi.reach).closedProg
      (hi.closed_eq.trans hcl)
    rw [hp] at this; cases this
  | @pushAdmit _ t it w ht hfit hcl hn =>
    have ht0 : t = 0 := hi.d.only t _ ht (by simp [Queue.TStatus.item?])
    subst ht0
    obtain ⟨x, r, hp, hx⟩ := hi.c0 _ it ht rfl
    subst hx
    have hg : Pipeline.pushGuard true s.p x := by
      refine ⟨hi.closed_eq.trans hcl, ?_⟩
      rcases hfit with h | h
      · left; rw [hcur, hcap, ← henc.size]; exact h
      · right; exact ⟨rfl, (pinv_empty hi).mpr h⟩
    have hps := Pipeline.step?_of_stepI (fx := true) (.push hp hg)
    exact ⟨.push w, _, by simp only [pstep, hp, hcap, hs, hps, Option.bind_some, Option.map_some] <;> rfl⟩
  | tryPushRefuse _ _ => simp [Queue.Event.isStart] at hns
  | tryPushWouldBlock _ _ _ _ => simp [Queue.Event.isStart] at hns
  | tryPushAdmit _ _ _ _ => simp [Queue.Event.isStart] at hns
  | pullEnter _ => simp [Queue.Event.isStart] at hns
  | pullWait _ _ _ => exact ⟨.stut _, _, stut_step hcap rfl hs⟩
  | pullWake _ => exact ⟨.stut _, _, stut_step hcap rfl hs⟩
  | pullSpur _ => exact ⟨.stut _, _, stut_step hcap rfl hs⟩
  | @pullEos t ht he hcl =>
    obtain ⟨w, rfl, hw⟩ := hi.c1 t _ ht rfl
    have hps := Pipeline.step?_of_stepI (fx := true)
      (.exit hw (hi.closed_eq.trans hcl) ((pinv_empty hi).mpr he))
    exact ⟨.eos w, _, by simp only [pstep, hcap, hs, hps, Option.bind_some, Option.map_some] <;> rfl⟩
  | @pullTake _ t it v ht hm hmax hn =>
    obtain ⟨w, rfl, hw⟩ := hi.c1 t _ ht rfl
    obtain ⟨x, rfl, hmx⟩ := isMax_dec henc hi.perm (fun y hy => hi.sub y (.inl hy))
      (Queue.isMax_iff.mpr ⟨hm, hmax⟩)
    have hps := Pipeline.step?_of_stepI (fx := true) (.pull hw hmx)
    exact ⟨.pull w x v, _, by simp only [pstep, hcap, hs, hps, Option.bind_some, Option.map_some] <;> rfl⟩
  | tryPullEmpty _ _ => simp [Queue.Event.isStart] at hns
  | tryPullTake _ _ _ _ => simp [Queue.Event.isStart] at hns
  | close _ => simp [Queue.Event.isStart] at hns

/-! ### a concrete run of the product (non-vacuity) -/
namespace Demo

def ctg : PItem := .contig 0 2147483647 5 5 0
def tok : PItem := .token 0 1000000 1
/-- one contig, one round of two tokens, close; two workers (`Props.C05.demoProg`) -/
def prog : List Pipeline.Instr := [.push ctg, .push tok, .push tok, .close]
def enc : PItem → QItem := rankEnc prog

/-- Worker 0 goes to sleep on the empty queue and is woken by the producer's `notify_one`; the
contig and the token round go through; both workers see end-of-stream. -/
def evs : List PEv :=
  [ .stut (.pullEnter 1), .stut (.pullWait 1),
    .stut (.pushEnter 0 (enc ctg)), .push (some 1),
    .stut (.pullWake 1), .pull 0 ctg none, .work (.buffer 0),
    .stut (.pushEnter 0 (enc tok)), .push none,
    .stut (.pushEnter 0 (enc tok)), .push none,
    .close,
    .stut (.pullEnter 1), .pull 0 tok none,
    .stut (.pullEnter 2), .pull 1 tok none,
    .work (.release 1), .work (.advance 0), .work (.advance 1),
    .work (.release 2), .work (.advance 0), .work (.advance 1),
    .work (.release 3), .work (.advance 0), .work (.advance 1),
    .work (.release 4), .work (.advance 0), .work (.advance 1),
    .stut (.pullEnter 1), .eos 0, .stut (.pullEnter 2), .eos 1 ]

/-- after the first two events: worker 0 asleep in `not_empty.wait` -/
def asleep : PState :=
  { p := Pipeline.init prog 8 2,
    q := { items := [], cur := 0, closed := false, thr := [.idle, .waitNE, .idle], hist := [] } }

/-- after four events: the contig is queued, worker 0 has been notified and has not resumed -/
def notified : PState :=
  { p := { Pipeline.init prog 8 2 with prog := [.push tok, .push tok, .close], queue := [ctg] },
    q := { items := [enc ctg], cur := 5, closed := false, thr := [.idle, .notifNE, .idle],
           hist := [.accept 0 (enc ctg)] } }

def final : PState :=
  { p := { prog := [], queue := [], closed := true, cap := 8, workers := [.exited, .exited],
           buffered := [], batches := [[0]] },
    q := { items := [], cur := 0, closed := true, thr := [.idle, .idle, .idle],
           hist := [.eos 2, .eos 1, .take 2 (enc tok), .take 1 (enc tok), .close 0,
                    .accept 0 (enc tok), .accept 0 (enc tok), .take 1 (enc ctg), .accept 0 (enc ctg)] } }

theorem run_asleep : prun enc (init prog 8 2) (evs.take 2) = some asleep := by decide
theorem run_notified : prun enc (init prog 8 2) (evs.take 4) = some notified := by decide
theorem run_final : prun enc (init prog 8 2) evs = some final := by decide

end Demo

end Ragc.Product
