import RagcModel.Lemmas.ReaderState
import RagcModel.Lemmas.ReaderLink
/-!
C08 — reader answers do not depend on query history or on other readers.

All theorems are about `Model/ReaderState.lean`: the handle of `ragc-core/src/decompressor.rs` as a
state machine (`step`) over an abstract archive content `A : Arch` (sample names, metadata batches,
per-group reference loader, per-segment decoder — arbitrary functions, so the theorems hold for
every archive content, every number of batches and every batch size). The only hypothesis is
`WF A`: the metadata batches together hold one entry per sample name (decidable; the writer stores
all samples, 50 per batch; observed by the harness on every generated archive).

`answer A op` is the specification: a function of the archive content and the operation only.
`Inv A st` (Lemmas/ReaderState.lean) is the handle invariant: the contig metadata is untouched or
exactly the archive's table, and the cache holds only LZ groups with the reference the archive
yields for them.

The last section (`archOf_wf`, `written_archive_content`, `handle_loader_is_decoder`,
`planner_answers`, `reader_answers_input(_planned)`, `reader_answers_input_bytes`) instantiates `A` with the content of a file
that `create` wrote — `ReaderLink.archOf cfg inp dec`, which `written_archive_content` proves to be
the `Arch` the independent decoder's stages build from the bytes of `Writer.writeArchive` — and
concludes that every query after every history returns the INPUT's data (`Lemmas/ReaderLink.lean`
has the development and the list of what is not covered).

`stepOld` is the code before the two repairs (a501c7c, b8c4c45); the negation theorems at the end
show that both old behaviours violate the property, on every archive of the stated shape and on a
concrete one.
-/
namespace Ragc.Props.C08
open Ragc.CollVarint (Res)
open Ragc.Names (Name)
open Ragc.Details (Seg Contig)
open Ragc.ReaderState

/-! ## A concrete two-batch archive (non-vacuity) -/

namespace Demo
/-- Samples `A`, `B` in batch 0, `C`, `D` in batch 1. `A/x` has an LZ reference segment and a
reverse-complemented LZ delta, `A/y` a raw-group segment; `B/x` one LZ delta; `C` really has no
contig (it re-triggers loading on every query); `D/z` lies in group 17 whose reference cannot be
loaded. `refOld`: what the pre-repair `get_reference_segment` made of the same parts (group 16:
stored raw ⇒ error). -/
def arch : Arch :=
  { k := 3
    samples := [[65], [66], [67], [68]]
    batches :=
      [ [ [⟨[120], [⟨16, 0, false, 5⟩, ⟨16, 1, true, 5⟩]⟩, ⟨[121], [⟨0, 0, false, 2⟩]⟩],
          [⟨[120], [⟨16, 1, false, 5⟩]⟩] ],
        [ [], [⟨[122], [⟨17, 0, false, 4⟩]⟩] ] ]
    ref := fun g => if g = 16 then .ok [0, 1, 2, 3, 0] else .err
    refOld := fun _ => .err
    delta := fun g i r => if g = 16 ∧ i = 1 ∧ r = [0, 1, 2, 3, 0] then .ok [3, 3, 3, 0, 1] else .err
    raw := fun g i => if g = 0 ∧ i = 0 then .ok [1, 2] else .err
    streams := [([112], 20, 20, 1)] }

def wf : WF arch := by decide

/-- A history touching everything: miss, hit in batch 0, hit in batch 1, the empty sample twice,
descriptor and reference queries, the full-table queries. -/
def hist : List Op :=
  [.getSample [90], .getContig [65] [120], .listContigs [67], .listContigs [67], .getSample [68],
   .referenceSegment 16, .segmentData ⟨16, 1, false, 5⟩, .allSegments, .groupStatistics,
   .getSamplesByPrefix [], .contigRange [65] [120] 2 6, .contigRange [90] [90] 6 2]
end Demo

/-! ## The invariant -/

/-- A freshly opened handle satisfies the invariant. -/
theorem inv_fresh (A : Arch) : Inv A (fresh A) := Ragc.ReaderState.inv_fresh A

/-- Every operation (successful or failed, known or unknown arguments) preserves the invariant. -/
theorem inv_step (A : Arch) (hwf : WF A) (st : State) (op : Op) (h : Inv A st) :
    Inv A (step A st op).1 :=
  (step_spec A st op hwf h).2

example : Inv Demo.arch (run Demo.arch (fresh Demo.arch) Demo.hist).1 :=
  inv_run Demo.arch Demo.wf Demo.hist _ (inv_fresh _)
-- the invariant is not trivially "untouched": after the history the metadata is the full table
example : (run Demo.arch (fresh Demo.arch) Demo.hist).1.contigs = table Demo.arch := by decide
example : (run Demo.arch (fresh Demo.arch) Demo.hist).1.cache = [(16, [0, 1, 2, 3, 0])] := by decide

/-! ## Answers are a function of the archive and the operation -/

/-- On a handle satisfying the invariant every operation answers exactly what the specification
`answer` — a function of the archive content and the operation only — says. -/
theorem answer_canonical (A : Arch) (hwf : WF A) (st : State) (op : Op) (h : Inv A st) :
    (step A st op).2 = answer A op :=
  (step_spec A st op hwf h).1

example : (step Demo.arch (run Demo.arch (fresh Demo.arch) Demo.hist).1 (.getContig [65] [120])).2
    = .ok (.bases [0, 1, 2, 3, 0, 0, 0]) := by
  rw [answer_canonical _ Demo.wf _ _ (inv_run _ Demo.wf _ _ (inv_fresh _))]; decide

/-- All results of a history are the specification's answers, operation by operation. -/
theorem history_results (A : Arch) (hwf : WF A) (ops : List Op) :
    (run A (fresh A) ops).2 = ops.map (answer A) :=
  results_run A hwf ops _ (inv_fresh A)

example : (run Demo.arch (fresh Demo.arch) Demo.hist).2 = Demo.hist.map (answer Demo.arch) :=
  history_results _ Demo.wf _
example : Demo.hist.map (answer Demo.arch) =
    [.err, .ok (.bases [0, 1, 2, 3, 0, 0, 0]), .ok (.names []), .ok (.names []), .err,
     .ok (.bases [0, 1, 2, 3, 0]), .ok (.bases [3, 3, 3, 0, 1]),
     .ok (.allSegs [([65], [120], [⟨16, 0, false, 5⟩, ⟨16, 1, true, 5⟩]), ([65], [121], [⟨0, 0, false, 2⟩]),
                    ([66], [120], [⟨16, 1, false, 5⟩]), ([68], [122], [⟨17, 0, false, 4⟩])]),
     .ok (.groupStats [(0, 1, 0, 1), (16, 3, 1, 2), (17, 1, 1, 0)]), .err,
     .ok (.bases [2, 3, 0, 0]), .ok (.bases [])] := by decide

/-- **History independence.** The result of any query after any sequence of earlier queries
(successful or failed, for existing or unknown names) is the result of the same query on a freshly
opened handle. -/
theorem history_independent (A : Arch) (hwf : WF A) (ops : List Op) (op : Op) :
    (step A (run A (fresh A) ops).1 op).2 = (step A (fresh A) op).2 := by
  rw [answer_canonical A hwf _ op (inv_run A hwf ops _ (inv_fresh A)),
    answer_canonical A hwf _ op (inv_fresh A)]

example : (step Demo.arch (run Demo.arch (fresh Demo.arch) Demo.hist).1 (.getSample [65])).2 =
    (step Demo.arch (fresh Demo.arch) (.getSample [65])).2 :=
  history_independent _ Demo.wf _ _
example : (step Demo.arch (fresh Demo.arch) (.getSample [65])).2 =
    .ok (.sample [([120], [0, 1, 2, 3, 0, 0, 0]), ([121], [1, 2])]) := by decide

/-- Two handles with different histories give the same answer. -/
theorem histories_agree (A : Arch) (hwf : WF A) (ops₁ ops₂ : List Op) (op : Op) :
    (step A (run A (fresh A) ops₁).1 op).2 = (step A (run A (fresh A) ops₂).1 op).2 := by
  rw [history_independent A hwf ops₁, history_independent A hwf ops₂]

example : (step Demo.arch (run Demo.arch (fresh Demo.arch) Demo.hist).1 .groupStatistics).2 =
    (step Demo.arch (run Demo.arch (fresh Demo.arch) [.getSample [90]]).1 .groupStatistics).2 :=
  histories_agree _ Demo.wf _ _ _

/-! ## Other readers: `clone_for_thread` and interleavings -/

/-- **Independence of other readers.** A program owns any number of handles: it starts with one
freshly opened handle, `clone h` adds a handle (`clone_for_thread` re-opens the archive),
`on h op` runs an operation on handle `h`. For every list of such actions — i.e. every interleaving
of the operations of the handles' threads — every operation answers the specification's answer
(hence the fresh-handle answer, `answer_canonical`), and every clone succeeds. -/
theorem clones_independent (A : Arch) (hwf : WF A) (acts : List SysOp) :
    ∀ r ∈ (sysRun A [fresh A] acts).2.zip acts, ∀ res, r.1 = some res →
      res = match r.2 with
        | .on _ op => answer A op
        | .clone _ => .ok .unit :=
  (sysRun_spec A hwf acts [fresh A]
    (by intro st hst; rw [List.mem_singleton.mp hst]; exact inv_fresh A)).2

/-- The same with the fresh-handle answer spelled out. -/
theorem clones_answer_like_fresh (A : Arch) (hwf : WF A) (acts : List SysOp) (h : Nat) (op : Op)
    (res : Result) (hm : (some res, SysOp.on h op) ∈ (sysRun A [fresh A] acts).2.zip acts) :
    res = (step A (fresh A) op).2 := by
  rw [answer_canonical A hwf _ op (inv_fresh A)]
  exact clones_independent A hwf acts _ hm res rfl

example : (sysRun Demo.arch [fresh Demo.arch]
    [.on 0 (.getSample [90]), .clone 0, .clone 1, .on 2 (.getContig [65] [120]), .on 0 (.referenceSegment 16),
     .on 1 (.getContig [65] [120]), .on 7 .listSamples]).2 =
    [some .err, some (.ok .unit), some (.ok .unit), some (.ok (.bases [0, 1, 2, 3, 0, 0, 0])),
     some (.ok (.bases [0, 1, 2, 3, 0])), some (.ok (.bases [0, 1, 2, 3, 0, 0, 0])), none] := by decide

/-! ## Unknown names -/

/-- The operation names a sample the archive does not have. -/
def UnknownSample (A : Arch) : Op → Prop
  | .listContigs s | .getSample s | .writeSampleFasta s => s ∉ A.samples
  | .contigLength s _ | .getContig s _ | .segmentsDesc s _ | .contigRange s _ _ _ => s ∉ A.samples
  | _ => False

/-- The operation names a known sample and a contig that this sample does not have. -/
def UnknownContig (A : Arch) : Op → Prop
  | .contigLength s c | .getContig s c | .segmentsDesc s c | .contigRange s c _ _ =>
    ∃ cs, contigsOf A.samples (table A) s = some cs ∧ ∀ x ∈ cs, x.name ≠ c
  | _ => False

/-- The one exception: `get_contig_range` returns early when `start >= end`, before any lookup. -/
def EarlyRange : Op → Prop
  | .contigRange _ _ start end_ => start ≥ end_
  | _ => False

/-- **Unknown names are errors, never panics.** After any history, an operation naming an unknown
sample, or an unknown contig of a known sample, returns `err` — with the single exception of a
range query with `start >= end`, which returns the empty sequence without looking anything up
(`early_range_is_ok`). -/
theorem unknown_is_error (A : Arch) (hwf : WF A) (st : State) (op : Op) (h : Inv A st)
    (hu : UnknownSample A op ∨ UnknownContig A op) (hne : ¬ EarlyRange op) :
    (step A st op).2 = .err := by
  rw [answer_canonical A hwf st op h]
  rcases hu with hu | hu
  · cases op <;> simp only [UnknownSample] at hu
    case listContigs s => simp only [answer, contigsOf_unknown _ _ _ hu]
    case getSample s => simp only [answer, answerSample, contigsOf_unknown _ _ _ hu, mapRes]
    case writeSampleFasta s => simp only [answer, answerSample, contigsOf_unknown _ _ _ hu, mapRes]
    case contigLength s c => simp only [answer, answerDesc, contigDesc, contigsOf_unknown _ _ _ hu]
    case getContig s c => simp only [answer, answerDesc, contigDesc, contigsOf_unknown _ _ _ hu]
    case segmentsDesc s c => simp only [answer, answerDesc, contigDesc, contigsOf_unknown _ _ _ hu]
    case contigRange s c a b =>
      simp only [EarlyRange] at hne
      simp only [answer, hne, if_false, answerDesc, contigDesc, contigsOf_unknown _ _ _ hu]
  · cases op <;> simp only [UnknownContig] at hu
    case contigLength s c =>
      obtain ⟨cs, h1, h2⟩ := hu
      simp only [answer, answerDesc, contigDesc, h1, (findContig_eq_none_iff cs c).mpr h2, Option.map]
    case getContig s c =>
      obtain ⟨cs, h1, h2⟩ := hu
      simp only [answer, answerDesc, contigDesc, h1, (findContig_eq_none_iff cs c).mpr h2, Option.map]
    case segmentsDesc s c =>
      obtain ⟨cs, h1, h2⟩ := hu
      simp only [answer, answerDesc, contigDesc, h1, (findContig_eq_none_iff cs c).mpr h2, Option.map]
    case contigRange s c a b =>
      obtain ⟨cs, h1, h2⟩ := hu
      simp only [EarlyRange] at hne
      simp only [answer, hne, if_false, answerDesc, contigDesc, h1, (findContig_eq_none_iff cs c).mpr h2,
        Option.map]

example : (step Demo.arch (run Demo.arch (fresh Demo.arch) Demo.hist).1 (.getContig [65] [122])).2 = .err :=
  unknown_is_error _ Demo.wf _ _ (inv_run _ Demo.wf _ _ (inv_fresh _))
    (Or.inr ⟨[⟨[120], [⟨16, 0, false, 5⟩, ⟨16, 1, true, 5⟩]⟩, ⟨[121], [⟨0, 0, false, 2⟩]⟩], by decide, by decide⟩)
    (by simp [EarlyRange])
example : (step Demo.arch (fresh Demo.arch) (.writeSampleFasta [90])).2 = .err :=
  unknown_is_error _ Demo.wf _ _ (inv_fresh _) (Or.inl (by show [90] ∉ Demo.arch.samples; decide))
    (by simp [EarlyRange])

/-- The exception, exactly: `start >= end` answers `Ok([])` on every handle state and for every
pair of names, known or not, and does not touch the handle. -/
theorem early_range_is_ok (A : Arch) (st : State) (s c : Name) (start end_ : Nat) (h : start ≥ end_) :
    step A st (.contigRange s c start end_) = (st, .ok (.bases [])) := by
  simp only [step, stepV, h, if_true]

example : step Demo.arch (fresh Demo.arch) (.contigRange [90] [90] 6 2) = (fresh Demo.arch, .ok (.bases [])) :=
  early_range_is_ok _ _ _ _ _ _ (by decide)

/-! ## Reloading -/

/-- **Reloading is idempotent.** On a handle in any metadata state (whatever was loaded before,
wherever the cursor stands) loading all batches succeeds, yields exactly the archive's table, does
not touch the cache, and doing it again changes nothing. A sample that really has no contigs
triggers this on every query. -/
theorem reload_idempotent (A : Arch) (hwf : WF A) (st : State)
    (hlen : st.contigs.length = A.samples.length) :
    ∃ st1, loadAll current A st = .ok st1 ∧ st1.contigs = table A ∧ st1.cache = st.cache ∧
      loadAll current A st1 = .ok st1 := by
  refine ⟨_, loadAll_current_eq A st hwf hlen, rfl, rfl, ?_⟩
  rw [loadAll_current_eq A { contigs := table A, cursor := loadedCursor A st, cache := st.cache } hwf hwf]
  simp only [loadedCursor]
  split <;> rfl

-- the sample `C` has no contigs: every query for it reloads both batches and lands in the same state
example : (step Demo.arch (step Demo.arch (fresh Demo.arch) (.listContigs [67])).1 (.listContigs [67])) =
    (step Demo.arch (fresh Demo.arch) (.listContigs [67])) := by decide
example : needsLoad Demo.arch (step Demo.arch (fresh Demo.arch) (.listContigs [67])).1 [67] = true := by decide

/-! ## The two repaired defects violate the property (`stepOld`) -/

/-- **D6 (before a501c7c).** With the cumulative cursor, on every archive whose first metadata
batch is non-empty, any `get_sample` (known or unknown name) followed by a `get_sample` for an
unknown name panics: the second load starts past the end of the sample table. So
`unknown_is_error` and `history_independent` were both false. -/
theorem old_miss_after_query_panics (A : Arch) (hwf : WF A) (b : MBatch) (bs : List MBatch)
    (hb : A.batches = b :: bs) (hne : b ≠ []) (first miss : Name) (hmiss : miss ∉ A.samples) :
    (stepOld A (stepOld A (fresh A) (.getSample first)).1 (.getSample miss)).2 = .panic ∧
    (stepOld A (fresh A) (.getSample miss)).2 = .err := by
  constructor
  · obtain ⟨h1, h2⟩ := stepGetSample_old_fresh A hwf first
    have hc : (stepGetSample preRepair A (fresh A) first).1.contigs.length ≤
        (stepGetSample preRepair A (fresh A) first).1.cursor := by rw [h1, h2]; exact Nat.le_refl _
    simp only [stepOld, stepV, stepGetSample_old_miss A _ miss b bs hb hne hmiss hc, mapRes]
  · have hn : needsLoad A (fresh A) miss = true := by
      unfold needsLoad; rw [(lookup_eq_none_iff _ _).mpr hmiss]
    simp only [stepOld, stepV, stepGetSample, ensureLoaded, hn, if_true, loadAll_old_fresh A hwf,
      contigsOf_unknown _ _ _ hmiss, mapRes]

example : (runOld Demo.arch (fresh Demo.arch) [.getSample [65], .getSample [90]]).2 =
    [.ok (.sample [([120], [0, 1, 2, 3, 0, 0, 0]), ([121], [1, 2])]), .panic] := by decide
example : (run Demo.arch (fresh Demo.arch) [.getSample [65], .getSample [90]]).2 =
    [.ok (.sample [([120], [0, 1, 2, 3, 0, 0, 0]), ([121], [1, 2])]), .err] := by decide
-- any full-table query after any other query
example : (runOld Demo.arch (fresh Demo.arch) [.listContigs [65], .allSegments]).2.getLast? = some .panic := by decide

/-- **D7 (before b8c4c45).** `get_reference_segment` decoded the stored part by its own rule
(`refOld`) unless the group was cached: for every group whose reference `get_segment` can load but
the old rule cannot (a reference stored raw), the answer was an error on a fresh handle and the
reference after any query that had cached the group. -/
theorem old_reference_depends_on_cache (A : Arch) (g : Nat) (r : Bases) (hg : 16 ≤ g)
    (href : A.ref g = .ok r) (hold : A.refOld g = .err) :
    (stepOld A (fresh A) (.referenceSegment g)).2 = .err ∧
    (stepOld A (stepOld A (fresh A) (.segmentData ⟨g, 0, false, 0⟩)).1 (.referenceSegment g)).2
      = .ok (.bases r) := by
  have hg' : g ≥ 16 := hg
  constructor
  · simp only [stepOld, stepV, getReference, fresh, cacheGet, preRepair, hold, mapRes]
    rfl
  · simp only [stepOld, stepV, getSegment, fresh, cacheGet, hg', if_true, href, getReference, mapRes]

example : (runOld Demo.arch (fresh Demo.arch) [.referenceSegment 16, .getContig [65] [120], .referenceSegment 16]).2 =
    [.err, .ok (.bases [0, 1, 2, 3, 0, 0, 0]), .ok (.bases [0, 1, 2, 3, 0])] := by decide
example : (run Demo.arch (fresh Demo.arch) [.referenceSegment 16, .getContig [65] [120], .referenceSegment 16]).2 =
    [.ok (.bases [0, 1, 2, 3, 0]), .ok (.bases [0, 1, 2, 3, 0, 0, 0]), .ok (.bases [0, 1, 2, 3, 0])] := by decide

/-! ## Archives that `create` wrote: after any history, every query returns the input's data

`ReaderLink.archOf cfg inp dec` is the abstract content of the file `Writer.writeArchive cfg inp dec zc`
(defined from the writer's plan; no ZSTD). The theorems below connect the theorems above (answers are
a function of the abstract archive) with `Props.C01.read_write` (the written bytes carry the input). -/

section Written
open Ragc.ReaderLink

/-- **C08's well-formedness holds for every archive the reference writer produces** (all
well-formed decisions): the metadata batches hold one contig table per sample name. -/
theorem archOf_wf (cfg : Writer.Cfg) (inp : List Writer.Sample) (dec : Writer.Decisions)
    (h : Writer.DecisionsOK cfg inp dec) : WF (archOf cfg inp dec) :=
  Ragc.ReaderLink.archOf_wf cfg inp dec h

example : WF (archOf Ex.cfg Ex.inp Ex.dec) := archOf_wf _ _ _ Ex.hyps.1
-- two samples in one batch; the tables are the writer's descriptors (ids from the `Packs` machine)
example : (archOf Ex.cfg Ex.inp Ex.dec).samples = [[65], [66]] ∧
    ((archOf Ex.cfg Ex.inp Ex.dec).batches.map fun b => b.map fun cs => cs.map Contig.name)
      = [[[[99], [100]], [[99]]]] := by decide

/-- **The abstract content of the written file is `archOf`** (direction: bytes → independent decoder
→ `Arch`). Under the hypotheses of `Props.C01.read_write` — ALL well-formed decisions, inputs over
the literal codes, any ZSTD with the two C12 facts — for `bs = writeArchive cfg inp dec zc` the
decoder's stages `openArchive`, `readParams`, `decodeCatalogue`, `decodeGroups` succeed with the
violation accumulator unchanged, return `cfg.k`, `cfg.minMatch` and the input's sample names, and the
bridge `archOfDecoded` applied to their results IS `archOf cfg inp dec` — same batches, same `ref`,
`delta`, `raw` on every argument. -/
theorem written_archive_content (cfg : Writer.Cfg) (inp : List Writer.Sample) (dec : Writer.Decisions)
    (zc : Nat → List Nat → List Nat) (zd : List Nat → Option (List Nat)) (bs : List Nat)
    (hdec : Writer.DecisionsOK cfg inp dec) (hz : ∀ l x, zd (zc l x) = some x)
    (hne : ∀ l x, zc l x = [] → x = []) (hcodes : Writer.codesOK inp)
    (hw : Writer.writeArchive cfg inp dec zc = some bs) (a : Agc3.Acc) :
    ∃ o tables nB gds, Agc3.openArchive bs = .ok o ∧
      Agc3.readParams o a = .ok (a, cfg.k, cfg.minMatch, cfg.segSize) ∧
      Agc3.decodeCatalogue zd o cfg.k cfg.segSize a = .ok (a, inp.map (·.name), tables, nB) ∧
      Agc3.decodeGroups zd o a = .ok (a, gds) ∧
      archOfDecoded cfg.k cfg.minMatch (inp.map (·.name)) tables gds = archOf cfg inp dec :=
  written_arch cfg inp dec zc zd bs hdec hz hne hcodes hw a

/-- On the `Arch` built from ANY decoded tables, the handle's segment loader (empty cache) is the
independent decoder's `getSegment`, for every descriptor: `ok` with the same bytes, or `err`. -/
theorem handle_loader_is_decoder (k mm : Nat) (names : List Name) (tables : Array Agc3.ContigTable)
    (gds : Array Agc3.GroupD) (d : Seg) :
    segPure (archOfDecoded k mm names tables gds) d = toRes (Agc3.getSegment mm gds d) :=
  segPure_decoded k mm names tables gds d

example : segPure (archOfDecoded 3 5 [] #[] #[⟨16, some [0, 1, 2], #[], 1, none, []⟩]) ⟨16, 0, true, 3⟩
    = .ok [0, 1, 2] ∧
    segPure (archOfDecoded 3 5 [] #[] #[⟨16, some [0, 1, 2], #[], 1, none, []⟩]) ⟨17, 0, true, 3⟩ = .err := by
  rw [handle_loader_is_decoder, handle_loader_is_decoder]; decide

/-- The planner answers for every group (`ReaderLink.Planned`) when the writer answers … -/
theorem planned_of_write (cfg : Writer.Cfg) (inp : List Writer.Sample) (dec : Writer.Decisions)
    (zc : Nat → List Nat → List Nat) (bs : List Nat) (hw : Writer.writeArchive cfg inp dec zc = some bs) :
    Planned cfg inp dec :=
  planned_of_writeArchive cfg inp dec zc bs hw

/-- … and, for well-formed decisions, whenever `min_match_len ≥ HASHING_STEP` (= 4; C09
`encode_total`), whatever the ZSTD and the sizes — so the theorems below do not depend on the
physical limits under which `writeArchive` gives up. -/
theorem planner_answers (cfg : Writer.Cfg) (inp : List Writer.Sample) (dec : Writer.Decisions)
    (hdec : Writer.DecisionsOK cfg inp dec) (hmm : Ragc.Gen.lzHashingStep ≤ cfg.minMatch) :
    Planned cfg inp dec :=
  planned_of_minMatch cfg inp dec (Ragc.WriterLemmas.decOK_of cfg inp dec hdec) hmm

example : Planned Ex.cfg Ex.inp Ex.dec := planner_answers _ _ _ Ex.hyps.1 (by decide)

/-- **Any query after any history on an archive that `create` wrote returns the input's data**
(general form: `Planned` instead of "the writer answers"). For every configuration, input and
decision vector accepted by `DecisionsOK` (so `k ≥ 1`), inputs over the literal codes, sample names
pairwise distinct and contig names distinct inside each sample (`NamesDistinct`, decidable): on the
handle model over `archOf cfg inp dec`, after ANY sequence `ops` of operations (successful or failed,
known or unknown names, any interleaving with range / reference / full-table queries),
`ReaderLink.AnswersInput` holds:

* `list_samples` = the input's sample names in order;
* for every sample of the input: `list_contigs` = its contig names in order; `get_sample` = all its
  contigs (name, bases) in order; `write_sample_fasta` = the FASTA text of these; `get_contig` of each
  of its contigs = `ok` of exactly that contig's bases; `get_contig` with a name the sample does not
  have = `err`;
* for a sample name the input does not have: `list_contigs`, `get_sample`, `get_contig` = `err`.

Never a panic. Composition of `answer_canonical` / `inv_run` (history independence) with
`ReaderLink.contig_views` (the descriptors of `archOf` load the writer's pieces: C02
`planGroup_spec`, C09) and `views_of_tiles` (C07 `reconstruct_eq_full`, C10 tiling). -/
theorem reader_answers_input_planned (cfg : Writer.Cfg) (inp : List Writer.Sample) (dec : Writer.Decisions)
    (hdec : Writer.DecisionsOK cfg inp dec) (hcodes : Writer.codesOK inp) (hpl : Planned cfg inp dec)
    (hnd : NamesDistinct inp) (ops : List Op) :
    AnswersInput (archOf cfg inp dec) inp (run (archOf cfg inp dec) (fresh (archOf cfg inp dec)) ops).1 := by
  have hok := Ragc.WriterLemmas.decOK_of cfg inp dec hdec
  have hwf := archOf_wf cfg inp dec hdec
  have hinv := inv_run (archOf cfg inp dec) hwf ops _ (inv_fresh _)
  refine ⟨?_, ?_, ?_⟩
  · rw [answer_canonical _ hwf _ _ hinv]; rfl
  · intro smp hs
    refine ⟨?_, ?_, ?_, ?_, ?_⟩
    · rw [answer_canonical _ hwf _ _ hinv]
      exact answer_listContigs_written cfg inp dec hok hnd smp hs
    · rw [answer_canonical _ hwf _ _ hinv]
      exact answer_getSample_written cfg inp dec hok hcodes hpl hnd smp hs
    · rw [answer_canonical _ hwf _ _ hinv]
      exact answer_writeFasta_written cfg inp dec hok hcodes hpl hnd smp hs
    · intro ctg hc
      rw [answer_canonical _ hwf _ _ hinv]
      exact answer_getContig_written cfg inp dec hok hcodes hpl hnd smp hs ctg hc
    · intro c hc
      exact unknown_is_error _ hwf _ _ hinv
        (Or.inr (unknownContig_written cfg inp dec hok hnd smp hs c hc)) (by simp [EarlyRange])
  · intro s hs
    have hu : s ∉ (archOf cfg inp dec).samples := hs
    refine ⟨?_, ?_, ?_⟩
    · exact unknown_is_error _ hwf _ (.listContigs s) hinv (Or.inl hu) (by simp [EarlyRange])
    · exact unknown_is_error _ hwf _ (.getSample s) hinv (Or.inl hu) (by simp [EarlyRange])
    · intro c
      exact unknown_is_error _ hwf _ (.getContig s c) hinv (Or.inl hu) (by simp [EarlyRange])

-- Non-vacuity on the input of `read_write`'s example: the hypotheses hold (`Ex.hyps`, by `decide`;
-- `min_match_len = 10 ≥ 4`), and after the history `Ex.hist` the answers are the input's.
example :
    let A := archOf Ex.cfg Ex.inp Ex.dec
    let st := (run A (fresh A) Ex.hist).1
    (step A st .listSamples).2 = .ok (.names [[65], [66]]) ∧
    (step A st (.listContigs [65])).2 = .ok (.names [[99], [100]]) ∧
    (step A st (.getContig [66] [99])).2 = .ok (.bases [0, 1, 2, 2, 0, 1, 2, 3, 0, 1]) ∧
    (step A st (.getSample [65])).2
      = .ok (.sample [([99], [0, 1, 2, 3, 0, 1, 2, 3, 0, 1]), ([100], [2, 4, 1])]) ∧
    (step A st (.getContig [65] [120])).2 = .err ∧ (step A st (.getSample [90])).2 = .err := by
  obtain ⟨h1, h2, h3⟩ := reader_answers_input_planned Ex.cfg Ex.inp Ex.dec Ex.hyps.1 Ex.hyps.2.1
    (planner_answers _ _ _ Ex.hyps.1 (by decide)) Ex.hyps.2.2.1 Ex.hist
  obtain ⟨a1, a2, _, a3, a4⟩ := h2 ⟨[65], [⟨[99], [0, 1, 2, 3, 0, 1, 2, 3, 0, 1]⟩, ⟨[100], [2, 4, 1]⟩]⟩ (by decide)
  obtain ⟨_, _, _, b3, _⟩ := h2 ⟨[66], [⟨[99], [0, 1, 2, 2, 0, 1, 2, 3, 0, 1]⟩]⟩ (by decide)
  exact ⟨h1, a1, b3 ⟨[99], [0, 1, 2, 2, 0, 1, 2, 3, 0, 1]⟩ (by decide), a2, a4 [120] (by decide),
    (h3 [90] (by decide)).2.1⟩

/-- **`reader_answers_input`, under the hypotheses of `Props.C01.read_write`'s writer side**
(`DecisionsOK`, `codesOK`, the writer answers) and `NamesDistinct`: after any history `ops`, every
query on the handle model over `archOf cfg inp dec` returns the input's data (`AnswersInput`, clauses
listed at `reader_answers_input_planned`). The two ZSTD facts are not needed at this level (`archOf`
is defined from the writer's plan); they enter in `written_archive_content` /
`reader_answers_input_bytes`, which tie `archOf` to the bytes. -/
theorem reader_answers_input (cfg : Writer.Cfg) (inp : List Writer.Sample) (dec : Writer.Decisions)
    (zc : Nat → List Nat → List Nat) (bs : List Nat)
    (hdec : Writer.DecisionsOK cfg inp dec) (hcodes : Writer.codesOK inp)
    (hw : Writer.writeArchive cfg inp dec zc = some bs) (hnd : NamesDistinct inp) (ops : List Op) :
    AnswersInput (archOf cfg inp dec) inp (run (archOf cfg inp dec) (fresh (archOf cfg inp dec)) ops).1 :=
  reader_answers_input_planned cfg inp dec hdec hcodes (planned_of_write cfg inp dec zc bs hw) hnd ops

-- Non-vacuity of "the writer answers" on the same input: closed evaluation of the executable model
-- by `decide +kernel`, as in `Props.C01` (not a step of any theorem).
set_option maxRecDepth 100000 in
example : ∃ bs, Writer.writeArchive Ex.cfg Ex.inp Ex.dec Ex.zc = some bs ∧
    AnswersInput (archOf Ex.cfg Ex.inp Ex.dec) Ex.inp
      (run (archOf Ex.cfg Ex.inp Ex.dec) (fresh (archOf Ex.cfg Ex.inp Ex.dec)) Ex.hist).1 := by
  have hsome : (Writer.writeArchive Ex.cfg Ex.inp Ex.dec Ex.zc).isSome = true := by decide +kernel
  obtain ⟨bs, hbs⟩ := Option.isSome_iff_exists.mp hsome
  exact ⟨bs, hbs, reader_answers_input _ _ _ _ bs Ex.hyps.1 Ex.hyps.2.1 hbs Ex.hyps.2.2.1 _⟩

/-- **Other readers on a written archive.** A program that starts with one freshly opened handle on
an archive `create` wrote, clones handles (`clone_for_thread`) and runs operations on them in ANY
interleaving: every `get_contig` of a contig of the input, on whichever handle and after whatever
happened on it and on the others, returns exactly that contig's bases. (`clones_independent` on
`archOf`.) -/
theorem clones_answer_input (cfg : Writer.Cfg) (inp : List Writer.Sample) (dec : Writer.Decisions)
    (hdec : Writer.DecisionsOK cfg inp dec) (hcodes : Writer.codesOK inp) (hpl : Planned cfg inp dec)
    (hnd : NamesDistinct inp) (acts : List SysOp) (h : Nat) (smp : Writer.Sample) (hs : smp ∈ inp)
    (ctg : Writer.Contig) (hc : ctg ∈ smp.contigs) (res : Result)
    (hm : (some res, SysOp.on h (.getContig smp.name ctg.name))
      ∈ (sysRun (archOf cfg inp dec) [fresh (archOf cfg inp dec)] acts).2.zip acts) :
    res = .ok (.bases ctg.data) := by
  have hok := Ragc.WriterLemmas.decOK_of cfg inp dec hdec
  rw [← answer_getContig_written cfg inp dec hok hcodes hpl hnd smp hs ctg hc]
  exact clones_independent _ (archOf_wf cfg inp dec hdec) acts _ hm res rfl

-- a clone of the first handle answers `get_contig` with the input's bases
example : (step (archOf Ex.cfg Ex.inp Ex.dec) (fresh (archOf Ex.cfg Ex.inp Ex.dec)) (.getContig [66] [99])).2
    = .ok (.bases [0, 1, 2, 2, 0, 1, 2, 3, 0, 1]) :=
  clones_answer_input Ex.cfg Ex.inp Ex.dec Ex.hyps.1 Ex.hyps.2.1 (planner_answers _ _ _ Ex.hyps.1 (by decide))
    Ex.hyps.2.2.1 [.clone 0, .on 1 (.getContig [66] [99])] 1
    ⟨[66], [⟨[99], [0, 1, 2, 2, 0, 1, 2, 3, 0, 1]⟩]⟩ (by decide) ⟨[99], [0, 1, 2, 2, 0, 1, 2, 3, 0, 1]⟩ (by decide) _
    (List.mem_cons_of_mem _ List.mem_cons_self)

/-- **The same for the `Arch` read from the bytes** — the end-to-end statement. Under ALL the
hypotheses of `read_write` (`DecisionsOK`, the two ZSTD facts, `codesOK`, the writer answers) and
`NamesDistinct`: for `bs = writeArchive cfg inp dec zc` the independent decoder's stages succeed and
return `tables`, `gds` such that on the handle model over `archOfDecoded cfg.k cfg.minMatch names
tables gds` — the content of the FILE — after every history every query returns the input's data
(`AnswersInput`). -/
theorem reader_answers_input_bytes (cfg : Writer.Cfg) (inp : List Writer.Sample) (dec : Writer.Decisions)
    (zc : Nat → List Nat → List Nat) (zd : List Nat → Option (List Nat)) (bs : List Nat)
    (hdec : Writer.DecisionsOK cfg inp dec) (hz : ∀ l x, zd (zc l x) = some x)
    (hne : ∀ l x, zc l x = [] → x = []) (hcodes : Writer.codesOK inp)
    (hw : Writer.writeArchive cfg inp dec zc = some bs) (hnd : NamesDistinct inp) :
    ∃ o tables nB gds, Agc3.openArchive bs = .ok o ∧
      Agc3.readParams o {} = .ok ({}, cfg.k, cfg.minMatch, cfg.segSize) ∧
      Agc3.decodeCatalogue zd o cfg.k cfg.segSize {} = .ok ({}, inp.map (·.name), tables, nB) ∧
      Agc3.decodeGroups zd o {} = .ok ({}, gds) ∧
      ∀ (ops : List Op),
        AnswersInput (archOfDecoded cfg.k cfg.minMatch (inp.map (·.name)) tables gds) inp
          (run (archOfDecoded cfg.k cfg.minMatch (inp.map (·.name)) tables gds)
            (fresh (archOfDecoded cfg.k cfg.minMatch (inp.map (·.name)) tables gds)) ops).1 := by
  obtain ⟨o, tables, nB, gds, h1, h2, h3, h4, h5⟩ := written_arch cfg inp dec zc zd bs hdec hz hne hcodes hw {}
  refine ⟨o, tables, nB, gds, h1, h2, h3, h4, ?_⟩
  rw [h5]
  exact reader_answers_input cfg inp dec zc bs hdec hcodes hw hnd

example : (∀ l x, Ex.zd (Ex.zc l x) = some x) ∧ (∀ l x, Ex.zc l x = [] → x = []) ∧
    Writer.DecisionsOK Ex.cfg Ex.inp Ex.dec ∧ Writer.codesOK Ex.inp ∧ NamesDistinct Ex.inp :=
  ⟨Ex.hyps.2.2.2.1, Ex.hyps.2.2.2.2, Ex.hyps.1, Ex.hyps.2.1, Ex.hyps.2.2.1⟩

end Written

end Ragc.Props.C08
