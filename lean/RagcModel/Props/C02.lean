import RagcModel.Model.Agc3
import RagcModel.Model.Packs
import RagcModel.Model.StreamNames
import RagcModel.Lemmas.StreamNames
import RagcModel.Lemmas.Packs
import RagcModel.Lemmas.Agc3Names
import RagcModel.Props.C09
import RagcModel.Props.C12
import RagcModel.Lemmas.WriterGroups
import RagcModel.Lemmas.WriterContainer
import RagcModel.Lemmas.WriterMain
/-!
# C02 — archives conform to the AGC v3 format: an independent decoder agrees

The independent decoder is `Model/Agc3.lean` (normative constants as literals). It is *run* on
every archive the harness generates (`agc-frames` / `agc-decode`) and compared with the input and
with ragc's own reader; its `violations` list evaluates the addressing rules on the real bytes.

This file proves the layer facts that make those rules the right ones for what the writer does:

* `stream_name_injective` …: group ↦ stream name is injective, `r` and `d` names never collide,
  and never collide with a fixed stream name; `decoder_names_agree`: the decoder's literal base-64
  naming is the writer's (`stream_naming.rs`, regenerated digit table);
* `constants_pinned`: every constant the format fixes, as regenerated from the sources, equals the
  normative literal the decoder hard-wires — a source change breaks this obligation;
* `unpack_pack`: the decoder's pack splitter inverts the writer's pack layout (entry, `0xFF`, …),
  with the raw-group placeholder variant;
* `packs_addressing`: the id / flush bookkeeping of `flush_pack_compress_only` + the final partial
  flush puts the entry of in-group id `i ≥ 1` at entry `(i-1) % 50` of pack `(i-1) / 50` (LZ groups)
  resp. `i % 50` of pack `i / 50` (raw groups, placeholder at pack 0 entry 0), every pack but the
  last has exactly 50 entries — for every sequence of deltas, including empty deltas (id 0) and
  deltas equal to a pending one (id reuse);
* `metadata_convention`: metadata 0 ⇔ stored raw, else the unpacked size, and the reader's branch
  on it inverts the writer's choice (from C12);
* `lz_entry_decodes`: an LZ entry decodes against the group reference to the registered segment,
  is empty exactly when the segment equals the reference, and contains no `0xFF` (from C09).

## The reference writer (`Model/Writer.lean`)

`Writer.writeArchive cfg inp dec zc` is a whole-archive model of the compressor, composed only from
the layer models, with every heuristic / scheduling choice as data (`Decisions`). It is TIED TO THE
REAL WRITER by the C02 harness: for every generated archive the decisions are read off the decoded
archive, the reference writer is run on the input, and its output must be the real file BYTE FOR
BYTE (`writer-check`, counter `writer_bytes_identical`). About it this file proves, for ALL
decisions (the second half of the section list below):

* `container_returns_every_part`: the container history of one `create` (registrations, buffered
  parts, ONE flush, close) opened by the decoder lists the registered names in order and every
  stream reads back exactly the parts buffered under its name, in order;
* `group_roundtrip`: whatever the members of a group and their arrival order, the decoder's
  `decodeGroup` on the two streams `storeGroup` writes reports NO violation (one reference part,
  metadata convention, final separator, 50 entries per pack but the last, placeholder) and
  recovers the reference and every pack entry;
* `read_write_segments`: every member of every group is recovered by the decoder's get-segment
  path from the id the writer registers for it (reference / LZ entry / raw entry).

* `read_write_container`, `read_write_catalogue`, `read_write_groups`: the three middle stages of
  the end-to-end theorem as statements of their own — for the bytes of `writeArchive`, the decoder
  opens the archive and every stream reads back its parts; `decodeCatalogue` returns the sample
  names and the per-sample descriptor tables of the writer's catalogue (C03 round trips over the
  50-sample batches) and `decodeGroups` returns a group table that holds every group's plan — all
  with the violation accumulator unchanged;
* `writer_conforms`: **every archive of the reference writer conforms** — the decoder reads it and
  its list of breached format rules is empty (corollary of `Props.C01.read_write`'s proof);
* `writer_output_accepted`: the output is accepted by the repaired container reader
  `Container.openBytesFixed` with every part inside the file (link to C14), for ALL decisions.

The end-to-end theorem `read_write` (decode ∘ write = id) is stated in `Props/C01.lean`.
-/
namespace Ragc.Props.C02
open Ragc.StreamNames Ragc.Packs Ragc.Agc3

/-! ## stream names -/

/-- `x<base64 g>r` determines `g`. -/
theorem stream_name_injective (g g' : Nat) (h : refName g = refName g') : g = g' := by
  unfold refName at h
  simp only [List.cons.injEq, true_and] at h
  exact intToBase64_inj g g' (List.append_cancel_right h)

example : refName 16 = [120, 71, 114] ∧ refName 64 = [120, 48, 49, 114] := by
  simp [refName, intToBase64, digitAt, Ragc.Gen.b64Digits, chX, chR]

/-- `x<base64 g>d` determines `g`. -/
theorem delta_name_injective (g g' : Nat) (h : deltaName g = deltaName g') : g = g' := by
  unfold deltaName at h
  simp only [List.cons.injEq, true_and] at h
  exact intToBase64_inj g g' (List.append_cancel_right h)

example : deltaName 0 = [120, 48, 100] ∧ deltaName 4095 = [120, 35, 35, 100] := by
  simp [deltaName, intToBase64, digitAt, Ragc.Gen.b64Digits, chX, chD]

/-- A reference stream and a delta stream never share a name. -/
theorem ref_ne_delta (g g' : Nat) : refName g ≠ deltaName g' := by
  intro h
  unfold refName deltaName at h
  simp only [List.cons.injEq, true_and] at h
  have := (List.append_inj' h rfl).2
  simp [chR, chD] at this

/-- Segment stream names never collide with a fixed stream name (all of which start with a
letter other than `x`). -/
theorem xname_not_fixed (g : Nat) : refName g ∉ fixedNames ∧ deltaName g ∉ fixedNames := by
  have hf : ∀ n ∈ fixedNames, n.head? ≠ some chX := by decide
  exact ⟨fun h => hf _ h rfl, fun h => hf _ h rfl⟩

example : fixedNames.length = 7 := by decide

/-- The decoder's naming (literal digit table) is the writer's naming (`stream_naming.rs`). -/
theorem decoder_names_agree (g : Nat) :
    xName g .ref = refName g ∧ xName g .delta = deltaName g := by
  simp [xName, refName, deltaName, kindChar, chX, chR, chD, b64Encode_eq]

example : xName 77 .ref = [120, 68, 49, 114] := by
  simp [xName, b64Encode, b64Digit, Ragc.Agc3.b64, kindChar]

/-- The decoder parses every canonical stream name back to its group and kind (so the `stream-name`
rule `name = xName (parse name)` accepts exactly the names the writer can produce). -/
theorem decoder_parses_names (g : Nat) (kd : Kind) : parseXName (xName g kd) = some (g, kd) :=
  parseXName_xName g kd

example : parseXName [120, 68, 49, 100] = some (77, .delta) := by decide

/-- The decoder fetches parts from an array copy of the file; for every part inside the file (the
directory check of `openBytesFixed`) this is `Container.readPartData`, the reader of C13. -/
theorem part_reader_agrees (file : List Nat) (p : Ragc.Container.Part)
    (hfit : p.off + p.size ≤ file.length) (hseek : p.off ≤ Ragc.Agc3.seekMax) (b : Ragc.Container.Blob) :
    readPartA file.toArray p = .ok b ↔
      Ragc.Container.readPartData Ragc.Container.readVarintFixed Ragc.Agc3.seekMax file p = .ok b :=
  readPartA_eq file p hfit hseek b

example : readPartA [9, 1, 7, 65, 66, 9].toArray ⟨1, 2⟩ = .ok ([65, 66], 7) := by rfl

/-! ## constants -/

/-- Every constant the format fixes, regenerated from the sources on every run
(`tools/gen_tables.py`), equals the normative literal hard-wired in the independent decoder (or,
for the LZ text and the tuple tables, in the codec models the decoder composes). -/
theorem constants_pinned :
    Ragc.Gen.contigSeparator = 255 ∧ Ragc.Gen.contigSeparator = Ragc.Agc3.separator ∧
    Ragc.Gen.packCardinalityWriter = [Ragc.Agc3.packCard, Ragc.Agc3.packCard] ∧
    Ragc.Gen.packCardinalityReader = [Ragc.Agc3.packCard] ∧ Ragc.Agc3.packCard = 50 ∧
    Ragc.Gen.noRawGroupsWriter = [Ragc.Agc3.noRawGroups] ∧
    Ragc.Gen.noRawGroupsReader = [Ragc.Agc3.noRawGroups] ∧ Ragc.Agc3.noRawGroups = 16 ∧
    Ragc.Gen.agcFileMajor = Ragc.Agc3.versionMajor ∧ Ragc.Gen.agcFileMinor = Ragc.Agc3.versionMinor ∧
    Ragc.Agc3.versionMajor = 3 ∧ Ragc.Agc3.versionMinor = 0 ∧
    Ragc.Gen.lzNCode = 4 ∧ Ragc.Gen.lzNRunStarter = 30 ∧ Ragc.Gen.lzMinNRunLen = 4 ∧
    Ragc.Gen.lzHashingStep = 4 ∧
    Ragc.Gen.tuplePackCases = [(4, 4, 4), (6, 3, 6), (16, 2, 16)] ∧
    Ragc.Gen.tupleUnpackCases = [(2, 2, 16), (3, 3, 6), (4, 4, 4)] ∧
    Ragc.Gen.tupleVerbatimMarker = 0x10 ∧ Ragc.Gen.tupleEmptyMarker = 0x10 ∧
    Ragc.Gen.b64Digits = Ragc.Agc3.b64 ∧
    Ragc.Agc3.b64 = "0123456789ABCDEFGHIJKLMNOPQRSTUVWXYZabcdefghijklmnopqrstuvwxyz_#".toList.map Char.toNat ∧
    Ragc.Packs.sep = Ragc.Agc3.separator ∧ Ragc.Packs.placeholderEntry = [Ragc.Agc3.placeholder] ∧
    Ragc.Agc3.placeholder = 0x7f := by
  decide

/-! ## pack layout -/

/-- The decoder's splitter applied to the writer's pack (every entry followed by `0xFF`) returns
entry `i`, provided no entry contains `0xFF` (see `lz_entry_decodes` for LZ entries; raw entries
are base codes `≤ 30`). -/
theorem unpack_pack (es : List (List Nat)) (i : Nat) (h : ∀ e ∈ es, 255 ∉ e) (hi : i < es.length) :
    unpackEntry (packEntries es) i = some es[i] := by
  unfold unpackEntry
  rw [splitPack_packEntries es h]
  simp [hi]

example : unpackEntry (packEntries [[65, 66], [], [48, 46]]) 2 = some [48, 46] :=
  unpack_pack _ _ (by decide) (by decide)
example : packEntries [[65, 66], [], [48, 46]] = [65, 66, 255, 255, 48, 46, 255] := by decide

/-- Nothing is left over after the last separator and nothing is invented: the splitter returns
exactly the entries. -/
theorem split_pack (es : List (List Nat)) (h : ∀ e ∈ es, 255 ∉ e) :
    splitPack (packEntries es) = (es.toArray, []) :=
  splitPack_packEntries es h

/-- First pack of a raw group: entry 0 is the placeholder, entry `i + 1` is the `i`-th delta. -/
theorem unpack_pack_raw (es : List (List Nat)) (i : Nat) (h : ∀ e ∈ es, 255 ∉ e) (hi : i < es.length) :
    unpackEntry (packEntriesRaw es) 0 = some [Ragc.Agc3.placeholder] ∧
      unpackEntry (packEntriesRaw es) (i + 1) = some es[i] := by
  have h' : ∀ e ∈ placeholderEntry :: es, 255 ∉ e := by
    intro e he
    simp only [List.mem_cons] at he
    rcases he with he | he
    · subst he; decide
    · exact h e he
  unfold packEntriesRaw
  constructor
  · rw [unpack_pack _ 0 h' (by simp)]; rfl
  · rw [unpack_pack _ (i + 1) h' (by simp; omega)]; simp

example : unpackEntry (packEntriesRaw [[0, 1, 2], [3]]) 0 = some [127] ∧
    unpackEntry (packEntriesRaw [[0, 1, 2], [3]]) 2 = some [3] :=
  unpack_pack_raw _ 1 (by decide) (by decide)

/-! ## id ↦ (pack, entry) -/

/-- **Addressing.** Run the bookkeeping of `flush_pack_compress_only` over ANY sequence of deltas
`ds` (empty ones and repeats included, over any number of calls), then the final partial flush of
`finalize`. For the id handed to the `j`-th delta:

* LZ group: either the id is 0 and the delta is empty (the segment is the reference), or
  `id ≥ 1` and entry `(id-1) % 50` of pack `(id-1) / 50` is the delta;
* raw group: `id ≥ 1`, entry `id % 50` of pack `id / 50` is the delta and entry 0 of pack 0 is the
  placeholder;

and every pack but the last holds exactly 50 entries (`Filled`), the last between 1 and 50. The
decoder's `entryAddress` is this rule. -/
theorem packs_addressing (lz : Bool) (ds : List (List Nat)) :
    let r := assignAll lz PState.init ds
    let packs := finish lz r.1
    Filled 50 packs ∧
    (∀ p, p + 1 < packs.length → ∃ pk, packs[p]? = some pk ∧ pk.length = 50) ∧
    ∀ j (hj : j < ds.length),
      let id := r.2.getD j 0
      (lz = true ∧ id = 0 ∧ ds[j] = []) ∨
      (1 ≤ id ∧
        entryAt packs (entryAddress (if lz then 16 else 0) id).1 (entryAddress (if lz then 16 else 0) id).2
          = some ds[j] ∧
        (lz = false → entryAt packs 0 0 = some [Ragc.Agc3.placeholder])) :=
  packs_addressing_aux lz ds _ rfl _ rfl

-- 120 distinct deltas in an LZ group: three packs (50, 50, 20); id 101 is entry 0 of pack 2
set_option maxRecDepth 20000 in
example :
    let ds := (List.range 120).map (fun i => [i])
    let r := assignAll true PState.init ds
    (finish true r.1).map List.length = [50, 50, 20] ∧ r.2.getD 100 0 = 101 ∧
      entryAt (finish true r.1) 2 0 = some [100] := by
  decide
-- raw group: 60 deltas, packs of (placeholder + 49) and 11; id 50 is entry 0 of pack 1
set_option maxRecDepth 20000 in
example :
    let ds := (List.range 60).map (fun i => [i])
    let r := assignAll false PState.init ds
    (finish false r.1).map List.length = [50, 11] ∧ r.2.getD 49 0 = 50 ∧
      entryAt (finish false r.1) 1 0 = some [49] ∧ entryAt (finish false r.1) 0 0 = some [127] := by
  decide
-- empty delta ⇒ id 0, repeated pending delta ⇒ same id
example : (assignAll true PState.init [[7], [], [8], [7]]).2 = [1, 0, 2, 1] := by decide

/-! ## metadata convention -/

/-- The writer keeps the compressed form (`compressed ++ [marker]`, metadata = raw size) only when
it is strictly shorter than the raw bytes, otherwise it stores the raw bytes with metadata 0.
So: metadata 0 ⇔ stored raw; otherwise metadata = unpacked size ≠ 0 and the last byte is the
marker; and the reader's branch on the metadata (`unframePart`) returns the raw bytes in both
cases. `hdec` is the codec round trip of C12 (`ref_roundtrip`, `pack_roundtrip`). -/
theorem metadata_convention (zd : List Nat → Option (List Nat)) (compressed : List Nat) (marker : Nat)
    (raw : List Nat) (hdec : Ragc.SegCompress.decompressWithMarker zd compressed marker = some raw) :
    let p := Ragc.SegCompress.framePart compressed marker raw
    (p.2 = 0 → p.1 = raw) ∧
    (p.2 ≠ 0 → p.2 = raw.length ∧ p.1 = compressed ++ [marker] ∧ p.1.length < raw.length) ∧
    Ragc.SegCompress.unframePart zd p.1 p.2 = some raw := by
  intro p
  refine ⟨?_, ?_, Ragc.SegCompress.unframe_frame zd compressed marker raw hdec⟩
  · intro h0
    show (Ragc.SegCompress.framePart compressed marker raw).1 = raw
    have h0' : (Ragc.SegCompress.framePart compressed marker raw).2 = 0 := h0
    unfold Ragc.SegCompress.framePart at h0' ⊢
    simp only [] at h0' ⊢
    split at h0'
    · simp only [List.length_append, List.length_cons, List.length_nil] at *; omega
    · rename_i hn; rw [if_neg hn]
  · intro hne
    have hne' : (Ragc.SegCompress.framePart compressed marker raw).2 ≠ 0 := hne
    show (Ragc.SegCompress.framePart compressed marker raw).2 = raw.length ∧
      (Ragc.SegCompress.framePart compressed marker raw).1 = compressed ++ [marker] ∧
      (Ragc.SegCompress.framePart compressed marker raw).1.length < raw.length
    unfold Ragc.SegCompress.framePart at hne' ⊢
    simp only [] at hne' ⊢
    split at hne'
    · rename_i hl; rw [if_pos hl]; exact ⟨rfl, rfl, hl⟩
    · exact absurd rfl hne'

/-- The convention for the two kinds of stored parts, with the ZSTD hypotheses of C12. -/
theorem metadata_convention_parts (zc : Nat → List Nat → List Nat) (zd : List Nat → Option (List Nat))
    (hz : ∀ l x, zd (zc l x) = some x) (hne : ∀ l x, zc l x = [] → x = [])
    (chooser : List Nat → Bool) (level : Nat) (x : List Nat) :
    let r := Ragc.SegCompress.storeReference zc chooser x
    let p := Ragc.SegCompress.storePack zc level x
    (r.2 = 0 → r.1 = x) ∧ (r.2 ≠ 0 → r.2 = x.length) ∧ Ragc.SegCompress.unframePart zd r.1 r.2 = some x ∧
    (p.2 = 0 → p.1 = x) ∧ (p.2 ≠ 0 → p.2 = x.length) ∧ Ragc.SegCompress.unframePart zd p.1 p.2 = some x := by
  intro r p
  have hr := metadata_convention zd _ _ x (Ragc.Props.C12.ref_roundtrip_chooser zc zd hz hne chooser x)
  have hp := metadata_convention zd _ _ x (Ragc.Props.C12.pack_roundtrip zc zd hz hne level x)
  exact ⟨hr.1, fun h => (hr.2.1 h).1, hr.2.2, hp.1, fun h => (hp.2.1 h).1, hp.2.2⟩

example : Ragc.SegCompress.framePart [9, 9] 1 [0, 1, 2, 3] = ([9, 9, 1], 4) ∧
    Ragc.SegCompress.framePart [9, 9, 9] 0 [0, 1, 2, 3] = ([0, 1, 2, 3], 0) := by decide

/-! ## LZ entries -/

/-- An LZ entry (the writer's `lz_diff.encode(seg)` against the group reference) decodes, with the
reader's empty-means-reference rule, to the registered segment; it is empty exactly when the
segment equals the reference (the id-0 case of `packs_addressing`); and it contains no `0xFF`, so
packs of LZ entries are splittable (`unpack_pack`). For every candidate supplier (in particular
the real index), every accepted `min_match_len`, every reference, every non-empty segment over
the decoder's literal codes. -/
theorem lz_entry_decodes (S : UInt64 → List Nat) (mm : Nat) (ref seg enc : List Nat)
    (hc : Ragc.Props.C09.codesOK seg) (hne : seg ≠ [])
    (henc : Ragc.Model.LzDiff.encode S mm ref seg = some enc) :
    Ragc.Model.LzDiff.decodeSeg mm ref enc = some seg ∧ (enc = [] ↔ seg = ref) ∧ 255 ∉ enc := by
  refine ⟨Ragc.Props.C09.lz_roundtrip S mm ref seg enc hc hne henc, ?_, ?_⟩
  · rw [Ragc.Props.C09.encode_empty_iff S mm ref seg enc henc]
    simp [hne]
  · have h := Ragc.Props.C09.no_separator S mm ref seg enc
      (fun c hcm => Nat.lt_of_le_of_lt (hc c hcm) (by decide)) henc
    have h255 : Ragc.Gen.contigSeparator = 255 := by decide
    rwa [h255] at h

example : Ragc.Props.C09.codesOK [0, 1, 3, 3, 0, 1, 2, 3, 2, 2] ∧ [0, 1, 3, 3, 0, 1, 2, 3, 2, 2] ≠ [] := by
  decide

/-- A pack of LZ entries, written and read back: entry `i` decodes to segment `i`. -/
theorem lz_pack_entry_decodes (S : UInt64 → List Nat) (mm : Nat) (ref : List Nat)
    (segs : List (List Nat)) (encs : List (List Nat))
    (hlen : encs.length = segs.length)
    (hall : ∀ i (h : i < segs.length), Ragc.Props.C09.codesOK segs[i] ∧ segs[i] ≠ [] ∧
      Ragc.Model.LzDiff.encode S mm ref segs[i] = some (encs[i]'(by omega)))
    (i : Nat) (hi : i < segs.length) :
    (unpackEntry (packEntries encs) i).bind (Ragc.Model.LzDiff.decodeSeg mm ref) = some segs[i] := by
  have hno : ∀ e ∈ encs, 255 ∉ e := by
    intro e he
    obtain ⟨j, hj, rfl⟩ := List.getElem_of_mem he
    obtain ⟨hc, hne, henc⟩ := hall j (by omega)
    exact (lz_entry_decodes S mm ref _ _ hc hne henc).2.2
  rw [unpack_pack encs i hno (by omega)]
  obtain ⟨hc, hne, henc⟩ := hall i hi
  simp only [Option.bind_some]
  exact (lz_entry_decodes S mm ref _ _ hc hne henc).1

/-! ## the reference writer: container, groups, segments -/

open Ragc.Writer Ragc.WriterLemmas in
/-- **The container gives every part back.** For ANY list of distinct stream names without NUL
and ANY list of parts buffered under those names (metadata `u64`), the file written by the history
"register all, buffer all, ONE flush, close" (`Writer.archiveOps`, what `create` does) is opened
by the decoder; its directory lists the names in registration order; and every stream reads back
exactly the parts buffered under its name, in buffering order (`partsOf`: empty parts lose their
metadata, archive.rs 301-303). Physical side condition: the file is shorter than `2^63`.
Composition of C13 (`rel_run`, `flush_commits_per_stream`, `openBytesFixed_close`) with
`part_reader_agrees`. -/
theorem container_returns_every_part (names : List (List Nat)) (parts : List (List Nat × Ragc.Container.Blob))
    (hnd : names.Nodup) (h0 : 0 < names.length) (hnul : ∀ n ∈ names, ∀ b ∈ n, b ≠ 0)
    (hin : ∀ nb ∈ parts, nb.1 ∈ names) (hmd : ∀ nb ∈ parts, nb.2.2 < 2 ^ 64)
    (hlen : (Ragc.Container.close (Ragc.Container.run (archiveOps names parts))).length ≤ Ragc.Agc3.seekMax) :
    ∃ o, openArchive (Ragc.Container.close (Ragc.Container.run (archiveOps names parts))) = .ok o ∧
      o.dir.map (·.name) = names ∧
      ∀ st ∈ o.dir, Ragc.Agc3.readParts o.file st = .ok (partsOf parts st.name) :=
  archive_opens names parts hnd h0 hnul hin hmd hlen

example :
    let names := [[97], [120, 71, 100]]
    let parts : List (List Nat × Ragc.Container.Blob) := [([120, 71, 100], ([1, 2], 5)), ([97], ([], 9)), ([120, 71, 100], ([3], 0))]
    names.Nodup ∧ (∀ nb ∈ parts, nb.1 ∈ names) ∧
      Ragc.WriterLemmas.partsOf parts [120, 71, 100] = [([1, 2], 5), ([3], 0)] ∧
      Ragc.WriterLemmas.partsOf parts [97] = [([], 0)] := by decide

open Ragc.Writer Ragc.WriterLemmas in
/-- **One group, written and decoded.** Take ANY group decision `G` (raw or LZ, any tuple flag) and
ANY member data in ANY arrival order (non-empty, over the literal codes). If the planner answers
(`planGroup`: it does whenever `min_match_len ≥ 4`, C09 `encode_total`), then the decoder's
`decodeGroup` on the group's two streams as `storeGroup` writes them — reference by
`storeReference`, packs by `storePack ∘ packEntries` — returns the SAME violation accumulator
(none of: duplicate-stream, one-reference-part, raw-group-with-reference, part-undecodable,
metadata-size, pack-no-final-separator, pack-cardinality, raw-placeholder fires) and a decoded
group that holds exactly the plan's reference and pack entries. Any ZSTD with the two facts of C12. -/
theorem group_roundtrip (zc : Nat → List Nat → List Nat) (zd : List Nat → Option (List Nat))
    (hz : ∀ l x, zd (zc l x) = some x) (hne : ∀ l x, zc l x = [] → x = [])
    (cfg : Cfg) (G : GroupDec) (datas : List (List Nat)) (P : GroupPlan)
    (hplan : planGroup cfg.minMatch G datas = some P)
    (hc : ∀ d ∈ datas, d ≠ [] ∧ Ragc.Props.C09.codesOK d) (a : Acc) (out : Array GroupD) :
    ∃ GD, decodeGroup zd (a, out)
        ⟨P.id, 1, 1, (storeGroup cfg zc G.tuples P).refPart.toList, (storeGroup cfg zc G.tuples P).packs⟩
          = (a, out.push GD) ∧ GDMatches GD P :=
  decodeGroup_plan zc zd hz hne cfg G.tuples P (planGroup_spec cfg.minMatch G datas P hplan hc).2.1 a out

open Ragc.Writer Ragc.WriterLemmas in
/-- **Every registered piece is recovered by the decoder's get-segment path.** For ANY group
decision and ANY member data in ANY arrival order: member `j` gets the in-group id `P.ids[j]`
(0 exactly for the reference and for members equal to it; ids reused inside a pending pack), the
id is at most the number of members, and for every group table `gds` in which the decoder finds a
group holding the plan's content (`group_roundtrip`), `getSegment` on the descriptor
`(G.id, P.ids[j], rev, len)` the writer registers returns the member's data — through
`entryAddress`, the pack splitter and, for LZ groups, `LzDiff.decodeSeg` against the reference.
Composition of `packs_addressing` with C09. -/
theorem read_write_segments (mm : Nat) (G : GroupDec) (datas : List (List Nat)) (P : GroupPlan)
    (hplan : planGroup mm G datas = some P)
    (hc : ∀ d ∈ datas, d ≠ [] ∧ Ragc.Props.C09.codesOK d)
    (gds : Array GroupD) (GD : GroupD) (hf : Ragc.Agc3.findGroup gds G.id = some GD) (hm : GDMatches GD P)
    (j : Nat) (hj : j < datas.length) (rev : Bool) (len : Nat) :
    P.ids.length = datas.length ∧ P.ids.getD j 0 ≤ datas.length ∧
      getSegment mm gds ⟨G.id, P.ids.getD j 0, rev, len⟩ = .ok datas[j] := by
  obtain ⟨hid, _, hl, hseg⟩ := planGroup_spec mm G datas P hplan hc
  refine ⟨hl, (hseg j hj).1, ?_⟩
  rw [← hid]
  exact getSegment_plan mm gds P GD _ _ rev len (by rw [hid]; exact hf) hm (hseg j hj).2

-- a raw group with three members, the third equal to the first (id reuse in the pending pack)
example : Ragc.Writer.planGroup 5 ⟨3, false, []⟩ [[0, 1, 2], [3], [0, 1, 2]]
    = some ⟨3, none, [[[127], [0, 1, 2], [3]]], [1, 2, 1]⟩ := by decide
-- an LZ group whose only member is its reference
example : Ragc.Writer.planGroup 5 ⟨16, true, []⟩ [[0, 1, 2, 3]] = some ⟨16, some [0, 1, 2, 3], [], [0]⟩ := by decide

/-! ## the stages of the end-to-end theorem -/

open Ragc.Writer Ragc.WriterLemmas in
/-- **Stage 1 — the container.** For the bytes `bs` of the reference writer (any well-formed
decisions): the decoder opens `bs`, the directory lists `Writer.regNames dec` (the seven fixed
streams, then `x…d`, `x…r` per group in creation order) and every stream reads back exactly the
parts `Writer.partList` buffered under its name. -/
theorem read_write_container (cfg : Cfg) (inp : List Sample) (dec : Decisions)
    (zc : Nat → List Nat → List Nat) (bs : List Nat) (hdec : DecisionsOK cfg inp dec)
    (hw : writeArchive cfg inp dec zc = some bs) :
    ∃ outs o, writeGroups cfg zc (storedAll cfg.k inp dec) dec.groups = some outs ∧
      openArchive bs = .ok o ∧
      Opens o (regNames dec) (partList cfg zc inp outs
        (Ragc.Details.storeBatches cfg.segSize cfg.k 50 (catalogue inp dec outs))) := by
  have hok := decOK_of cfg inp dec hdec
  obtain ⟨outs, hwg, _, hmd, hbs, hlen⟩ := writeArchive_unpack cfg inp dec zc bs hw
  obtain ⟨o, hopen, hdir, hread⟩ := archive_opens (regNames dec) _ (regNames_nodup dec hok.nodup)
    (by rw [regNames_eq]; simp [fixedStreamNames]) (regNames_nz dec)
    (partList_names cfg zc inp dec outs _ (outs_ids cfg zc _ _ _ hwg)) hmd (by rw [← hbs]; exact hlen)
  exact ⟨outs, o, hwg, by rw [hbs]; exact hopen, ⟨hdir, hread⟩⟩

open Ragc.Writer Ragc.WriterLemmas in
/-- **Stage 2 — the catalogue.** On an opened archive that returns the reference writer's parts
(`read_write_container`), `decodeCatalogue` returns the violation accumulator UNCHANGED
(collection-metadata, collection-batches), the sample names of the input, and per sample the table
`contig name ↦ descriptors` of the writer's catalogue — over any number of 50-sample batches.
Composition of C03 `sample_names_roundtrip`, `names_roundtrip`, `details_roundtrip` with the part
layout of `store_contig_batch`. -/
theorem read_write_catalogue (zc : Nat → List Nat → List Nat) (zd : List Nat → Option (List Nat))
    (hz : ∀ l x, zd (zc l x) = some x) (hne : ∀ l x, zc l x = [] → x = [])
    (cfg : Cfg) (inp : List Sample) (dec : Decisions) (bs : List Nat) (hdec : DecisionsOK cfg inp dec)
    (hcodes : codesOK inp) (hw : writeArchive cfg inp dec zc = some bs) (a : Acc) :
    ∃ outs o, openArchive bs = .ok o ∧
      decodeCatalogue zd o cfg.k cfg.segSize a = .ok (a, inp.map (·.name),
        (List.zipWith (fun s dcs => tableOf outs s.contigs dcs) inp dec.pieces).toArray,
        (Ragc.Details.storeBatches cfg.segSize cfg.k 50 (catalogue inp dec outs)).length) := by
  have hok := decOK_of cfg inp dec hdec
  obtain ⟨outs, o, hwg, hopen, hO⟩ := read_write_container cfg inp dec zc bs hdec hw
  obtain ⟨outs', hwg', hfit, _, _, _⟩ := writeArchive_unpack cfg inp dec zc bs hw
  rw [hwg] at hwg'
  cases hwg'
  refine ⟨outs, o, hopen, ?_⟩
  rw [← catalogue_tables]
  exact decodeCatalogue_ok zc zd hz hne cfg dec inp outs o _ hO hfit
    (catalogue_ok cfg inp dec zc outs hok hcodes hwg) (catalogue_length inp dec outs hok.shape) hok.nS
    (by
      intro s hs
      obtain ⟨i, hi⟩ := List.mem_iff_getElem?.mp hs
      have hil : i < dec.pieces.length := by rw [hok.shape]; exact (List.getElem?_eq_some_iff.mp hi).1
      exact nameOK_iff _ (hok.samples _ (mem_zip_of_get _ _ _ _ _ hi (List.getElem?_eq_getElem hil))).name)
    hok.pred a

open Ragc.Writer Ragc.WriterLemmas in
/-- **Stage 3 — the groups.** On the same opened archive, `decodeGroups` returns the violation
accumulator UNCHANGED (stream-name, duplicate-stream, one-reference-part, raw-group-with-reference,
part-undecodable, metadata-size, pack-no-final-separator, pack-cardinality, raw-placeholder) and a
group table in which, for every group, `findGroup` finds a group holding that group's plan
(`GDMatches`); every decoded group is one of the decisions' groups. `group_roundtrip` folded over
the directory (`xStreams`, `addStream`). -/
theorem read_write_groups (zc : Nat → List Nat → List Nat) (zd : List Nat → Option (List Nat))
    (hz : ∀ l x, zd (zc l x) = some x) (hne : ∀ l x, zc l x = [] → x = [])
    (cfg : Cfg) (inp : List Sample) (dec : Decisions) (bs : List Nat) (hdec : DecisionsOK cfg inp dec)
    (hcodes : codesOK inp) (hw : writeArchive cfg inp dec zc = some bs) (a : Acc) :
    ∃ o gds, openArchive bs = .ok o ∧ decodeGroups zd o a = .ok (a, gds) ∧ GroupsDecoded cfg inp dec gds := by
  obtain ⟨outs, o, hwg, hopen, hO⟩ := read_write_container cfg inp dec zc bs hdec hw
  obtain ⟨gds, h1, h2⟩ := decodeGroups_ok zc zd hz hne cfg inp dec outs _ o (decOK_of cfg inp dec hdec) hcodes hwg hO a
  exact ⟨o, gds, hopen, h1, h2⟩

open Ragc.Writer Ragc.WriterLemmas in
/-- **Every archive of the reference writer conforms to the format.** All decisions, all inputs
over the literal codes, any ZSTD with the two C12 facts: the independent decoder reads the bytes,
finds the parameters that were given, and its list of breached format rules is EMPTY. (The real
writer is an instance of the reference writer on every generated archive: C02 harness, byte
identity.) -/
theorem writer_conforms (cfg : Cfg) (inp : List Sample) (dec : Decisions)
    (zc : Nat → List Nat → List Nat) (zd : List Nat → Option (List Nat)) (bs : List Nat)
    (hdec : DecisionsOK cfg inp dec) (hz : ∀ l x, zd (zc l x) = some x) (hne : ∀ l x, zc l x = [] → x = [])
    (hcodes : codesOK inp) (hw : writeArchive cfg inp dec zc = some bs) :
    ∃ d, decodeArchive bs zd = .ok d ∧ d.violations = [] ∧
      d.k = cfg.k ∧ d.mm = cfg.minMatch ∧ d.segSize = cfg.segSize := by
  obtain ⟨d, h1, _, _, h4, h5, h6, h7⟩ := read_write_main cfg inp dec zc zd bs hdec hz hne hcodes hw
  exact ⟨d, h1, h4, h5, h6, h7⟩

open Ragc.Writer Ragc.WriterLemmas in
/-- **C14 link.** Whatever the decisions (no `DecisionsOK` needed), the bytes the reference writer
returns are accepted by the repaired container reader `openBytesFixed` (footer-size and
part-range checks) and every part of the directory lies inside the file. -/
theorem writer_output_accepted (cfg : Cfg) (inp : List Sample) (dec : Decisions)
    (zc : Nat → List Nat → List Nat) (bs : List Nat) (hw : writeArchive cfg inp dec zc = some bs) :
    ∃ r, Ragc.Container.openBytesFixed Ragc.Agc3.seekMax bs = .ok r ∧ r.file = bs ∧
      Ragc.Container.partsInFile bs.length r.dir = true :=
  writer_output_opens cfg inp dec zc bs hw

end Ragc.Props.C02
