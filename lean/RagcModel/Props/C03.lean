import RagcModel.Gen.Tables
import RagcModel.Model.CollVarint
import RagcModel.Model.Zigzag
import RagcModel.Model.Names
import RagcModel.Model.Details
import RagcModel.Lemmas.CollVarint
import RagcModel.Lemmas.Zigzag
import RagcModel.Lemmas.Names
import RagcModel.Lemmas.Details
import RagcModel.Lemmas.Batches
import RagcModel.Lemmas.Register
/-!
C03 — the sample and contig catalogue is preserved exactly.
Only property theorems live here (helper lemmas are in `Lemmas/`). The models are in
`Model/{CollVarint,Zigzag,Names,Details}.lean` and mirror ragc-common/src/collection.rs.
-/
namespace Ragc.Props.C03
open Ragc.CollVarint Ragc.Zigzag Ragc.Names Ragc.Details

/-- The prefix varint round-trips every `u32`, whatever follows it in the stream. -/
theorem collvarint_roundtrip (n : Nat) (r : List Nat) (h : n < 2 ^ 32) :
    decode (encode n ++ r) = some (n, r) :=
  decode_encode n (by simpa using h) r

example : decode (encode 270549119 ++ [7]) = some (270549119, [7]) :=
  collvarint_roundtrip 270549119 [7] (by decide)

/-- Unique parsing: the varint is a prefix code — a stream that starts with the code of `n` cannot
    also be read as starting with the code of a different `m`, whatever follows either. -/
theorem collvarint_prefix_free (n m : Nat) (r r' : List Nat) (hn : n < 2 ^ 32) (hm : m < 2 ^ 32)
    (h : encode n ++ r = encode m ++ r') : n = m ∧ r = r' := by
  have h1 := collvarint_roundtrip n r hn
  rw [h, collvarint_roundtrip m r' hm] at h1
  have h2 := Option.some.inj h1
  exact ⟨(congrArg Prod.fst h2).symm, (congrArg Prod.snd h2).symm⟩

example : encode 127 ++ [5] ≠ encode 128 ++ [5] := by decide

/-- Truncated input is an error: every proper prefix of an encoding is rejected. -/
theorem collvarint_truncated_err (n m : Nat) (h : n < 2 ^ 32) (hm : m < (encode n).length) :
    decode ((encode n).take m) = none :=
  decode_truncated n (by simpa using h) m hm

example : decode ((encode 3000000).take 3) = none := collvarint_truncated_err 3000000 3 (by decide) (by decide)

/-- Predictive zigzag round-trips (values and predictions below 2^63: nothing wraps). -/
theorem zigzag_roundtrip (x p : Nat) (hx : x < 2 ^ 63) (hp : p < 2 ^ 63) :
    zigzagDecode (zigzagEncode x p) p = x :=
  zigzagDecode_encode x p (by simpa using hx) (by simpa using hp)

example : zigzagDecode (zigzagEncode 59990 60031) 60031 = 59990 :=
  zigzag_roundtrip 59990 60031 (by decide) (by decide)

/-- The encoder is injective for a fixed prediction: two different values never share a code. -/
theorem zigzag_injective (x y p : Nat) (hx : x < 2 ^ 63) (hy : y < 2 ^ 63) (hp : p < 2 ^ 63)
    (h : zigzagEncode x p = zigzagEncode y p) : x = y := by
  rw [← zigzag_roundtrip x p hx hp, ← zigzag_roundtrip y p hy hp, h]

example : zigzagEncode 5 7 ≠ zigzagEncode 9 7 := by decide

/-- … and the code is canonical: the decoder is a right inverse too wherever nothing wraps
    (`v + 2p < 2^64`, e.g. all `u32` values), so two different code words never denote the same
    value — the detail stream of a catalogue is determined by the catalogue (used by C04). -/
theorem zigzag_code_canonical (v w p : Nat) (hv : v + 2 * p < 2 ^ 64) (hw : w + 2 * p < 2 ^ 64)
    (h : zigzagDecode v p = zigzagDecode w p) : v = w := by
  rw [← zigzagEncode_decode v p (by simpa using hv), ← zigzagEncode_decode w p (by simpa using hw), h]

example : zigzagEncode (zigzagDecode 82 60031) 60031 = 82 ∧ zigzagDecode 82 60031 = 60072 := by decide

/-- The hypothesis cannot be dropped: where `v + 2p` wraps, two code words collide. -/
theorem zigzag_code_collision_when_wrapping :
    zigzagDecode (2 ^ 63) (2 ^ 63 - 1) = zigzagDecode (2 ^ 63 - 1) (2 ^ 63 - 1) := by decide

/-- The code of a value that differs from its prediction is at least 1, so the `+ 1` escape of
    the in-group-id coding (codes ≥ 2) never collides with the codes 0 ("id 0") and 1 ("as
    predicted"). -/
theorem zigzag_escape_no_collision (x p : Nat) (hx : x < 2 ^ 64) (hp : p < 2 ^ 63) (hne : x ≠ p) :
    2 ≤ zigzagEncode x p + 1 := by
  have := zigzagEncode_pos x p (by simpa using hx) (by simpa using hp) hne
  omega

example : 2 ≤ zigzagEncode 3 7 + 1 := zigzag_escape_no_collision 3 7 (by decide) (by decide) (by decide)

/-- NUL-terminated strings: any 7-bit string without NUL, whatever follows. -/
theorem string_roundtrip (s r : List Nat) (h : ∀ b ∈ s, 1 ≤ b ∧ b ≤ 127) :
    decodeString (encodeString s ++ r) = some (s, r) :=
  decodeString_encodeString s r h

example : decodeString (encodeString [72, 71, 32, 9] ++ [1]) = some ([72, 71, 32, 9], [1]) :=
  string_roundtrip _ _ (by decide)

/-- Unique parsing of NUL-terminated strings: two different names never serialise to streams one of
    which could be read as the other (the name table of an archive determines its stream). -/
theorem string_prefix_free (s s' r r' : List Nat) (hs : ∀ b ∈ s, 1 ≤ b ∧ b ≤ 127)
    (hs' : ∀ b ∈ s', 1 ≤ b ∧ b ≤ 127) (h : encodeString s ++ r = encodeString s' ++ r') :
    s = s' ∧ r = r' := by
  have h1 := string_roundtrip s r hs
  rw [h, string_roundtrip s' r' hs'] at h1
  have h2 := Option.some.inj h1
  exact ⟨(congrArg Prod.fst h2).symm, (congrArg Prod.snd h2).symm⟩

example : encodeString [72, 71] ++ [1] ≠ encodeString [72] ++ [71, 1] := by decide

/-- Sample names come back exactly, in order. -/
theorem sample_names_roundtrip (names : List Name) (hlen : names.length < 2 ^ 32)
    (h : ∀ n ∈ names, ∀ b ∈ n, 1 ≤ b ∧ b ≤ 127) :
    decodeSampleNames (encodeSampleNames names) = some names :=
  decodeSampleNames_encodeSampleNames names (by simpa using hlen) h

example : decodeSampleNames (encodeSampleNames [[72, 71, 49], [115, 32, 50]]) = some [[72, 71, 49], [115, 32, 50]] :=
  sample_names_roundtrip _ (by decide) (by decide)

/-- Contig names of a batch of samples come back verbatim and in order — for ANY table of names
    over the bytes 1..127 (any number of space-separated fields, empty fields, tabs, runs longer
    than 100, consecutive names sharing any subset of fields). `avail` is the number of samples the
    reader has from the cursor on; the counts are written as `u32`. -/
theorem names_roundtrip (samples : List (List Name)) (avail : Nat)
    (hlen : samples.length < 2 ^ 32) (hav : samples.length ≤ avail)
    (hcnt : ∀ s ∈ samples, s.length < 2 ^ 32)
    (h : ∀ s ∈ samples, ∀ n ∈ s, ∀ b ∈ n, 1 ≤ b ∧ b ≤ 127) :
    decodeNames avail (encodeNames samples) = .ok samples :=
  decodeNames_encodeNames samples avail (by simpa using hlen) hav
    (fun s hs => ⟨by simpa using hcnt s hs, h s hs⟩)

-- "chr1 a  b", "chr2 a  b" (DELTA, same-marker, empty field), "x" (FULL again)
example : decodeNames 1 (encodeNames [[[99, 104, 114, 49, 32, 97, 32, 32, 98], [99, 104, 114, 50, 32, 97, 32, 32, 98], [120]]])
    = .ok [[[99, 104, 114, 49, 32, 97, 32, 32, 98], [99, 104, 114, 50, 32, 97, 32, 32, 98], [120]]] :=
  names_roundtrip _ 1 (by decide) (by decide) (by decide) (by decide)

/-- Every descriptor table (group id, in-group id, orientation, raw length per segment) written
    as five streams is read back unchanged: arbitrary group ids, in-group ids that repeat, go
    back, are 0 or jump, lengths anywhere relative to `segment_size + k`. Bounds as forced by the
    code: counts and fields are `u32`; in-group ids stay below `i32::MAX` (the predictor computes
    `prev + 1` on `i32`); `segment_size + k ≤ 2^31` (the length code is cut to `u32`).
    `have_` = contig counts of the reader's samples from the cursor on (`fits`: the batch does
    not describe more samples / contigs than the reader has — otherwise the Rust panics). -/
theorem details_roundtrip (segSize k : Nat) (b : Batch) (have_ : List Nat)
    (hpred : segSize + k ≤ 2 ^ 31)
    (hn : b.length < 2 ^ 32) (hcnt : ∀ s ∈ b, s.length < 2 ^ 32 ∧ ∀ c ∈ s, c.length < 2 ^ 32)
    (hseg : ∀ s ∈ b, ∀ c ∈ s, ∀ g ∈ c, g.group < 2 ^ 32 ∧ g.inGroup + 1 < 2 ^ 31 ∧ g.rawLen < 2 ^ 32)
    (hfit : fits have_ b = true) :
    decodeDetailsL segSize k have_ (encodeDetails segSize k b) = .ok b := by
  have hshape : ShapeOk b := ⟨by simpa using hn, fun s hs => by simpa using hcnt s hs⟩
  have hseg' : ∀ s ∈ b, ∀ c ∈ s, ∀ g ∈ c, SegOk g := fun s hs c hc g hg => by
    simpa [SegOk] using hseg s hs c hc g hg
  have h := decodeDetailsRaw_encodeDetails segSize k b (by simpa using hpred) hshape hseg'
  simp only [encodeDetails] at h ⊢
  simp only [decodeDetailsL, decodeDetails, h, hfit, if_true]

-- one group visited with ids 0,1,2 (predictor hits), then back to 1, a jump to 40, id 0 again;
-- lengths at, just below and far from segment_size + k; both orientations
example : decodeDetailsL 60000 31 [2, 1]
    (encodeDetails 60000 31
      [[[⟨93, 0, false, 60031⟩, ⟨93, 1, true, 60030⟩], [⟨93, 2, false, 5⟩]], [[⟨93, 1, false, 200000⟩, ⟨93, 40, true, 60031⟩, ⟨17, 0, false, 0⟩]]])
    = .ok [[[⟨93, 0, false, 60031⟩, ⟨93, 1, true, 60030⟩], [⟨93, 2, false, 5⟩]], [[⟨93, 1, false, 200000⟩, ⟨93, 40, true, 60031⟩, ⟨17, 0, false, 0⟩]]] :=
  details_roundtrip 60000 31 _ [2, 1] (by decide) (by decide) (by decide) (by decide) (by decide)

-- The bounds of `details_roundtrip` are forced (release-profile arithmetic; the dev profile panics
-- on the overflowing `+`): (1) `segment_size + k > 2^31`: the length code is cut to `u32`;
-- (2) in-group id `u32::MAX` in a group already seen: the `+ 1` escape wraps to the code 0.
example : decodeDetailsL 2147483658 31 [1] (encodeDetails 2147483658 31 [[[⟨7, 0, false, 5⟩]]])
    = .ok [[[⟨7, 0, false, 2147483653⟩]]] := by decide
example : decodeDetailsL 60000 31 [1] (encodeDetails 60000 31 [[[⟨7, 3, false, 5⟩, ⟨7, 4294967295, false, 5⟩]]])
    = .ok [[[⟨7, 3, false, 5⟩, ⟨7, 0, false, 5⟩]]] := by decide

/-- Encoder and decoder evolve the in-group-id predictor table identically (for the exact C++
    update rule `id as i32 > prev && id > 0`), from any admissible table. -/
theorem details_predictor_sync (pred : Nat) (t : Table) (segs : List Seg)
    (ht : ∀ g, -1 ≤ t.get g ∧ t.get g + 1 < 2 ^ 31)
    (hseg : ∀ g ∈ segs, g.group < 2 ^ 32 ∧ g.inGroup + 1 < 2 ^ 31 ∧ g.rawLen < 2 ^ 32) :
    decFinalTable t (encSegs pred t segs) = encFinalTable t segs :=
  decFinalTable_encSegs pred segs t (fun g => by simpa [PrevOk] using ht g)
    (fun g hg => by simpa [SegOk] using hseg g hg)

example : decFinalTable [] (encSegs 60031 [] [⟨93, 3, false, 1⟩, ⟨93, 1, false, 1⟩, ⟨93, 4, false, 1⟩])
    = encFinalTable [] [⟨93, 3, false, 1⟩, ⟨93, 1, false, 1⟩, ⟨93, 4, false, 1⟩] :=
  details_predictor_sync 60031 [] _ (by intro g; simp [Table.get]) (by decide)

/-- Storing the catalogue in batches of 50 samples (agc_compressor.rs) and loading batches
    `0..n-1` in order on a fresh collection (decompressor.rs) returns every sample with its
    contig names and descriptors, and the cursor `samples_loaded` ends at the number of samples —
    for any number of samples (several batches included). ZSTD/archive = identity here. -/
theorem batches_roundtrip (segSize k : Nat) (ss : List Sample)
    (hpred : segSize + k ≤ 2 ^ 31) (hlen : ss.length < 2 ^ 32)
    (hok : ∀ s ∈ ss, (∀ b ∈ s.name, 1 ≤ b ∧ b ≤ 127) ∧ s.contigs.length < 2 ^ 32 ∧
      ∀ c ∈ s.contigs, (∀ b ∈ c.name, 1 ≤ b ∧ b ≤ 127) ∧ c.segs.length < 2 ^ 32 ∧
        ∀ g ∈ c.segs, g.group < 2 ^ 32 ∧ g.inGroup + 1 < 2 ^ 31 ∧ g.rawLen < 2 ^ 32) :
    ∃ lb, storeLoad segSize k 50 ss = .ok { samples := ss, loaded := ss.length, lastBatch := lb } := by
  apply storeLoad_ok segSize k 50 ss (by decide) (by decide) (by simpa using hpred) (by simpa using hlen)
  intro s hs
  have h := hok s hs
  refine ⟨h.1, by simpa using h.2.1, ?_⟩
  intro c hc
  have hc' := h.2.2 c hc
  refine ⟨hc'.1, by simpa using hc'.2.1, ?_⟩
  intro g hg
  simpa [SegOk] using hc'.2.2 g hg

example : ∃ lb, storeLoad 60000 31 50
    (List.replicate 120 ⟨[83], [⟨[99, 49, 32, 120], [⟨93, 0, false, 60031⟩]⟩, ⟨[99, 50, 32, 120], [⟨93, 1, true, 7⟩]⟩]⟩)
    = .ok { samples := List.replicate 120 ⟨[83], [⟨[99, 49, 32, 120], [⟨93, 0, false, 60031⟩]⟩, ⟨[99, 50, 32, 120], [⟨93, 1, true, 7⟩]⟩]⟩,
            loaded := (List.replicate 120 (⟨[83], [⟨[99, 49, 32, 120], [⟨93, 0, false, 60031⟩]⟩, ⟨[99, 50, 32, 120], [⟨93, 1, true, 7⟩]⟩]⟩ : Sample)).length,
            lastBatch := lb } :=
  batches_roundtrip 60000 31 _ (by decide) (by simp) (by
    intro s hs
    rw [List.eq_of_mem_replicate hs]
    decide)

/-- Registration: the sample list is the list of sample names in first-seen order, and the
    contig list of every sample is the list of contig names pushed for it, in push order (a
    repeated (sample, contig) pair is ignored). Stated for non-empty sample names (with an empty
    one the code substitutes the first word of the contig name, `storedName`). -/
theorem register_order (pairs : List (Name × Name)) (h : ∀ p ∈ pairs, p.1 ≠ []) :
    ∃ ss, registerAll [] pairs = some ss ∧
      samplesList ss = firstSeen (pairs.map Prod.fst) ∧
      ∀ s, (contigList ss s).getD [] = firstSeen ((pairs.filter (fun p => p.1 = s)).map Prod.snd) := by
  refine ⟨registerAllStored [] pairs, registerAll_nonempty pairs [] h, ?_, ?_⟩
  · rw [samplesList_registerAllStored]; exact accSeen_nil _
  · intro s
    have := contigsOf_registerAllStored pairs s []
    simp only [contigsOf] at this
    rw [this]
    exact accSeen_nil _

-- B/x, A/y, B/z, A/y again, B/x again: samples [B, A]; B ↦ [x, z]; A ↦ [y]
example : ∃ ss, registerAll [] [([66], [120]), ([65], [121]), ([66], [122]), ([65], [121]), ([66], [120])] = some ss ∧
    samplesList ss = [[66], [65]] ∧ (contigList ss [66]).getD [] = [[120], [122]] ∧ (contigList ss [65]).getD [] = [[121]] := by
  obtain ⟨ss, h1, h2, h3⟩ := register_order
    [([66], [120]), ([65], [121]), ([66], [122]), ([65], [121]), ([66], [120])] (by decide)
  exact ⟨ss, h1, by rw [h2]; decide, by rw [h3]; decide, by rw [h3]; decide⟩

/-! ### constants regenerated from the source (translator tie) -/

/-- The thresholds, prefixes and masks that `tools/gen_tables.py` evaluates from the constant
    expressions in `impl CollectionVarInt` (collection.rs) on every run are the ones the model of
    the prefix varint hard-wires; a change of any of them in the source breaks this obligation. -/
theorem collvarint_constants_pinned :
    Ragc.Gen.collThr = [Ragc.CollVarint.THR1, Ragc.CollVarint.THR2, Ragc.CollVarint.THR3, Ragc.CollVarint.THR4] ∧
    Ragc.Gen.collPref = [0, 0x80, 0xC0, 0xE0, 0xF0] ∧
    Ragc.Gen.collMask = [0x80, 0xC0, 0xE0, 0xF0] := by decide

end Ragc.Props.C03
