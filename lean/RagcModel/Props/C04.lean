import RagcModel.Lemmas.Pipeline
import RagcModel.Gen.Tables
import RagcModel.Lemmas.Canon
/-!
C04 — archive bytes do not depend on threads or timing: the *batches* that worker 0 classifies are
the same, as sets, in every execution of the pipeline.

Model: `Model/Pipeline.lean`. Every pushed item carries a ghost round index `rd` (contigs of round
`r`: `2r`, tokens of round `r`: `2r+1`); no guard reads it.

Vocabulary (`Lemmas/Pipeline.lean`):
* `sepFrom x p`, `PrioSep prog` — for items `x` pushed before `y` with `rd x < rd y`: `taskLt y x`
  (`x` is strictly greater in `ContigTask::cmp`), or a `waitEmpty` lies between them (decidable);
* `RdOk N prog` — the round indices are consistent with the token runs: non-decreasing along the
  push sequence, even exactly for contigs, `N` tokens with `rd = 2r+1` for every `r < rounds prog`
  and no item with `rd ≥ 2·rounds prog`;
* `WellFormedProgram N cap prog` — see `Props/C05.lean`;
* `roundContigs prog r` — the sequence numbers of the contigs pushed in round `r`.

What is NOT proved here: that the archive is a function of the batches as sets
(`F_order_insensitive`); that is exercised by the byte-identity runs of the harness.
-/
namespace Ragc.Props.C04
open Ragc.Pipeline

/-! ### `PrioSep` means what it says -/

/-- The recursive (decidable) definition of `PrioSep` is the statement "for items `x` pushed before
`y` with `rd x < rd y`: `taskLt y x`, or a `waitEmpty` lies between them in the program". -/
theorem prioSep_spec (prog : List Instr) :
    PrioSep prog ↔ ∀ a x b y c, prog = a ++ Instr.push x :: (b ++ Instr.push y :: c) → x.rd < y.rd →
      taskLt y x ∨ Instr.waitEmpty ∈ b :=
  prioSep_iff_splits prog

example : ¬ PrioSep [.push (.contig 0 5 1 1 0), .push (.token 0 7 1)] := by decide
example : PrioSep [.push (.contig 0 5 1 1 0), .waitEmpty, .push (.token 0 7 1)] := by decide

/-! ### `ContigTask::cmp` as translated from the source -/

/-- The value of the struct field `name` of `ContigTask` in the model's `Item`. -/
def fieldOf (name : String) (x : Item) : Option Int :=
  if name = "sample_priority" then some x.prio
  else if name = "cost" then some (x.cost : Int)
  else if name = "sequence" then some (x.seq : Int)
  else none

/-- `a < b` in the lexicographic chain of comparisons `keys` (`(field, reversed)`, as
`tools/gen_tables.py` reads them from `impl Ord for ContigTask`): `self.f.cmp(&other.f)` for a plain
key, `other.f.cmp(&self.f)` for a reversed one, `then_with` / `match … Equal =>` between them. A field
the model does not know makes the relation `False`, which `taskCmp_translated` would not survive. -/
def chainLt : List (String × Bool) → Item → Item → Prop
  | [], _, _ => False
  | (f, rev) :: rest, a, b =>
    match fieldOf f a, fieldOf f b with
    | some va, some vb =>
      (if rev then vb < va else va < vb) ∨ (va = vb ∧ chainLt rest a b)
    | _, _ => False

/-- The comparison chain that the translator extracts from `/repo`'s `impl Ord for ContigTask` on
this run is the one the pipeline model's `taskLt` uses. -/
theorem taskCmpKeys_pinned :
    Ragc.Gen.taskCmpKeys = [("sample_priority", false), ("cost", false), ("sequence", true)] := rfl

/-- … and, read as a lexicographic order, it IS `taskLt`, for all items. -/
theorem taskCmp_translated (a b : Item) : chainLt Ragc.Gen.taskCmpKeys a b ↔ taskLt a b := by
  rw [taskCmpKeys_pinned]
  simp only [chainLt, fieldOf, taskLt]
  simp
  omega

/-! ### What a pull returns -/

/-- In every reachable state of a `PrioSep` program, the item a worker pulls has minimal `rd` among
the queued items, nothing with a smaller `rd` is still to be pushed (so everything with a smaller
`rd` has already been pushed and pulled), and it belongs to the round that is being collected
(`r = number of closed batches`): it is a contig of round `r` or a token of round `r`. -/
theorem pull_min_rd (prog : List Instr) (N cap : Nat) (s s' : State) (w : Nat) (x : Item)
    (hsep : PrioSep prog) (hwf : WellFormedProgram N cap prog) (hok : RdOk N prog)
    (hr : Reachable false prog cap N s) (hstep : step? false s (.pull w x) = some s') :
    (∀ y ∈ s.queue, x.rd ≤ y.rd) ∧ (∀ y ∈ items s.prog, x.rd ≤ y.rd) ∧
      (x.rd = 2 * s.batches.length ∨ x.rd = 2 * s.batches.length + 1) := by
  obtain ⟨h5, h4⟩ := inv45_reachable hwf.1 (fun _ => hwf.2) hsep hok hr
  cases stepI_of_step? hstep with
  | pull hw hm =>
    obtain ⟨a, b, c, d⟩ := inv4_pull hok h5 h4 hw hm
    exact ⟨a, b, by omega⟩

/-! ### Who opens barrier 1 -/

/-- Round accounting per round: with `r` batches closed, the workers waiting at barrier 1 plus the
round-`r` tokens still queued or still to be pushed are exactly the `N` tokens of round `r`
(so every worker at barrier 1 holds a round-`r` token). When barrier 1 opens, all `N` round-`r`
tokens have been pulled, nothing of round `≤ r` is left anywhere, and the batch that is closed is a
permutation of the contigs of round `r`. -/
theorem round_tokens (prog : List Instr) (N cap : Nat) (s : State)
    (hsep : PrioSep prog) (hwf : WellFormedProgram N cap prog) (hok : RdOk N prog)
    (hr : Reachable false prog cap N s) :
    (s.workers.count (.bar 1) + s.queue.countP (fun y => y.rd == 2 * s.batches.length + 1)
        + (items s.prog).countP (fun y => y.rd == 2 * s.batches.length + 1)
        = if s.batches.length < rounds prog then N else 0) ∧
    (∀ s', step? false s (.release 1) = some s' →
        s.batches.length < rounds prog ∧
        (∀ y, y ∈ s.queue ∨ y ∈ items s.prog → 2 * (s.batches.length + 1) ≤ y.rd) ∧
        s.buffered.Perm (roundContigs prog s.batches.length)) := by
  obtain ⟨h5, h4⟩ := inv45_reachable hwf.1 (fun _ => hwf.2) hsep hok hr
  constructor
  · have := h4.accT
    rw [sumBy_bar1W, sumBy_tokRW, sumBy_tokRW, sumBy_tokRW, ← sumBy_tokRW _ (items prog), hok.runs] at this
    exact this
  · intro s' hs
    have hI := stepI_of_step? hs
    have h4' := inv4_step hwf.1.npos hok h5 h4 hI
    cases hI with
    | release1 hne hall =>
      refine ⟨?_, ?_, ?_⟩
      · have := h4'.rle; simp at this; omega
      · intro y hy; have := h4'.low y hy; simpa using this
      · rw [List.perm_iff_count]; intro c
        have := h4'.done s.batches.length (by simp) c
        simp at this
        rw [this, roundContigs, sumBy_ctgRW hok.parity]
    | release h2 _ _ _ => omega

/-! ### The main theorem -/

/-- For EVERY execution (any interleaving of the producer and the workers, any `N ≥ 1`, any
capacity admitting each item): when the pipeline has terminated, the number of batches is the
number of token rounds, batch `r` is a permutation of the contigs pushed in round `r`, and nothing
was buffered after the last round. -/
theorem batches_schedule_independent (prog : List Instr) (N cap : Nat) (s : State)
    (hsep : PrioSep prog) (hwf : WellFormedProgram N cap prog) (hok : RdOk N prog)
    (hr : Reachable false prog cap N s) (hf : Final s) :
    s.batches.length = rounds prog ∧
      (∀ r (h : r < s.batches.length), (s.batches[r]).Perm (roundContigs prog r)) ∧ s.buffered = [] := by
  obtain ⟨h5, h4⟩ := inv45_reachable hwf.1 (fun _ => hwf.2) hsep hok hr
  obtain ⟨a, b, c⟩ := inv45_final hwf.1.npos hok h5 h4 hf
  exact ⟨b, c, a⟩

/-- The same with the repaired push guard (no size hypothesis). -/
theorem batches_schedule_independent_fixed (prog : List Instr) (N cap : Nat) (s : State)
    (hsep : PrioSep prog) (hwf : WellFormedShape N prog) (hok : RdOk N prog)
    (hr : Reachable true prog cap N s) (hf : Final s) :
    s.batches.length = rounds prog ∧
      (∀ r (h : r < s.batches.length), (s.batches[r]).Perm (roundContigs prog r)) ∧ s.buffered = [] := by
  obtain ⟨h5, h4⟩ := inv45_reachable hwf (fun h => by simp at h) hsep hok hr
  obtain ⟨a, b, c⟩ := inv45_final hwf.npos hok h5 h4 hf
  exact ⟨b, c, a⟩

/-- Two terminated executions of the same program — possibly with different worker counts being
impossible here since `N` is part of the program (token runs), but with arbitrary different
capacities and interleavings — have the same batches up to order inside each batch. -/
theorem two_runs_same_batches (prog : List Instr) (N cap₁ cap₂ : Nat) (s₁ s₂ : State)
    (hsep : PrioSep prog) (hwf₁ : WellFormedProgram N cap₁ prog) (hwf₂ : WellFormedProgram N cap₂ prog)
    (hok : RdOk N prog)
    (hr₁ : Reachable false prog cap₁ N s₁) (hf₁ : Final s₁)
    (hr₂ : Reachable false prog cap₂ N s₂) (hf₂ : Final s₂) :
    s₁.batches.length = s₂.batches.length ∧
      ∀ r (h₁ : r < s₁.batches.length) (h₂ : r < s₂.batches.length), (s₁.batches[r]).Perm (s₂.batches[r]) := by
  obtain ⟨a₁, b₁, _⟩ := batches_schedule_independent prog N cap₁ s₁ hsep hwf₁ hok hr₁ hf₁
  obtain ⟨a₂, b₂, _⟩ := batches_schedule_independent prog N cap₂ s₂ hsep hwf₂ hok hr₂ hf₂
  exact ⟨by omega, fun r h₁ h₂ => (b₁ r h₁).trans (b₂ r h₂).symm⟩

/-! ### From batches to what is classified: arrival order inside a batch is irrelevant

`classify_raw_segments_at_barrier` drains the per-worker buffers and SORTS the result
(`Gen.classifySortsDrained`, `Canon.rawLe_translated`) before classifying it sequentially. So the
state after all rounds is a fold of an (unmodelled, arbitrary) function `F` over the sorted batches,
and it is the same in every execution. What remains outside is only that `F` itself is a
function — i.e. that classification and the store phase read nothing but their inputs (the ZSTD
context history of D-class changes such as `C04-sticky-zstd-ldm` is exactly such a hidden input;
that is what the byte-identity runs and C12's context-history cases are for). -/

/-- the translator saw `raw_segs.sort()` as the first statement reading the drained vector -/
theorem classify_sorts_drained : Ragc.Gen.classifySortsDrained = true := rfl

open Ragc.Canon in
/-- **Schedule independence carried through classification.** Two terminated executions of the same
program (any capacities, any interleavings); `segsOf c` are the raw segments contig `c` is cut into
(a function of the contig and the splitters, C10/C11); `d₁`, `d₂` are what the barrier rounds of the
two runs drained — any interleaving of the workers' appends, i.e. any permutation of the segments of
the batch's contigs. If no two segments of a round share `(sample, contig, place)`, the state after
all rounds is the same, whatever `F` (classification + store) computes from a sorted batch. -/
theorem classified_state_schedule_independent {σ : Type} (F : σ → List RawSeg → σ) (init : σ)
    (segsOf : Nat → List RawSeg)
    (prog : List Instr) (N cap₁ cap₂ : Nat) (s₁ s₂ : State)
    (hsep : PrioSep prog) (hwf₁ : WellFormedProgram N cap₁ prog) (hwf₂ : WellFormedProgram N cap₂ prog)
    (hok : RdOk N prog)
    (hr₁ : Reachable false prog cap₁ N s₁) (hf₁ : Final s₁)
    (hr₂ : Reachable false prog cap₂ N s₂) (hf₂ : Final s₂)
    (d₁ d₂ : List (List RawSeg))
    (hl₁ : d₁.length = s₁.batches.length) (hl₂ : d₂.length = s₂.batches.length)
    (hd₁ : ∀ r (h : r < d₁.length) (h' : r < s₁.batches.length), (d₁[r]).Perm ((s₁.batches[r]).flatMap segsOf))
    (hd₂ : ∀ r (h : r < d₂.length) (h' : r < s₂.batches.length), (d₂[r]).Perm ((s₂.batches[r]).flatMap segsOf))
    (hk : ∀ r, KeysDistinct ((roundContigs prog r).flatMap segsOf)) :
    (d₁.map canon).foldl F init = (d₂.map canon).foldl F init := by
  obtain ⟨a₁, b₁, _⟩ := batches_schedule_independent prog N cap₁ s₁ hsep hwf₁ hok hr₁ hf₁
  obtain ⟨a₂, b₂, _⟩ := batches_schedule_independent prog N cap₂ s₂ hsep hwf₂ hok hr₂ hf₂
  apply rounds_order_insensitive F d₁ d₂ init (by omega)
  intro r h₁ h₂
  have p₁ := (hd₁ r h₁ (by omega)).trans ((b₁ r (by omega)).flatMap_right segsOf)
  have p₂ := (hd₂ r h₂ (by omega)).trans ((b₂ r (by omega)).flatMap_right segsOf)
  refine ⟨p₁.trans p₂.symm, ?_⟩
  intro a ha b hb hab
  exact hk r a (p₁.subset ha) b (p₁.subset hb) hab

/-! ### The programs the CLI generates satisfy the hypotheses -/

/-- For all inputs (any number of samples and contigs with
`#samples + #contigs < 2^31 - 1 - 1 000 000`, so that priorities stay above the 1 000 000 of the
`sync_and_flush`/final tokens), any `N ≥ 1` and any pack size, the generated program is well formed
(C05), its round indices are consistent, and the number of rounds is the number of token runs. -/
theorem programOf_wellFormed (single : Bool) (N pack : Nat) (samples : List (List Nat))
    (hN : 1 ≤ N) (hw : weight samples < 2146483647) :
    WellFormedShape N (programOf single N pack samples) ∧ RdOk N (programOf single N pack samples) := by
  obtain ⟨body, R, hi', hb, hs⟩ := programOf_scan (pack := pack) single hN samples hw
  rw [hb]
  exact ⟨scan_wellFormedShape hN hs, (scan_rdOk hN hs).1⟩

/-- Multi-file mode: the first file's contigs are separated from everything later by `drain`'s
wait, the `sync_and_flush` tokens by its own wait, and the final tokens (priority 1 000 000) are
below every contig priority. -/
theorem multi_file_prioSep (N pack : Nat) (samples : List (List Nat))
    (hN : 1 ≤ N) (hw : weight samples < 2146483647) : PrioSep (programOf false N pack samples) := by
  obtain ⟨body, R, hi', hb, hs⟩ := programOf_scan (pack := pack) false hN samples hw
  rw [hb]; exact prioSep_append_close (scan_prioSep hs)

/-- Single-file mode with the current rule (tokens of a pack boundary carry the priority of the
contigs pushed so far and cost 0; later contigs get a strictly smaller priority from the one
decreasing counter): `PrioSep` holds for every input. -/
theorem single_file_prioSep (N pack : Nat) (samples : List (List Nat))
    (hN : 1 ≤ N) (hw : weight samples < 2146483647) : PrioSep (programOf true N pack samples) := by
  obtain ⟨body, R, hi', hb, hs⟩ := programOf_scan (pack := pack) true hN samples hw
  rw [hb]; exact prioSep_append_close (scan_prioSep hs)

/-- Hence: every terminated execution of the pipeline on the program of a `create` run closes the
same batches, for every mode, input, `N ≥ 1`, pack size, capacity `≥` the largest contig and
interleaving. -/
theorem create_batches_schedule_independent (single : Bool) (N pack cap : Nat) (samples : List (List Nat))
    (hN : 1 ≤ N) (hw : weight samples < 2146483647)
    (hcap : ∀ x ∈ items (programOf single N pack samples), x.size ≤ cap)
    (s : State) (hr : Reachable false (programOf single N pack samples) cap N s) (hf : Final s) :
    s.batches.length = rounds (programOf single N pack samples) ∧
      (∀ r (h : r < s.batches.length), (s.batches[r]).Perm (roundContigs (programOf single N pack samples) r)) ∧
      s.buffered = [] := by
  obtain ⟨hwf, hok⟩ := programOf_wellFormed single N pack samples hN hw
  have hsep : PrioSep (programOf single N pack samples) := by
    cases single
    · exact multi_file_prioSep N pack samples hN hw
    · exact single_file_prioSep N pack samples hN hw
  exact batches_schedule_independent _ N cap s hsep ⟨hwf, hcap⟩ hok hr hf

example : programOf true 2 2 [[5, 3, 0, 7]] =
    [.push (.contig 0 2147483647 5 5 0), .push (.token 1 2147483647 1), .push (.token 1 2147483647 1),
     .push (.contig 1 2147483646 3 3 2), .push (.contig 2 2147483646 7 7 2),
     .push (.token 0 1000000 3), .push (.token 0 1000000 3), .close] := by decide
example : rounds (programOf true 2 2 [[5, 3, 0, 7]]) = 2 ∧ roundContigs (programOf true 2 2 [[5, 3, 0, 7]]) 1 = [1, 2] := by decide
example : PrioSep (programOf true 2 2 [[5, 3, 0, 7]]) := by decide
example : PrioSep (programOf false 2 50 [[5, 3], [4], [2, 2]]) := by decide

/-- a complete execution of the 2-worker program above (hypotheses of the main theorem are
satisfiable: a reachable final state exists, and its batches are the rounds) -/
def demoRun : List Event :=
  [.prod, .pull 1 (.contig 0 2147483647 5 5 0), .prod, .prod, .pull 0 (.token 1 2147483647 1), .prod,
   .buffer 1, .pull 1 (.token 1 2147483647 1),
   .release 1, .advance 0, .advance 1, .release 2, .advance 0, .advance 1,
   .release 3, .advance 0, .advance 1, .release 4, .advance 1, .pull 1 (.contig 1 2147483646 3 3 2),
   .prod, .advance 0, .pull 0 (.contig 2 2147483646 7 7 2), .prod, .prod, .prod, .buffer 0, .buffer 1,
   .pull 1 (.token 0 1000000 3), .pull 0 (.token 0 1000000 3),
   .release 1, .advance 0, .advance 1, .release 2, .advance 0, .advance 1,
   .release 3, .advance 0, .advance 1, .release 4, .advance 0, .advance 1, .exit 1, .exit 0]

set_option maxRecDepth 20000 in
example : ∃ s, Reachable false (programOf true 2 2 [[5, 3, 0, 7]]) 8 2 s ∧ Final s ∧ s.batches = [[0], [2, 1]] := by
  refine ⟨{ prog := [], queue := [], closed := true, cap := 8, workers := [.exited, .exited], buffered := [],
            batches := [[0], [2, 1]] }, run_reachable (es := demoRun) .init (by decide), by decide, rfl⟩

/-! ### Defect D4 (fixed in 5761cef): the old single-file rule violates `PrioSep` and the batches
depend on the schedule -/

/-- the program the OLD rule (`pushContigOld`: token priority `new + 1_000_000`) generates for one
sample with three 5-base contigs, 2 workers, pack size 2 -/
def oldProg : List Instr :=
  (pushContigOld 2 2 { Gen.init with nextPrio := 2147483646 } 2147483647 5).1 ++
  (pushContigOld 2 2 (pushContigOld 2 2 { Gen.init with nextPrio := 2147483646 } 2147483647 5).2.1 2147483647 5).1 ++
  [.push (.contig 2 2147483646 5 5 2), .push (.token 0 1000000 3), .push (.token 0 1000000 3), .close]

example : oldProg =
    [.push (.contig 0 2147483647 5 5 0), .push (.token 1 2148483646 1), .push (.token 1 2148483646 1),
     .push (.contig 1 2147483646 5 5 2), .push (.contig 2 2147483646 5 5 2),
     .push (.token 0 1000000 3), .push (.token 0 1000000 3), .close] := by decide

def roundEvs : List Event :=
  [.release 1, .advance 0, .advance 1, .release 2, .advance 0, .advance 1,
   .release 3, .advance 0, .advance 1, .release 4, .advance 0, .advance 1]

/-- the producer runs ahead: both tokens overtake contig 0 -/
def oldRunA : List Event :=
  List.replicate 8 .prod ++
  [.pull 0 (.token 1 2148483646 1), .pull 1 (.token 1 2148483646 1)] ++ roundEvs ++
  [.pull 0 (.contig 0 2147483647 5 5 0), .buffer 0, .pull 0 (.contig 1 2147483646 5 5 2), .buffer 0,
   .pull 1 (.contig 2 2147483646 5 5 2), .buffer 1,
   .pull 0 (.token 0 1000000 3), .pull 1 (.token 0 1000000 3)] ++ roundEvs ++ [.exit 0, .exit 1]

/-- a worker takes contig 0 before the tokens are pushed -/
def oldRunB : List Event :=
  [.prod, .pull 0 (.contig 0 2147483647 5 5 0), .buffer 0] ++ List.replicate 7 .prod ++
  [.pull 0 (.token 1 2148483646 1), .pull 1 (.token 1 2148483646 1)] ++ roundEvs ++
  [.pull 0 (.contig 1 2147483646 5 5 2), .buffer 0,
   .pull 1 (.contig 2 2147483646 5 5 2), .buffer 1,
   .pull 0 (.token 0 1000000 3), .pull 1 (.token 0 1000000 3)] ++ roundEvs ++ [.exit 0, .exit 1]

def oldFinal (b : List (List Nat)) : State :=
  { prog := [], queue := [], closed := true, cap := 100, workers := [.exited, .exited], buffered := [], batches := b }

set_option maxRecDepth 20000 in
/-- Negation witness: the old rule's program is well formed but not `PrioSep`, and two executions
of it terminate with different batches (`[[], [0,1,2]]` vs `[[0], [1,2]]`): the archive contents
depended on timing. -/
theorem old_rule_schedule_dependent :
    ¬ PrioSep oldProg ∧
    Reachable false oldProg 100 2 (oldFinal [[], [0, 1, 2]]) ∧ Final (oldFinal [[], [0, 1, 2]]) ∧
    Reachable false oldProg 100 2 (oldFinal [[0], [1, 2]]) ∧ Final (oldFinal [[0], [1, 2]]) := by
  refine ⟨by decide, ?_, by decide, ?_, by decide⟩
  · exact run_reachable (es := oldRunA) .init (by decide)
  · exact run_reachable (es := oldRunB) .init (by decide)

end Ragc.Props.C04
