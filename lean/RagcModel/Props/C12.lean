import RagcModel.Lemmas.Tuple
import RagcModel.Lemmas.SegCompress
import RagcModel.Gen.Tables
/-!
C12 — segment and pack compression is lossless for every byte string.

Models: `Model/Tuple.lean` (tuple_packing.rs), `Model/SegCompress.lean` (segment_compression.rs
and the stored-part framing). ZSTD is a parameter pair `zc`/`zd` with the two facts the proofs use
stated as hypotheses:

* `hz  : ∀ l x, zd (zc l x) = some x`      (ZSTD round trip),
* `hne : ∀ l x, zc l x = [] → x = []`       (a ZSTD frame is never empty — it starts with a 4-byte
  magic number; needed because `decompress_segment_with_marker` answers `Ok(vec![])` for an empty
  input without calling ZSTD. Without it the statement is false for the model.)

Both are exercised on the real library by the C12 harness. The marker choice (repetitiveness test,
IEEE doubles) is universally quantified: no theorem mentions `Float`.
Only property theorems live here (helper lemmas are in `Lemmas/Tuple.lean`, `Lemmas/SegCompress.lean`).
-/
namespace Ragc.Props.C12
open Ragc.Tuple Ragc.SegCompress

/-- The constants the hand-written model hard-wires are the ones `tools/gen_tables.py` reads from
the current sources (dispatch of `bytes_to_tuples` / `tuples_to_bytes`, the two `0x10` markers, the
repetitiveness threshold and lag range). A change in the code breaks this obligation. -/
theorem constants_pinned :
    Ragc.Gen.tuplePackCases = [(4, 4, 4), (6, 3, 6), (16, 2, 16)] ∧
    Ragc.Gen.tupleUnpackCases = [(2, 2, 16), (3, 3, 6), (4, 4, 4)] ∧
    Ragc.Gen.tupleVerbatimMarker = 0x10 ∧ Ragc.Gen.tupleEmptyMarker = 0x10 ∧
    Ragc.Gen.segRepThreshold = (5, 10) ∧ Ragc.Gen.segRepOffsets = (4, 32) := by
  decide

/-- Why the table is sound: for every (bound, N, MAX) a full tuple fits one byte, every symbol
below the bound is a base-MAX digit, N fits the marker's high nibble next to widths 0/1, and the
decoder dispatches width N to the same base. -/
theorem tuple_tables_sound :
    ∀ c ∈ Ragc.Gen.tuplePackCases,
      c.2.2 ^ c.2.1 ≤ 256 ∧ c.1 ≤ c.2.2 ∧ 2 ≤ c.2.1 ∧ c.2.1 < 16 ∧
      (c.2.1, c.2.1, c.2.2) ∈ Ragc.Gen.tupleUnpackCases := by
  decide

example : (4, 4, 4) ∈ Ragc.Gen.tuplePackCases := by decide

/-- A ZSTD stand-in for the non-vacuity examples: the frame is the level byte followed by the data. -/
private def zcToy : Nat → List Nat → List Nat := fun l x => l :: x
private def zdToy : List Nat → Option (List Nat) := fun c => some c.tail

/-- Tuple packing round trip for ALL byte strings: all four symbol ranges, every length including
0 and every remainder modulo the tuple width, and both arithmetic profiles of the decoder. -/
theorem tuple_roundtrip_mode (checked : Bool) (bs : List Nat) :
    tuplesToBytesMode checked (bytesToTuples bs) = some bs :=
  tuplesToBytesMode_bytesToTuples checked bs

example : tuplesToBytesMode true (bytesToTuples [0, 1, 2, 3, 3, 2, 1]) = some [0, 1, 2, 3, 3, 2, 1] :=
  tuple_roundtrip_mode true _

/-- `tuples_to_bytes (bytes_to_tuples bs) = bs` for every byte string (release arithmetic, the
profile that ships). The byte bound is not even needed by the proof. -/
theorem tuple_roundtrip (bs : List Nat) (_h : ∀ b ∈ bs, b < 256) :
    tuplesToBytes (bytesToTuples bs) = some bs :=
  tuplesToBytesMode_bytesToTuples false bs

-- one witness per range and a non-zero remainder in each packed range
example : tuplesToBytes (bytesToTuples [3, 0, 1, 2, 3]) = some [3, 0, 1, 2, 3] :=
  tuple_roundtrip _ (by decide)
example : tuplesToBytes (bytesToTuples [5, 4, 0, 1]) = some [5, 4, 0, 1] :=
  tuple_roundtrip _ (by decide)
example : tuplesToBytes (bytesToTuples [15, 6, 9]) = some [15, 6, 9] :=
  tuple_roundtrip _ (by decide)
example : tuplesToBytes (bytesToTuples [16, 255, 0]) = some [16, 255, 0] :=
  tuple_roundtrip _ (by decide)
example : bytesToTuples [3, 0, 1, 2, 3] = [0xC6, 3, 0x41] := by
  simp [bytesToTuples, maxElem, packTuples, packLoop, tupleVal, markerByte]

/-- Tuple packing is injective (hence, with `tuple_roundtrip`, a bijection onto its image). -/
theorem tuple_injective (a b : List Nat) (h : bytesToTuples a = bytesToTuples b) : a = b := by
  have ha := tuplesToBytesMode_bytesToTuples false a
  have hb := tuplesToBytesMode_bytesToTuples false b
  rw [h, hb] at ha
  exact (Option.some.inj ha).symm

example : bytesToTuples [0, 0, 0, 0] ≠ bytesToTuples [0, 0, 0] := by
  simp [bytesToTuples, maxElem, packTuples, packLoop, tupleVal, markerByte]

/-- The packed form of a byte string is a byte string (`c as u8` never has to truncate: that is
part of `tuple_roundtrip`; this is the range statement). -/
theorem tuple_output_bytes (bs : List Nat) (h : ∀ b ∈ bs, b < 256) :
    ∀ t ∈ bytesToTuples bs, t < 256 :=
  bytesToTuples_lt bs h

example : ∀ t ∈ bytesToTuples [3, 3, 3, 3, 3], t < 256 := tuple_output_bytes _ (by decide)

/-- Overflow-checked and wrapping builds of `tuples_to_bytes` agree except on a lone marker byte … -/
theorem tuple_dec_profiles_agree (ts : List Nat) (h : ts.length ≠ 1) :
    tuplesToBytesMode true ts = tuplesToBytesMode false ts :=
  tuplesToBytesMode_eq_of_length_ne_one ts h

example : tuplesToBytesMode true [0x1b, 0x2f] = tuplesToBytesMode false [0x1b, 0x2f] :=
  tuple_dec_profiles_agree _ (by decide)

/-- … where they do differ (malformed input `[0x22]`: `1 - 2` in `usize` panics with overflow
checks, wraps to an empty result without). Not reachable from `bytes_to_tuples` output. -/
theorem tuple_dec_profiles_differ :
    tuplesToBytesMode true [0x22] = none ∧ tuplesToBytesMode false [0x22] = some [] := by
  decide

/-- Reference segments: for any ZSTD satisfying `hz`/`hne`, for EITHER outcome of the
repetitiveness test, `decompress_segment_with_marker` applied to the output of
`compress_reference_segment` (with the marker it returned) gives the input back. -/
theorem ref_roundtrip (zc : Nat → List Nat → List Nat) (zd : List Nat → Option (List Nat))
    (hz : ∀ l x, zd (zc l x) = some x) (hne : ∀ l x, zc l x = [] → x = [])
    (useTuples : Bool) (x : List Nat) :
    decompressWithMarker zd (compressRefWith zc useTuples x).1 (compressRefWith zc useTuples x).2
      = some x :=
  decompress_compressRefWith false zc zd hz hne useTuples x

example : decompressWithMarker zdToy (compressRefWith zcToy true [0, 1, 2, 3, 0]).1
    (compressRefWith zcToy true [0, 1, 2, 3, 0]).2 = some [0, 1, 2, 3, 0] :=
  ref_roundtrip zcToy zdToy (fun _ _ => rfl) (fun _ _ h => by simp [zcToy] at h) true _
example : compressRefWith zcToy true [0, 1, 2, 3, 0] = ([refTuplesLevel, 27, 0, 0x41], 1) := by
  simp [compressRefWith, zcToy, bytesToTuples, maxElem, packTuples, packLoop, tupleVal, markerByte]
example : compressRefWith zcToy false [0, 1, 2, 3, 0] = ([refPlainLevel, 0, 1, 2, 3, 0], 0) := by decide

/-- `ref_roundtrip` for a build with overflow checks (dev/test profile of `tuples_to_bytes`). -/
theorem ref_roundtrip_checked (zc : Nat → List Nat → List Nat) (zd : List Nat → Option (List Nat))
    (hz : ∀ l x, zd (zc l x) = some x) (hne : ∀ l x, zc l x = [] → x = [])
    (useTuples : Bool) (x : List Nat) :
    decompressWithMarkerMode (tuplesToBytesMode true) zd (compressRefWith zc useTuples x).1
      (compressRefWith zc useTuples x).2 = some x :=
  decompress_compressRefWith true zc zd hz hne useTuples x

example : decompressWithMarkerMode (tuplesToBytesMode true) zdToy (compressRefWith zcToy true [4, 5, 0]).1
    (compressRefWith zcToy true [4, 5, 0]).2 = some [4, 5, 0] :=
  ref_roundtrip_checked zcToy zdToy (fun _ _ => rfl) (fun _ _ h => by simp [zcToy] at h) true _

/-- The same with the decision procedure as a parameter (`compress_reference_segment` proper). -/
theorem ref_roundtrip_chooser (zc : Nat → List Nat → List Nat) (zd : List Nat → Option (List Nat))
    (hz : ∀ l x, zd (zc l x) = some x) (hne : ∀ l x, zc l x = [] → x = [])
    (chooser : List Nat → Bool) (x : List Nat) :
    decompressWithMarker zd (compressReferenceSegment zc chooser x).1
      (compressReferenceSegment zc chooser x).2 = some x :=
  decompress_compressRefWith false zc zd hz hne (chooser x) x

example : decompressWithMarker zdToy (compressReferenceSegment zcToy natChooser [0, 1, 0, 1, 0, 1]).1
    (compressReferenceSegment zcToy natChooser [0, 1, 0, 1, 0, 1]).2 = some [0, 1, 0, 1, 0, 1] :=
  ref_roundtrip_chooser zcToy zdToy (fun _ _ => rfl) (fun _ _ h => by simp [zcToy] at h) _ _

/-- Delta / raw packs: `decompress_segment_with_marker (compress_segment_configured x level) 0 = x`
for every level. -/
theorem pack_roundtrip (zc : Nat → List Nat → List Nat) (zd : List Nat → Option (List Nat))
    (hz : ∀ l x, zd (zc l x) = some x) (hne : ∀ l x, zc l x = [] → x = [])
    (level : Nat) (x : List Nat) :
    decompressWithMarker zd (compressSegmentConfigured zc level x) 0 = some x :=
  decompress_compressConfigured tuplesToBytes zc zd hz hne level x

example : decompressWithMarker zdToy (compressSegmentConfigured zcToy 17 [7, 255, 0, 255]) 0
    = some [7, 255, 0, 255] :=
  pack_roundtrip zcToy zdToy (fun _ _ => rfl) (fun _ _ h => by simp [zcToy] at h) 17 _

/-- Stored reference part (marker pushed, raw fallback with metadata 0 when compression does not
help) read back by the decompressor's framing returns the segment, for either marker choice. -/
theorem stored_ref_roundtrip (zc : Nat → List Nat → List Nat) (zd : List Nat → Option (List Nat))
    (hz : ∀ l x, zd (zc l x) = some x) (hne : ∀ l x, zc l x = [] → x = [])
    (chooser : List Nat → Bool) (x : List Nat) :
    unframePart zd (storeReference zc chooser x).1 (storeReference zc chooser x).2 = some x := by
  unfold storeReference
  exact unframe_frame zd _ _ x (ref_roundtrip_chooser zc zd hz hne chooser x)

-- both framings occur: the toy "compressor" never helps on plain data (raw, metadata 0) …
example : storeReference zcToy (fun _ => false) [0, 1, 2, 3, 0, 1, 2, 3, 0] = ([0, 1, 2, 3, 0, 1, 2, 3, 0], 0) := by
  decide
-- … and tuple packing does (compressed, metadata = raw length, marker 1 last)
example : storeReference zcToy (fun _ => true) [0, 1, 2, 3, 0, 1, 2, 3, 0] = ([refTuplesLevel, 27, 27, 0, 0x41, 1], 9) := by
  simp [storeReference, framePart, compressReferenceSegment, compressRefWith, zcToy,
    bytesToTuples, maxElem, packTuples, packLoop, tupleVal, markerByte]
example : unframePart zdToy [13, 27, 27, 0, 0x41, 1] 9 = some [0, 1, 2, 3, 0, 1, 2, 3, 0] := by decide

/-- Stored pack part read back by the decompressor's framing returns the pack. -/
theorem stored_pack_roundtrip (zc : Nat → List Nat → List Nat) (zd : List Nat → Option (List Nat))
    (hz : ∀ l x, zd (zc l x) = some x) (hne : ∀ l x, zc l x = [] → x = [])
    (level : Nat) (x : List Nat) :
    unframePart zd (storePack zc level x).1 (storePack zc level x).2 = some x := by
  unfold storePack
  exact unframe_frame zd _ _ x (pack_roundtrip zc zd hz hne level x)

example : unframePart zdToy (storePack zcToy 17 [9, 255]).1 (storePack zcToy 17 [9, 255]).2 = some [9, 255] :=
  stored_pack_roundtrip zcToy zdToy (fun _ _ => rfl) (fun _ _ h => by simp [zcToy] at h) 17 _

/-- Remark (defect D7, owned by C08): `Decompressor::get_reference_segment` ignores the part
metadata, so a reference that was stored raw (compression did not help) is not read back by that
path — here with a ZSTD stand-in that satisfies both hypotheses. `get_segment`'s path
(`unframePart`, theorem above) is the one extraction uses and is lossless. -/
theorem public_ref_reader_not_lossless :
    ∃ (zc : Nat → List Nat → List Nat) (zd : List Nat → Option (List Nat)),
      (∀ l x, zd (zc l x) = some x) ∧ (∀ l x, zc l x = [] → x = []) ∧
      (storeReference zc (fun _ => false) [1, 2, 3]).2 = 0 ∧
      unframeRefIgnoringMetadata zd (storeReference zc (fun _ => false) [1, 2, 3]).1 ≠ some [1, 2, 3] := by
  refine ⟨zcToy, zdToy, fun _ _ => rfl, fun _ _ h => by simp [zcToy] at h, by decide, by decide⟩

/-- The hypothesis `hne` cannot be dropped: a "ZSTD" that round-trips but emits an empty frame for
some non-empty input breaks `decompress_segment_with_marker` (it answers the empty segment). -/
theorem nonempty_frame_needed :
    ∃ (zc : Nat → List Nat → List Nat) (zd : List Nat → Option (List Nat)),
      (∀ l x, zd (zc l x) = some x) ∧
      decompressWithMarker zd (compressSegmentConfigured zc 17 [5]) 0 ≠ some [5] := by
  refine ⟨fun _ x => if x = [5] then [] else if x = [] then [5] else 0 :: x,
          fun c => if c = [] then some [5] else if c = [5] then some [] else some c.tail, ?_, by decide⟩
  intro l x
  by_cases h5 : x = [5]
  · simp [h5]
  · by_cases h0 : x = []
    · simp [h0]
    · simp [h5, h0]

end Ragc.Props.C12
