import RagcModel.Model.Kmer
/-!
C20 — canonical k-mer arithmetic is window-exact and strand-symmetric.
Only property theorems live here (helper lemmas are in `Lemmas/`).
-/
namespace Ragc.Props.C20
open Ragc.Kmer

/-- Complementing a base twice is the identity on the four bases. -/
theorem rcBase_involutive (b : UInt64) (h : b < 4) : rcBase (rcBase b) = b := by
  have h4 : b.toNat < 4 := by simpa using UInt64.lt_iff_toNat_lt.mp h
  have : b = 0 ∨ b = 1 ∨ b = 2 ∨ b = 3 := by
    rcases Nat.lt_or_ge b.toNat 1 with h0 | h0
    · left; apply UInt64.toNat_inj.mp; simp; omega
    rcases Nat.lt_or_ge b.toNat 2 with h1 | h1
    · right; left; apply UInt64.toNat_inj.mp; simp; omega
    rcases Nat.lt_or_ge b.toNat 3 with h2 | h2
    · right; right; left; apply UInt64.toNat_inj.mp; simp; omega
    · right; right; right; apply UInt64.toNat_inj.mp; simp; omega
  rcases this with rfl | rfl | rfl | rfl <;> decide

example : rcBase (rcBase 2) = 2 := rcBase_involutive 2 (by decide)

end Ragc.Props.C20
