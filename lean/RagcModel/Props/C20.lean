import RagcModel.Gen.Tables
import RagcModel.Model.Kmer
import RagcModel.Lemmas.Kmer
/-!
C20 — canonical k-mer arithmetic is window-exact and strand-symmetric.
Only property theorems live here (helper lemmas are in `Lemmas/Kmer.lean`).

Specification vocabulary (defined in `Lemmas/Kmer.lean`, all computable):
* `Valid w`        : every symbol of `w` is `≤ 3` (the code resets on `b > 3`);
* `packNat w`      : `Σ wᵢ · 4^(|w|-1-i)`;
* `packDir w`      : `UInt64.ofNat (packNat w · 4^(32-|w|))`, i.e. base `i` at bits `63-2i..62-2i`;
* `rcWindow w`     : `w.reverse.map (3 - ·)`;
* `canon w`        : `min (packDir w) (packDir (rcWindow w))`;
* `specWindows k l`: canonical values of the `k`-windows of `l` that consist of bases only.
-/
namespace Ragc.Props.C20
open Ragc.Kmer

/-! ### The specification itself is meaningful -/

/-- Complementing a base twice is the identity on the four bases. -/
theorem rcBase_involutive (b : UInt64) (h : b < 4) : rcBase (rcBase b) = b := by
  have h3 : b ≤ 3 := by
    have := UInt64.lt_iff_toNat_lt.mp h
    exact UInt64.le_iff_toNat_le.mpr (by simp at this ⊢; omega)
  rw [rcBase_eq h3, rcBase_eq (three_sub_le3 h3), three_sub_three_sub h3]

example : rcBase (rcBase 2) = 2 := rcBase_involutive 2 (by decide)

/-- `packDir` is the advertised number: no truncation happens for `|w| ≤ 32`. -/
theorem packDir_spec (w : List UInt64) (hv : Valid w) (hl : w.length ≤ 32) :
    (packDir w).toNat = packNat w * 4 ^ (32 - w.length) :=
  packDir_toNat hv hl

example : (packDir [1, 2, 3]).toNat = (1 * 16 + 2 * 4 + 3) * 4 ^ 29 := by decide

/-- Window-exact: two windows of the same length with the same packing are the same window. -/
theorem packDir_injective (v w : List UInt64) (hv : Valid v) (hw : Valid w)
    (hl : v.length = w.length) (h32 : w.length ≤ 32) (h : packDir v = packDir w) : v = w := by
  have h1 := packDir_toNat hv (by omega)
  have h2 := packDir_toNat hw h32
  rw [h, h2, hl] at h1
  exact packNat_inj hv hw hl (Nat.eq_of_mul_eq_mul_right (Nat.pow_pos (by decide)) h1).symm

example : packDir [0, 1] ≠ packDir [1, 0] := by decide

/-- Reverse-complementing a window twice gives the window back. -/
theorem rcWindow_involutive (w : List UInt64) (hv : Valid w) : rcWindow (rcWindow w) = w :=
  rcWindow_rcWindow hv

example : rcWindow [0, 0, 1, 3] = [0, 2, 3, 3] ∧ rcWindow [0, 2, 3, 3] = [0, 0, 1, 3] := by decide

/-! ### 4. Canonical value and direction flag of any state -/

theorem canonical_min (km : Kmer) : data km = min km.dir km.rc := rfl

theorem dir_flag_iff (km : Kmer) : isDirOriented km = true ↔ km.dir ≤ km.rc := by
  simp [isDirOriented]

example : data { dir := 7, rc := 5, cur := 1, k := 1 } = 5
    ∧ isDirOriented { dir := 7, rc := 5, cur := 1, k := 1 } = false := by decide

/-! ### 2. Sliding equals computing from scratch -/

/-- After sliding over *any* symbols `pre` (bases, `N`s, anything) followed by `k` bases `w`,
    the state is exactly the from-scratch packing of `w` and of its reverse complement. -/
theorem slide_eq_scratch (k : Nat) (h1 : 1 ≤ k) (h32 : k ≤ 32) (pre w : List UInt64)
    (hw : Valid w) (hl : w.length = k) :
    (feed (new k) (pre ++ w)).dir = packDir w
      ∧ (feed (new k) (pre ++ w)).rc = packDir (rcWindow w)
      ∧ (feed (new k) (pre ++ w)).cur = k
      ∧ isFull (feed (new k) (pre ++ w)) = true := by
  have h := inv_feed_window h1 h32 pre w hw hl
  refine ⟨h.dir, h.rc, by rw [h.cur, hl], ?_⟩
  rw [inv_isFull h]; simpa using hl

example : (feed (new 3) ([0, 1, 4, 2] ++ [2, 3, 1])).dir = packDir [2, 3, 1]
    ∧ (feed (new 3) ([0, 1, 4, 2] ++ [2, 3, 1])).rc = packDir [2, 0, 1] := by decide

/-- A non-ACGT symbol restarts the window: after it and `n < k` bases the state holds just
    those `n` bases and is not full. -/
theorem slide_restart (k : Nat) (h1 : 1 ≤ k) (h32 : k ≤ 32) (pre v : List UInt64) (bad : UInt64)
    (hbad : bad > 3) (hv : Valid v) (hl : v.length < k) :
    (feed (new k) (pre ++ bad :: v)).cur = v.length
      ∧ isFull (feed (new k) (pre ++ bad :: v)) = false
      ∧ (feed (new k) (pre ++ bad :: v)).dir = packDir v
      ∧ (feed (new k) (pre ++ bad :: v)).rc = packDir (rcWindow v) := by
  have h := inv_feed_partial h1 h32 pre v bad hbad hv (by omega)
  refine ⟨h.cur, ?_, h.dir, h.rc⟩
  rw [inv_isFull h]; simp; omega

example : (feed (new 3) ([0, 1, 2, 3] ++ 4 :: [2, 3])).cur = 2
    ∧ (feed (new 3) ([0, 1, 2, 3] ++ 4 :: [2, 3])).dir = packDir [2, 3] := by decide

/-- From the initial state: after `n ≤ k` bases the state holds those bases. -/
theorem slide_prefix (k : Nat) (h1 : 1 ≤ k) (h32 : k ≤ 32) (v : List UInt64)
    (hv : Valid v) (hl : v.length ≤ k) :
    (feed (new k) v).cur = v.length
      ∧ (feed (new k) v).dir = packDir v
      ∧ (feed (new k) v).rc = packDir (rcWindow v) := by
  have h := inv_feed_valid h1 h32 v (new k) [] (inv_new k) hv
  rw [List.nil_append, lastK_of_length_le hl] at h
  exact ⟨h.cur, h.dir, h.rc⟩

example : (feed (new 5) [3, 1]).cur = 2 ∧ (feed (new 5) [3, 1]).rc = packDir [2, 0] := by decide

/-- Sliding gives the smaller packing, and the flag says which one it is. -/
theorem slide_canonical (k : Nat) (h1 : 1 ≤ k) (h32 : k ≤ 32) (pre w : List UInt64)
    (hw : Valid w) (hl : w.length = k) :
    data (feed (new k) (pre ++ w)) = min (packDir w) (packDir (rcWindow w))
      ∧ (isDirOriented (feed (new k) (pre ++ w)) = true ↔ packDir w ≤ packDir (rcWindow w)) := by
  obtain ⟨hd, hr, _, _⟩ := slide_eq_scratch k h1 h32 pre w hw hl
  rw [canonical_min, dir_flag_iff, hd, hr]
  exact ⟨rfl, Iff.rfl⟩

example : data (feed (new 2) ([1, 9] ++ [3, 1])) = packDir [2, 0]
    ∧ isDirOriented (feed (new 2) ([1, 9] ++ [3, 1])) = false := by decide

/-! ### 3. No addition wraps, no shift amount reaches 64 (shared with C18) -/

/-- In every state reachable by `feed` from `new k`, inserting a base performs no wrapping
    addition (`toNat` of the `UInt64` sum is the sum of the `toNat`s), `64 - 2k` and
    `64 - 2(cur+1)` do not underflow, and every shift amount is `< 64`. -/
theorem no_overflow (k : Nat) (h1 : 1 ≤ k) (h32 : k ≤ 32) (xs : List UInt64) (s : UInt64)
    (hs : s ≤ 3) :
    let km := feed (new k) xs
    km.k = k ∧ km.cur ≤ k ∧ 2 * k ≤ 64 ∧ shiftOf k < 64
      ∧ ((km.rc >>> 2) + (rcBase s <<< 62)).toNat = (km.rc >>> 2).toNat + (rcBase s <<< 62).toNat
      ∧ (km.cur = km.k →
          ((km.dir <<< 2) + (s <<< UInt64.ofNat (shiftOf km.k))).toNat
            = (km.dir <<< 2).toNat + (s <<< UInt64.ofNat (shiftOf km.k)).toNat)
      ∧ (km.cur ≠ km.k →
          2 * (km.cur + 1) ≤ 64 ∧ 64 - 2 * (km.cur + 1) < 64
            ∧ (km.dir + (s <<< UInt64.ofNat (64 - 2 * (km.cur + 1)))).toNat
              = km.dir.toNat + (s <<< UInt64.ofNat (64 - 2 * (km.cur + 1))).toNat) := by
  intro km
  obtain ⟨u, h⟩ : ∃ u, Inv k km u := inv_feed_exists h1 h32 xs (new k) [] (inv_new k)
  clear_value km
  have hlen := h.len
  have hc : 3 - s ≤ 3 := three_sub_le3 hs
  have hvr := rcWindow_valid h.valid
  refine ⟨h.hk, by rw [h.cur]; exact hlen, by omega, by unfold shiftOf; omega, ?_, ?_, ?_⟩
  · rw [UInt64.toNat_add]
    apply Nat.mod_eq_of_lt
    show (km.rc >>> 2).toNat + _ < _
    rw [h.rc, rcBase_eq hs]
    by_cases hfull : u.length = 32
    · rcases List.eq_nil_or_concat (rcWindow u) with h0 | ⟨r, e, hre⟩
      · have := rcWindow_length u
        rw [h0] at this; simp at this; omega
      · rw [List.concat_eq_append] at hre
        rw [hre]
        exact (packDir_rc_step32_aux (by rw [← hre]; exact hvr)
          (by rw [← hre, rcWindow_length]; exact hfull) hc).2
    · exact (packDir_rc_step_aux hvr (by rw [rcWindow_length]; omega) hc).2
  · intro hcur
    rw [UInt64.toNat_add]
    apply Nat.mod_eq_of_lt
    show (km.dir <<< 2).toNat + (s <<< UInt64.ofNat (shiftOf km.k)).toNat < _
    have hfull : u.length = k := by have := h.cur; have := h.hk; omega
    rw [h.dir, h.hk]
    cases u with
    | nil => simp at hfull; omega
    | cons d u' => exact (packDir_slide_aux h.valid hfull h32 hs).2
  · intro hcur
    have hlt : u.length < k := by
      have := h.cur; have := h.hk; omega
    have hcu : km.cur = u.length := h.cur
    refine ⟨by omega, by omega, ?_⟩
    rw [UInt64.toNat_add]
    apply Nat.mod_eq_of_lt
    show km.dir.toNat + (s <<< UInt64.ofNat (64 - 2 * (km.cur + 1))).toNat < _
    rw [h.dir, hcu]
    exact (packDir_grow_aux h.valid (by omega) hs).2

example : ((feed (new 32) [3, 3, 3]).dir + ((3 : UInt64) <<< UInt64.ofNat (64 - 2 * 4))).toNat
    = (feed (new 32) [3, 3, 3]).dir.toNat + ((3 : UInt64) <<< UInt64.ofNat (64 - 2 * 4)).toNat := by
  decide

/-- The shift amounts of `reverse_complement_kmer` stay below 64 as well. -/
theorem rc_kmer_shifts (k i : Nat) (h1 : 1 ≤ k) (h32 : k ≤ 32) (hi : i < k) :
    2 * k ≤ 64 ∧ shiftOf k + 2 * i < 64 ∧ shiftOf k + 2 * (k - 1 - i) < 64 := by
  unfold shiftOf; omega

example : shiftOf 32 + 2 * 31 < 64 := (rc_kmer_shifts 32 31 (by decide) (by decide) (by decide)).2.1

/-! ### 5. Strand symmetry -/

/-- The canonical value of a window equals the canonical value of its reverse complement. -/
theorem canonical_rc (w : List UInt64) (hv : Valid w) : canon (rcWindow w) = canon w := by
  unfold canon
  rw [rcWindow_rcWindow hv]
  generalize packDir w = a
  generalize packDir (rcWindow w) = b
  show (if b ≤ a then b else a) = (if a ≤ b then a else b)
  by_cases h1 : a ≤ b <;> by_cases h2 : b ≤ a
  · rw [if_pos h1, if_pos h2]; exact UInt64.le_antisymm h2 h1
  · rw [if_pos h1, if_neg h2]
  · rw [if_neg h1, if_pos h2]
  · rcases UInt64.le_total a b with h | h
    · exact absurd h h1
    · exact absurd h h2

example : canon (rcWindow [3, 1, 0]) = canon [3, 1, 0] ∧ rcWindow [3, 1, 0] ≠ [3, 1, 0] := by decide

/-- … hence sliding over a window or over its reverse complement (in whatever contexts)
    yields the same canonical k-mer, with opposite direction flags unless palindromic. -/
theorem slide_canonical_rc (k : Nat) (h1 : 1 ≤ k) (h32 : k ≤ 32) (pre pre' w : List UInt64)
    (hw : Valid w) (hl : w.length = k) :
    data (feed (new k) (pre' ++ rcWindow w)) = data (feed (new k) (pre ++ w)) := by
  rw [(slide_canonical k h1 h32 pre w hw hl).1,
    (slide_canonical k h1 h32 pre' (rcWindow w) (rcWindow_valid hw)
      (by rw [rcWindow_length]; exact hl)).1]
  exact canonical_rc w hw

example : data (feed (new 3) ([2, 2] ++ rcWindow [3, 1, 0])) = data (feed (new 3) ([5] ++ [3, 1, 0])) := by
  decide

/-! ### 6. `reverse_complement_kmer` / `canonical_kmer` on packed values -/

theorem rc_kmer_spec (k : Nat) (h32 : k ≤ 32) (w : List UInt64) (hv : Valid w)
    (hl : w.length = k) : reverseComplementKmer (packDir w) k = packDir (rcWindow w) :=
  reverseComplementKmer_packDir h32 w hv hl

example : reverseComplementKmer (packDir [0, 0, 1, 3]) 4 = packDir [0, 2, 3, 3] := by decide

theorem rc_kmer_involutive (k : Nat) (h32 : k ≤ 32) (w : List UInt64) (hv : Valid w)
    (hl : w.length = k) :
    reverseComplementKmer (reverseComplementKmer (packDir w) k) k = packDir w := by
  rw [rc_kmer_spec k h32 w hv hl,
    rc_kmer_spec k h32 (rcWindow w) (rcWindow_valid hv) (by rw [rcWindow_length]; exact hl),
    rcWindow_rcWindow hv]

example : reverseComplementKmer (reverseComplementKmer (packDir [0, 0, 1, 3]) 4) 4
    = packDir [0, 0, 1, 3] := by decide

/-- Stated on raw 64-bit values: every `x` whose `64 - 2k` low bits are zero (that is, every
    packed k-mer) is fixed by reverse-complementing twice. -/
theorem rc_kmer_involutive_aligned (k : Nat) (h32 : k ≤ 32) (x : UInt64)
    (hx : x.toNat % 4 ^ (32 - k) = 0) :
    reverseComplementKmer (reverseComplementKmer x k) k = x := by
  obtain ⟨w, hv, hl, rfl⟩ := exists_window k h32 x hx
  exact rc_kmer_involutive k h32 w hv hl

example : reverseComplementKmer (reverseComplementKmer 0x1B00000000000000 4) 4
    = 0x1B00000000000000 :=
  rc_kmer_involutive_aligned 4 (by decide) _ (by decide)

theorem canonical_kmer_spec (k : Nat) (h32 : k ≤ 32) (w : List UInt64) (hv : Valid w)
    (hl : w.length = k) :
    canonicalKmer (packDir w) k = min (packDir w) (packDir (rcWindow w)) := by
  unfold canonicalKmer
  rw [rc_kmer_spec k h32 w hv hl]; rfl

example : canonicalKmer (packDir [3, 1]) 2 = packDir [2, 0] := by decide

/-- The one-shot function agrees with the sliding window. -/
theorem canonical_kmer_eq_slide (k : Nat) (h1 : 1 ≤ k) (h32 : k ≤ 32) (pre w : List UInt64)
    (hw : Valid w) (hl : w.length = k) :
    canonicalKmer (packDir w) k = data (feed (new k) (pre ++ w)) := by
  rw [canonical_kmer_spec k h32 w hw hl, (slide_canonical k h1 h32 pre w hw hl).1]

example : canonicalKmer (packDir [3, 1]) 2 = data (feed (new 2) ([0, 7] ++ [3, 1])) := by decide

/-! ### 7. `enumerate_kmers` -/

/-- `enumerate_kmers` returns exactly the canonical values of the `k`-windows made of bases
    only, in order of position. -/
theorem enumerate_spec (k : Nat) (h1 : 1 ≤ k) (h32 : k ≤ 32) (contig : List UInt64) :
    enumerateKmers contig k = specWindows k contig := by
  unfold enumerateKmers
  by_cases h : contig.length < k
  · rw [if_pos h, specWindows_short _ h]
  · rw [if_neg h, enumLoop_spec h1 h32 contig (new k) [] (inv_new k)]
    simp [lastK]

example : enumerateKmers [0, 1, 2, 4, 3, 3, 0, 1] 3
    = [canon [0, 1, 2], canon [3, 3, 0], canon [3, 0, 1]] := by decide

/-- The same, with the window list written out by start position `i = 0 … |contig| - k`. -/
theorem enumerate_spec_positions (k : Nat) (h1 : 1 ≤ k) (h32 : k ≤ 32) (contig : List UInt64) :
    enumerateKmers contig k = (List.range (contig.length + 1 - k)).filterMap (fun i =>
      if Valid ((contig.drop i).take k) then some (canon ((contig.drop i).take k)) else none) := by
  rw [enumerate_spec k h1 h32, specWindows_eq_positions k h1]

example : (List.range ([0, 1, 2, 4, 3, 3, 0, 1].length + 1 - 3)).filterMap (fun i =>
      if Valid ((([0, 1, 2, 4, 3, 3, 0, 1] : List UInt64).drop i).take 3)
      then some (canon ((([0, 1, 2, 4, 3, 3, 0, 1] : List UInt64).drop i).take 3)) else none)
    = [canon [0, 1, 2], canon [3, 3, 0], canon [3, 0, 1]] := by decide

theorem enumerate_short (k : Nat) (contig : List UInt64) (h : contig.length < k) :
    enumerateKmers contig k = [] := by
  unfold enumerateKmers; rw [if_pos h]

example : enumerateKmers [0, 1] 3 = [] := enumerate_short 3 [0, 1] (by decide)

/-! ### 8. The `k = 32` edge (shift 0, full mask) is an instance, not a special case -/

example (pre w : List UInt64) (hw : Valid w) (hl : w.length = 32) :
    (feed (new 32) (pre ++ w)).dir = packDir w
      ∧ (feed (new 32) (pre ++ w)).rc = packDir (rcWindow w) :=
  let h := slide_eq_scratch 32 (by decide) (by decide) pre w hw hl
  ⟨h.1, h.2.1⟩

theorem k32_edge : shiftOf 32 = 0 ∧ maskOf 32 = 0xFFFFFFFFFFFFFFFF
    ∧ ∀ (pre w : List UInt64), Valid w → w.length = 32 →
        data (feed (new 32) (pre ++ w)) = min (packDir w) (packDir (rcWindow w)) :=
  ⟨by decide, by decide, fun pre w hw hl =>
    (slide_canonical 32 (by decide) (by decide) pre w hw hl).1⟩

set_option maxRecDepth 8192 in
example :
    let w : List UInt64 := [3,3,3,3,3,3,3,3,3,3,3,3,3,3,3,3,3,3,3,3,3,3,3,3,3,3,3,3,3,3,3,2]
    (feed (new 32) ([0, 1] ++ w)).dir = 0xFFFFFFFFFFFFFFFE
      ∧ (feed (new 32) ([0, 1] ++ w)).rc = 0x4000000000000000 := by decide

/-! ### translator tie: `reverse_complement` as translated from kmer.rs on every run -/

/-- The hand-written `rcBase` of the model is the function `tools/gen_tables.py` translates from the
    text of `kmer.rs::reverse_complement` (for every 64-bit argument). -/
theorem rcBase_is_translated (b : UInt64) : (rcBase b).toNat = Ragc.Gen.kmerRcBase b.toNat := by
  unfold rcBase Ragc.Gen.kmerRcBase
  by_cases h0 : b = 0
  · subst h0; decide
  by_cases h1 : b = 1
  · subst h1; decide
  by_cases h2 : b = 2
  · subst h2; decide
  by_cases h3 : b = 3
  · subst h3; decide
  have n0 : b.toNat ≠ 0 := fun h => h0 (UInt64.toNat_inj.mp (by simpa using h))
  have n1 : b.toNat ≠ 1 := fun h => h1 (UInt64.toNat_inj.mp (by simpa using h))
  have n2 : b.toNat ≠ 2 := fun h => h2 (UInt64.toNat_inj.mp (by simpa using h))
  have n3 : b.toNat ≠ 3 := fun h => h3 (UInt64.toNat_inj.mp (by simpa using h))
  simp [h0, h1, h2, h3, n0, n1, n2, n3]

end Ragc.Props.C20
