import RagcModel.Lemmas.LzDiffTop
import RagcModel.Lemmas.LzDiffStep
import RagcModel.Lemmas.LzDiffTotal
/-!
C09 — LZ-diff decoding inverts encoding for every reference/target pair.

The model is `Model/LzDiff.lean` (`encode S mm ref tgt`, `decode mm ref bytes`, `decodeSeg`), the
encoder being parametrised by the candidate supplier `S` (which reference positions are tried for a
k-mer); `encodeExact` instantiates `S` with the linear-probing index of the Rust code. `encode`
returns `none` where the Rust panics: `mm < lzHashingStep` (outside the accepted range of
`min_match_len`) or a supplier that proposes a position whose k-mer does not fit into the padded
reference (never the case for the real index).

All theorems are for **every** supplier, every `min_match_len` in the accepted range, every
reference and every target; helper lemmas are in `Lemmas/LzDiff*.lean`.
-/
namespace Ragc.Props.C09
open Ragc.Model.LzDiff Ragc.Gen

/-- The literal codes the decoder accepts (`is_literal`): what the round-trip proof forces.
    Stated with the *generated* constant, so that widening `is_literal` in lz_diff.rs widens the
    theorem. -/
def codesOK (tgt : List Nat) : Prop := ∀ c, c ∈ tgt → c ≤ lzLiteralSpan

instance (tgt : List Nat) : Decidable (codesOK tgt) := by unfold codesOK; exact inferInstance

/-- The byte-level decoder on the byte form of well-formed tokens is the token-level decoder. -/
theorem decode_serialize (mm : Nat) (ref : List Nat) (ts : List Tok) (h : wellFormed mm ts) :
    decode mm ref (serialize mm ts) =
      (decToks (padRef mm ref) ref.length ts ([], 0)).map (fun st => st.1) := by
  unfold decode
  rw [decodeGo_serialize _ _ _ ts h]
  cases decToks (padRef mm ref) ref.length ts ([], 0) <;> simp

example : decode 5 [0, 1, 2, 3, 0, 1, 2, 3] (serialize 5 [.lit 2, .bang, .nrun 6, .mtch (-1) (some 5), .mtch 0 none])
    = some [2, 1, 4, 4, 4, 4, 4, 4, 1, 2, 3, 0, 1, 2, 3] := by
  rw [decode_serialize _ _ _ (by decide)]; decide

example : serialize 5 [.lit 2, .bang, .nrun 6, .mtch (-1) (some 5), .mtch 0 none]
    = [67, 33, 30, 50, 4, 45, 49, 44, 48, 46, 48, 46] := by
  simp [serialize, serTok, appendInt, natDigits_lt, lzNRunStarter, lzMinNRunLen, lzNCode]

/-- **Loop invariant** (J of Appendix A.1; `Inv`): if, for every `j ≤ no_prev_literals`, the tokens
    without their `j` newest decode to `target[..i-j]` with `pred_pos - j`, then whatever the loop
    returns from that state decodes to the whole target — for every supplier. Preservation by the
    literal, N-run and match steps is `Inv.lit`, `Inv.nrun`, `Inv.mtch` (with `rewriteBang_sound`
    and `findBest_sound`); termination is by the measure `target.len() - i` in the definition of
    `encLoop` itself. -/
theorem encode_inv (S : UInt64 → List Nat) (mm : Nat) (hmm : lzHashingStep ≤ mm) (refP : Array Nat)
    (refLen : Nat) (t : Array Nat) (i pred npl : Nat) (toks : List Tok) (xprev : Option UInt64)
    (res : List Tok)
    (hinv : Inv refP refLen t i pred npl toks)
    (hres : encLoop S mm hmm refP refLen t i pred npl toks xprev = some res) :
    ∃ p, decToks refP refLen res.reverse ([], 0) = some (t.toList, p) :=
  encLoop_decodes S mm hmm refP refLen t i pred npl toks xprev res hinv hres

/-- The initial state satisfies the invariant. -/
theorem inv_init (refP : Array Nat) (refLen : Nat) (t : Array Nat) : Inv refP refLen t 0 0 0 [] := by
  intro j hj
  have : j = 0 := by omega
  subst this
  simp [decToks]

/-- `encode` only answers for `min_match_len ≥ HASHING_STEP` (`key_len ≥ 1`). -/
theorem encode_some_range {S : UInt64 → List Nat} {mm : Nat} {ref tgt enc : List Nat}
    (h : encode S mm ref tgt = some enc) : lzHashingStep ≤ mm := by
  unfold encode encodeToks at h
  split at h
  · assumption
  · simp at h

/-- The tokens the encoder emits: they decode to the target, and they are well formed when the
    target's codes are literal codes of the decoder. -/
theorem encodeToks_spec {S : UInt64 → List Nat} {mm : Nat} {ref tgt : List Nat} {ts : List Tok}
    (h : encodeToks S mm ref tgt = some ts) (hne : tgt ≠ ref) :
    (∃ p, decToks (padRef mm ref) ref.length ts ([], 0) = some (tgt, p)) ∧
    (∀ P : Nat → Prop, (∀ c, c ∈ tgt → P c) → ∀ x, x ∈ ts → TokAll mm P x) ∧
    (ts = [] ↔ tgt = []) := by
  unfold encodeToks at h
  split at h
  · next hmm =>
    have hnt := (not_congr (eqTest_iff mm ref tgt)).mpr hne
    rw [if_neg hnt] at h
    cases hl : encLoop S mm hmm (padRef mm ref) ref.length tgt.toArray 0 0 0 [] none with
    | none => rw [hl] at h; simp at h
    | some res =>
      rw [hl] at h
      simp only [Option.map_some, Option.some.injEq] at h
      subst h
      refine ⟨?_, ?_, ?_⟩
      · have := encLoop_decodes S mm hmm _ _ _ 0 0 0 [] none res (inv_init _ _ _) hl
        simpa using this
      · intro P hP x hx
        exact encLoop_tokAll P S mm hmm _ _ _ (by simpa using hP) 0 0 0 [] none res (by simp) hl x
          (by simpa using hx)
      · constructor
        · intro hnil
          apply Classical.byContradiction
          intro htne
          have hpos : 0 < tgt.toArray.size := by
            simp only [List.size_toArray]
            exact List.length_pos_iff.mpr htne
          exact encLoop_ne_nil S mm hmm _ _ _ 0 0 0 [] none res (Or.inr hpos) hl
            (by simpa using hnil)
        · intro ht
          subst ht
          rw [encLoop] at hl
          simp only [List.size_toArray, List.length_nil, Nat.not_lt_zero, dite_false, Nat.zero_add,
            Option.some.injEq] at hl
          subst hl
          simp [tailLits]
  · simp at h

/-- **Raw round trip.** For every supplier, every accepted `min_match_len`, every reference and
    every target different from the reference (also the empty one) whose codes are literal codes of
    the decoder: `LZDiff::decode` on the encoder's bytes returns the target. -/
theorem lz_roundtrip_raw (S : UInt64 → List Nat) (mm : Nat) (ref tgt enc : List Nat)
    (hc : codesOK tgt) (hne : tgt ≠ ref) (henc : encode S mm ref tgt = some enc) :
    decode mm ref enc = some tgt := by
  unfold encode at henc
  cases hts : encodeToks S mm ref tgt with
  | none => rw [hts] at henc; simp at henc
  | some ts =>
    rw [hts] at henc
    simp only [Option.map_some, Option.some.injEq] at henc
    subst henc
    obtain ⟨⟨p, hdec⟩, hall, _⟩ := encodeToks_spec hts hne
    have hwf : wellFormed mm ts := by
      intro x hx
      have := hall (fun c => c ≤ lzLiteralSpan) hc x hx
      cases x with
      | lit c => exact this
      | bang => exact True.intro
      | nrun n => exact this
      | mtch d len => cases len <;> exact this
    rw [decode_serialize mm ref ts hwf, hdec]
    rfl

/-- **The encoding is empty exactly when the target equals the reference (or is itself empty).** -/
theorem encode_empty_iff (S : UInt64 → List Nat) (mm : Nat) (ref tgt enc : List Nat)
    (henc : encode S mm ref tgt = some enc) : enc = [] ↔ (tgt = ref ∨ tgt = []) := by
  unfold encode at henc
  cases hts : encodeToks S mm ref tgt with
  | none => rw [hts] at henc; simp at henc
  | some ts =>
    rw [hts] at henc
    simp only [Option.map_some, Option.some.injEq] at henc
    subst henc
    rw [serialize_eq_nil]
    by_cases hne : tgt = ref
    · subst hne
      have hmm := encode_some_range (S := S) (mm := mm) (ref := tgt) (tgt := tgt) (enc := serialize mm ts)
        (by unfold encode; rw [hts]; rfl)
      unfold encodeToks at hts
      rw [dif_pos hmm, if_pos ((eqTest_iff mm tgt tgt).mpr rfl)] at hts
      simp only [Option.some.injEq] at hts
      simp [← hts]
    · obtain ⟨_, _, hnil⟩ := encodeToks_spec hts hne
      rw [hnil]
      simp [hne]

/-- **C09 round trip**, as the reader uses the decoder (`decodeSeg`: an empty delta stands for the
    reference, decompressor.rs 866-871): for every supplier, every accepted `min_match_len`, every
    reference and every non-empty target whose codes are literal codes of the decoder, decoding the
    encoder's output against the same reference returns the target exactly.

    The full statement of the property (all codes `0..15` and `30`) is
    `∀ tgt, (∀ c ∈ tgt, c ≤ 15 ∨ c = 30) → tgt ≠ [] → …`; it follows from this theorem as soon as
    `lzLiteralSpan ≥ 30`. On the current tree `lzLiteralSpan = 20` and the statement is false for
    code 30, see `lz_code30_not_decodable`. -/
theorem lz_roundtrip (S : UInt64 → List Nat) (mm : Nat) (ref tgt enc : List Nat)
    (hc : codesOK tgt) (hne : tgt ≠ []) (henc : encode S mm ref tgt = some enc) :
    decodeSeg mm ref enc = some tgt := by
  unfold decodeSeg
  have hiff := encode_empty_iff S mm ref tgt enc henc
  by_cases he : enc = []
  · rw [if_pos he]
    rcases hiff.mp he with h | h
    · rw [h]
    · exact absurd h hne
  · rw [if_neg he]
    have : tgt ≠ ref := fun h => he (hiff.mpr (Or.inl h))
    exact lz_roundtrip_raw S mm ref tgt enc hc this henc

/-- **No pack separator.** The encoding never contains 0xFF (for symbol codes below 190, in
    particular for `0..15` and `30`). -/
theorem no_separator (S : UInt64 → List Nat) (mm : Nat) (ref tgt enc : List Nat)
    (hc : ∀ c, c ∈ tgt → c < 190) (henc : encode S mm ref tgt = some enc) : contigSeparator ∉ enc := by
  have h255 : contigSeparator = 255 := by decide
  rw [h255]
  unfold encode at henc
  cases hts : encodeToks S mm ref tgt with
  | none => rw [hts] at henc; simp at henc
  | some ts =>
    rw [hts] at henc
    simp only [Option.map_some, Option.some.injEq] at henc
    subst henc
    by_cases hne : tgt = ref
    · have hmm := encode_some_range (S := S) (mm := mm) (ref := ref) (tgt := tgt) (enc := serialize mm ts)
        (by unfold encode; rw [hts]; rfl)
      unfold encodeToks at hts
      rw [dif_pos hmm, if_pos ((eqTest_iff mm ref tgt).mpr hne)] at hts
      simp only [Option.some.injEq] at hts
      simp [← hts, serialize]
    · obtain ⟨_, hall, _⟩ := encodeToks_spec hts hne
      intro hmem
      obtain ⟨x, hx, hb⟩ := (mem_serialize mm ts 255).mp hmem
      have := serTok_lt mm x (hall _ hc x hx) 255 hb
      omega

/-! ### The theorems for the real index (`encodeExact` = `LZDiff::encode`) -/

/-- **`encode` is total** for every supplier that only proposes positions which are skipped
    (`≥ |reference|`) or leave room for a k-mer in the padded reference, and every accepted
    `min_match_len`; the real index is such a supplier (`exactSupplier_ok`: the table only stores
    `i / HASHING_STEP` for multiples `i` of `HASHING_STEP` with `i + key_len < |reference|`). -/
theorem encode_total (S : UInt64 → List Nat) (mm : Nat) (ref tgt : List Nat) (hmm : lzHashingStep ≤ mm)
    (hS : SupOK S (padRef mm ref) (keyLen mm)) : ∃ enc, encode S mm ref tgt = some enc := by
  unfold encode encodeToks
  rw [dif_pos hmm]
  split
  · exact ⟨_, rfl⟩
  · cases hl : encLoop S mm hmm (padRef mm ref) ref.length tgt.toArray 0 0 0 [] none with
    | none => exact absurd hl (encLoop_ne_none S mm hmm _ _ _ hS _ _ _ _ _)
    | some res => exact ⟨_, rfl⟩

/-- **C09 for the real encoder.** For every `min_match_len ≥ HASHING_STEP`, every reference and every
    non-empty target whose codes are literal codes of the decoder: `LZDiff::encode` returns (does not
    panic), decoding its output against the same reference returns the target exactly, the output
    is empty exactly when the target equals the reference, and it does not contain 0xFF. -/
theorem lz_roundtrip_exact (mm : Nat) (ref tgt : List Nat) (hmm : lzHashingStep ≤ mm)
    (hc : codesOK tgt) (hne : tgt ≠ []) :
    ∃ enc, encodeExact mm ref tgt = some enc ∧ decodeSeg mm ref enc = some tgt ∧
      (enc = [] ↔ tgt = ref) ∧ contigSeparator ∉ enc := by
  obtain ⟨enc, henc⟩ := encode_total _ mm ref tgt hmm (exactSupplier_ok mm (padRef mm ref))
  refine ⟨enc, by rw [encodeExact_eq]; exact henc, lz_roundtrip _ mm ref tgt enc hc hne henc, ?_, ?_⟩
  · rw [encode_empty_iff _ mm ref tgt enc henc]
    simp [hne]
  · have hspan : lzLiteralSpan < 190 := by decide
    exact no_separator _ mm ref tgt enc (fun c hcm => Nat.lt_of_le_of_lt (hc c hcm) hspan) henc

example : lzHashingStep ≤ 5 ∧ lzHashingStep ≤ 32 := by decide

/-- **The encoding determines the target.** Against one reference and with one minimum match length,
    two non-empty targets with the same encoding are the same target — for any candidate suppliers,
    even two different ones (e.g. two builds whose indexes resolve collisions differently). This is
    what lets equal delta bytes inside a pack be stored once. -/
theorem lz_encode_injective (S S' : UInt64 → List Nat) (mm : Nat) (ref t t' enc : List Nat)
    (hc : codesOK t) (hc' : codesOK t') (hne : t ≠ []) (hne' : t' ≠ [])
    (h : encode S mm ref t = some enc) (h' : encode S' mm ref t' = some enc) : t = t' := by
  have h1 := lz_roundtrip S mm ref t enc hc hne h
  rw [lz_roundtrip S' mm ref t' enc hc' hne' h'] at h1
  exact (Option.some.inj h1).symm

/-- … in particular for the real encoder. -/
theorem lz_encode_injective_exact (mm : Nat) (ref t t' : List Nat) (hmm : lzHashingStep ≤ mm)
    (hc : codesOK t) (hc' : codesOK t') (hne : t ≠ []) (hne' : t' ≠ [])
    (h : encodeExact mm ref t = encodeExact mm ref t') : t = t' := by
  obtain ⟨enc, he, _⟩ := lz_roundtrip_exact mm ref t hmm hc hne
  have he' : encodeExact mm ref t' = some enc := by rw [← h]; exact he
  rw [encodeExact_eq] at he he'
  exact lz_encode_injective _ _ mm ref t t' enc hc hc' hne hne' he he'

example : codesOK [0, 1, 3, 3, 0, 1, 2, 3, 2, 2] ∧ codesOK [30, 2] := by decide

/-- Non-vacuity, on the real index: reference `ACGTACGTGG`, target `ACTTACGTGG`, min-match 5. The run
    takes the skip-1 k-mer path, emits four literals, finds the match at `h_pos = 4` with a backward
    extension of 1 (one literal popped), rewrites one literal to `!` under the scan bound, and
    elides the length (match to the end): tokens `A ! D 0.`; and the round trip holds. -/
example : encodeToks (exactSupplier 5 (padRef 5 [0, 1, 2, 3, 0, 1, 2, 3, 2, 2])) 5
      [0, 1, 2, 3, 0, 1, 2, 3, 2, 2] [0, 1, 3, 3, 0, 1, 2, 3, 2, 2]
    = some [.lit 0, .bang, .lit 3, .mtch 0 none] := by
  rw [encodeToks_loop _ _ _ _ (by decide) (by decide)]
  have hidx : buildIndex (padRef 5 [0, 1, 2, 3, 0, 1, 2, 3, 2, 2]) (keyLen 5) =
      #[4294967295, 4294967295, 4294967295, 4294967295, 0, 1, 2, 4294967295] := by
    unfold buildIndex
    rw [insertLoop_ok _ _ _ 0 (code := 1) (by decide) (by decide)]
    rw [insertLoop_ok _ _ _ _ (code := 1) (by decide) (by decide)]
    rw [insertLoop_ok _ _ _ _ (code := 10) (by decide) (by decide)]
    rw [insertLoop_done _ _ _ _ (by decide)]
    decide
  unfold exactSupplier
  rw [hidx]
  rw [encLoop_lit_nomatch (code := 1) (c := 0) _ _ _ _ _ _ _ _ _ _ _ (by decide) (by decide) (by decide) (by decide)]
  rw [encLoop_lit_nomatch (code := 7) (c := 1) _ _ _ _ _ _ _ _ _ _ _ (by decide) (by decide) (by decide) (by decide)]
  rw [encLoop_lit_nomatch (code := 15) (c := 3) _ _ _ _ _ _ _ _ _ _ _ (by decide) (by decide) (by decide) (by decide)]
  rw [encLoop_lit_nomatch (code := 12) (c := 3) _ _ _ _ _ _ _ _ _ _ _ (by decide) (by decide) (by decide) (by decide)]
  rw [encLoop_found (code := 1) (mpos := 4) (bck := 1) (fwd := 6) _ _ _ _ _ _ _ _ _ _ _ (by decide) (by decide) (by decide)]
  rw [encLoop_done _ _ _ _ _ _ _ _ _ _ _ (by decide)]
  decide

example : codesOK [0, 1, 3, 3, 0, 1, 2, 3, 2, 2] ∧ [0, 1, 3, 3, 0, 1, 2, 3, 2, 2] ≠ [] := by decide

/-! ### The unknown-letter code 30 (defect D2, repaired in /repo commit 2ddb47d)

Before the repair `is_literal` accepted only `'A' ..= 'A'+20`: the encoder emitted the literal byte
`'A' + 30 = '_'` (95) for code 30 and the decoder took it for a match and panicked; the theorem
`lz_code30_not_decodable` (`encodeExact 5 [] [30] = some [95] ∧ decode 5 [] [95] = none`) was
proved against the table generated from that source. With the regenerated `Gen.lzLiteralSpan`
the same target is inside `codesOK`, so `lz_roundtrip` covers it; the statements below pin that the
codes ragc produces (0..15, 30, and the filler 32) are all literal-safe on the current tree. -/

/-- Every symbol code ragc can produce is inside the literal range the decoder accepts. -/
theorem ragc_codes_ok : ∀ c ∈ (List.range 16 ++ [30, 32]), c ≤ Ragc.Gen.lzLiteralSpan := by decide

/-- Code 30 now round-trips (concrete instance of `lz_roundtrip` through the real index). -/
theorem lz_code30_roundtrip :
    encodeExact 5 [] [30] = some [95] ∧ decodeSeg 5 [] [95] = some [30] := by
  have h1 : encodeExact 5 [] [30] = some [95] := by
    rw [encodeExact_eq]
    unfold encode
    rw [encodeToks_loop _ _ _ _ (by decide) (by decide)]
    rw [encLoop_done _ _ _ _ _ _ _ _ _ _ _ (by decide)]
    decide
  refine ⟨h1, ?_⟩
  obtain ⟨enc, he, hrt, _⟩ := lz_roundtrip_exact 5 [] [30] (by decide) (by decide) (by decide)
  rw [h1] at he
  cases he
  exact hrt

example : codesOK [30] := by decide

end Ragc.Props.C09
