import RagcModel.Model.Priority
import RagcModel.Gen.Tables
import RagcModel.Props.C03
import RagcModel.Props.C07
import RagcModel.Props.C09
import RagcModel.Props.C12
import RagcModel.Props.C13
import RagcModel.Props.C14
import RagcModel.Props.C20
/-!
C18 — behaviour independent of integer-overflow checking.

"No code path anywhere relies on wrap-around" is not a theorem about a finite model. What is proved
is, per modelled arithmetic site, that on the function's domain the overflow-checked reading and the
wrapping reading coincide (no intermediate value leaves the machine range). The sites proved in
other property files are re-exported here under their C18 role so that this property's obligations
are re-checked with it; the two-profile differential run (harness `c18.rs`) covers everything else
the case streams reach.
-/
namespace Ragc.Props.C18
open Ragc.Priority

/-! ### k-mer mask of the fallback-minimizer scans (defect D14, repaired in /repo commit b2fb45b) -/

/-- `x << s` on `u64` in the overflow-checked reading: a shift amount ≥ 64 panics (`none`). -/
def shlChecked (x s : Nat) : Option Nat := if s < 64 then some (x * 2 ^ s % 2 ^ 64) else none
/-- … and in the release reading: the amount is taken modulo 64. -/
def shlWrapping (x s : Nat) : Nat := x * 2 ^ (s % 64) % 2 ^ 64

/-- The mask expression of the current source, `if k >= 32 { !0u64 } else { (1u64 << (2 * k)) - 1 }`,
in the checked reading (`none` = panic) … -/
def maskChecked (k : Nat) : Option Nat :=
  if k ≥ 32 then some (2 ^ 64 - 1)
  else match shlChecked 1 (2 * k) with
    | some v => if v = 0 then none else some (v - 1)   -- `- 1` on 0 would underflow
    | none => none
/-- … and in the release reading. -/
def maskWrapping (k : Nat) : Nat :=
  if k ≥ 32 then 2 ^ 64 - 1 else (shlWrapping 1 (2 * k) + 2 ^ 64 - 1) % 2 ^ 64

/-- The expression before the repair, `(1u64 << (2 * k)) - 1`. -/
def maskOldChecked (k : Nat) : Option Nat :=
  match shlChecked 1 (2 * k) with
  | some v => if v = 0 then none else some (v - 1)
  | none => none
def maskOldWrapping (k : Nat) : Nat := (shlWrapping 1 (2 * k) + 2 ^ 64 - 1) % 2 ^ 64

/-- The source has exactly the guarded expression at both sites (regenerated on every run). -/
theorem fallback_mask_sites :
    Ragc.Gen.fallbackMaskExprs =
      ["if k >= 32 { !0u64 } else { (1u64 << (2 * k)) - 1 }", "if k >= 32 { !0u64 } else { (1u64 << (2 * k)) - 1 }"] := by
  decide

/-- For every accepted k (1..32) the two readings agree and give the 2k-bit mask: no panic, no wrap. -/
theorem fallback_mask_profiles_agree (k : Nat) (h1 : 1 ≤ k) (h32 : k ≤ 32) :
    maskChecked k = some (4 ^ k - 1) ∧ maskWrapping k = 4 ^ k - 1 := by
  have : k ∈ List.range 33 := by simp; omega
  revert this h1
  revert k
  decide +kernel

/-- The repaired defect: at k = 32 the old expression panicked under overflow checks and evaluated
to 0 (not 2^64 - 1) in a release build — the two profiles behaved differently, and the release
build masked every fallback k-mer to 0. For k < 32 it was fine. -/
theorem old_mask_k32 : maskOldChecked 32 = none ∧ maskOldWrapping 32 = 0 ∧
    ∀ k ∈ List.range 32, 1 ≤ k → maskOldChecked k = some (4 ^ k - 1) ∧ maskOldWrapping k = 4 ^ k - 1 := by
  decide +kernel

/-! ### priority arithmetic (agc_compressor.rs push / sync tokens) -/

/-- Every priority the counter hands out stays inside `i32` for up to 2^32 - 1 requests
    (samples + sync rounds); the decrement that follows is in range too while `n < 2^32 - 1`. -/
theorem priority_counter_in_range (n : Nat) (h : n ≤ 4294967295) : inI32 (issued n) := by
  unfold inI32 issued counterAfter i32Min i32Max; omega

theorem priority_decrement_in_range (n : Nat) (h : n < 4294967295) : inI32 (counterAfter (n + 1)) := by
  unfold inI32 counterAfter i32Min i32Max; omega

/-- Sync tokens carry an already issued priority: no new arithmetic, hence no overflow. -/
theorem token_priority_in_range (n : Nat) (h : n ≤ 4294967295) : inI32 (tokenPriority n) :=
  priority_counter_in_range n h

/-- The debugging path `sample_priority + 1` is only taken for a sample that is not the first. -/
theorem env_token_priority_in_range (n : Nat) (h1 : 1 ≤ n) (h : n ≤ 4294967295) :
    inI32 (envTokenPriority n) := by
  unfold inI32 envTokenPriority issued counterAfter i32Min i32Max; omega

/-- The repaired defect: the old rule `new_priority + 1_000_000` left `i32` for the first million
    sync rounds/samples — i.e. for every realistic input (dev profile: panic; release: wrap). -/
theorem old_token_priority_overflows (n : Nat) (h : n + 1 < 1000000) : ¬ inI32 (tokenPriorityOld n) := by
  unfold inI32 tokenPriorityOld issued counterAfter i32Min i32Max; omega

example : inI32 (tokenPriority 3) ∧ ¬ inI32 (tokenPriorityOld 0) := by decide

/-- Tokens of `sync_and_flush`/`finalize` (priority 1_000_000) are below every contig priority as
    long as fewer than 2^31 - 1_000_001 priorities were issued. -/
theorem final_tokens_below_contigs (n : Nat) (h : n < 2146483646) : (1000000 : Int) < issued n := by
  unfold issued counterAfter i32Max; omega

/-! ### CLI capacity parsing -/

theorem parse_capacity_exact (num mult v : Nat) (h : parseCapacity num mult = some v) :
    v = num * mult ∧ v ≤ usizeMax := by
  unfold parseCapacity at h
  split at h
  · cases h; constructor <;> first | rfl | assumption
  · cases h

/-- the value the cli agent found: `17179869184G` wrapped to capacity 0 before the repair. -/
theorem parse_capacity_old_wraps :
    parseCapacityOldWrapping 17179869184 (1024 * 1024 * 1024) = 0 ∧
    parseCapacity 17179869184 (1024 * 1024 * 1024) = none := by decide

/-! ### sites proved with their own property, re-checked here -/

/-- k-mer insert: no addition wraps, every shift amount is below 64 (kmer.rs). -/
theorem kmer_insert_no_overflow : type_of% @Ragc.Props.C20.no_overflow := @Ragc.Props.C20.no_overflow

/-- whole-k-mer reverse complement: shift amounts below 64 (kmer.rs 258-278). -/
theorem kmer_rc_shifts : type_of% @Ragc.Props.C20.rc_kmer_shifts := @Ragc.Props.C20.rc_kmer_shifts

/-- `raw_length - k` for later segments (decompressor.rs 271, 342): under the archive
    well-formedness the checked and wrapping readings agree. -/
theorem contig_length_no_underflow : type_of% @Ragc.Props.C07.length_no_underflow :=
  @Ragc.Props.C07.length_no_underflow

/-- …and exactly when it would underflow. -/
theorem contig_length_underflow_iff : type_of% @Ragc.Props.C07.length_underflow_iff :=
  @Ragc.Props.C07.length_underflow_iff

/-- tuple unpacking: both profiles agree except on a lone marker byte (tuple_packing.rs). -/
theorem tuple_profiles_agree : type_of% @Ragc.Props.C12.tuple_dec_profiles_agree :=
  @Ragc.Props.C12.tuple_dec_profiles_agree

/-- tuple round trip holds in both profiles. -/
theorem tuple_roundtrip_both_profiles : type_of% @Ragc.Props.C12.tuple_roundtrip_mode :=
  @Ragc.Props.C12.tuple_roundtrip_mode

/-- LZ encoder: no index underflow / out-of-range slice for any candidate supplier (lz_diff.rs). -/
theorem lz_encode_no_panic : type_of% @Ragc.Props.C09.encode_total := @Ragc.Props.C09.encode_total

/-- repaired archive reader: for ALL byte strings open is ok or err — no arithmetic outcome. -/
theorem archive_open_total : type_of% @Ragc.Props.C14.openFixed_total := @Ragc.Props.C14.openFixed_total

/-- container round trip holds in both arithmetic profiles. -/
theorem container_both_profiles : type_of% @Ragc.Props.C13.container_refines_log :=
  @Ragc.Props.C13.container_refines_log

/-- zigzag with prediction: round trip on the u64-wrapping model for values below 2^63. -/
theorem zigzag_wrapping_roundtrip : type_of% @Ragc.Props.C03.zigzag_roundtrip := @Ragc.Props.C03.zigzag_roundtrip

end Ragc.Props.C18
