import RagcModel.Props.C20
import RagcModel.Lemmas.Segment
/-!
C10 — segmentation tiles each contig with exact k-base overlaps at splitters.

Model: `Model/Segment.lean` (`splitGeneric` = the loop of segment.rs over an arbitrary window
tracker; `splitAtSplittersWithSize` / `splitAtSplitters` = the two Rust functions, i.e. the
`Kmer` tracker with / without the window reset after a split).  Vocabulary (`Tiles`, `reassemble`,
`Tracker.Window`, `Tracker.enum`, `Linked`) is defined in `Lemmas/Segment.lean`.

Part 1 states every theorem for an arbitrary tracker `T`, start state `init`, splitter predicate
`isSplitter`, flag `ws` (`true` = `split_at_splitters_with_size`) and `k ≥ 1`.  The tiling needs
one assumption on the tracker, `T.Window k R` with `R init 0`: "a full window has received at
least `k` symbols since its last reset" (without it `(pos+1).saturating_sub(k)` would saturate and
the overlap would be shorter than `k`).  The k-mer chaining, totality and the single-segment
theorems need no assumption at all.  Part 2 instantiates everything for the Rust functions
(`1 ≤ k ≤ 32`), where `Tracker.Window` holds by `kmer_window` (a fact about the `cur` counter).
-/
namespace Ragc.Props.C10
open Ragc.Segment

/-! ## Part 1 — any window tracker -/

/-- The model never reaches an out-of-range slice (the Rust never panics), for any tracker. -/
theorem split_total (T : Tracker σ) (init : σ) (isSplitter : UInt64 → Bool) (ws : Bool) (k : Nat)
    (contig : List UInt8) (hk : 1 ≤ k) :
    ∃ segs, splitGeneric T init isSplitter ws k contig = some segs ∧ segs ≠ [] := by
  refine ⟨_, splitGeneric_eq T init isSplitter ws k contig hk, ?_⟩
  split
  · simp
  · exact build_ne_nil _ _ _ _ _ _ _ (by omega)

example : ∃ segs, splitGeneric kmerTracker (Ragc.Kmer.new 3) exSpl true 3 exContig = some segs ∧ segs ≠ [] :=
  split_total _ _ _ _ _ _ (by decide)

/-- The segment data tile the contig: the first segment is a prefix, each later segment starts
    exactly `k` symbols before the previous one ends and has at least `k` symbols, the last segment
    ends at the end of the contig. -/
theorem split_tiles {T : Tracker σ} {k : Nat} {R : σ → Nat → Prop} (hT : T.Window k R) (init : σ)
    (h0 : R init 0) (isSplitter : UInt64 → Bool) (ws : Bool) (contig : List UInt8) (hk : 1 ≤ k)
    (segs : List Segment) (h : splitGeneric T init isSplitter ws k contig = some segs) :
    Tiles k contig (segs.map Segment.data) := by
  rw [splitGeneric_eq T init isSplitter ws k contig hk] at h
  injection h with h
  subst h
  split
  · exact tiles_single k contig
  · apply build_tiles ws k contig hk (by omega)
    have := cuts_ok hT isSplitter ws contig init 0 h0
    simpa using this

/-- Dropping the first `k` symbols of every later piece of a tiling and concatenating gives back
    the tiled sequence. -/
theorem reassemble_tiles (k : Nat) (c : List α) (ps : List (List α)) (h : Tiles k c ps) :
    reassemble k ps = c :=
  reassemble_of_tiles k c ps h

example : reassemble 2 [[1, 2, 3], [2, 3, 4, 5], [4, 5]] = [1, 2, 3, 4, 5] :=
  reassemble_tiles 2 [1, 2, 3, 4, 5] _ (by simp [Tiles, TilesFrom])

example : Tiles 3 exContig (exSegsPlain.map Segment.data) :=
  split_tiles (kmer_window 3) _ (kmer_init 3) exSpl false exContig (by decide) exSegsPlain ex_plain

/-- Segmentation followed by reassembly is the identity. -/
theorem split_reassemble {T : Tracker σ} {k : Nat} {R : σ → Nat → Prop} (hT : T.Window k R) (init : σ)
    (h0 : R init 0) (isSplitter : UInt64 → Bool) (ws : Bool) (contig : List UInt8) (hk : 1 ≤ k)
    (segs : List Segment) (h : splitGeneric T init isSplitter ws k contig = some segs) :
    reassemble k (segs.map Segment.data) = contig :=
  reassemble_tiles k contig _ (split_tiles hT init h0 isSplitter ws contig hk segs h)

example : reassemble 3 (exSegsWs.map Segment.data) = exContig :=
  split_reassemble (kmer_window 3) _ (kmer_init 3) exSpl true exContig (by decide) exSegsWs ex_ws_generic

/-- Every segment after the first has at least `k` symbols. -/
theorem later_ge_k {T : Tracker σ} {k : Nat} {R : σ → Nat → Prop} (hT : T.Window k R) (init : σ)
    (h0 : R init 0) (isSplitter : UInt64 → Bool) (ws : Bool) (contig : List UInt8) (hk : 1 ≤ k)
    (segs : List Segment) (h : splitGeneric T init isSplitter ws k contig = some segs) :
    ∀ s ∈ segs.tail, k ≤ s.data.length := by
  have ht := split_tiles hT init h0 isSplitter ws contig hk segs h
  cases segs with
  | nil => intro s hs; cases hs
  | cons a rest =>
    intro s hs
    have := tilesFrom_later_ge k contig _ _ ht.2.2 s.data (List.mem_map_of_mem hs)
    exact this

example : ∀ s ∈ exSegsWs.tail, 3 ≤ s.data.length :=
  later_ge_k (kmer_window 3) _ (kmer_init 3) exSpl true exContig (by decide) exSegsWs ex_ws_generic

/-- Consecutive segments share exactly the `k` boundary symbols: the first `k` symbols of `b` are
    the last `k` symbols of `a` (these are the symbols `reassemble` drops). -/
theorem overlap_eq {T : Tracker σ} {k : Nat} {R : σ → Nat → Prop} (hT : T.Window k R) (init : σ)
    (h0 : R init 0) (isSplitter : UInt64 → Bool) (ws : Bool) (contig : List UInt8) (hk : 1 ≤ k)
    (segs : List Segment) (h : splitGeneric T init isSplitter ws k contig = some segs)
    (pre post : List Segment) (a b : Segment) (hsegs : segs = pre ++ a :: b :: post) :
    b.data.take k = a.data.drop (a.data.length - k) := by
  have ht := tiles_overlap k contig _ (split_tiles hT init h0 isSplitter ws contig hk segs h)
  subst hsegs
  simp only [List.map_append, List.map_cons] at ht
  exact ht.at

example : exSegsWs[2].data.take 3 = [2, 0, 1] :=
  overlap_eq (kmer_window 3) _ (kmer_init 3) exSpl true exContig (by decide) exSegsWs ex_ws_generic
    [exSegsWs[0]] [] exSegsWs[1] exSegsWs[2] rfl

/-- No segment of a non-empty contig is empty. -/
theorem segments_nonempty {T : Tracker σ} {k : Nat} {R : σ → Nat → Prop} (hT : T.Window k R) (init : σ)
    (h0 : R init 0) (isSplitter : UInt64 → Bool) (ws : Bool) (contig : List UInt8) (hk : 1 ≤ k)
    (hne : contig ≠ []) (segs : List Segment) (h : splitGeneric T init isSplitter ws k contig = some segs) :
    ∀ s ∈ segs, s.data ≠ [] := by
  intro s hs
  exact tiles_nonempty k hk contig _ (split_tiles hT init h0 isSplitter ws contig hk segs h) hne
    s.data (List.mem_map_of_mem hs)

example : ∀ s ∈ exSegsCount, s.data ≠ [] :=
  segments_nonempty (countTracker_window 2) 0 (Nat.le_refl _) _ true _ (by decide) (by decide) _ ex_count

/-- `split_at_splitters_with_size` restarts the window after a split, so a later segment that is
    not the last one has at least `2k` symbols. -/
theorem later_nonfinal_ge_2k {T : Tracker σ} {k : Nat} {R : σ → Nat → Prop} (hT : T.Window k R)
    (init : σ) (h0 : R init 0) (isSplitter : UInt64 → Bool) (contig : List UInt8) (hk : 1 ≤ k)
    (segs : List Segment) (h : splitGeneric T init isSplitter true k contig = some segs) :
    ∀ s ∈ segs.tail.dropLast, 2 * k ≤ s.data.length := by
  rw [splitGeneric_eq T init isSplitter true k contig hk] at h
  injection h with h
  subst h
  split
  · intro s hs; simp at hs
  · have hok := cuts_ok hT isSplitter true contig init 0 h0
    have hgap := cuts_gap hT isSplitter contig init 0 0 (Nat.le_refl _) h0
    simp only [Nat.zero_add] at hok
    cases hc : cuts T isSplitter true init 0 contig with
    | nil =>
      intro s hs
      rw [build_nil_whole true k contig (by omega)] at hs
      simp at hs
    | cons c cs =>
      rw [hc] at hok hgap
      rw [build]
      simp only [List.tail_cons]
      exact build_later_2k k contig hk cs c.e c.v c.d hok.2.1 hok.2.2.1 hok.2.2.2 hgap.2

example : ∀ s ∈ exSegsCount.tail.dropLast, 2 * 2 ≤ s.data.length :=
  later_nonfinal_ge_2k (countTracker_window 2) 0 (Nat.le_refl _) _ _ (by decide) _ ex_count

/-- For consecutive segments `a`, `b`: the back k-mer of `a` is the front k-mer of `b`, it belongs
    to the splitter set, and `b`'s front orientation flag is `a`'s back flag (reported as `false`
    by `with_size` if the value equals the `MISSING_KMER` sentinel).  Any tracker. -/
theorem boundary_kmers (T : Tracker σ) (init : σ) (isSplitter : UInt64 → Bool) (ws : Bool) (k : Nat)
    (contig : List UInt8) (hk : 1 ≤ k) (segs : List Segment)
    (h : splitGeneric T init isSplitter ws k contig = some segs)
    (pre post : List Segment) (a b : Segment) (hsegs : segs = pre ++ a :: b :: post) :
    a.backKmer = b.frontKmer ∧ isSplitter a.backKmer = true ∧
      b.frontKmerIsDir = frontDirOut ws a.backKmer a.backKmerIsDir := by
  rw [splitGeneric_eq T init isSplitter ws k contig hk] at h
  injection h with h
  subst hsegs
  split at h
  · -- a single segment cannot be `pre ++ a :: b :: post`
    have := congrArg List.length h
    simp at this
    omega
  · rename_i hl
    have hok := cuts_ok T.window_zero isSplitter ws contig init 0 trivial
    simp only [Nat.zero_add] at hok
    have hl := build_linked ws isSplitter k contig hk _ 0 0 MISSING_KMER false (by omega) hok
      (cuts_all_splitter T isSplitter ws contig init 0)
    rw [h] at hl
    exact hl.boundary

example : exSegsWs[0].backKmer = exSegsWs[1].frontKmer ∧ exSpl exSegsWs[0].backKmer = true ∧
    exSegsWs[1].frontKmerIsDir = frontDirOut true exSegsWs[0].backKmer exSegsWs[0].backKmerIsDir :=
  boundary_kmers _ _ exSpl true 3 exContig (by decide) exSegsWs ex_ws_generic
    [] [exSegsWs[2]] exSegsWs[0] exSegsWs[1] rfl

/-- `with_size`, relative to the tracker: the k-mer recorded at a boundary (back of `a`, front of
    `b`) is the tracker's value — and the window is full — after scanning, from a fresh state, the
    symbols since the last split: all of `a` if it is the first segment, `a` without its `k` overlap
    symbols otherwise.  (`hreset`: a reset tracker is in the fresh state.) -/
theorem boundary_kmers_state {T : Tracker σ} {k : Nat} {R : σ → Nat → Prop} (hT : T.Window k R)
    (init : σ) (h0 : R init 0) (hreset : ∀ s n, R s n → T.reset s = init)
    (isSplitter : UInt64 → Bool) (contig : List UInt8) (hk : 1 ≤ k) (segs : List Segment)
    (h : splitGeneric T init isSplitter true k contig = some segs)
    (pre post : List Segment) (a b : Segment) (hsegs : segs = pre ++ a :: b :: post) :
    T.isFull (T.feed init (if pre = [] then a.data else a.data.drop k)) = true ∧
      a.backKmer = T.data (T.feed init (if pre = [] then a.data else a.data.drop k)) ∧
      b.frontKmer = T.data (T.feed init (if pre = [] then a.data else a.data.drop k)) ∧
      a.backKmerIsDir = T.isDirOriented (T.feed init (if pre = [] then a.data else a.data.drop k)) := by
  have hb := boundary_kmers T init isSplitter true k contig hk segs h pre post a b hsegs
  rw [splitGeneric_eq T init isSplitter true k contig hk] at h
  injection h with h
  subst hsegs
  split at h
  · have := congrArg List.length h
    simp at this
    omega
  · have hok := cuts_ok hT isSplitter true contig init 0 h0
    simp only [Nat.zero_add] at hok
    have hst := cuts_state hT init h0 isSplitter true (fun _ => hreset) contig contig init 0 0
      (Nat.le_refl _) rfl (by simp [Tracker.feed])
    have hbs := build_backStates T init k contig hk _ 0 true MISSING_KMER false (fun _ => rfl)
      (by simp) hok hst
    simp only [Nat.zero_sub] at hbs
    rw [h] at hbs
    have := hbs.at
    exact ⟨this.1, this.2.1, hb.1 ▸ this.2.1, this.2.2⟩

example : (countTracker 2).isFull ((countTracker 2).feed 0 [4, 3, 0]) = true :=
  (boundary_kmers_state (countTracker_window 2) 0 (Nat.le_refl _) (fun _ _ _ => rfl) _ _ (by decide) _ ex_count
    [exSegsCount[0]] [] exSegsCount[1] exSegsCount[2] rfl).1

/-- Both functions, relative to a window-exact tracker (`WindowExact`: after scanning anything that
    ends in `k` bases `w` the value is `canon w` — what C20 proves for `Kmer`): every non-final
    segment `a` ends with `k` bases `w` (no `N` or IUPAC code inside), and `canon w` is recorded as
    the back k-mer of `a` and the front k-mer of the next segment, and is a splitter. -/
theorem boundary_kmers_window {T : Tracker σ} {k : Nat} {R : σ → Nat → Prop} (hT : T.Window k R)
    (init : σ) (h0 : R init 0) (canon : List UInt8 → UInt64) (hexact : WindowExact T init k canon)
    (isSplitter : UInt64 → Bool) (ws : Bool) (hreset : ws = true → ∀ s n, R s n → T.reset s = init)
    (contig : List UInt8) (hk : 1 ≤ k) (segs : List Segment)
    (h : splitGeneric T init isSplitter ws k contig = some segs)
    (pre post : List Segment) (a b : Segment) (hsegs : segs = pre ++ a :: b :: post) :
    (a.data.drop (a.data.length - k)).length = k ∧ (∀ x ∈ a.data.drop (a.data.length - k), x ≤ 3) ∧
      a.backKmer = canon (a.data.drop (a.data.length - k)) ∧
      b.frontKmer = canon (a.data.drop (a.data.length - k)) ∧
      isSplitter (canon (a.data.drop (a.data.length - k))) = true := by
  have hb := boundary_kmers T init isSplitter ws k contig hk segs h pre post a b hsegs
  rw [splitGeneric_eq T init isSplitter ws k contig hk] at h
  injection h with h
  subst hsegs
  split at h
  · have := congrArg List.length h
    simp at this
    omega
  · have hok := cuts_ok hT isSplitter ws contig init 0 h0
    simp only [Nat.zero_add] at hok
    have hst := cuts_state hT init h0 isSplitter ws hreset contig contig init 0 0
      (Nat.le_refl _) rfl (by simp [Tracker.feed])
    have hwin := cutState_window hT init h0 canon hexact contig ws hk _ 0 0 hok hst
    have hbw := build_backWin canon ws k contig hk _ 0 0 MISSING_KMER false (Or.inr rfl) hok hwin
    rw [h] at hbw
    obtain ⟨h1, h2, h3⟩ := hbw.at
    refine ⟨by simp only [List.length_drop]; omega, h2, h3, hb.1 ▸ h3, h3 ▸ hb.2.1⟩

example : ∀ x ∈ ([3, 0] : List UInt8), x ≤ 3 :=
  (boundary_kmers_window (countTracker_window 2) 0 (Nat.le_refl _) _ (countTracker_exact 2) _ true
    (fun _ _ _ _ => rfl) _ (by decide) _ ex_count [exSegsCount[0]] [] exSegsCount[1] exSegsCount[2] rfl).2.1

/-- The first segment has no front k-mer. -/
theorem first_front_missing (T : Tracker σ) (init : σ) (isSplitter : UInt64 → Bool) (ws : Bool) (k : Nat)
    (contig : List UInt8) (hk : 1 ≤ k) (segs : List Segment)
    (h : splitGeneric T init isSplitter ws k contig = some segs) :
    ∀ s, segs.head? = some s → s.frontKmer = MISSING_KMER ∧ s.frontKmerIsDir = false := by
  rw [splitGeneric_eq T init isSplitter ws k contig hk] at h
  injection h with h
  subst h
  intro s hs
  split at hs
  · simp at hs; subst hs; exact ⟨rfl, rfl⟩
  · have hok := cuts_ok T.window_zero isSplitter ws contig init 0 trivial
    simp only [Nat.zero_add] at hok
    have hl := build_linked ws isSplitter k contig hk _ 0 0 MISSING_KMER false (by omega) hok
      (cuts_all_splitter T isSplitter ws contig init 0)
    cases hb : build ws k contig 0 MISSING_KMER false (cuts T isSplitter ws init 0 contig) with
    | nil => rw [hb] at hs; simp at hs
    | cons x rest =>
      rw [hb] at hs hl
      simp at hs; subst hs
      have := hl.head_front
      refine ⟨this.1, ?_⟩
      rw [this.2]; cases ws <;> simp [frontDirOut]

example : exSegsCount[0].frontKmer = MISSING_KMER ∧ exSegsCount[0].frontKmerIsDir = false :=
  first_front_missing _ _ _ true 2 _ (by decide) _ ex_count _ rfl

/-- The last segment has no back k-mer (the Rust never records one, even when the contig ends
    exactly at a splitter: then a final segment of exactly `k` symbols follows). -/
theorem last_back_missing (T : Tracker σ) (init : σ) (isSplitter : UInt64 → Bool) (ws : Bool) (k : Nat)
    (contig : List UInt8) (hk : 1 ≤ k) (segs : List Segment)
    (h : splitGeneric T init isSplitter ws k contig = some segs) :
    ∀ s, segs.getLast? = some s → s.backKmer = MISSING_KMER ∧ s.backKmerIsDir = false := by
  rw [splitGeneric_eq T init isSplitter ws k contig hk] at h
  injection h with h
  subst h
  intro s hs
  split at hs
  · simp at hs; subst hs; exact ⟨rfl, rfl⟩
  · have hok := cuts_ok T.window_zero isSplitter ws contig init 0 trivial
    simp only [Nat.zero_add] at hok
    have hl := build_linked ws isSplitter k contig hk _ 0 0 MISSING_KMER false (by omega) hok
      (cuts_all_splitter T isSplitter ws contig init 0)
    exact hl.last_back s hs

example : exSegsCount[2].backKmer = MISSING_KMER ∧ exSegsCount[2].backKmerIsDir = false :=
  last_back_missing _ _ _ true 2 _ (by decide) _ ex_count _ rfl

/-- A contig shorter than `k`, or one in which no k-mer seen by the scan (`Tracker.enum`, i.e.
    `enumerate_kmers`) is a splitter, is returned as one segment equal to the contig with both
    k-mers missing.  This includes the empty contig (one empty segment). -/
theorem no_splitter_single (T : Tracker σ) (init : σ) (isSplitter : UInt64 → Bool) (ws : Bool) (k : Nat)
    (contig : List UInt8) (hk : 1 ≤ k)
    (hno : contig.length < k ∨ ∀ v ∈ T.enum init contig, isSplitter v = false) :
    splitGeneric T init isSplitter ws k contig = some [wholeSegment contig] := by
  rw [splitGeneric_eq T init isSplitter ws k contig hk]
  by_cases hl : contig.length < k
  · simp [hl]
  · simp only [hl, if_false]
    have hv := hno.resolve_left hl
    rw [(cuts_eq_nil_iff T isSplitter ws contig init 0).mpr hv, build_nil_whole ws k contig (by omega)]

example : splitGeneric (countTracker 2) 0 (fun v => v == 8) false 2 [0, 1, 4, 3, 0, 9]
    = some [wholeSegment [0, 1, 4, 3, 0, 9]] :=
  no_splitter_single _ _ _ false 2 _ (by decide) (Or.inr (by decide))

/-- Conversely, the first splitter occurrence always splits: at least two segments. -/
theorem splitter_occurrence_splits (T : Tracker σ) (init : σ) (isSplitter : UInt64 → Bool) (ws : Bool)
    (k : Nat) (contig : List UInt8) (hk : 1 ≤ k) (hl : k ≤ contig.length)
    (hocc : ∃ v ∈ T.enum init contig, isSplitter v = true) (segs : List Segment)
    (h : splitGeneric T init isSplitter ws k contig = some segs) : 2 ≤ segs.length := by
  rw [splitGeneric_eq T init isSplitter ws k contig hk] at h
  injection h with h
  subst h
  have hl' : ¬ contig.length < k := by omega
  simp only [hl', if_false]
  cases hc : cuts T isSplitter ws init 0 contig with
  | nil =>
    have := (cuts_eq_nil_iff T isSplitter ws contig init 0).mp hc
    obtain ⟨v, hv, hs⟩ := hocc
    rw [this v hv] at hs
    cases hs
  | cons c cs =>
    rw [build]
    have hok := cuts_ok T.window_zero isSplitter ws contig init 0 trivial
    simp only [Nat.zero_add] at hok
    rw [hc] at hok
    have hne := build_ne_nil ws k contig (c.e - k) c.v c.d cs (by have := hok.2.2.1; omega)
    cases hb : build ws k contig (c.e - k) c.v c.d cs with
    | nil => exact absurd hb hne
    | cons _ _ => simp

example : 2 ≤ exSegsCount.length :=
  splitter_occurrence_splits (countTracker 2) 0 (fun v => v == 7) true 2 [0, 1, 4, 3, 0, 9] (by decide)
    (by decide) ⟨7, by decide, by decide⟩ _ ex_count

/-! ## Part 2 — the Rust functions

`splitConcrete true` is `split_at_splitters_with_size` (for every `_min_segment_size`),
`splitConcrete false` is `split_at_splitters` (both by `rfl`, see `with_size_eq` / `plain_eq`);
`1 ≤ k ≤ 32` is the domain on which `Kmer::new` is defined. -/

theorem with_size_eq (contig : List UInt8) (isSplitter : UInt64 → Bool) (k minSeg : Nat) :
    splitAtSplittersWithSize contig isSplitter k minSeg = splitConcrete true contig isSplitter k := rfl

theorem plain_eq (contig : List UInt8) (isSplitter : UInt64 → Bool) (k : Nat) :
    splitAtSplitters contig isSplitter k = splitConcrete false contig isSplitter k := rfl

/-- `_min_segment_size` is not used. -/
theorem min_segment_size_unused (contig : List UInt8) (isSplitter : UInt64 → Bool) (k m m' : Nat) :
    splitAtSplittersWithSize contig isSplitter k m = splitAtSplittersWithSize contig isSplitter k m' := rfl

example : splitAtSplittersWithSize exContig exSpl 3 0 = some exSegsWs :=
  (min_segment_size_unused exContig exSpl 3 0 20).trans ex_ws

/-- Both functions return a non-empty list of segments and never index out of range. -/
theorem split_total_rust (ws : Bool) (contig : List UInt8) (isSplitter : UInt64 → Bool) (k : Nat)
    (hk : 1 ≤ k) (hk32 : k ≤ 32) :
    ∃ segs, splitConcrete ws contig isSplitter k = some segs ∧ segs ≠ [] := by
  rw [splitConcrete_eq ws contig isSplitter k hk hk32]
  exact split_total _ _ _ _ _ _ hk

example : ∃ segs, splitAtSplitters exContig exSpl 3 = some segs ∧ segs ≠ [] :=
  split_total_rust false exContig exSpl 3 (by decide) (by decide)

theorem split_tiles_rust (ws : Bool) (contig : List UInt8) (isSplitter : UInt64 → Bool) (k : Nat)
    (hk : 1 ≤ k) (hk32 : k ≤ 32) (segs : List Segment)
    (h : splitConcrete ws contig isSplitter k = some segs) :
    Tiles k contig (segs.map Segment.data) :=
  split_tiles (kmer_window k) _ (kmer_init k) isSplitter ws contig hk segs (splitConcrete_some hk hk32 h)

example : Tiles 3 exContig [[0, 1, 0, 4, 1, 1, 0, 1, 2], [0, 1, 2, 2, 2, 0, 1], [2, 0, 1, 3]] :=
  split_tiles_rust true exContig exSpl 3 (by decide) (by decide) exSegsWs ex_ws

theorem split_reassemble_rust (ws : Bool) (contig : List UInt8) (isSplitter : UInt64 → Bool) (k : Nat)
    (hk : 1 ≤ k) (hk32 : k ≤ 32) (segs : List Segment)
    (h : splitConcrete ws contig isSplitter k = some segs) :
    reassemble k (segs.map Segment.data) = contig :=
  split_reassemble (kmer_window k) _ (kmer_init k) isSplitter ws contig hk segs (splitConcrete_some hk hk32 h)

example : [0, 1, 0, 4, 1, 1, 0, 1, 2] ++ ([2, 2] ++ ([0, 1] ++ ([3] ++ []))) = exContig :=
  split_reassemble_rust false exContig exSpl 3 (by decide) (by decide) exSegsPlain ex_plain

theorem later_ge_k_rust (ws : Bool) (contig : List UInt8) (isSplitter : UInt64 → Bool) (k : Nat)
    (hk : 1 ≤ k) (hk32 : k ≤ 32) (segs : List Segment)
    (h : splitConcrete ws contig isSplitter k = some segs) :
    ∀ s ∈ segs.tail, k ≤ s.data.length :=
  later_ge_k (kmer_window k) _ (kmer_init k) isSplitter ws contig hk segs (splitConcrete_some hk hk32 h)

example : ∀ s ∈ exSegsPlain.tail, 3 ≤ s.data.length :=
  later_ge_k_rust false exContig exSpl 3 (by decide) (by decide) exSegsPlain ex_plain

theorem overlap_eq_rust (ws : Bool) (contig : List UInt8) (isSplitter : UInt64 → Bool) (k : Nat)
    (hk : 1 ≤ k) (hk32 : k ≤ 32) (segs : List Segment)
    (h : splitConcrete ws contig isSplitter k = some segs)
    (pre post : List Segment) (a b : Segment) (hsegs : segs = pre ++ a :: b :: post) :
    b.data.take k = a.data.drop (a.data.length - k) :=
  overlap_eq (kmer_window k) _ (kmer_init k) isSplitter ws contig hk segs (splitConcrete_some hk hk32 h)
    pre post a b hsegs

example : exSegsPlain[2].data.take 3 = [2, 2, 2] :=
  overlap_eq_rust false exContig exSpl 3 (by decide) (by decide) exSegsPlain ex_plain
    [exSegsPlain[0]] [exSegsPlain[3]] exSegsPlain[1] exSegsPlain[2] rfl

theorem segments_nonempty_rust (ws : Bool) (contig : List UInt8) (isSplitter : UInt64 → Bool) (k : Nat)
    (hk : 1 ≤ k) (hk32 : k ≤ 32) (hne : contig ≠ []) (segs : List Segment)
    (h : splitConcrete ws contig isSplitter k = some segs) : ∀ s ∈ segs, s.data ≠ [] :=
  segments_nonempty (kmer_window k) _ (kmer_init k) isSplitter ws contig hk hne segs
    (splitConcrete_some hk hk32 h)

example : ∀ s ∈ exSegsWs, s.data ≠ [] :=
  segments_nonempty_rust true exContig exSpl 3 (by decide) (by decide) (by decide) exSegsWs ex_ws

theorem later_nonfinal_ge_2k_rust (contig : List UInt8) (isSplitter : UInt64 → Bool) (k minSeg : Nat)
    (hk : 1 ≤ k) (hk32 : k ≤ 32) (segs : List Segment)
    (h : splitAtSplittersWithSize contig isSplitter k minSeg = some segs) :
    ∀ s ∈ segs.tail.dropLast, 2 * k ≤ s.data.length :=
  later_nonfinal_ge_2k (kmer_window k) _ (kmer_init k) isSplitter contig hk segs (splitConcrete_some hk hk32 h)

example : ∀ s ∈ exSegsWs.tail.dropLast, 2 * 3 ≤ s.data.length :=
  later_nonfinal_ge_2k_rust exContig exSpl 3 20 (by decide) (by decide) exSegsWs ex_ws

/-- `split_at_splitters` keeps the window across a split, so there the `2k` bound fails
    (segments of `k+2` symbols in the example) — only `later_ge_k` holds for it. -/
example : ¬ ∀ s ∈ exSegsPlain.tail.dropLast, 2 * 3 ≤ s.data.length := by decide

theorem boundary_kmers_rust (ws : Bool) (contig : List UInt8) (isSplitter : UInt64 → Bool) (k : Nat)
    (hk : 1 ≤ k) (hk32 : k ≤ 32) (segs : List Segment)
    (h : splitConcrete ws contig isSplitter k = some segs)
    (pre post : List Segment) (a b : Segment) (hsegs : segs = pre ++ a :: b :: post) :
    a.backKmer = b.frontKmer ∧ isSplitter a.backKmer = true ∧
      b.frontKmerIsDir = frontDirOut ws a.backKmer a.backKmerIsDir :=
  boundary_kmers _ _ isSplitter ws k contig hk segs (splitConcrete_some hk hk32 h) pre post a b hsegs

example : exSegsWs[1].backKmer = exSegsWs[2].frontKmer ∧ exSpl exSegsWs[1].backKmer = true ∧
    exSegsWs[2].frontKmerIsDir = frontDirOut true exSegsWs[1].backKmer exSegsWs[1].backKmerIsDir :=
  boundary_kmers_rust true exContig exSpl 3 (by decide) (by decide) exSegsWs ex_ws
    [exSegsWs[0]] [] exSegsWs[1] exSegsWs[2] rfl

/-- `split_at_splitters_with_size`: the boundary k-mer is `Kmer.data` of the `Kmer` obtained by
    scanning (reset at codes `> 3`, insert otherwise) the symbols since the last split. -/
theorem boundary_kmers_state_rust (contig : List UInt8) (isSplitter : UInt64 → Bool) (k minSeg : Nat)
    (hk : 1 ≤ k) (hk32 : k ≤ 32) (segs : List Segment)
    (h : splitAtSplittersWithSize contig isSplitter k minSeg = some segs)
    (pre post : List Segment) (a b : Segment) (hsegs : segs = pre ++ a :: b :: post) :
    Ragc.Kmer.isFull (Ragc.Kmer.feed (Ragc.Kmer.new k)
        ((if pre = [] then a.data else a.data.drop k).map UInt8.toUInt64)) = true ∧
      a.backKmer = Ragc.Kmer.data (Ragc.Kmer.feed (Ragc.Kmer.new k)
        ((if pre = [] then a.data else a.data.drop k).map UInt8.toUInt64)) ∧
      b.frontKmer = Ragc.Kmer.data (Ragc.Kmer.feed (Ragc.Kmer.new k)
        ((if pre = [] then a.data else a.data.drop k).map UInt8.toUInt64)) ∧
      a.backKmerIsDir = Ragc.Kmer.isDirOriented (Ragc.Kmer.feed (Ragc.Kmer.new k)
        ((if pre = [] then a.data else a.data.drop k).map UInt8.toUInt64)) := by
  have := boundary_kmers_state (kmer_window k) _ (kmer_init k) (kmer_reset_eq k) isSplitter contig hk segs
    (splitConcrete_some hk hk32 h) pre post a b hsegs
  rw [feed_kmerTracker] at this
  exact this

example : exSegsWs[1].backKmer =
    Ragc.Kmer.data (Ragc.Kmer.feed (Ragc.Kmer.new 3) ([2, 2, 0, 1].map UInt8.toUInt64)) :=
  (boundary_kmers_state_rust exContig exSpl 3 20 (by decide) (by decide) exSegsWs ex_ws
    [exSegsWs[0]] [] exSegsWs[1] exSegsWs[2] rfl).2.1

/-- Both Rust functions: given C20's window-exactness of the `Kmer` model (`hexact`), every
    non-final segment ends with `k` bases `w` and `canon w` is its back k-mer, the next segment's
    front k-mer, and a splitter. -/
theorem boundary_kmers_window_rust (ws : Bool) (contig : List UInt8) (isSplitter : UInt64 → Bool) (k : Nat)
    (hk : 1 ≤ k) (hk32 : k ≤ 32) (canon : List UInt8 → UInt64)
    (hexact : ∀ (pre w : List UInt8), w.length = k → (∀ x ∈ w, x ≤ 3) →
      Ragc.Kmer.data (Ragc.Kmer.feed (Ragc.Kmer.new k) ((pre ++ w).map UInt8.toUInt64)) = canon w)
    (segs : List Segment) (h : splitConcrete ws contig isSplitter k = some segs)
    (pre post : List Segment) (a b : Segment) (hsegs : segs = pre ++ a :: b :: post) :
    (a.data.drop (a.data.length - k)).length = k ∧ (∀ x ∈ a.data.drop (a.data.length - k), x ≤ 3) ∧
      a.backKmer = canon (a.data.drop (a.data.length - k)) ∧
      b.frontKmer = canon (a.data.drop (a.data.length - k)) ∧
      isSplitter (canon (a.data.drop (a.data.length - k))) = true := by
  have hex : WindowExact kmerTracker (Ragc.Kmer.new k) k canon := by
    intro p w hw hb
    rw [feed_kmerTracker]
    exact hexact p w hw hb
  exact boundary_kmers_window (kmer_window k) _ (kmer_init k) canon hex isSplitter ws
    (fun _ => kmer_reset_eq k) contig hk segs (splitConcrete_some hk hk32 h) pre post a b hsegs

-- Non-vacuity of `boundary_kmers_window_rust`: its hypothesis `hexact` is C20's `slide_eq_scratch`
-- for the `Kmer` model; the generic theorem `boundary_kmers_window` is instantiated above on a
-- tracker for which window-exactness holds by `rfl`, and `boundary_kmers_state_rust` gives the
-- unconditional form for `Kmer`.
example : splitConcrete true exContig exSpl 3 = some exSegsWs := ex_ws

/-- **Closed form** (C10 + C20): the hypothesis of `boundary_kmers_window_rust` is discharged by
    C20's `slide_canonical`. For both Rust functions and every `1 ≤ k ≤ 32`: every non-final segment
    ends with `k` bases (all ACGT), and the canonical k-mer of exactly those `k` bases, computed from
    scratch (`Ragc.Kmer.canon`: the smaller of the forward and the reverse-complement packing), is
    the segment's recorded back k-mer, the next segment's front k-mer, and a member of the splitter
    set. -/
theorem boundary_kmers_canonical (ws : Bool) (contig : List UInt8) (isSplitter : UInt64 → Bool) (k : Nat)
    (hk : 1 ≤ k) (hk32 : k ≤ 32) (segs : List Segment)
    (h : splitConcrete ws contig isSplitter k = some segs)
    (pre post : List Segment) (a b : Segment) (hsegs : segs = pre ++ a :: b :: post) :
    let w := a.data.drop (a.data.length - k)
    w.length = k ∧ (∀ x ∈ w, x ≤ 3) ∧
      a.backKmer = Ragc.Kmer.canon (w.map UInt8.toUInt64) ∧
      b.frontKmer = Ragc.Kmer.canon (w.map UInt8.toUInt64) ∧
      isSplitter (Ragc.Kmer.canon (w.map UInt8.toUInt64)) = true := by
  refine boundary_kmers_window_rust ws contig isSplitter k hk hk32
    (fun w => Ragc.Kmer.canon (w.map UInt8.toUInt64)) ?_ segs h pre post a b hsegs
  intro p w hw hb
  rw [List.map_append]
  have hv : Ragc.Kmer.Valid (w.map UInt8.toUInt64) := by
    intro x hx
    rcases List.mem_map.mp hx with ⟨y, hy, rfl⟩
    have := hb y hy
    exact UInt64.le_iff_toNat_le.mpr (by
      have h3 : y.toNat ≤ 3 := UInt8.le_iff_toNat_le.mp this
      simpa using h3)
  exact (Ragc.Props.C20.slide_canonical k hk hk32 (p.map UInt8.toUInt64) (w.map UInt8.toUInt64) hv
    (by simpa using hw)).1

theorem first_front_missing_rust (ws : Bool) (contig : List UInt8) (isSplitter : UInt64 → Bool) (k : Nat)
    (hk : 1 ≤ k) (hk32 : k ≤ 32) (segs : List Segment)
    (h : splitConcrete ws contig isSplitter k = some segs) :
    ∀ s, segs.head? = some s → s.frontKmer = MISSING_KMER ∧ s.frontKmerIsDir = false :=
  first_front_missing _ _ isSplitter ws k contig hk segs (splitConcrete_some hk hk32 h)

example : exSegsWs[0].frontKmer = MISSING_KMER ∧ exSegsWs[0].frontKmerIsDir = false :=
  first_front_missing_rust true exContig exSpl 3 (by decide) (by decide) exSegsWs ex_ws _ rfl

theorem last_back_missing_rust (ws : Bool) (contig : List UInt8) (isSplitter : UInt64 → Bool) (k : Nat)
    (hk : 1 ≤ k) (hk32 : k ≤ 32) (segs : List Segment)
    (h : splitConcrete ws contig isSplitter k = some segs) :
    ∀ s, segs.getLast? = some s → s.backKmer = MISSING_KMER ∧ s.backKmerIsDir = false :=
  last_back_missing _ _ isSplitter ws k contig hk segs (splitConcrete_some hk hk32 h)

example : exSegsPlain[3].backKmer = MISSING_KMER ∧ exSegsPlain[3].backKmerIsDir = false :=
  last_back_missing_rust false exContig exSpl 3 (by decide) (by decide) exSegsPlain ex_plain _ rfl

/-- No canonical k-mer of the contig (as listed by `enumerate_kmers`) is a splitter, or the contig
    is shorter than `k` (for any `k ≥ 1`, also beyond 32: the Rust returns before creating the
    k-mer): one segment, the whole contig, both k-mers missing. -/
theorem no_splitter_single_rust (ws : Bool) (contig : List UInt8) (isSplitter : UInt64 → Bool) (k : Nat)
    (hk : 1 ≤ k)
    (hno : contig.length < k ∨
      (k ≤ 32 ∧ ∀ v ∈ Ragc.Kmer.enumerateKmers (contig.map UInt8.toUInt64) k, isSplitter v = false)) :
    splitConcrete ws contig isSplitter k = some [wholeSegment contig] := by
  by_cases hl : contig.length < k
  · simp [splitConcrete, hl]
  · obtain ⟨hk32, hv⟩ := hno.resolve_left hl
    rw [splitConcrete_eq ws contig isSplitter k hk hk32]
    apply no_splitter_single _ _ isSplitter ws k contig hk
    right
    rw [enum_kmer_eq contig k (by omega)]
    exact hv

example : splitAtSplittersWithSize exContig (fun v => v == 77) 3 0 = some [wholeSegment exContig] :=
  no_splitter_single_rust true exContig _ 3 (by decide) (Or.inr ⟨by decide, by decide⟩)
example : splitAtSplitters [0, 1] exSpl 3 = some [wholeSegment [0, 1]] :=
  no_splitter_single_rust false [0, 1] _ 3 (by decide) (Or.inl (by decide))
example : splitAtSplittersWithSize [] exSpl 40 0 = some [wholeSegment []] :=
  no_splitter_single_rust true [] _ 40 (by decide) (Or.inl (by decide))

theorem splitter_occurrence_splits_rust (ws : Bool) (contig : List UInt8) (isSplitter : UInt64 → Bool)
    (k : Nat) (hk : 1 ≤ k) (hk32 : k ≤ 32) (hl : k ≤ contig.length)
    (hocc : ∃ v ∈ Ragc.Kmer.enumerateKmers (contig.map UInt8.toUInt64) k, isSplitter v = true)
    (segs : List Segment) (h : splitConcrete ws contig isSplitter k = some segs) : 2 ≤ segs.length := by
  rw [← enum_kmer_eq contig k hl] at hocc
  exact splitter_occurrence_splits _ _ isSplitter ws k contig hk hl hocc segs (splitConcrete_some hk hk32 h)

example : 2 ≤ exSegsWs.length :=
  splitter_occurrence_splits_rust true exContig exSpl 3 (by decide) (by decide) (by decide)
    ⟨1729382256910270464, by decide, by decide⟩ exSegsWs ex_ws

end Ragc.Props.C10
