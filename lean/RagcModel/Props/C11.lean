import RagcModel.Model.Splitters
import RagcModel.Lemmas.Splitters
import RagcModel.Lemmas.SplittersKmer
import RagcModel.Lemmas.SplittersSeg
import RagcModel.Lemmas.SplittersSegment
import RagcModel.Props.C20
/-!
C11 — splitter selection: deterministic, strand-symmetric, singleton-only, spaced.
Only property theorems live here (helpers are in `Lemmas/Splitters.lean`).

`determineSplitters contigs k seg = (splitters, singletons, duplicates)` is the one function that
`determine_splitters`, `determine_splitters_streaming` and
`determine_splitters_streaming_first_sample` are claimed (and checked by the harness, under rayon
pools of 1/2/4/16 threads) to compute on the contig list each of them reads.
-/
namespace Ragc.Props.C11
open Ragc.Kmer Ragc.Splitters

/-- The reference used in the non-vacuity examples: k = 3, segment size 4, three contigs
    (the second contains an `N`, the third is shorter than k). -/
def exRef : List (List UInt64) :=
  [[0, 1, 2, 3, 0, 0, 2, 1, 3, 3, 1, 0, 2, 2], [3, 1, 1, 4, 0, 1, 2, 0], [2, 2]]

/-! ### 1. `remove_non_singletons` on a sorted vector -/

/-- On a sorted list the singleton scan returns exactly the values occurring once, the duplicate
    scan exactly those occurring at least twice, each once and in increasing order; the
    two-output variant returns the same pair. -/
theorem remove_non_singletons_spec (l : List UInt64) (hs : l.Pairwise (· ≤ ·)) :
    (∀ z, z ∈ removeNonSingletons l ↔ l.count z = 1)
    ∧ (∀ z, z ∈ duplicatesOf l ↔ 2 ≤ l.count z)
    ∧ (removeNonSingletons l).Pairwise (· < ·)
    ∧ (duplicatesOf l).Pairwise (· < ·)
    ∧ removeNonSingletonsWithDuplicates l = (removeNonSingletons l, duplicatesOf l) :=
  ⟨mem_removeNonSingletons hs, mem_duplicatesOf hs, removeNonSingletons_strict hs,
    duplicatesOf_strict hs, removeNonSingletonsWithDuplicates_eq l⟩

example : removeNonSingletons [1, 2, 2, 3, 3, 3, 4, 5, 5, 6] = [1, 4, 6]
    ∧ duplicatesOf [1, 2, 2, 3, 3, 3, 4, 5, 5, 6] = [2, 3, 5]
    ∧ ([1, 2, 2, 3, 3, 3, 4, 5, 5, 6] : List UInt64).Pairwise (· ≤ ·) := by decide

/-! ### 2. Singletons and duplicates of a reference -/

/-- The singleton set is exactly the canonical k-mers occurring once in the reference, the
    duplicate set exactly those occurring at least twice (counts over all contigs). -/
theorem singletons_dups_count (cs : List (List UInt64)) (k seg : Nat) (z : UInt64) :
    (z ∈ (determineSplitters cs k seg).2.1 ↔ (allKmers cs k).count z = 1)
    ∧ (z ∈ (determineSplitters cs k seg).2.2 ↔ 2 ≤ (allKmers cs k).count z) := by
  rw [determineSplitters_snd]
  have hs := sortKmers_sorted (allKmers cs k)
  have hc := (sortKmers_perm (allKmers cs k)).count_eq z
  exact ⟨by rw [mem_removeNonSingletons hs, hc], by rw [mem_duplicatesOf hs, hc]⟩

example : (9223372036854775808 : UInt64) ∈ (determineSplitters exRef 3 4).2.1
    ∧ (1729382256910270464 : UInt64) ∈ (determineSplitters exRef 3 4).2.2
    ∧ (allKmers exRef 3).length = 15 :=
  ⟨(singletons_dups_count exRef 3 4 _).1.mpr (by decide),
   (singletons_dups_count exRef 3 4 _).2.mpr (by decide), by decide⟩

/-- No k-mer is both a singleton and a duplicate. -/
theorem singletons_dups_disjoint (cs : List (List UInt64)) (k seg : Nat) (z : UInt64)
    (h1 : z ∈ (determineSplitters cs k seg).2.1) : z ∉ (determineSplitters cs k seg).2.2 := by
  intro h2
  have a := (singletons_dups_count cs k seg z).1.mp h1
  have b := (singletons_dups_count cs k seg z).2.mp h2
  omega

example : (9223372036854775808 : UInt64) ∈ (determineSplitters exRef 3 4).2.1
    ∧ (9223372036854775808 : UInt64) ∉ (determineSplitters exRef 3 4).2.2 :=
  have h := (singletons_dups_count exRef 3 4 9223372036854775808).1.mpr (by decide)
  ⟨h, singletons_dups_disjoint exRef 3 4 _ h⟩

/-! ### 3. Splitters are singletons -/

/-- Every selected splitter is a candidate, i.e. a canonical k-mer that occurs exactly once in
    the whole reference. -/
theorem splitters_subset_singletons (cs : List (List UInt64)) (k seg : Nat) (s : UInt64)
    (h : s ∈ (determineSplitters cs k seg).1) :
    s ∈ (determineSplitters cs k seg).2.1 ∧ (allKmers cs k).count s = 1 := by
  have hmem : s ∈ (determineSplitters cs k seg).2.1 := by
    rw [determineSplitters_fst] at h
    obtain ⟨c, _, hc⟩ := List.mem_flatMap.mp h
    unfold findSplittersInContig findPicks at hc
    obtain ⟨p, hp, rfl⟩ := List.mem_map.mp hc
    have := findLoop_isCand _ _ _ _ _ _ _ p hp
    have := memSorted_sound this
    rw [determineSplitters_snd]
    simpa using this
  exact ⟨hmem, (singletons_dups_count cs k seg s).1.mp hmem⟩

/-- The splitter list is the second pass run with the from-scratch predicate "occurs exactly once
    among the canonical k-mers of the reference" as candidate test. -/
theorem splitters_eq_spec (cs : List (List UInt64)) (k seg : Nat) :
    (determineSplitters cs k seg).1
      = cs.flatMap (findSplittersInContig
          (fun v => decide ((allKmers cs k).count v = 1)) k seg) :=
  determineSplitters_fst_spec cs k seg

example : (determineSplitters exRef 3 4).1
    = [12682136550675316736, 9223372036854775808, 2882303761517117440,
       11529215046068469760, 6917529027641081856] := by
  rw [splitters_eq_spec]; decide

/-! ### 4. Contig order does not matter -/

/-- The singleton and duplicate lists (sorted, hence canonical) depend only on the multiset of
    canonical k-mers of the reference — and not on the segment size. -/
theorem singletons_perm_invariant (c₁ c₂ : List (List UInt64)) (k s₁ s₂ : Nat)
    (h : (allKmers c₁ k).Perm (allKmers c₂ k)) :
    (determineSplitters c₁ k s₁).2 = (determineSplitters c₂ k s₂).2 := by
  rw [determineSplitters_snd, determineSplitters_snd, sortKmers_congr h]

/-- … in particular they are unchanged by permuting the contigs. -/
theorem contigs_perm_invariant (c₁ c₂ : List (List UInt64)) (k s₁ s₂ : Nat) (h : c₁.Perm c₂) :
    (determineSplitters c₁ k s₁).2 = (determineSplitters c₂ k s₂).2 :=
  singletons_perm_invariant c₁ c₂ k s₁ s₂ (allKmers_perm h k)

example : (determineSplitters exRef 3 4).2 = (determineSplitters exRef.reverse 3 9).2
    ∧ exRef.Perm exRef.reverse ∧ exRef ≠ exRef.reverse :=
  ⟨contigs_perm_invariant _ _ 3 4 9 (List.reverse_perm _).symm, (List.reverse_perm _).symm, by decide⟩

/-! ### 5. Spacing of the picks inside a contig -/

/-- The second pass over one contig, for any candidate predicate. Its picks are: loop picks
    (each at least `segment_size` positions after the previous one — the `current_len` counter),
    followed by at most one end-of-contig pick (the right-most candidate seen since the last
    reset), which lies strictly after every loop pick. Every pick is at a position of the contig
    where the finder's window (restarted after the previous loop pick, `WindowAt`) is full, its
    canonical value is the picked k-mer, and that k-mer passed the candidate test.
    Consequently (splitters being singletons, C10 splits exactly at these positions) every
    segment other than the first and the last two spans ≥ `segment_size + k` symbols. -/
theorem spacing (isCand : UInt64 → Bool) (k seg : Nat) (c : List UInt64) :
    ∃ loopPicks endPicks : List Pick,
      findPicks isCand k seg c = loopPicks ++ endPicks
      ∧ (∀ p ∈ loopPicks, p.atEnd = false) ∧ (∀ e ∈ endPicks, e.atEnd = true)
      ∧ endPicks.length ≤ 1
      ∧ loopPicks.Pairwise (fun a b => a.pos + seg ≤ b.pos)
      ∧ (∀ e ∈ endPicks, ∀ p ∈ loopPicks, p.pos < e.pos)
      ∧ (∀ p ∈ loopPicks ++ endPicks,
          p.pos < c.length ∧ isCand p.kmer = true ∧ ∃ s, WindowAt k c s p.pos p.kmer) := by
  obtain ⟨lp, ep, h1, h2, h3, h4, h5⟩ :=
    findLoop_shape isCand seg c (new k) seg [] 0 (by simp)
  have hsp := findLoop_spacing isCand seg c (new k) seg [] 0
  refine ⟨lp, ep, h1, h2, h3, h4, ?_, fun e he => (h5 e he).2, ?_⟩
  · have := hsp.2
    rw [h1, filter_loop_end h2 h3] at this
    exact this
  · intro p hp
    have hp' : p ∈ findLoop isCand seg (new k) seg [] 0 c := by rw [h1]; exact hp
    refine ⟨?_, findLoop_isCand isCand seg c _ _ _ _ p hp', ?_⟩
    · rcases List.mem_append.mp hp with hl | he
      · have := (hsp.1 p hp' (h2 p hl)).2.2; omega
      · have := (h5 p he).1; omega
    · exact findLoop_window isCand k seg c c [] 0 (new k) seg [] (by simp) (by simp) rfl
        (by simp) p hp'

example : findPicks (fun v => decide ((allKmers exRef 3).count v = 1)) 3 4
      [0, 1, 2, 3, 0, 0, 2, 1, 3, 3, 1, 0, 2, 2]
    = [⟨4, 12682136550675316736, false⟩, ⟨10, 9223372036854775808, false⟩,
       ⟨13, 2882303761517117440, true⟩] ∧ 4 + 4 ≤ 10 := by decide

/-! ### 6. Strand symmetry -/

/-- `enumerate_rc`: the multiset of canonical k-mers of a contig equals that of its reverse
    complement (bases complemented, `N`/IUPAC codes kept).

    Stated relative to C20: `h_window` is C20's `enumerate_spec` (`enumerate_kmers` returns the
    values `canonW w` of the all-base k-windows `w`, in order; `canonW` = C20's `canon`,
    `windowsSpec canonW` = C20's `specWindows`), `h_canon_rc` is C20's `canonical_rc`. -/
theorem enumerate_rc (k : Nat) (hk : 1 ≤ k) (canonW : List UInt64 → UInt64)
    (h_window : ∀ c, enumerateKmers c k = windowsSpec canonW k c)
    (h_canon_rc : ∀ w, BasesOnly w → w.length = k → canonW (rcWin w) = canonW w)
    (c : List UInt64) : (enumerateKmers (rcContig c) k).Perm (enumerateKmers c k) := by
  rw [h_window, h_window]
  exact windowsSpec_rc canonW k hk h_canon_rc c

example : enumerateKmers (rcContig [0, 1, 2, 3, 0, 0, 2, 4, 3, 3, 1]) 3
      = (enumerateKmers [0, 1, 2, 3, 0, 0, 2, 4, 3, 3, 1] 3).reverse
    ∧ rcContig [0, 1, 2, 3, 0, 0, 2, 4, 3, 3, 1] = [2, 0, 0, 4, 1, 3, 3, 0, 1, 2, 3] := by decide

/-- Reverse-complementing any subset of the contigs (`flips`) leaves the multiset of canonical
    k-mers of the reference, hence the singleton and duplicate sets, unchanged. -/
theorem kmers_rc_invariant (k : Nat) (hk : 1 ≤ k) (canonW : List UInt64 → UInt64)
    (h_window : ∀ c, enumerateKmers c k = windowsSpec canonW k c)
    (h_canon_rc : ∀ w, BasesOnly w → w.length = k → canonW (rcWin w) = canonW w)
    (cs : List (List UInt64)) (flips : List Bool) (s₁ s₂ : Nat) :
    (allKmers (rcSome flips cs) k).Perm (allKmers cs k)
    ∧ (determineSplitters (rcSome flips cs) k s₁).2 = (determineSplitters cs k s₂).2 := by
  have h := allKmers_rcSome k (enumerate_rc k hk canonW h_window h_canon_rc) cs flips
  exact ⟨h, singletons_perm_invariant _ _ k s₁ s₂ h⟩

example : rcSome [true, false, true] exRef ≠ exRef
    ∧ ∀ z, (allKmers (rcSome [true, false, true] exRef) 3).count z = (allKmers exRef 3).count z := by
  refine ⟨by decide, fun z => ?_⟩
  have : (allKmers (rcSome [true, false, true] exRef) 3).Perm (allKmers exRef 3) := by decide
  exact this.count_eq z

/-! ### 7. The same, with the hypotheses discharged by C20 (`1 ≤ k ≤ 32`) -/

/-- `enumerate_rc` with `h_window := C20.enumerate_spec`, `h_canon_rc := C20.canonical_rc`. -/
theorem enumerate_rc_closed (k : Nat) (h1 : 1 ≤ k) (h32 : k ≤ 32) (c : List UInt64) :
    (enumerateKmers (rcContig c) k).Perm (enumerateKmers c k) :=
  enumerate_rc k h1 canon
    (fun c => by rw [Ragc.Props.C20.enumerate_spec k h1 h32 c, specWindows_eq_windowsSpec])
    (fun w hw _ => Ragc.Props.C20.canonical_rc w hw) c

example : (enumerateKmers (rcContig [3, 3, 1, 4, 0, 2, 2, 1]) 3).Perm
    (enumerateKmers [3, 3, 1, 4, 0, 2, 2, 1] 3) := enumerate_rc_closed 3 (by decide) (by decide) _

/-- Strand symmetry of the singleton and duplicate sets, unconditionally for `1 ≤ k ≤ 32`:
    reverse-complementing any subset of the contigs changes neither (nor does the segment size). -/
theorem strand_invariant (k : Nat) (h1 : 1 ≤ k) (h32 : k ≤ 32) (cs : List (List UInt64))
    (flips : List Bool) (s₁ s₂ : Nat) :
    (determineSplitters (rcSome flips cs) k s₁).2 = (determineSplitters cs k s₂).2 :=
  (kmers_rc_invariant k h1 canon
    (fun c => by rw [Ragc.Props.C20.enumerate_spec k h1 h32 c, specWindows_eq_windowsSpec])
    (fun w hw _ => Ragc.Props.C20.canonical_rc w hw) cs flips s₁ s₂).2

example : (determineSplitters (rcSome [true, false, true] exRef) 3 4).2 = (determineSplitters exRef 3 7).2
    ∧ rcSome [true, false, true] exRef ≠ exRef :=
  ⟨strand_invariant 3 (by decide) (by decide) exRef _ 4 7, by decide⟩

/-- Every pick of the second pass sits at a position `p.pos` of the contig such that the `k`
    symbols ending there are bases, the picked value is their canonical packing (C20's `canon`),
    and it passed the candidate test. -/
theorem pick_is_canonical_window (isCand : UInt64 → Bool) (k seg : Nat) (h1 : 1 ≤ k)
    (h32 : k ≤ 32) (c : List UInt64) (p : Pick) (hp : p ∈ findPicks isCand k seg c) :
    p.pos < c.length ∧ k ≤ p.pos + 1
      ∧ Valid (lastK k (c.take (p.pos + 1)))
      ∧ p.kmer = canon (lastK k (c.take (p.pos + 1)))
      ∧ isCand p.kmer = true := by
  obtain ⟨lp, ep, h, _, _, _, _, _, hall⟩ := spacing isCand k seg c
  rw [h] at hp
  obtain ⟨hlt, hc, s, hw⟩ := hall p hp
  obtain ⟨hl, hv, hk⟩ := windowAt_scratch h1 h32 hw
  refine ⟨hlt, ?_, hv, hk, hc⟩
  rw [lastK_length, List.length_take] at hl
  omega

example : (⟨10, 9223372036854775808, false⟩ : Pick)
      ∈ findPicks (fun v => decide ((allKmers exRef 3).count v = 1)) 3 4
        [0, 1, 2, 3, 0, 0, 2, 1, 3, 3, 1, 0, 2, 2]
    ∧ canon (lastK 3 (([0, 1, 2, 3, 0, 0, 2, 1, 3, 3, 1, 0, 2, 2] : List UInt64).take 11))
        = 9223372036854775808 := by decide

/-! ### 8. One function, three entry points: which records the first-sample variant uses -/

/-- The first-sample variant computes `determineSplitters` on the leading run of records that
    carry the first record's sample name: whatever follows the first record of another sample
    (including later records that carry the first sample's name again) has no influence. -/
theorem first_sample_ignores_rest (h0 : List Nat) (c0 : List UInt64)
    (run tail : List (List Nat × List UInt64)) (r' : List Nat × List UInt64) (k seg : Nat)
    (hrun : ∀ r ∈ run, sampleOfHeader r.1 = sampleOfHeader h0)
    (hdiff : sampleOfHeader r'.1 ≠ sampleOfHeader h0) :
    determineSplittersFirstSample ((h0, c0) :: (run ++ r' :: tail)) k seg
        = determineSplitters (c0 :: run.map Prod.snd) k seg
    ∧ determineSplittersFirstSample ((h0, c0) :: run) k seg
        = determineSplitters (c0 :: run.map Prod.snd) k seg := by
  unfold determineSplittersFirstSample
  constructor
  · show determineSplitters (c0 :: ((run ++ r' :: tail).takeWhile
        (fun r => sampleOfHeader r.1 == sampleOfHeader h0)).map Prod.snd) k seg = _
    rw [takeWhile_run _ run r' tail (fun r hr => by simp [hrun r hr]) (by simp [hdiff])]
  · show determineSplitters (c0 :: (run.takeWhile
        (fun r => sampleOfHeader r.1 == sampleOfHeader h0)).map Prod.snd) k seg = _
    rw [takeWhile_all _ run (fun r hr => by simp [hrun r hr])]

-- headers `r#1#a x#2` ↦ sample `r#1`; `ctg` ↦ `unknown`; records r#1#a, r#1#b, r#2#a, r#1#c
example : sampleOfHeader [114, 35, 49, 35, 97, 32, 120, 35, 50] = [114, 35, 49]
    ∧ sampleOfHeader [99, 116, 103] = [117, 110, 107, 110, 111, 119, 110]
    ∧ firstSampleRun [([114, 35, 49, 35, 97], [0, 1]), ([114, 35, 49, 35, 98], [2]),
        ([114, 35, 50, 35, 97], [3, 3]), ([114, 35, 49, 35, 99], [1, 1])] = [[0, 1], [2]] := by
  decide

/-- The streaming variants skip records whose sequence is empty (`if !sequence.is_empty()`), the
    in-memory variant does not: it makes no difference. -/
theorem empty_contigs_irrelevant (cs : List (List UInt64)) (k seg : Nat) :
    determineSplitters (cs.filter (fun c => !c.isEmpty)) k seg = determineSplitters cs k seg := by
  have h1 : allKmers (cs.filter (fun c => !c.isEmpty)) k = allKmers cs k :=
    flatMap_filter_nonempty (fun c => enumerateKmers c k) (enumerateKmers_nil k) cs
  have h2 : (determineSplitters (cs.filter (fun c => !c.isEmpty)) k seg).2
      = (determineSplitters cs k seg).2 := by
    rw [determineSplitters_snd, determineSplitters_snd, h1]
  have h3 : (determineSplitters (cs.filter (fun c => !c.isEmpty)) k seg).1
      = (determineSplitters cs k seg).1 := by
    rw [determineSplitters_fst, determineSplitters_fst, h1]
    exact flatMap_filter_nonempty (findSplittersInContig _ k seg) (findSplittersInContig_nil _ k seg) cs
  exact Prod.ext h3 h2

example : ([[0, 1], [], [2]] : List (List UInt64)).filter (fun c => !c.isEmpty) = [[0, 1], [2]] := by
  decide

/-! ### 9. Segmenting the reference with its own splitters -/

/-- The main loop of `split_at_splitters_with_size` (split at *every* full window whose canonical
    value is in the splitter set, then `kmer.reset()`; no distance test, no end rule) is the loop
    of the second pass with `segment_size = 0` and `isCand := splitters.contains`, restricted to
    its loop picks. Run on a contig `c` of the reference with the reference's own splitter set it
    splits exactly at the positions picked by the second pass on `c` (loop picks and end pick):
    a splitter is a singleton of the whole reference, so it occurs nowhere else.
    Consequently all gaps between consecutive split positions except the last one are
    `≥ segment_size`, i.e. (segment `i ≥ 1` spanning `[pᵢ + 1 - k, pᵢ₊₁]`) every segment other than
    the first and the last two has `≥ segment_size + k` symbols. -/
theorem self_segmentation (cs : List (List UInt64)) (k seg : Nat) (h1 : 1 ≤ k) (h32 : k ≤ 32)
    (c : List UInt64) (hc : c ∈ cs) :
    ((findPicks (fun v => decide (v ∈ (determineSplitters cs k seg).1)) k 0 c).filter
        (fun p => !p.atEnd)).map Pick.pos
      = (findPicks (fun v => decide ((allKmers cs k).count v = 1)) k seg c).map Pick.pos
    ∧ (((findPicks (fun v => decide (v ∈ (determineSplitters cs k seg).1)) k 0 c).filter
        (fun p => !p.atEnd)).map Pick.pos).dropLast.Pairwise (fun a b => a + seg ≤ b) := by
  have main : ((findPicks (fun v => decide (v ∈ (determineSplitters cs k seg).1)) k 0 c).filter
        (fun p => !p.atEnd)).map Pick.pos
      = (findPicks (fun v => decide ((allKmers cs k).count v = 1)) k seg c).map Pick.pos := by
    have hch : ChainW k c 0 (findPicks (fun v => decide ((allKmers cs k).count v = 1)) k seg c) :=
      findLoop_chain _ k seg c c [] 0 (new k) seg [] (by simp) (by simp) rfl (by simp)
    refine segLoop_eq_chain _ k h1 c c [] 0 (new k) 0 []
      (findPicks (fun v => decide ((allKmers cs k).count v = 1)) k seg c)
      (by simp) (by simp) rfl hch ?_ (chainW_strict h1 _ 0 hch).2 ?_
    · intro p hp
      have hw := pick_is_canonical_window _ k seg h1 h32 c p hp
      refine ⟨Nat.zero_le _, hw.1, ?_⟩
      apply decide_eq_true
      rw [splitters_eq_spec]
      exact List.mem_flatMap.mpr ⟨c, hc, List.mem_map.mpr ⟨p, hp, rfl⟩⟩
    · intro q v s' _ hq hw hsv
      have hvS : v ∈ (determineSplitters cs k seg).1 := of_decide_eq_true hsv
      obtain ⟨hlen, hval, hvc⟩ := windowAt_scratch h1 h32 hw
      have hk : k ≤ q + 1 := by
        rw [lastK_length, List.length_take] at hlen; omega
      have hcount := (splitters_subset_singletons cs k seg v hvS).2
      rw [splitters_eq_spec] at hvS
      obtain ⟨c', hc', hv'⟩ := List.mem_flatMap.mp hvS
      obtain ⟨p', hp', hpv⟩ := List.mem_map.mp hv'
      obtain ⟨hlt', hk', hval', hvc', _⟩ := pick_is_canonical_window _ k seg h1 h32 c' p' hp'
      rw [lastK_take_eq hk hq] at hval hvc
      rw [lastK_take_eq hk' hlt'] at hval' hvc'
      rw [hpv] at hvc'
      unfold allKmers at hcount
      by_cases hcc : c' = c
      · subst hcc
        by_cases hpq : p'.pos = q
        · exact ⟨p', hp', hpq⟩
        · exfalso
          have h2 : 2 ≤ (enumerateKmers c' k).count v := by
            rw [enumerateKmers_eq_windowsSpec k h1 h32]
            rcases Nat.lt_or_gt_of_ne hpq with g | g
            · exact count_two_windows canon k h1 c' (p'.pos + 1 - k) (q + 1 - k) v (by omega)
                (by omega) hval' hvc'.symm hval hvc.symm
            · exact count_two_windows canon k h1 c' (q + 1 - k) (p'.pos + 1 - k) v (by omega)
                (by omega) hval hvc.symm hval' hvc'.symm
          have := count_flatMap_one (fun c => enumerateKmers c k) v cs c' hc
          omega
      · exfalso
        have a1 : 1 ≤ (enumerateKmers c k).count v := by
          rw [enumerateKmers_eq_windowsSpec k h1 h32]
          exact count_one_window canon k h1 c (q + 1 - k) v (by omega) hval hvc.symm
        have a2 : 1 ≤ (enumerateKmers c' k).count v := by
          rw [enumerateKmers_eq_windowsSpec k h1 h32]
          exact count_one_window canon k h1 c' (p'.pos + 1 - k) v (by omega) hval' hvc'.symm
        have := count_flatMap_two (fun c => enumerateKmers c k) v cs c c' hc hc'
          (fun h => hcc h.symm)
        omega
  refine ⟨main, ?_⟩
  rw [main]
  obtain ⟨lp, ep, h, _, _, hlen, hpw, _, _⟩ :=
    spacing (fun v => decide ((allKmers cs k).count v = 1)) k seg c
  rw [h, List.map_append]
  have hlp : (lp.map Pick.pos).Pairwise (fun a b => a + seg ≤ b) := List.pairwise_map.mpr hpw
  match ep, hlen with
  | [], _ =>
    rw [List.map_nil, List.append_nil]
    exact List.Pairwise.sublist (List.dropLast_sublist _) hlp
  | [e], _ =>
    rw [List.map_cons, List.map_nil, List.dropLast_concat]
    exact hlp
  | _ :: _ :: _, hl => simp at hl

-- contig 0 of `exRef`: the segmenter run with the reference's splitter set splits at 4, 10, 13
example : ((findPicks (fun v => decide (v ∈ ([12682136550675316736, 9223372036854775808,
        2882303761517117440, 11529215046068469760, 6917529027641081856] : List UInt64))) 3 0
        [0, 1, 2, 3, 0, 0, 2, 1, 3, 3, 1, 0, 2, 2]).filter (fun p => !p.atEnd)).map Pick.pos
      = [4, 10, 13]
    ∧ ([0, 1, 2, 3, 0, 0, 2, 1, 3, 3, 1, 0, 2, 2] : List UInt64) ∈ exRef := by decide

/-- The spacing claim of C11 on the C10 model of `split_at_splitters_with_size`: segmenting a
    contig of the reference with the reference's own splitter set gives segments of which all but
    the first and the last two have at least `segment_size + k` (in particular `≥ segment_size`)
    symbols. -/
theorem self_segmentation_segments (cs : List (List UInt64)) (k seg : Nat) (h1 : 1 ≤ k)
    (h32 : k ≤ 32) (contig : List UInt8) (hc : contig.map UInt8.toUInt64 ∈ cs)
    (segs : List Ragc.Segment.Segment)
    (hs : Ragc.Segment.splitAtSplittersWithSize contig
        (fun v => decide (v ∈ (determineSplitters cs k seg).1)) k seg = some segs) :
    ∀ x ∈ ((segs.drop 1).dropLast).dropLast, seg + k ≤ x.data.length :=
  split_interior_ge _ k seg h1 h32 contig segs hs
    (self_segmentation cs k seg h1 h32 _ hc).2

-- contig 0 of `exRef` (k = 3, segment size 4) is cut by the reference's own splitters (the list
-- proved above to be `(determineSplitters exRef 3 4).1`) into 4 segments of 5, 9, 6, 3 symbols;
-- the interior one has 9 ≥ 4 + 3.
example :
    (Ragc.Segment.splitAtSplittersWithSize [0, 1, 2, 3, 0, 0, 2, 1, 3, 3, 1, 0, 2, 2]
        (fun v => decide (v ∈ ([12682136550675316736, 9223372036854775808, 2882303761517117440,
          11529215046068469760, 6917529027641081856] : List UInt64))) 3 4).map
      (fun segs => segs.map (fun s => s.data.length)) = some [5, 9, 6, 3]
    ∧ ([0, 1, 2, 3, 0, 0, 2, 1, 3, 3, 1, 0, 2, 2] : List UInt8).map UInt8.toUInt64 ∈ exRef := by
  decide

end Ragc.Props.C11
