import RagcModel.Lemmas.Pipeline
import RagcModel.Lemmas.QueueProduct
/-!
C05 — the compression pipeline always terminates.

Model: `Model/Pipeline.lean` — the producer program, the bounded priority queue at the granularity
of completed calls, `N` workers running the loop of `worker_thread` with its four barrier waits.
`Step fx s s'` is one guarded action (`fx = false`: the push guard before the fix of defect D5,
`cur + size ≤ cap`; `fx = true`: the guard of the code as it stands since c0ac607, which also admits
an item into an empty queue). With every item `≤ cap` the two guards enable the same pushes.

Vocabulary (defined in `Lemmas/Pipeline.lean`):
* `Φ s` — potential: instruction `push x` weighs `qpot x + 1`, `waitEmpty`/`close` 1; a queued contig
  2, a queued token 10; a worker: `idle` 1, `working` 2, `bar j` `12 - 2j`, `ph j` `11 - 2j`, `exited` 0;
* `TokRuns N 0 body` — tokens come in runs of exactly `N`: scanning `body`, a contig push or a
  `waitEmpty` occurs only between complete runs of `N` token pushes, and `body` ends between runs;
* `WellFormedShape N prog` — `1 ≤ N`, `prog = body ++ [close]`, no `close` in `body`, `TokRuns N 0 body`;
  `WellFormedProgram N cap prog` — additionally every pushed item has `size ≤ cap`;
* `ModeA ws` — every worker is `idle`, `working _`, `ph 4`, `bar 1` or `exited` (collecting a round);
  `ModeB ws` — for one `j ∈ {1,2,3}` every worker is `ph j` or `bar (j+1)` (inside a round, lockstep).

Outside the model: OS scheduling fairness, worker panics, `drain`'s polling loop (modelled as
"enabled when the queue is empty"). The condvar protocol inside the queue is no longer outside: the
last section replaces the atomic queue by the critical-section model of C06 (`Model/Queue.lean`) and
shows that nothing changes (`Lemmas/QueueProduct.lean` has the product system; spurious wake-ups are
allowed, what is assumed of `Condvar` is what `Model/Queue.lean` states).
-/
namespace Ragc.Props.C05
open Ragc.Pipeline

/-! ### Every transition consumes potential: all executions are finite -/

/-- Every transition, from ANY state (reachable or not), for either push guard, strictly decreases
the potential. -/
theorem measure_decreases (fx : Bool) (s s' : State) (h : Step fx s s') : Φ s' < Φ s := by
  obtain ⟨e, he⟩ := h
  exact step?_decreases fx s s' e he

/-- Hence an execution from `s` has at most `Φ s` steps: no livelock for any thread count, capacity,
program or interleaving. -/
theorem executions_bounded (fx : Bool) (s : State) (trace : List State) (h : IsExec fx s trace) :
    trace.length ≤ Φ s :=
  exec_bounded fx s trace h

/-- a 2-worker, 1-contig program: at most 37 steps -/
def demoProg : List Instr :=
  [.push (.contig 0 2147483647 5 5 0), .push (.token 0 1000000 1), .push (.token 0 1000000 1), .close]

example : Φ (init demoProg 8 2) = 3 + 11 + 11 + 1 + 2 := by decide
example : WellFormedProgram 2 8 demoProg := by
  refine ⟨⟨by decide, [.push (.contig 0 2147483647 5 5 0), .push (.token 0 1000000 1), .push (.token 0 1000000 1)], rfl, by decide, ?_⟩, by decide⟩
  exact .contig rfl (.token rfl (by decide) (.tokenLast rfl rfl .nil))

/-! ### No deadlock -/

/-- A reachable state that is not final has an enabled transition, when every item fits the
capacity — for every `N ≥ 1`, every capacity and every interleaving. -/
theorem no_deadlock (prog : List Instr) (N cap : Nat) (s : State)
    (hwf : WellFormedProgram N cap prog) (hr : Reachable false prog cap N s) (hnf : ¬ Final s) :
    ∃ s', Step false s s' :=
  inv5_progress hwf.1.npos (wf_dvd hwf.1) (inv5_reachable hwf.1 (fun _ => hwf.2) hr) hnf

/-- With the repaired push guard (`cur + size ≤ cap ∨ queue empty`, the code as it stands) the same
holds WITHOUT any hypothesis on item sizes. -/
theorem no_deadlock_fixed (prog : List Instr) (N cap : Nat) (s : State)
    (hwf : WellFormedShape N prog) (hr : Reachable true prog cap N s) (hnf : ¬ Final s) :
    ∃ s', Step true s s' :=
  inv5_progress hwf.npos (wf_dvd hwf) (inv5_reachable hwf (fun h => by simp at h) hr) hnf

/-- Together: every maximal execution from the initial state is finite and ends in a final state
(`finalize` returns). Stated for an execution that cannot be extended. -/
theorem terminates_in_final (prog : List Instr) (N cap : Nat) (hwf : WellFormedProgram N cap prog)
    (s : State) (hr : Reachable false prog cap N s) (hstuck : ¬ ∃ s', Step false s s') : Final s :=
  Classical.byContradiction (fun hnf => hstuck (no_deadlock prog N cap s hwf hr hnf))

/-- The programs the CLI generates (`programOf`, both modes, every input with
`#samples + #contigs < 2^31 - 1 - 1 000 000`, every `N ≥ 1`, every pack size) are well formed. -/
theorem programOf_wellFormed (single : Bool) (N pack : Nat) (samples : List (List Nat))
    (hN : 1 ≤ N) (hw : weight samples < 2146483647) : WellFormedShape N (programOf single N pack samples) := by
  obtain ⟨body, R, hi', hb, hs⟩ := programOf_scan (pack := pack) single hN samples hw
  rw [hb]; exact scan_wellFormedShape hN hs

/-- So a `create` run whose queue capacity admits every contig never gets stuck and takes at most
`Φ (init …)` steps, whatever the interleaving. -/
theorem create_terminates (single : Bool) (N pack cap : Nat) (samples : List (List Nat))
    (hN : 1 ≤ N) (hw : weight samples < 2146483647)
    (hcap : ∀ x ∈ items (programOf single N pack samples), x.size ≤ cap) :
    (∀ s, Reachable false (programOf single N pack samples) cap N s → ¬ Final s → ∃ s', Step false s s') ∧
    (∀ trace, IsExec false (init (programOf single N pack samples) cap N) trace →
        trace.length ≤ Φ (init (programOf single N pack samples) cap N)) :=
  ⟨fun s hr hnf => no_deadlock _ N cap s ⟨programOf_wellFormed single N pack samples hN hw, hcap⟩ hr hnf,
   fun trace h => executions_bounded false _ trace h⟩

example : Φ (init (programOf true 2 2 [[5, 3, 0, 7]]) 8 2) = 56 := by decide

/-! ### Final states are complete -/

/-- In a final state every contig of the program has been appended to the raw buffers exactly once
(it is in a closed batch or, if it was pulled after the last round, still in `buffered` — C04's
`batches_schedule_independent` shows the latter is empty for the programs the CLI generates), and
every token round closed exactly one batch (`N` tokens each). -/
theorem final_complete (prog : List Instr) (N cap : Nat) (s : State)
    (hwf : WellFormedProgram N cap prog) (hr : Reachable false prog cap N s) (hf : Final s) :
    (s.batches.flatten ++ s.buffered).Perm (contigSeqs (items prog)) ∧
      N * s.batches.length = tokCount (items prog) :=
  inv5_final (inv5_reachable hwf.1 (fun _ => hwf.2) hr) hf

/-- the same for the repaired guard -/
theorem final_complete_fixed (prog : List Instr) (N cap : Nat) (s : State)
    (hwf : WellFormedShape N prog) (hr : Reachable true prog cap N s) (hf : Final s) :
    (s.batches.flatten ++ s.buffered).Perm (contigSeqs (items prog)) ∧
      N * s.batches.length = tokCount (items prog) :=
  inv5_final (inv5_reachable hwf (fun h => by simp at h) hr) hf

/-! ### Round accounting -/

/-- In every reachable state: there are `N` workers; either nobody is beyond barrier 1 (`ModeA`) or
all `N` workers are inside the same round at the same barrier index up to the release lag (`ModeB`);
a worker that has exited did so after `close` with the queue empty; and every closed batch consumed
exactly `N` tokens — one per worker, since a worker holding a token (`bar 1`) cannot pull again:
`N · #batches + #workers waiting at barrier 1 + #tokens queued + #tokens still to push = #tokens`. -/
theorem round_accounting (prog : List Instr) (N cap : Nat) (s : State)
    (hwf : WellFormedProgram N cap prog) (hr : Reachable false prog cap N s) :
    s.workers.length = N ∧ (ModeA s.workers ∨ ModeB s.workers) ∧
    (WState.exited ∈ s.workers → s.closed = true ∧ s.queue = [] ∧ s.prog = []) ∧
    N * s.batches.length + s.workers.count (.bar 1) + tokCount s.queue + tokCount (items s.prog)
      = tokCount (items prog) := by
  have hi := inv5_reachable hwf.1 (fun _ => hwf.2) hr
  refine ⟨hi.len, hi.shape, fun h => ⟨(hi.exitedClosed h).1, (hi.exitedClosed h).2, hi.closedProg (hi.exitedClosed h).1⟩, ?_⟩
  have := hi.tokAcc
  rw [sumBy_bar1W, sumBy_tokW, sumBy_tokW, sumBy_tokW] at this
  exact this

/-! ### Defect D5 (fixed in c0ac607): an item larger than the capacity blocked the pipeline -/

/-- capacity 8; a 3-byte contig, then a 9-byte contig, two workers -/
def oversizeProg : List Instr :=
  [.push (.contig 0 2147483647 3 3 0), .push (.contig 1 2147483647 9 9 0),
   .push (.token 0 1000000 1), .push (.token 0 1000000 1), .close]

/-- the state after the first contig went through: the producer is blocked in `push` of the 9-byte
contig, the queue is empty, both workers wait in `pull` -/
def oversizeStuck : State :=
  { prog := oversizeProg.tail, queue := [], closed := false, cap := 8,
    workers := [.idle, .idle], buffered := [0], batches := [] }

/-- With the push guard before the fix, the state "producer blocked on push, queue empty, all
workers idle" is reachable and has no enabled transition (and is not final): the pipeline hangs.
With the repaired guard the push is enabled there. -/
theorem oversize_blocks :
    Reachable false oversizeProg 8 2 oversizeStuck ∧ ¬ Final oversizeStuck ∧
    (¬ ∃ s', Step false oversizeStuck s') ∧ (∃ s', Step true oversizeStuck s') := by
  refine ⟨?_, by decide, ?_, ?_⟩
  · have h1 : Reachable false oversizeProg 8 2
        { oversizeStuck with queue := [.contig 0 2147483647 3 3 0], buffered := [] } :=
      .step .init ⟨.prod, by decide⟩
    have h2 : Reachable false oversizeProg 8 2
        { oversizeStuck with workers := [.working 0, .idle], buffered := [] } :=
      .step h1 ⟨.pull 0 (.contig 0 2147483647 3 3 0), by decide⟩
    exact .step h2 ⟨.buffer 0, by decide⟩
  · rintro ⟨s', e, h⟩
    have hs := stepI_of_step? h
    cases hs with
    | push hp hg =>
      simp [oversizeStuck, oversizeProg] at hp
      obtain ⟨hx, _⟩ := hp
      subst hx
      revert hg; decide
    | waitEmpty hp _ => simp [oversizeStuck, oversizeProg] at hp
    | close hp => simp [oversizeStuck, oversizeProg] at hp
    | pull _ hm => exact absurd hm.1 (by simp [oversizeStuck])
    | exit _ hc _ => simp [oversizeStuck] at hc
    | buffer hw => have := mem_of_getElem? hw; simp [oversizeStuck] at this
    | release1 _ hall => have := hall .idle (by simp [oversizeStuck]); simp at this
    | release _ _ _ hall => have := hall .idle (by simp [oversizeStuck]); simp at this
    | advance hw _ _ => have := mem_of_getElem? hw; simp [oversizeStuck] at this
    | advance4 hw => have := mem_of_getElem? hw; simp [oversizeStuck] at this
  · exact ⟨{ oversizeStuck with prog := oversizeProg.tail.tail, queue := [.contig 1 2147483647 9 9 0] }, .prod, by decide⟩

/-! ### The queue at condvar granularity (the model of C06) in place of the atomic queue

`Product.PState` = a pipeline state `p` + a state `q` of `Model/Queue.lean` with `N + 1` threads
(thread 0 the producer, thread `w + 1` worker `w`). Transitions `Product.pstep`: `stut e` — a Queue
event that completes no call (the producer enters `push` with the next item of its program, a worker
at the top of its loop enters `pull`, go to sleep, resume after a notify, spurious wake-up);
`push w` / `pull t x w` / `eos t` / `close` — the linearisation event of the Queue model
(`pushAdmit 0 w`, `pullTake (t+1) (enc x) w`, `pullEos (t+1)`, `close 0`) together with the
completed-call step of the pipeline; `waitEmpty`; `work e` (buffer / release / advance).
`enc` translates `ContigTask`s into items of the Queue model (`Product.EncOK`: same size, and on the
items of the program `taskLt a b ↔ key (enc a) < key (enc b)`). -/

/-- Such a translation exists for every program: the key of `x` is the number of program items
strictly below `x` (`taskLt` is a strict weak order). -/
theorem item_encoding_exists (prog : List Instr) : Product.EncOK (Product.rankEnc prog) prog :=
  Product.rankEnc_ok prog

example : Product.rankEnc Product.Demo.prog Product.Demo.ctg = ⟨0, 2, 5⟩ ∧
    Product.rankEnc Product.Demo.prog Product.Demo.tok = ⟨0, 0, 0⟩ := by decide

/-- Safety: whatever the threads do inside the queue, the pipeline component of every reachable
product state is a reachable state of the atomic model (so `round_accounting`, C04's
schedule-independence … apply to it), and its ghost queue is the queue of the Queue model: same
items up to order, same `closed`, same byte count. -/
theorem product_refines_pipeline {enc : Product.PItem → Product.QItem} {prog : List Instr}
    {cap N : Nat} {s : Product.PState} (henc : Product.EncOK enc prog)
    (hr : Product.PReach enc prog cap N s) :
    Reachable true prog cap N s.p ∧ (s.p.queue.map enc).Perm s.q.items ∧
      s.p.closed = s.q.closed ∧ s.p.cur = s.q.cur ∧ s.q.cur = Queue.sizeSum s.q.items :=
  let hi := Product.pinv_reach hr
  ⟨hi.reach, hi.perm, hi.closed_eq, Product.pinv_cur henc hi, hi.a.cur_eq⟩

example : Reachable true Product.Demo.prog 8 2 Product.Demo.notified.p ∧
    (Product.Demo.notified.p.queue.map Product.Demo.enc).Perm Product.Demo.notified.q.items :=
  let h := product_refines_pipeline (item_encoding_exists _)
    (Product.prun_reach _ .init Product.Demo.run_notified)
  ⟨h.1, h.2.1⟩

/-- The product hides no behaviour of the queue: in a reachable state, every event that the Queue
model enables for a call in progress (anything but the start of a new call — those are fixed by the
threads' programs) is a transition of the product with exactly that effect on the queue. In
particular a `pushAdmit` / `pullTake` / `pullEos` that the condvar-level queue performs is always a
legal completed call of the atomic model. -/
theorem product_hides_nothing {enc : Product.PItem → Product.QItem} {prog : List Instr}
    {cap N : Nat} {s : Product.PState} (henc : Product.EncOK enc prog) (hwf : WellFormedShape N prog)
    (hr : Product.PReach enc prog cap N s) {e : Queue.Event} {q' : Queue.State}
    (hs : Queue.step cap s.q e = some q') (hns : e.isStart = false) :
    ∃ pe p', Product.pstep enc s pe = some ⟨p', q'⟩ :=
  Product.product_faithful henc hwf (Product.pinv_reach hr) hs hns

/-- in `Demo.notified` the Queue model lets the notified worker resume; the product has that step -/
example : ∃ pe p', Product.pstep Product.Demo.enc Product.Demo.notified pe =
    some ⟨p', Product.Demo.notified.q.setT 1 .pulling⟩ :=
  product_hides_nothing (N := 2) (item_encoding_exists _)
    ⟨by decide, [.push Product.Demo.ctg, .push Product.Demo.tok, .push Product.Demo.tok], rfl, by decide,
      .contig rfl (.token rfl (by decide) (.tokenLast rfl rfl .nil))⟩
    (Product.prun_reach _ .init Product.Demo.run_notified) (e := .pullWake 1) (by decide) rfl

/-- No completed call is withheld by the condvar protocol: whenever the atomic model can take a
step from the pipeline component, the product has an enabled transition that is not a spurious
wake-up — of the same thread, or, when that thread is a consumer asleep in `not_empty.wait`, of the
consumer the wake-up went to (`Props.C06.blocked_call_has_cause`). The producer is never asleep while
its item fits (`no_lost_wakeup_not_full_single`); no hypothesis on the program. -/
theorem completed_call_step_matched {enc : Product.PItem → Product.QItem} {prog : List Instr}
    {cap N : Nat} {s : Product.PState} (henc : Product.EncOK enc prog)
    (hr : Product.PReach enc prog cap N s) {p' : State} (hs : Step true s.p p') :
    ∃ e s', Product.pstep enc s e = some s' ∧ e.isSpur = false :=
  Product.abstract_step_matched henc (Product.pinv_reach hr) hs

/-- in `Demo.asleep` (worker 0 asleep, queue empty) the atomic model can push; so can the product -/
example : ∃ e s', Product.pstep Product.Demo.enc Product.Demo.asleep e = some s' ∧ e.isSpur = false :=
  completed_call_step_matched (item_encoding_exists _)
    (Product.prun_reach _ .init Product.Demo.run_asleep) ⟨.prod, rfl⟩

/-- Termination over condvars. For a well-formed program, with the queue being the Queue model of
C06 (any `notify_one` choices, spurious wake-ups allowed): a reachable product state is stuck —
nothing but spurious wake-ups is enabled: no thread can take a step inside its call, start the next
call of its program, or work outside the queue — **iff** its pipeline component is final (producer
done, queue empty, every worker exited). So the pipeline cannot hang inside the queue; combines
`no_deadlock_fixed` with `completed_call_step_matched`. No hypothesis on item sizes. -/
theorem pipeline_termination_over_condvars (prog : List Instr) (N cap : Nat)
    (hwf : WellFormedShape N prog) (enc : Product.PItem → Product.QItem)
    (henc : Product.EncOK enc prog) (s : Product.PState) (hr : Product.PReach enc prog cap N s) :
    Product.Stuck enc s ↔ Final s.p :=
  ⟨Product.stuck_final henc (fun p hp hnf => no_deadlock_fixed prog N cap p hwf hp hnf)
      (Product.pinv_reach hr),
   Product.final_stuck (Product.pinv_reach hr)⟩

/-- the 32-step run `Demo.evs` (a worker sleeps, is notified, the contig and the token round go
through, both workers see end-of-stream) ends in a final, hence stuck, state -/
example : Product.Stuck Product.Demo.enc Product.Demo.final :=
  (pipeline_termination_over_condvars Product.Demo.prog 2 8
    ⟨by decide, [.push Product.Demo.ctg, .push Product.Demo.tok, .push Product.Demo.tok], rfl, by decide,
      .contig rfl (.token rfl (by decide) (.tokenLast rfl rfl .nil))⟩
    _ (item_encoding_exists _) _ (Product.prun_reach _ .init Product.Demo.run_final)).mpr (by decide)
example : ¬ Final Product.Demo.notified.p := by decide

/-- And it gets there: every transition of the product other than a spurious wake-up strictly
decreases `Product.M = Φ p · (5 (N+1) + 1) + Σ thread weights` (outside the queue 5, notified 4,
evaluating the loop condition 3, asleep 2), from ANY state. Hence an execution without spurious
wake-ups has at most `M` transitions, and by the previous theorem it can only stop in a final state.
(With spurious wake-ups a sleeper can wake and go back to sleep for ever: that is scheduling
fairness, outside the model.) -/
theorem condvar_executions_bounded (enc : Product.PItem → Product.QItem) (s s' : Product.PState)
    (es : List Product.PEv) (h : Product.prun enc s es = some s')
    (hsp : ∀ e ∈ es, e.isSpur = false) : es.length + Product.M s' ≤ Product.M s :=
  Product.prun_bounded es h hsp

example : Product.M (Product.init Product.Demo.prog 8 2) = 28 * 16 + 15 := by decide
example : 32 + Product.M Product.Demo.final ≤ Product.M (Product.init Product.Demo.prog 8 2) :=
  condvar_executions_bounded _ _ _ Product.Demo.evs Product.Demo.run_final (by decide)

end Ragc.Props.C05
