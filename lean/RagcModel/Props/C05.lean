import RagcModel.Lemmas.Pipeline
/-!
C05 — the compression pipeline always terminates.

Model: `Model/Pipeline.lean` — the producer program, the bounded priority queue at the granularity
of completed calls, `N` workers running the loop of `worker_thread` with its four barrier waits.
`Step fx s s'` is one guarded action (`fx = false`: the push guard before the fix of defect D5,
`cur + size ≤ cap`; `fx = true`: the guard of the code as it stands since c0ac607, which also admits
an item into an empty queue). With every item `≤ cap` the two guards enable the same pushes.

Vocabulary (defined in `Lemmas/Pipeline.lean`):
* `Φ s` — potential: instruction `push x` weighs `qpot x + 1`, `waitEmpty`/`close` 1; a queued contig
  2, a queued token 10; a worker: `idle` 1, `working` 2, `bar j` `12 - 2j`, `ph j` `11 - 2j`, `exited` 0;
* `TokRuns N 0 body` — tokens come in runs of exactly `N`: scanning `body`, a contig push or a
  `waitEmpty` occurs only between complete runs of `N` token pushes, and `body` ends between runs;
* `WellFormedShape N prog` — `1 ≤ N`, `prog = body ++ [close]`, no `close` in `body`, `TokRuns N 0 body`;
  `WellFormedProgram N cap prog` — additionally every pushed item has `size ≤ cap`;
* `ModeA ws` — every worker is `idle`, `working _`, `ph 4`, `bar 1` or `exited` (collecting a round);
  `ModeB ws` — for one `j ∈ {1,2,3}` every worker is `ph j` or `bar (j+1)` (inside a round, lockstep).

Outside the model: OS scheduling fairness, the condvar protocol inside the queue (C06), worker
panics, `drain`'s polling loop (modelled as "enabled when the queue is empty").
-/
namespace Ragc.Props.C05
open Ragc.Pipeline

/-! ### Every transition consumes potential: all executions are finite -/

/-- Every transition, from ANY state (reachable or not), for either push guard, strictly decreases
the potential. -/
theorem measure_decreases (fx : Bool) (s s' : State) (h : Step fx s s') : Φ s' < Φ s := by
  obtain ⟨e, he⟩ := h
  exact step?_decreases fx s s' e he

/-- Hence an execution from `s` has at most `Φ s` steps: no livelock for any thread count, capacity,
program or interleaving. -/
theorem executions_bounded (fx : Bool) (s : State) (trace : List State) (h : IsExec fx s trace) :
    trace.length ≤ Φ s :=
  exec_bounded fx s trace h

/-- a 2-worker, 1-contig program: at most 37 steps -/
def demoProg : List Instr :=
  [.push (.contig 0 2147483647 5 5 0), .push (.token 0 1000000 1), .push (.token 0 1000000 1), .close]

example : Φ (init demoProg 8 2) = 3 + 11 + 11 + 1 + 2 := by decide
example : WellFormedProgram 2 8 demoProg := by
  refine ⟨⟨by decide, [.push (.contig 0 2147483647 5 5 0), .push (.token 0 1000000 1), .push (.token 0 1000000 1)], rfl, by decide, ?_⟩, by decide⟩
  exact .contig rfl (.token rfl (by decide) (.tokenLast rfl rfl .nil))

/-! ### No deadlock -/

/-- A reachable state that is not final has an enabled transition, when every item fits the
capacity — for every `N ≥ 1`, every capacity and every interleaving. -/
theorem no_deadlock (prog : List Instr) (N cap : Nat) (s : State)
    (hwf : WellFormedProgram N cap prog) (hr : Reachable false prog cap N s) (hnf : ¬ Final s) :
    ∃ s', Step false s s' :=
  inv5_progress hwf.1.npos (wf_dvd hwf.1) (inv5_reachable hwf.1 (fun _ => hwf.2) hr) hnf

/-- With the repaired push guard (`cur + size ≤ cap ∨ queue empty`, the code as it stands) the same
holds WITHOUT any hypothesis on item sizes. -/
theorem no_deadlock_fixed (prog : List Instr) (N cap : Nat) (s : State)
    (hwf : WellFormedShape N prog) (hr : Reachable true prog cap N s) (hnf : ¬ Final s) :
    ∃ s', Step true s s' :=
  inv5_progress hwf.npos (wf_dvd hwf) (inv5_reachable hwf (fun h => by simp at h) hr) hnf

/-- Together: every maximal execution from the initial state is finite and ends in a final state
(`finalize` returns). Stated for an execution that cannot be extended. -/
theorem terminates_in_final (prog : List Instr) (N cap : Nat) (hwf : WellFormedProgram N cap prog)
    (s : State) (hr : Reachable false prog cap N s) (hstuck : ¬ ∃ s', Step false s s') : Final s :=
  Classical.byContradiction (fun hnf => hstuck (no_deadlock prog N cap s hwf hr hnf))

/-- The programs the CLI generates (`programOf`, both modes, every input with
`#samples + #contigs < 2^31 - 1 - 1 000 000`, every `N ≥ 1`, every pack size) are well formed. -/
theorem programOf_wellFormed (single : Bool) (N pack : Nat) (samples : List (List Nat))
    (hN : 1 ≤ N) (hw : weight samples < 2146483647) : WellFormedShape N (programOf single N pack samples) := by
  obtain ⟨body, R, hi', hb, hs⟩ := programOf_scan (pack := pack) single hN samples hw
  rw [hb]; exact scan_wellFormedShape hN hs

/-- So a `create` run whose queue capacity admits every contig never gets stuck and takes at most
`Φ (init …)` steps, whatever the interleaving. -/
theorem create_terminates (single : Bool) (N pack cap : Nat) (samples : List (List Nat))
    (hN : 1 ≤ N) (hw : weight samples < 2146483647)
    (hcap : ∀ x ∈ items (programOf single N pack samples), x.size ≤ cap) :
    (∀ s, Reachable false (programOf single N pack samples) cap N s → ¬ Final s → ∃ s', Step false s s') ∧
    (∀ trace, IsExec false (init (programOf single N pack samples) cap N) trace →
        trace.length ≤ Φ (init (programOf single N pack samples) cap N)) :=
  ⟨fun s hr hnf => no_deadlock _ N cap s ⟨programOf_wellFormed single N pack samples hN hw, hcap⟩ hr hnf,
   fun trace h => executions_bounded false _ trace h⟩

example : Φ (init (programOf true 2 2 [[5, 3, 0, 7]]) 8 2) = 56 := by decide

/-! ### Final states are complete -/

/-- In a final state every contig of the program has been appended to the raw buffers exactly once
(it is in a closed batch or, if it was pulled after the last round, still in `buffered` — C04's
`batches_schedule_independent` shows the latter is empty for the programs the CLI generates), and
every token round closed exactly one batch (`N` tokens each). -/
theorem final_complete (prog : List Instr) (N cap : Nat) (s : State)
    (hwf : WellFormedProgram N cap prog) (hr : Reachable false prog cap N s) (hf : Final s) :
    (s.batches.flatten ++ s.buffered).Perm (contigSeqs (items prog)) ∧
      N * s.batches.length = tokCount (items prog) :=
  inv5_final (inv5_reachable hwf.1 (fun _ => hwf.2) hr) hf

/-- the same for the repaired guard -/
theorem final_complete_fixed (prog : List Instr) (N cap : Nat) (s : State)
    (hwf : WellFormedShape N prog) (hr : Reachable true prog cap N s) (hf : Final s) :
    (s.batches.flatten ++ s.buffered).Perm (contigSeqs (items prog)) ∧
      N * s.batches.length = tokCount (items prog) :=
  inv5_final (inv5_reachable hwf (fun h => by simp at h) hr) hf

/-! ### Round accounting -/

/-- In every reachable state: there are `N` workers; either nobody is beyond barrier 1 (`ModeA`) or
all `N` workers are inside the same round at the same barrier index up to the release lag (`ModeB`);
a worker that has exited did so after `close` with the queue empty; and every closed batch consumed
exactly `N` tokens — one per worker, since a worker holding a token (`bar 1`) cannot pull again:
`N · #batches + #workers waiting at barrier 1 + #tokens queued + #tokens still to push = #tokens`. -/
theorem round_accounting (prog : List Instr) (N cap : Nat) (s : State)
    (hwf : WellFormedProgram N cap prog) (hr : Reachable false prog cap N s) :
    s.workers.length = N ∧ (ModeA s.workers ∨ ModeB s.workers) ∧
    (WState.exited ∈ s.workers → s.closed = true ∧ s.queue = [] ∧ s.prog = []) ∧
    N * s.batches.length + s.workers.count (.bar 1) + tokCount s.queue + tokCount (items s.prog)
      = tokCount (items prog) := by
  have hi := inv5_reachable hwf.1 (fun _ => hwf.2) hr
  refine ⟨hi.len, hi.shape, fun h => ⟨(hi.exitedClosed h).1, (hi.exitedClosed h).2, hi.closedProg (hi.exitedClosed h).1⟩, ?_⟩
  have := hi.tokAcc
  rw [sumBy_bar1W, sumBy_tokW, sumBy_tokW, sumBy_tokW] at this
  exact this

/-! ### Defect D5 (fixed in c0ac607): an item larger than the capacity blocked the pipeline -/

/-- capacity 8; a 3-byte contig, then a 9-byte contig, two workers -/
def oversizeProg : List Instr :=
  [.push (.contig 0 2147483647 3 3 0), .push (.contig 1 2147483647 9 9 0),
   .push (.token 0 1000000 1), .push (.token 0 1000000 1), .close]

/-- the state after the first contig went through: the producer is blocked in `push` of the 9-byte
contig, the queue is empty, both workers wait in `pull` -/
def oversizeStuck : State :=
  { prog := oversizeProg.tail, queue := [], closed := false, cap := 8,
    workers := [.idle, .idle], buffered := [0], batches := [] }

/-- With the push guard before the fix, the state "producer blocked on push, queue empty, all
workers idle" is reachable and has no enabled transition (and is not final): the pipeline hangs.
With the repaired guard the push is enabled there. -/
theorem oversize_blocks :
    Reachable false oversizeProg 8 2 oversizeStuck ∧ ¬ Final oversizeStuck ∧
    (¬ ∃ s', Step false oversizeStuck s') ∧ (∃ s', Step true oversizeStuck s') := by
  refine ⟨?_, by decide, ?_, ?_⟩
  · have h1 : Reachable false oversizeProg 8 2
        { oversizeStuck with queue := [.contig 0 2147483647 3 3 0], buffered := [] } :=
      .step .init ⟨.prod, by decide⟩
    have h2 : Reachable false oversizeProg 8 2
        { oversizeStuck with workers := [.working 0, .idle], buffered := [] } :=
      .step h1 ⟨.pull 0 (.contig 0 2147483647 3 3 0), by decide⟩
    exact .step h2 ⟨.buffer 0, by decide⟩
  · rintro ⟨s', e, h⟩
    have hs := stepI_of_step? h
    cases hs with
    | push hp hg =>
      simp [oversizeStuck, oversizeProg] at hp
      obtain ⟨hx, _⟩ := hp
      subst hx
      revert hg; decide
    | waitEmpty hp _ => simp [oversizeStuck, oversizeProg] at hp
    | close hp => simp [oversizeStuck, oversizeProg] at hp
    | pull _ hm => exact absurd hm.1 (by simp [oversizeStuck])
    | exit _ hc _ => simp [oversizeStuck] at hc
    | buffer hw => have := mem_of_getElem? hw; simp [oversizeStuck] at this
    | release1 _ hall => have := hall .idle (by simp [oversizeStuck]); simp at this
    | release _ _ _ hall => have := hall .idle (by simp [oversizeStuck]); simp at this
    | advance hw _ _ => have := mem_of_getElem? hw; simp [oversizeStuck] at this
    | advance4 hw => have := mem_of_getElem? hw; simp [oversizeStuck] at this
  · exact ⟨{ oversizeStuck with prog := oversizeProg.tail.tail, queue := [.contig 1 2147483647 9 9 0] }, .prod, by decide⟩

end Ragc.Props.C05
