import RagcModel.Model.Range
import RagcModel.Lemmas.Range
/-!
# C07 — range and length queries agree with full extraction

Model: `RagcModel/Model/Range.lean` (decompressor.rs `get_contig_range`, `get_contig_length`,
`reconstruct_contig`, `reverse_complement_segment`). Specification: `full k segs` — first segment
whole, every later one without its first `k` bytes — and the well-formedness `WF k segs` of the
reader's view (`raw_length` = decoded length for every segment, later segments at least `k` long);
both are defined in `Lemmas/Range.lean`, as are the example contigs `exSegs` (k = 2) and
`exSegs3` (k = 3) used for non-vacuity.
-/
namespace Ragc.Props.C07
open Ragc.Range

/-! ## reverse complement of a segment -/

/-- `reverse_complement_segment` is an involution on ALL code lists (codes ≥ 4, e.g. IUPAC codes
and anything else a byte can hold, are only moved, never changed). -/
theorem rc_segment_involutive (s : List Nat) :
    reverseComplementSegment (reverseComplementSegment s) = s := by
  unfold reverseComplementSegment
  rw [← List.map_reverse, List.reverse_reverse, List.map_map]
  have : complementBase ∘ complementBase = id := by
    funext b; exact complementBase_involutive b
  rw [this, List.map_id]

example : reverseComplementSegment [0, 1, 2, 3, 4, 15, 30] = [30, 15, 4, 0, 1, 2, 3] := by decide

/-- `reverse_complement_segment` keeps the length (so `raw_length` is orientation independent). -/
theorem rc_segment_length (s : List Nat) : (reverseComplementSegment s).length = s.length := by
  simp [reverseComplementSegment]

/-! ## full extraction -/

/-- `reconstruct_contig` returns `full` whenever no later segment is shorter than `k`. -/
theorem reconstruct_eq_full (k : Nat) (segs : List Seg)
    (h : ∀ s ∈ segs.tail, k ≤ s.data.length) : reconstruct k segs = some (full k segs) := by
  cases segs with
  | nil => rfl
  | cons s rest =>
    simp only [List.tail_cons] at h
    simp only [reconstruct, full]
    exact reconstructTail_eq k rest s.data h

example : (∀ s ∈ exSegs.tail, 2 ≤ s.data.length) ∧
    reconstruct 2 exSegs = some [0, 1, 2, 3, 0, 1, 1, 2, 2, 3, 3] := by decide

/-- … and it fails (the "Corrupted archive: segment too short" exit) exactly otherwise. -/
theorem reconstruct_err (k : Nat) (segs : List Seg)
    (h : ∃ s ∈ segs.tail, s.data.length < k) : reconstruct k segs = none := by
  cases segs with
  | nil => simp at h
  | cons s rest =>
    simp only [List.tail_cons] at h
    exact reconstructTail_none k rest s.data h

example : reconstruct 3 [⟨4, [0, 1, 2, 3]⟩, ⟨2, [1, 2]⟩] = none := by decide

/-! ## range query -/

/-- `get_contig_range` returns exactly the bases `[start, min(end, length))` of the fully
extracted contig, for ALL segment lists and ALL positions, whichever and however many segments
the range touches. -/
theorem range_eq (k : Nat) (segs : List Seg) (start end_ : Nat) (h : WF k segs) :
    contigRange k segs start end_
      = some (((full k segs).drop start).take (min end_ (full k segs).length - start)) := by
  obtain ⟨h1, h2⟩ := h
  unfold contigRange
  by_cases hse : start ≥ end_
  · have : min end_ (full k segs).length - start = 0 := by omega
    simp [hse, this]
  · obtain ⟨rs, hrs, hcol⟩ := passes_spec k segs [] 0 0 start (min end_ (full k segs).length) rfl h1
      (by simpa using h2)
    rw [contribs_zero] at hrs hcol
    simp only [Nat.zero_add] at hrs
    simp only [hse, if_false, hrs]
    by_cases hs2 : start ≥ min end_ (full k segs).length
    · have : min end_ (full k segs).length - start = 0 := by omega
      simp [hs2, this]
    · simp only [hs2, if_false]
      have := hcol []
      simp only [List.nil_append, Nat.sub_zero, Nat.max_zero] at this
      exact this

example : WF 2 exSegs ∧ contigRange 2 exSegs 3 10 = some [3, 0, 1, 1, 2, 2, 3] := by decide
example : contigRange 2 exSegs 4 6 = some [0, 1] ∧ contigRange 2 exSegs 8 1000 = some [2, 3, 3] := by
  decide
example : WF 3 exSegs3 ∧ contigRange 3 exSegs3 2 6 = some [2, 3, 4, 0] := by decide

/-- The hypothesis is needed: where a descriptor's `raw_length` is not the decoded length the range
query (which trusts `raw_length`) and the full extraction (which trusts the data) part ways. -/
example : ¬ WF 2 [⟨3, [0, 1, 2, 3, 0]⟩, ⟨4, [3, 0, 1, 1]⟩]
    ∧ contigRange 2 [⟨3, [0, 1, 2, 3, 0]⟩, ⟨4, [3, 0, 1, 1]⟩] 0 100 = some [0, 1, 2, 1, 1]
    ∧ full 2 [⟨3, [0, 1, 2, 3, 0]⟩, ⟨4, [3, 0, 1, 1]⟩] = [0, 1, 2, 3, 0, 1, 1] := by decide

/-- `start ≥ end` gives the empty answer (before anything is looked at; no hypothesis). -/
theorem range_empty_of_start_ge_end (k : Nat) (segs : List Seg) (start end_ : Nat)
    (h : start ≥ end_) : contigRange k segs start end_ = some [] := by
  simp [contigRange, h]

example : contigRange 2 exSegs 7 7 = some [] ∧ contigRange 2 exSegs 7 3 = some [] := by decide

/-- `start ≥ length` gives the empty answer. -/
theorem range_empty_of_start_ge_length (k : Nat) (segs : List Seg) (start end_ : Nat)
    (h : WF k segs) (hs : start ≥ (full k segs).length) : contigRange k segs start end_ = some [] := by
  rw [range_eq k segs start end_ h]
  have : min end_ (full k segs).length - start = 0 := by omega
  simp [this]

example : WF 2 exSegs ∧ 11 ≥ (full 2 exSegs).length ∧ contigRange 2 exSegs 11 1000 = some [] := by
  decide

/-- The answer has `min(end, length) - start` bases. -/
theorem range_length (k : Nat) (segs : List Seg) (start end_ : Nat) (h : WF k segs) :
    ∃ r, contigRange k segs start end_ = some r
      ∧ r.length = min end_ (full k segs).length - start := by
  refine ⟨_, range_eq k segs start end_ h, ?_⟩
  simp only [List.length_take, List.length_drop]
  omega

/-- The whole range is the full extraction: `get_contig_range(0, len) = get_contig`. -/
theorem range_whole_eq_reconstruct (k : Nat) (segs : List Seg) (end_ : Nat) (h : WF k segs)
    (he : end_ ≥ (full k segs).length) : contigRange k segs 0 end_ = reconstruct k segs := by
  rw [range_eq k segs 0 end_ h, reconstruct_eq_full k segs h.2]
  have : min end_ (full k segs).length = (full k segs).length := by omega
  simp [this]

/-- Adjacent ranges concatenate: `[a,b) ++ [b,c) = [a,c)` for `a ≤ b ≤ c`. -/
theorem range_concat (k : Nat) (segs : List Seg) (a b c : Nat) (h : WF k segs)
    (hab : a ≤ b) (hbc : b ≤ c) :
    ∃ x y, contigRange k segs a b = some x ∧ contigRange k segs b c = some y
      ∧ contigRange k segs a c = some (x ++ y) := by
  refine ⟨_, _, range_eq k segs a b h, range_eq k segs b c h, ?_⟩
  rw [range_eq k segs a c h, take_drop_concat (full k segs) a b c hab hbc]

example : contigRange 2 exSegs 3 6 = some [3, 0, 1] ∧ contigRange 2 exSegs 6 10 = some [1, 2, 2, 3]
    ∧ contigRange 2 exSegs 3 10 = some ([3, 0, 1] ++ [1, 2, 2, 3]) := by decide

/-! ## length query -/

/-- `get_contig_length` returns the length of the fully extracted contig. -/
theorem length_eq (k : Nat) (segs : List Seg) (h : WF k segs) :
    contigLength k (segs.map Seg.rawLen) = .ok (full k segs).length := by
  obtain ⟨h1, h2⟩ := h
  cases segs with
  | nil => rfl
  | cons s rest =>
    simp only [List.tail_cons] at h2
    rw [full_length k s rest h1]
    simp only [contigLength, List.map_cons, contigLengthLoop, if_true, Nat.zero_add]
    rw [contigLengthLoop_succ]
    intro x hx
    obtain ⟨t, ht, rfl⟩ := List.mem_map.mp hx
    rw [h1 t (by simp [ht])]
    exact h2 t ht

example : WF 2 exSegs ∧ contigLength 2 (exSegs.map Seg.rawLen) = .ok 11
    ∧ (full 2 exSegs).length = 11 := by decide
example : WF 3 exSegs3 ∧ contigLength 3 (exSegs3.map Seg.rawLen) = .ok 6 := by decide

/-- The `raw_length - kmer_len` subtraction underflows (dev profile: panic) exactly when some later
descriptor has `raw_length < k` — a statement about the descriptor list alone (shared with C18). -/
theorem length_underflow_iff (k : Nat) (rawLens : List Nat) :
    contigLength k rawLens = .underflow ↔ ∃ x ∈ rawLens.tail, x < k := by
  cases rawLens with
  | nil => simp [contigLength, contigLengthLoop]
  | cons r rest =>
    simp only [contigLength, contigLengthLoop, if_true, List.tail_cons]
    constructor
    · intro hu
      apply Classical.byContradiction
      intro hne
      have hall : ∀ x ∈ rest, k ≤ x := by
        intro x hx
        apply Classical.byContradiction
        intro hlt
        exact hne ⟨x, hx, by omega⟩
      rw [contigLengthLoop_succ k 0 _ rest hall] at hu
      cases hu
    · intro hex
      exact contigLengthLoop_succ_underflow k 0 _ rest hex

example : contigLength 3 [4, 2, 5] = .underflow ∧ contigLengthWrapping 3 [4, 2, 5] = 5 := by decide

/-- Under `WF` the checked (dev profile) and the wrapping (release profile) readings of
`get_contig_length` agree, for 64-bit `usize` (`k`, every `raw_length` and the contig length below
`2^64`). -/
theorem length_no_underflow (k : Nat) (segs : List Seg) (h : WF k segs)
    (hraw : ∀ s ∈ segs, s.rawLen < 2 ^ 64) (hlen : (full k segs).length < 2 ^ 64) :
    contigLength k (segs.map Seg.rawLen) = .ok (contigLengthWrapping k (segs.map Seg.rawLen)) := by
  rw [length_eq k segs h]
  congr 1
  obtain ⟨h1, h2⟩ := h
  cases segs with
  | nil => rfl
  | cons s rest =>
    simp only [List.tail_cons] at h2
    rw [full_length k s rest h1] at hlen ⊢
    have hs := hraw s (by simp)
    have ha : wrappingAdd 0 s.rawLen = s.rawLen := by
      unfold wrappingAdd; rw [Nat.zero_add]; exact Nat.mod_eq_of_lt hs
    simp only [contigLengthWrapping, List.map_cons, contigLengthWrapLoop, if_true, Nat.zero_add, ha]
    rw [contigLengthWrapLoop_succ k 0 _ _ _ hlen]
    intro x hx
    obtain ⟨t, ht, rfl⟩ := List.mem_map.mp hx
    refine ⟨?_, hraw t (by simp [ht])⟩
    rw [h1 t (by simp [ht])]
    exact h2 t ht

example : WF 2 exSegs ∧ contigLengthWrapping 2 (exSegs.map Seg.rawLen) = 11 := by decide

end Ragc.Props.C07
