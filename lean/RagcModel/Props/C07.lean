import RagcModel.Model.Range
import RagcModel.Lemmas.Range
import RagcModel.Lemmas.ReaderLink
/-!
# C07 — range and length queries agree with full extraction

Model: `RagcModel/Model/Range.lean` (decompressor.rs `get_contig_range`, `get_contig_length`,
`reconstruct_contig`, `reverse_complement_segment`). Specification: `full k segs` — first segment
whole, every later one without its first `k` bytes — and the well-formedness `WF k segs` of the
reader's view (`raw_length` = decoded length for every segment, later segments at least `k` long);
both are defined in `Lemmas/Range.lean`, as are the example contigs `exSegs` (k = 2) and
`exSegs3` (k = 3) used for non-vacuity.

The last section ties these theorems to the reader-handle model of C08 (`Model/ReaderState.lean`)
and to files that `create` wrote (`Lemmas/ReaderLink.lean`): `handle_range_eq`, `handle_length_eq`
(every abstract archive on which the contig's descriptors load and are well formed) and
`range_on_written_archive`, `range_concat_on_written_archive` (the archive content of
`Writer.writeArchive`, where `WF` is discharged by the writer: `raw_length` = piece length, later
pieces at least `k` long).
-/
namespace Ragc.Props.C07
open Ragc.Range

/-! ## reverse complement of a segment -/

/-- `reverse_complement_segment` is an involution on ALL code lists (codes ≥ 4, e.g. IUPAC codes
and anything else a byte can hold, are only moved, never changed). -/
theorem rc_segment_involutive (s : List Nat) :
    reverseComplementSegment (reverseComplementSegment s) = s := by
  unfold reverseComplementSegment
  rw [← List.map_reverse, List.reverse_reverse, List.map_map]
  have : complementBase ∘ complementBase = id := by
    funext b; exact complementBase_involutive b
  rw [this, List.map_id]

example : reverseComplementSegment [0, 1, 2, 3, 4, 15, 30] = [30, 15, 4, 0, 1, 2, 3] := by decide

/-- `reverse_complement_segment` keeps the length (so `raw_length` is orientation independent). -/
theorem rc_segment_length (s : List Nat) : (reverseComplementSegment s).length = s.length := by
  simp [reverseComplementSegment]

/-! ## full extraction -/

/-- `reconstruct_contig` returns `full` whenever no later segment is shorter than `k`. -/
theorem reconstruct_eq_full (k : Nat) (segs : List Seg)
    (h : ∀ s ∈ segs.tail, k ≤ s.data.length) : reconstruct k segs = some (full k segs) := by
  cases segs with
  | nil => rfl
  | cons s rest =>
    simp only [List.tail_cons] at h
    simp only [reconstruct, full]
    exact reconstructTail_eq k rest s.data h

example : (∀ s ∈ exSegs.tail, 2 ≤ s.data.length) ∧
    reconstruct 2 exSegs = some [0, 1, 2, 3, 0, 1, 1, 2, 2, 3, 3] := by decide

/-- … and it fails (the "Corrupted archive: segment too short" exit) exactly otherwise. -/
theorem reconstruct_err (k : Nat) (segs : List Seg)
    (h : ∃ s ∈ segs.tail, s.data.length < k) : reconstruct k segs = none := by
  cases segs with
  | nil => simp at h
  | cons s rest =>
    simp only [List.tail_cons] at h
    exact reconstructTail_none k rest s.data h

example : reconstruct 3 [⟨4, [0, 1, 2, 3]⟩, ⟨2, [1, 2]⟩] = none := by decide

/-! ## range query -/

/-- `get_contig_range` returns exactly the bases `[start, min(end, length))` of the fully
extracted contig, for ALL segment lists and ALL positions, whichever and however many segments
the range touches. -/
theorem range_eq (k : Nat) (segs : List Seg) (start end_ : Nat) (h : WF k segs) :
    contigRange k segs start end_
      = some (((full k segs).drop start).take (min end_ (full k segs).length - start)) := by
  obtain ⟨h1, h2⟩ := h
  unfold contigRange
  by_cases hse : start ≥ end_
  · have : min end_ (full k segs).length - start = 0 := by omega
    simp [hse, this]
  · obtain ⟨rs, hrs, hcol⟩ := passes_spec k segs [] 0 0 start (min end_ (full k segs).length) rfl h1
      (by simpa using h2)
    rw [contribs_zero] at hrs hcol
    simp only [Nat.zero_add] at hrs
    simp only [hse, if_false, hrs]
    by_cases hs2 : start ≥ min end_ (full k segs).length
    · have : min end_ (full k segs).length - start = 0 := by omega
      simp [hs2, this]
    · simp only [hs2, if_false]
      have := hcol []
      simp only [List.nil_append, Nat.sub_zero, Nat.max_zero] at this
      exact this

example : WF 2 exSegs ∧ contigRange 2 exSegs 3 10 = some [3, 0, 1, 1, 2, 2, 3] := by decide
example : contigRange 2 exSegs 4 6 = some [0, 1] ∧ contigRange 2 exSegs 8 1000 = some [2, 3, 3] := by
  decide
example : WF 3 exSegs3 ∧ contigRange 3 exSegs3 2 6 = some [2, 3, 4, 0] := by decide

/-- The hypothesis is needed: where a descriptor's `raw_length` is not the decoded length the range
query (which trusts `raw_length`) and the full extraction (which trusts the data) part ways. -/
example : ¬ WF 2 [⟨3, [0, 1, 2, 3, 0]⟩, ⟨4, [3, 0, 1, 1]⟩]
    ∧ contigRange 2 [⟨3, [0, 1, 2, 3, 0]⟩, ⟨4, [3, 0, 1, 1]⟩] 0 100 = some [0, 1, 2, 1, 1]
    ∧ full 2 [⟨3, [0, 1, 2, 3, 0]⟩, ⟨4, [3, 0, 1, 1]⟩] = [0, 1, 2, 3, 0, 1, 1] := by decide

/-- `start ≥ end` gives the empty answer (before anything is looked at; no hypothesis). -/
theorem range_empty_of_start_ge_end (k : Nat) (segs : List Seg) (start end_ : Nat)
    (h : start ≥ end_) : contigRange k segs start end_ = some [] := by
  simp [contigRange, h]

example : contigRange 2 exSegs 7 7 = some [] ∧ contigRange 2 exSegs 7 3 = some [] := by decide

/-- `start ≥ length` gives the empty answer. -/
theorem range_empty_of_start_ge_length (k : Nat) (segs : List Seg) (start end_ : Nat)
    (h : WF k segs) (hs : start ≥ (full k segs).length) : contigRange k segs start end_ = some [] := by
  rw [range_eq k segs start end_ h]
  have : min end_ (full k segs).length - start = 0 := by omega
  simp [this]

example : WF 2 exSegs ∧ 11 ≥ (full 2 exSegs).length ∧ contigRange 2 exSegs 11 1000 = some [] := by
  decide

/-- The answer has `min(end, length) - start` bases. -/
theorem range_length (k : Nat) (segs : List Seg) (start end_ : Nat) (h : WF k segs) :
    ∃ r, contigRange k segs start end_ = some r
      ∧ r.length = min end_ (full k segs).length - start := by
  refine ⟨_, range_eq k segs start end_ h, ?_⟩
  simp only [List.length_take, List.length_drop]
  omega

/-- The whole range is the full extraction: `get_contig_range(0, len) = get_contig`. -/
theorem range_whole_eq_reconstruct (k : Nat) (segs : List Seg) (end_ : Nat) (h : WF k segs)
    (he : end_ ≥ (full k segs).length) : contigRange k segs 0 end_ = reconstruct k segs := by
  rw [range_eq k segs 0 end_ h, reconstruct_eq_full k segs h.2]
  have : min end_ (full k segs).length = (full k segs).length := by omega
  simp [this]

/-- Adjacent ranges concatenate: `[a,b) ++ [b,c) = [a,c)` for `a ≤ b ≤ c`. -/
theorem range_concat (k : Nat) (segs : List Seg) (a b c : Nat) (h : WF k segs)
    (hab : a ≤ b) (hbc : b ≤ c) :
    ∃ x y, contigRange k segs a b = some x ∧ contigRange k segs b c = some y
      ∧ contigRange k segs a c = some (x ++ y) := by
  refine ⟨_, _, range_eq k segs a b h, range_eq k segs b c h, ?_⟩
  rw [range_eq k segs a c h, take_drop_concat (full k segs) a b c hab hbc]

example : contigRange 2 exSegs 3 6 = some [3, 0, 1] ∧ contigRange 2 exSegs 6 10 = some [1, 2, 2, 3]
    ∧ contigRange 2 exSegs 3 10 = some ([3, 0, 1] ++ [1, 2, 2, 3]) := by decide

/-! ## length query -/

/-- `get_contig_length` returns the length of the fully extracted contig. -/
theorem length_eq (k : Nat) (segs : List Seg) (h : WF k segs) :
    contigLength k (segs.map Seg.rawLen) = .ok (full k segs).length := by
  obtain ⟨h1, h2⟩ := h
  cases segs with
  | nil => rfl
  | cons s rest =>
    simp only [List.tail_cons] at h2
    rw [full_length k s rest h1]
    simp only [contigLength, List.map_cons, contigLengthLoop, if_true, Nat.zero_add]
    rw [contigLengthLoop_succ]
    intro x hx
    obtain ⟨t, ht, rfl⟩ := List.mem_map.mp hx
    rw [h1 t (by simp [ht])]
    exact h2 t ht

example : WF 2 exSegs ∧ contigLength 2 (exSegs.map Seg.rawLen) = .ok 11
    ∧ (full 2 exSegs).length = 11 := by decide
example : WF 3 exSegs3 ∧ contigLength 3 (exSegs3.map Seg.rawLen) = .ok 6 := by decide

/-- The `raw_length - kmer_len` subtraction underflows (dev profile: panic) exactly when some later
descriptor has `raw_length < k` — a statement about the descriptor list alone (shared with C18). -/
theorem length_underflow_iff (k : Nat) (rawLens : List Nat) :
    contigLength k rawLens = .underflow ↔ ∃ x ∈ rawLens.tail, x < k := by
  cases rawLens with
  | nil => simp [contigLength, contigLengthLoop]
  | cons r rest =>
    simp only [contigLength, contigLengthLoop, if_true, List.tail_cons]
    constructor
    · intro hu
      apply Classical.byContradiction
      intro hne
      have hall : ∀ x ∈ rest, k ≤ x := by
        intro x hx
        apply Classical.byContradiction
        intro hlt
        exact hne ⟨x, hx, by omega⟩
      rw [contigLengthLoop_succ k 0 _ rest hall] at hu
      cases hu
    · intro hex
      exact contigLengthLoop_succ_underflow k 0 _ rest hex

example : contigLength 3 [4, 2, 5] = .underflow ∧ contigLengthWrapping 3 [4, 2, 5] = 5 := by decide

/-- Under `WF` the checked (dev profile) and the wrapping (release profile) readings of
`get_contig_length` agree, for 64-bit `usize` (`k`, every `raw_length` and the contig length below
`2^64`). -/
theorem length_no_underflow (k : Nat) (segs : List Seg) (h : WF k segs)
    (hraw : ∀ s ∈ segs, s.rawLen < 2 ^ 64) (hlen : (full k segs).length < 2 ^ 64) :
    contigLength k (segs.map Seg.rawLen) = .ok (contigLengthWrapping k (segs.map Seg.rawLen)) := by
  rw [length_eq k segs h]
  congr 1
  obtain ⟨h1, h2⟩ := h
  cases segs with
  | nil => rfl
  | cons s rest =>
    simp only [List.tail_cons] at h2
    rw [full_length k s rest h1] at hlen ⊢
    have hs := hraw s (by simp)
    have ha : wrappingAdd 0 s.rawLen = s.rawLen := by
      unfold wrappingAdd; rw [Nat.zero_add]; exact Nat.mod_eq_of_lt hs
    simp only [contigLengthWrapping, List.map_cons, contigLengthWrapLoop, if_true, Nat.zero_add, ha]
    rw [contigLengthWrapLoop_succ k 0 _ _ _ hlen]
    intro x hx
    obtain ⟨t, ht, rfl⟩ := List.mem_map.mp hx
    refine ⟨?_, hraw t (by simp [ht])⟩
    rw [h1 t (by simp [ht])]
    exact h2 t ht

example : WF 2 exSegs ∧ contigLengthWrapping 2 (exSegs.map Seg.rawLen) = 11 := by decide

/-! ## the handle model (C08) and archives that `create` wrote

`ReaderLink.answer_contigRange` / `answer_contigLength` / `answer_getContig`: when every descriptor
of the contig loads, the handle model's queries are `contigRange` / the wrapping length loop /
`reconstruct` on the loaded, re-oriented views `viewOf`. With `WF` of the views the theorems above
apply. -/

section Handle
open Ragc.ReaderLink

/-- **Range query of the handle = slice of the full extraction of the handle**, on EVERY abstract
archive: if the descriptors of contig `s/c` all load and the loaded views are well formed, then
`get_contig` answers `full` and `get_contig_range(start, end)` answers its bases
`[start, min(end, length))` — the checked (dev-profile) reading never panics there. -/
theorem handle_range_eq (A : Ragc.ReaderState.Arch) (s c : List Nat) (start end_ : Nat)
    (segs : List Ragc.Details.Seg)
    (hd : Ragc.ReaderState.contigDesc A.samples (Ragc.ReaderState.table A) s c = some segs)
    (hl : ∀ d ∈ segs, Loads A d) (hwf : WF A.k (segs.map (viewOf A))) :
    Ragc.ReaderState.answer A (.getContig s c) = .ok (.bases (full A.k (segs.map (viewOf A)))) ∧
    Ragc.ReaderState.answer A (.contigRange s c start end_) =
      .ok (.bases (((full A.k (segs.map (viewOf A))).drop start).take
        (min end_ (full A.k (segs.map (viewOf A))).length - start))) := by
  constructor
  · rw [answer_getContig A s c segs hd hl, reconstruct_eq_full A.k _ hwf.2]; rfl
  · rw [answer_contigRange A s c start end_ segs hd hl, range_eq A.k _ start end_ hwf]; rfl

/-- **Length query of the handle = length of the full extraction**, release (wrapping) reading, on
every abstract archive with well-formed views and 64-bit sizes. -/
theorem handle_length_eq (A : Ragc.ReaderState.Arch) (s c : List Nat) (segs : List Ragc.Details.Seg)
    (hd : Ragc.ReaderState.contigDesc A.samples (Ragc.ReaderState.table A) s c = some segs)
    (hwf : WF A.k (segs.map (viewOf A)))
    (hraw : ∀ v ∈ segs.map (viewOf A), v.rawLen < 2 ^ 64)
    (hlen : (full A.k (segs.map (viewOf A))).length < 2 ^ 64) :
    Ragc.ReaderState.answer A (.contigLength s c) = .ok (.nat (full A.k (segs.map (viewOf A))).length) := by
  rw [answer_contigLength A s c segs hd]
  have h1 := length_eq A.k _ hwf
  have h2 := length_no_underflow A.k _ hwf hraw hlen
  rw [h1] at h2
  injection h2 with h2
  rw [← h2]

-- non-vacuity: the two-batch archive of C08's examples; contig `A/x` = LZ reference + reverse-complemented delta
example :
    let A := Ragc.ReaderState.Arch.mk 3 [[65]] [[[⟨[120], [⟨16, 0, false, 5⟩, ⟨16, 1, true, 5⟩]⟩]]]
      (fun g => if g = 16 then .ok [0, 1, 2, 3, 0] else .err) (fun _ => .err)
      (fun g i r => if g = 16 ∧ i = 1 ∧ r = [0, 1, 2, 3, 0] then .ok [3, 3, 3, 0, 1] else .err)
      (fun _ _ => .err) []
    let segs : List Ragc.Details.Seg := [⟨16, 0, false, 5⟩, ⟨16, 1, true, 5⟩]
    Ragc.ReaderState.contigDesc A.samples (Ragc.ReaderState.table A) [65] [120] = some segs ∧
    WF A.k (segs.map (viewOf A)) ∧ full A.k (segs.map (viewOf A)) = [0, 1, 2, 3, 0, 0, 0] ∧
    Ragc.ReaderState.answer A (.contigRange [65] [120] 2 6) = .ok (.bases [2, 3, 0, 0]) := by decide

/-- **Range and length queries on an archive that `create` wrote** (general form: `Planned`, the
planner answers for every group — implied by "the writer answers" and by `min_match_len ≥ 4`, see
`Props.C08.planner_answers`). Well-formed decisions (so `k ≥ 1`), input over the literal codes,
distinct names. On the handle model over `ReaderLink.archOf cfg inp dec`, after ANY history `ops`, for
every contig of every sample of the input and ALL `start`, `end`:

* `get_contig_range(s, c, start, end)` = `ok` of the input contig's bases `[start, min(end, length))`;
* `get_contig_length(s, c)` = `ok` of the input contig's length (wrapping reading: no wrap occurs).

`WF` of `range_eq` / `length_eq` is discharged by the writer: every descriptor's `raw_length` is the
length of the piece it addresses and every later piece is at least `k` long (tiling). -/
theorem range_on_written_archive_planned (cfg : Ragc.Writer.Cfg) (inp : List Ragc.Writer.Sample)
    (dec : Ragc.Writer.Decisions)
    (hdec : Ragc.Writer.DecisionsOK cfg inp dec) (hcodes : Ragc.Writer.codesOK inp)
    (hpl : Planned cfg inp dec) (hnd : NamesDistinct inp)
    (ops : List Ragc.ReaderState.Op) (smp : Ragc.Writer.Sample) (hs : smp ∈ inp)
    (ctg : Ragc.Writer.Contig) (hc : ctg ∈ smp.contigs) (start end_ : Nat) :
    (Ragc.ReaderState.step (archOf cfg inp dec)
        (Ragc.ReaderState.run (archOf cfg inp dec) (Ragc.ReaderState.fresh (archOf cfg inp dec)) ops).1
        (.contigRange smp.name ctg.name start end_)).2
      = .ok (.bases ((ctg.data.drop start).take (min end_ ctg.data.length - start))) ∧
    (Ragc.ReaderState.step (archOf cfg inp dec)
        (Ragc.ReaderState.run (archOf cfg inp dec) (Ragc.ReaderState.fresh (archOf cfg inp dec)) ops).1
        (.contigLength smp.name ctg.name)).2
      = .ok (.nat ctg.data.length) := by
  have hok := Ragc.WriterLemmas.decOK_of cfg inp dec hdec
  have hwf := Ragc.ReaderLink.archOf_wf cfg inp dec hdec
  have hinv := Ragc.ReaderState.inv_run (archOf cfg inp dec) hwf ops _ (Ragc.ReaderState.inv_fresh _)
  obtain ⟨views, hvwf, hfull, hb, h32, hr, hlq⟩ :=
    contig_range_view cfg inp dec hok hcodes hpl hnd smp hs ctg hc
  constructor
  · rw [(Ragc.ReaderState.step_spec _ _ _ hwf hinv).1, hr start end_, range_eq cfg.k views start end_ hvwf,
      hfull]
    rfl
  · rw [(Ragc.ReaderState.step_spec _ _ _ hwf hinv).1, hlq]
    have h1 := length_eq cfg.k views hvwf
    have h2 := length_no_underflow cfg.k views hvwf
      (fun v hv => Nat.lt_trans (hb v hv) (by decide)) (by rw [hfull]; exact Nat.lt_trans h32 (by decide))
    rw [h1, hfull] at h2
    injection h2 with h2
    rw [← h2]

-- Non-vacuity on the input of `read_write`'s example (hypotheses by `decide`; `min_match_len = 10`):
-- a range across the junction of the two pieces of `A/c` (lengths 6 and 7, overlap 3; the second
-- stored reverse-complemented), after a history.
example :
    let A := archOf Ex.cfg Ex.inp Ex.dec
    let st := (Ragc.ReaderState.run A (Ragc.ReaderState.fresh A) Ex.hist).1
    (Ragc.ReaderState.step A st (.contigRange [65] [99] 4 9)).2 = .ok (.bases [0, 1, 2, 3, 0]) ∧
    (Ragc.ReaderState.step A st (.contigRange [65] [99] 8 100)).2 = .ok (.bases [0, 1]) ∧
    (Ragc.ReaderState.step A st (.contigLength [65] [99])).2 = .ok (.nat 10) ∧
    (Ragc.ReaderState.step A st (.contigLength [65] [100])).2 = .ok (.nat 3) := by
  have h := fun ctg hc => range_on_written_archive_planned Ex.cfg Ex.inp Ex.dec Ex.hyps.1 Ex.hyps.2.1
    (planned_of_minMatch _ _ _ (Ragc.WriterLemmas.decOK_of _ _ _ Ex.hyps.1) (by decide))
    Ex.hyps.2.2.1 Ex.hist ⟨[65], [⟨[99], [0, 1, 2, 3, 0, 1, 2, 3, 0, 1]⟩, ⟨[100], [2, 4, 1]⟩]⟩ (by decide) ctg hc
  exact ⟨(h ⟨[99], [0, 1, 2, 3, 0, 1, 2, 3, 0, 1]⟩ (by decide) 4 9).1,
    (h ⟨[99], [0, 1, 2, 3, 0, 1, 2, 3, 0, 1]⟩ (by decide) 8 100).1,
    (h ⟨[99], [0, 1, 2, 3, 0, 1, 2, 3, 0, 1]⟩ (by decide) 0 0).2,
    (h ⟨[100], [2, 4, 1]⟩ (by decide) 0 0).2⟩

/-- **`range_on_written_archive`**: the same under the writer-side hypotheses of
`Props.C01.read_write` (`DecisionsOK`, `codesOK`, `writeArchive … = some bs`) and `NamesDistinct`. -/
theorem range_on_written_archive (cfg : Ragc.Writer.Cfg) (inp : List Ragc.Writer.Sample)
    (dec : Ragc.Writer.Decisions) (zc : Nat → List Nat → List Nat) (bs : List Nat)
    (hdec : Ragc.Writer.DecisionsOK cfg inp dec) (hcodes : Ragc.Writer.codesOK inp)
    (hw : Ragc.Writer.writeArchive cfg inp dec zc = some bs) (hnd : NamesDistinct inp)
    (ops : List Ragc.ReaderState.Op) (smp : Ragc.Writer.Sample) (hs : smp ∈ inp)
    (ctg : Ragc.Writer.Contig) (hc : ctg ∈ smp.contigs) (start end_ : Nat) :
    (Ragc.ReaderState.step (archOf cfg inp dec)
        (Ragc.ReaderState.run (archOf cfg inp dec) (Ragc.ReaderState.fresh (archOf cfg inp dec)) ops).1
        (.contigRange smp.name ctg.name start end_)).2
      = .ok (.bases ((ctg.data.drop start).take (min end_ ctg.data.length - start))) ∧
    (Ragc.ReaderState.step (archOf cfg inp dec)
        (Ragc.ReaderState.run (archOf cfg inp dec) (Ragc.ReaderState.fresh (archOf cfg inp dec)) ops).1
        (.contigLength smp.name ctg.name)).2
      = .ok (.nat ctg.data.length) :=
  range_on_written_archive_planned cfg inp dec hdec hcodes (planned_of_writeArchive cfg inp dec zc bs hw) hnd
    ops smp hs ctg hc start end_

-- Non-vacuity of "the writer answers" on the same input: closed evaluation of the executable model by
-- `decide +kernel`, as in `Props.C01` (not a step of any theorem); then the theorem applies.
set_option maxRecDepth 100000 in
example : ∃ bs, Ragc.Writer.writeArchive Ex.cfg Ex.inp Ex.dec Ex.zc = some bs ∧
    (Ragc.ReaderState.step (archOf Ex.cfg Ex.inp Ex.dec)
      (Ragc.ReaderState.run (archOf Ex.cfg Ex.inp Ex.dec) (Ragc.ReaderState.fresh (archOf Ex.cfg Ex.inp Ex.dec))
        Ex.hist).1 (.contigRange [66] [99] 2 5)).2 = .ok (.bases [2, 2, 0]) := by
  have hsome : (Ragc.Writer.writeArchive Ex.cfg Ex.inp Ex.dec Ex.zc).isSome = true := by decide +kernel
  obtain ⟨bs, hbs⟩ := Option.isSome_iff_exists.mp hsome
  exact ⟨bs, hbs, (range_on_written_archive Ex.cfg Ex.inp Ex.dec Ex.zc bs Ex.hyps.1 Ex.hyps.2.1 hbs
    Ex.hyps.2.2.1 Ex.hist ⟨[66], [⟨[99], [0, 1, 2, 2, 0, 1, 2, 3, 0, 1]⟩]⟩ (by decide)
    ⟨[99], [0, 1, 2, 2, 0, 1, 2, 3, 0, 1]⟩ (by decide) 2 5).1⟩

/-- Adjacent ranges on a written archive concatenate, after any two histories (even on two
different handles): `[a,b) ++ [b,c) = [a,c)`. -/
theorem range_concat_on_written_archive (cfg : Ragc.Writer.Cfg) (inp : List Ragc.Writer.Sample)
    (dec : Ragc.Writer.Decisions) (zc : Nat → List Nat → List Nat) (bs : List Nat)
    (hdec : Ragc.Writer.DecisionsOK cfg inp dec) (hcodes : Ragc.Writer.codesOK inp)
    (hw : Ragc.Writer.writeArchive cfg inp dec zc = some bs) (hnd : NamesDistinct inp)
    (ops₁ ops₂ ops₃ : List Ragc.ReaderState.Op) (smp : Ragc.Writer.Sample) (hs : smp ∈ inp)
    (ctg : Ragc.Writer.Contig) (hc : ctg ∈ smp.contigs) (a b c : Nat) (hab : a ≤ b) (hbc : b ≤ c) :
    ∃ x y,
      (Ragc.ReaderState.step (archOf cfg inp dec)
        (Ragc.ReaderState.run (archOf cfg inp dec) (Ragc.ReaderState.fresh (archOf cfg inp dec)) ops₁).1
        (.contigRange smp.name ctg.name a b)).2 = .ok (.bases x) ∧
      (Ragc.ReaderState.step (archOf cfg inp dec)
        (Ragc.ReaderState.run (archOf cfg inp dec) (Ragc.ReaderState.fresh (archOf cfg inp dec)) ops₂).1
        (.contigRange smp.name ctg.name b c)).2 = .ok (.bases y) ∧
      (Ragc.ReaderState.step (archOf cfg inp dec)
        (Ragc.ReaderState.run (archOf cfg inp dec) (Ragc.ReaderState.fresh (archOf cfg inp dec)) ops₃).1
        (.contigRange smp.name ctg.name a c)).2 = .ok (.bases (x ++ y)) := by
  refine ⟨_, _, (range_on_written_archive cfg inp dec zc bs hdec hcodes hw hnd ops₁ smp hs ctg hc a b).1,
    (range_on_written_archive cfg inp dec zc bs hdec hcodes hw hnd ops₂ smp hs ctg hc b c).1, ?_⟩
  rw [(range_on_written_archive cfg inp dec zc bs hdec hcodes hw hnd ops₃ smp hs ctg hc a c).1,
    take_drop_concat ctg.data a b c hab hbc]

example : (2 : Nat) ≤ 5 ∧ (5 : Nat) ≤ 9 ∧ Ragc.Writer.DecisionsOK Ex.cfg Ex.inp Ex.dec ∧
    Ragc.Writer.codesOK Ex.inp ∧ NamesDistinct Ex.inp := ⟨by decide, by decide, Ex.hyps.1, Ex.hyps.2.1, Ex.hyps.2.2.1⟩

end Handle

end Ragc.Props.C07
