import RagcModel.Lemmas.Container
/-!
C13 — the archive container returns exactly what was stored.

Models: `Model/Varint.lean` (varint.rs), `Model/Container.lean` (archive.rs). The abstract
specification is the commit log `Spec.spec ops` (`names`, per-stream `parts`, `pending`) and the
reads computed from the log alone (`Spec.byId`, `Spec.next`, `Spec.reads`).
Only property theorems live here (helper lemmas are in `Lemmas/Varint.lean`, `Lemmas/Container.lean`).
-/
namespace Ragc.Props.C13
open Ragc.Varint Ragc.Container

/-- `read_varint ∘ write_varint = id` for every `u64`, with arbitrary trailing bytes. -/
theorem varint_roundtrip (v : Nat) (r : List Nat) (h : v < 2 ^ 64) :
    readVarint (writeVarint v ++ r) = some (v, r) :=
  readVarint_writeVarint v r h

example : readVarint (writeVarint (2 ^ 64 - 1) ++ [7]) = some (2 ^ 64 - 1, [7]) :=
  varint_roundtrip _ _ (by decide)

/-- Unique parsing: the varint is a prefix code (corollary of the round trip). -/
theorem varint_prefix_free (v w : Nat) (r r' : List Nat) (hv : v < 2 ^ 64) (hw : w < 2 ^ 64)
    (h : writeVarint v ++ r = writeVarint w ++ r') : v = w ∧ r = r' := by
  have h1 := varint_roundtrip v r hv
  rw [h, varint_roundtrip w r' hw] at h1
  have h2 := Option.some.inj h1
  exact ⟨(congrArg Prod.fst h2).symm, (congrArg Prod.snd h2).symm⟩

example (r r' : List Nat) (h : writeVarint 255 ++ r = writeVarint 256 ++ r') : False := by
  have := (varint_prefix_free 255 256 r r' (by decide) (by decide) h).1
  omega

/-- A varint occupies 1 + (number of significant bytes) bytes, and the number of significant
bytes of `v` is the least `k` with `v < 256^k` (so 0 ↦ 1 byte, 255 ↦ 2, 256 ↦ 3, 2^64-1 ↦ 9). -/
theorem varint_length (v : Nat) :
    (writeVarint v).length = 1 + byteLen v ∧ ∀ k, byteLen v ≤ k ↔ v < 256 ^ k :=
  ⟨writeVarint_length v, byteLen_le_iff v⟩

example : (writeVarint 256).length = 3 := by
  have h := varint_length 256
  have h2 := (h.2 2).mpr (by decide)
  have h1 : ¬ byteLen 256 ≤ 1 := fun hle => absurd ((h.2 1).mp hle) (by decide)
  omega

/-- The fixed 8-byte little-endian length field round-trips for every `u64`. -/
theorem fixed_u64_roundtrip (v : Nat) (r : List Nat) (h : v < 2 ^ 64) :
    readFixedU64 (le64 v ++ r) = some (v, r) :=
  readFixedU64_le64 h r

example : readFixedU64 (le64 (2 ^ 64 - 1) ++ [1, 2]) = some (2 ^ 64 - 1, [1, 2]) :=
  fixed_u64_roundtrip _ _ (by decide)

/-- The footer (directory) codec round-trips, in both build profiles, for every directory whose
names contain no NUL byte and whose numbers are `u64`s — offsets, sizes, raw sizes and counts of
any magnitude up to 2^64-1 survive. Trailing bytes are ignored. -/
theorem directory_roundtrip (env : Env) (d : List Stream) (r : List Nat)
    (hlen : d.length < 2 ^ 64)
    (h : ∀ st ∈ d, (∀ b ∈ st.name, b ≠ 0) ∧ st.rawSize < 2 ^ 64 ∧ st.parts.length < 2 ^ 64 ∧
      ∀ p ∈ st.parts, p.off < 2 ^ 64 ∧ p.size < 2 ^ 64) :
    parseFooter (readVarintO env) (serializeFooter d ++ r) = .ok d :=
  parseFooter_serialize (goodRV_readVarintO env) d r hlen h

example : parseFooter (readVarintO Env.dev)
    (serializeFooter [⟨[97, 98], 2 ^ 64 - 1, [⟨2 ^ 64 - 1, 0⟩, ⟨0, 2 ^ 64 - 1⟩]⟩, ⟨[], 0, []⟩] ++ [9])
    = .ok [⟨[97, 98], 2 ^ 64 - 1, [⟨2 ^ 64 - 1, 0⟩, ⟨0, 2 ^ 64 - 1⟩]⟩, ⟨[], 0, []⟩] :=
  directory_roundtrip _ _ _ (by decide) (by
    intro st hst
    simp only [List.mem_cons, List.not_mem_nil, or_false] at hst
    rcases hst with rfl | rfl <;> simp)

/-- The footer determines the directory: two different (well-formed) directories never serialise
to the same footer bytes, whatever follows them. -/
theorem directory_injective (d d' : List Stream) (r r' : List Nat)
    (hlen : d.length < 2 ^ 64) (hlen' : d'.length < 2 ^ 64)
    (h : ∀ st ∈ d, (∀ b ∈ st.name, b ≠ 0) ∧ st.rawSize < 2 ^ 64 ∧ st.parts.length < 2 ^ 64 ∧
      ∀ p ∈ st.parts, p.off < 2 ^ 64 ∧ p.size < 2 ^ 64)
    (h' : ∀ st ∈ d', (∀ b ∈ st.name, b ≠ 0) ∧ st.rawSize < 2 ^ 64 ∧ st.parts.length < 2 ^ 64 ∧
      ∀ p ∈ st.parts, p.off < 2 ^ 64 ∧ p.size < 2 ^ 64)
    (he : serializeFooter d ++ r = serializeFooter d' ++ r') : d = d' := by
  have h1 := directory_roundtrip Env.release d r hlen h
  rw [he, directory_roundtrip Env.release d' r' hlen' h'] at h1
  injection h1 with h1
  exact h1.symm

/-- Non-vacuity: concrete directories meet the hypotheses, so equal footers force equal directories. -/
example (r r' : List Nat) (d' : List Stream) (hlen' : d'.length < 2 ^ 64)
    (h' : ∀ st ∈ d', (∀ b ∈ st.name, b ≠ 0) ∧ st.rawSize < 2 ^ 64 ∧ st.parts.length < 2 ^ 64 ∧
      ∀ p ∈ st.parts, p.off < 2 ^ 64 ∧ p.size < 2 ^ 64)
    (he : serializeFooter [⟨[97], 3, [⟨0, 2⟩, ⟨2, 1⟩]⟩] ++ r = serializeFooter d' ++ r') :
    [⟨[97], 3, [⟨0, 2⟩, ⟨2, 1⟩]⟩] = d' :=
  directory_injective _ _ r r' (by decide) hlen' (by
    intro st hst
    simp only [List.mem_cons, List.not_mem_nil, or_false] at hst
    subst hst; simp) h' he

/-- Registering a name twice returns the same id and changes nothing the second time. -/
theorem register_idempotent (s : State) (name : List Nat) :
    registerStream (registerStream s name).1 name
      = ((registerStream s name).1, (registerStream s name).2) :=
  register_twice s name

example : (registerStream (registerStream State.init [97]).1 [97]).2 = 0 := by
  rw [register_idempotent]; rfl

/-- Ids are stable over the whole history: after any operations, `register_stream(name)` returns
the position of `name` in the registration order (the id it was given first), or the next free id
for a new name. -/
theorem register_returns_first_id (ops : List Op) (hops : ∀ op ∈ ops, OpOK op) (name : List Nat) :
    (registerStream (run ops) name).2 = (Spec.spec ops).names.idxOf name :=
  register_id_spec (rel_run ops hops) name

example : (registerStream (run [.register [97], .register [98], .add 1 [1] 2, .register [97]]) [98]).2
    = 1 := by
  rw [register_returns_first_id _ (by
    intro op hop
    simp only [List.mem_cons, List.not_mem_nil, or_false] at hop
    rcases hop with rfl | rfl | rfl | rfl <;> simp [OpOK])]
  decide

/-- The commit order of a flush is sorted by stream id … -/
theorem commit_order_sorted (p : List (Nat × Blob)) :
    (Spec.ordered p).Pairwise (fun u v => u.1 ≤ v.1) :=
  (foldl_insertStable_spec p [] 0 List.Pairwise.nil).1

/-- … and keeps, for every stream, exactly its buffered parts in insertion order (a stable sort).
Together with `commit_order_sorted` this determines `Spec.ordered p` uniquely. -/
theorem commit_order_stable (p : List (Nat × Blob)) (k : Nat) :
    (Spec.ordered p).filter (fun y => y.1 == k) = p.filter (fun y => y.1 == k) := by
  have := (foldl_insertStable_spec p [] k List.Pairwise.nil).2
  simpa [Spec.ordered] using this

example : Spec.ordered [(2, [1], 5), (0, [2], 6), (2, [3], 7), (0, [], 8)]
    = [(0, [2], 6), (0, [], 8), (2, [1], 5), (2, [3], 7)] := by decide

/-- What a flush means per stream (the observable part of the commit order): when every buffered
part names an existing stream, stream `k` gains exactly its buffered parts, in insertion order,
after what it already had, and nothing stays pending. -/
theorem flush_commits_per_stream (a : Spec.Log) (k : Nat)
    (hlen : a.parts.length = a.names.length) (hv : ∀ x ∈ a.pending, x.1 < a.names.length) :
    (Spec.step a .flush).pending = [] ∧ (Spec.step a .flush).names = a.names ∧
    (Spec.step a .flush).parts.getD k []
      = a.parts.getD k [] ++ (a.pending.filter (fun y => y.1 == k)).map (·.2) := by
  have := commitLoop_spec (Spec.ordered a.pending) { a with pending := [] } k hlen
    (fun x hx => hv x (mem_ordered.mp hx))
  simp only [Spec.step]
  refine ⟨this.2.1, this.1, ?_⟩
  rw [this.2.2.2, commit_order_stable]

example : (Spec.step ⟨[[97], [98]], [[([1], 1)], []], [(1, [2], 2), (0, [3], 3), (1, [], 4)]⟩ .flush).parts
    = [[([1], 1), ([3], 3)], [([2], 2), ([], 4)]] := by decide

/-- **Main refinement.** For every history `ops` over the five operations (any interleaving,
any stream ids — invalid ones fail as in the Rust and have the effect the log says — data of any
length, metadata/raw sizes any `u64`, names without NUL), in both build profiles: opening the
closed file succeeds and the reader answers every query exactly as the abstract commit log does:
same names in registration order with the same ids, unknown names unknown, the same number of
parts per stream, every part by id (non-empty parts with exact bytes and metadata, empty parts as
`([], 0)`, out-of-range ids `Err`), and every sequence of `get_part` / `get_part_by_id` reads in
any order. The only side conditions are physical: the file fits the file system
(`length ≤ seekMax < 2^63`). Buffered parts not yet flushed are in `pending`, not in the log;
after a final flush nothing is pending (`final_flush_nothing_pending`). -/
theorem container_refines_log (ops : List Op) (env : Env)
    (hops : ∀ op ∈ ops, OpOK op) (hmax : env.seekMax < 2 ^ 63)
    (hfile : (close (run ops)).length ≤ env.seekMax) :
    ∃ r, openBytes env (close (run ops)) = .ok r ∧
      getStreamNames r = (Spec.spec ops).names ∧
      (∀ i name, (Spec.spec ops).names[i]? = some name → getStreamId r name = some i) ∧
      (∀ name, name ∉ (Spec.spec ops).names → getStreamId r name = none) ∧
      (∀ sid, getNumParts r sid = ((Spec.spec ops).parts.getD sid []).length) ∧
      (∀ sid pid, getPartById env r sid pid = Spec.byId (Spec.spec ops).parts sid pid) ∧
      (∀ reads, runReads env r reads
        = Spec.reads (Spec.spec ops).parts (List.replicate (Spec.spec ops).names.length 0) reads) := by
  have h := rel_run ops hops
  refine ⟨_, openBytes_close h env hmax hfile, ?_, ?_, ?_, ?_, ?_, ?_⟩
  · simp [getStreamNames, h.names]
  · intro i name hi
    have := lastIdx_of_getElem? name (run ops).streams 0 i none (by rw [← h.names]; exact h.nodup)
      (by rw [← h.names]; exact hi)
    simpa [getStreamId] using this
  · intro name hn
    exact lastIdx_not_mem name _ 0 none (by rw [← h.names]; exact hn)
  · intro sid
    simp only [getNumParts, List.getD_eq_getElem?_getD]
    cases hs0 : (run ops).streams[sid]? with
    | none =>
      have := List.getElem?_eq_none_iff.mp hs0
      rw [List.getElem?_eq_none (by rw [h.len]; exact this)]; simp
    | some st =>
      have hlt : sid < (run ops).streams.length := (List.getElem?_eq_some_iff.mp hs0).1
      have hlt' : sid < (Spec.spec ops).parts.length := by rw [h.len]; exact hlt
      have hb0 := List.getElem?_eq_getElem hlt'
      have hm := h.parts sid st _ hs0 hb0
      rw [hb0]; simpa using hm.1
  · intro sid pid
    exact getPartById_spec h (goodRV_readVarintO env) _ rfl rfl _ hfile sid pid
  · intro reads
    have := runReads_spec h env ⟨close (run ops), (run ops).streams,
      List.replicate (run ops).streams.length 0⟩ rfl rfl hfile reads
    rw [this, h.namesLen]

/-- Non-vacuity: a history with repeated registration, interleaved buffered/immediate parts, an
empty part and metadata 2^64-1 meets the hypotheses; its log is the expected one. -/
example :
    let ops : List Op := [.register [97, 98], .register [99], .register [97, 98], .addBuf 1 [9] 7,
      .add 0 [1, 2, 3] (2 ^ 64 - 1), .add 0 [] 42, .addBuf 0 [4] 300, .flush, .setRaw 1 100]
    (∀ op ∈ ops, OpOK op) ∧ Env.release.seekMax < 2 ^ 63 ∧
    (close (run ops)).length ≤ Env.release.seekMax ∧
    (Spec.spec ops).names = [[97, 98], [99]] ∧
    (Spec.spec ops).parts = [[([1, 2, 3], 2 ^ 64 - 1), ([], 42), ([4], 300)], [([9], 7)]] ∧
    Spec.byId (Spec.spec ops).parts 0 1 = .ok ([], 0) := by
  refine ⟨?_, by decide, ?_, by decide, by decide, by decide⟩
  · intro op hop
    simp only [List.mem_cons, List.not_mem_nil, or_false] at hop
    rcases hop with rfl | rfl | rfl | rfl | rfl | rfl | rfl | rfl | rfl <;> simp [OpOK]
  · simp [run, runFrom, step, registerStream, findStream, addPart, addPartBuffered, insertStable,
      flushBuffers, flushLoop, setRawSize, State.init, close, serializeFooter, serializeStream,
      writeVarint, byteLen, digits_pos, digits_zero, le64, leBytes, Env.release, List.findIdx?_cons]

/-- The same for the repaired reader (`openBytesFixed`): it accepts every archive the writer
produces and answers identically — the range checks reject no valid archive. -/
theorem container_refines_log_fixed (ops : List Op) (seekMax : Nat)
    (hops : ∀ op ∈ ops, OpOK op) (hmax : seekMax < 2 ^ 63)
    (hfile : (close (run ops)).length ≤ seekMax) :
    ∃ r, openBytesFixed seekMax (close (run ops)) = .ok r ∧
      getStreamNames r = (Spec.spec ops).names ∧
      (∀ sid pid, getPartByIdFixed seekMax r sid pid = Spec.byId (Spec.spec ops).parts sid pid) := by
  have h := rel_run ops hops
  refine ⟨_, openBytesFixed_close h seekMax hmax hfile, ?_, ?_⟩
  · simp [getStreamNames, h.names]
  · intro sid pid
    exact getPartById_spec h goodRV_readVarintFixed _ rfl rfl _ hfile sid pid

/-- After a final flush nothing is pending: every buffered part was committed or (if its stream id
never existed) reported as an error by that flush. -/
theorem final_flush_nothing_pending (ops : List Op) :
    (Spec.spec (ops ++ [.flush])).pending = [] := by
  have : ∀ (l : List (Nat × Blob)) (a : Spec.Log), (Spec.commitLoop a l).pending = a.pending := by
    intro l
    induction l with
    | nil => intro a; rfl
    | cons x l ih =>
      intro a
      obtain ⟨sid, b⟩ := x
      simp only [Spec.commitLoop, Spec.commit]
      split
      · rfl
      · rename_i a' heq
        split at heq
        · cases heq; exact ih _
        · cases heq
  simp [Spec.spec, Spec.specFrom, List.foldl_append, Spec.step, this]

example : (Spec.spec [.register [97], .addBuf 0 [1] 2]).pending = [(0, [1], 2)] ∧
    (Spec.spec ([.register [97], .addBuf 0 [1] 2] ++ [.flush])).parts = [[([1], 2)]] := by decide

end Ragc.Props.C13
