import RagcModel.Model.Fasta
import RagcModel.Lemmas.Fasta
/-!
# C19 — extraction is invariant under how the input is presented

Model: `RagcModel/Model/Fasta.lean`. What `create` receives from its input files is the stream
`fileStream` of `(sample, contig name, codes)`; everything after that point (C01, C04) is a
function of this stream and the parameters. The theorems say that the stream does not depend on
the presentation: line width, LF/CRLF, case, final newline (`parse_render`, `stream_render`),
`.gz` versus plain file name (`sample_name_gz`; the decompressed bytes are the text — gzip itself
is trusted), one PanSN file versus one file per sample (`pansn_vs_files`).
-/
namespace Ragc.Props.C19
open Ragc.Fasta

/-- Every presentation of the same records parses to the same `(id, codes)` list, for EVERY
style: a line width `≥ 1`, LF or CRLF and a case pattern per record, with or without final
newline. The records: header bytes arbitrary except `\n` (a `\r`, tabs, spaces, `>`, `#` may occur
anywhere), such that the id — the header without leading `>`s and without the ASCII white space
`\t \n \v \f \r ' '` at both ends — is not empty; at least one base, all bases ASCII letters
(IUPAC or not). The result `canon`: that id, and the table code of each upper-cased letter. -/
theorem parse_render (fin : Bool) (recs : List (Rec × RecStyle)) (h : ValidPres recs) :
    parseFile (render fin recs) = some (canon (recs.map (·.1))) :=
  parseFile_render fin recs h

/-- `>c1 x` / `AcGtx` in width 2, CRLF, mixed case; `>c2` / `N` in width 1, LF; no final newline. -/
def exPres : List (Rec × RecStyle) :=
  [(⟨[99, 49, 32, 120], [65, 99, 71, 116, 120]⟩, ⟨2, true, [true, false]⟩),
   (⟨[99, 50], [78]⟩, ⟨1, false, []⟩)]

example : ValidPres exPres ∧
    canon (exPres.map (·.1)) = [([99, 49, 32, 120], [0, 1, 2, 3, 30]), ([99, 50], [4])] := by decide

/-- Hence two presentations of the same records are indistinguishable for `create`. -/
theorem presentations_agree (fin fin' : Bool) (p p' : List (Rec × RecStyle))
    (h : ValidPres p) (h' : ValidPres p') (hsame : p.map (·.1) = p'.map (·.1)) :
    parseFile (render fin p) = parseFile (render fin' p') := by
  rw [parseFile_render fin p h, parseFile_render fin' p' h', hsame]

/-- What happens to white space and `>` around the header: the id of a header is the header
itself when it does not start with `>` or white space and does not end with white space;
otherwise those bytes are removed (so `"c1 "`, `" c1"`, `"c1\r"` and `">c1"` all name `c1`). -/
theorem header_id_clean (h : Bytes) (x y : Nat) (hx : x ≠ 62) (hxw : isWs x = false)
    (hyw : isWs y = false) : headerId (62 :: x :: h ++ [y]) = x :: h ++ [y] := by
  have h1 : List.dropWhile (fun b => decide (b = 62)) (62 :: x :: h ++ [y]) = x :: h ++ [y] := by
    simp [List.dropWhile_cons, hx]
  have h2 : trimEnd (x :: h ++ [y]) = x :: h ++ [y] := by
    simp only [trimEnd]
    have : (x :: h ++ [y]).reverse = y :: (x :: h).reverse := by simp
    rw [this, List.dropWhile_cons]
    simp [hyw]
  simp only [headerId, h1, trim, h2, trimStart]
  simp [List.dropWhile_cons, hxw]

example : headerId [62, 62, 32, 99, 49, 9, 13, 10] = [99, 49] := by decide

/-- The sample name of a `.gz` file is that of the plain file, for file names `stem.fa` and
`stem.fasta` (`stem` not empty); for `.fasta` the stem must not itself end in `.fa` (see the
witness below). `.fna` and other extensions are outside: there `x.fna` gives `x` and `x.fna.gz`
gives `x.fna`. -/
theorem sample_name_gz (p b : Bytes) (hb : b ≠ [])
    (h : fileName p = b ++ dotFa ∨
      (fileName p = b ++ dotFasta ∧ dotFa.reverse.isPrefixOf b.reverse = false)) :
    sampleNameOfPath (p ++ dotGz) = sampleNameOfPath p := by
  have hfn : fileName (p ++ dotGz) = fileName p ++ dotGz := fileName_append p dotGz (by decide)
  have hlen : ∀ (n : Bytes), 4 ≤ n.length → ¬ (n = [] ∨ n = [46] ∨ n = [46, 46]) := by
    intro n hn h
    rcases h with h | h | h <;> simp [h] at hn
  have hblen : 0 < b.length := List.length_pos_iff.mpr hb
  rcases h with h | ⟨h, hnfa⟩
  · have l1 : 4 ≤ (fileName p).length := by rw [h]; simp [dotFa]; omega
    have l2 : 4 ≤ (fileName p ++ dotGz).length := by simp; omega
    simp only [sampleNameOfPath, hfn, hlen _ l1, hlen _ l2, if_false, Option.some.injEq,
      sampleNameOfFile]
    have s1 : fileStem (fileName p ++ dotGz) = fileName p :=
      fileStem_ext (fileName p) [103, 122] (by intro e; simp [e] at l1) (by decide)
    have s2 : fileStem (fileName p) = b := by
      rw [h]; exact fileStem_ext b [102, 97] hb (by decide)
    have e := trimEndMatches_suffix dotFa b (by decide)
    rw [s1, s2, h, e]
  · have l1 : 4 ≤ (fileName p).length := by rw [h]; simp [dotFasta]
    have l2 : 4 ≤ (fileName p ++ dotGz).length := by simp; omega
    simp only [sampleNameOfPath, hfn, hlen _ l1, hlen _ l2, if_false, Option.some.injEq,
      sampleNameOfFile]
    have s1 : fileStem (fileName p ++ dotGz) = fileName p :=
      fileStem_ext (fileName p) [103, 122] (by intro e; simp [e] at l1) (by decide)
    have s2 : fileStem (fileName p) = b := by
      rw [h]; exact fileStem_ext b [102, 97, 115, 116, 97] hb (by decide)
    rw [s1, s2, h]
    have t1 : trimEndMatches dotFa (b ++ dotFasta) = b ++ dotFasta := by
      simp only [trimEndMatches, List.reverse_append]
      rw [stripPrefixRep_stop _ _ (by simp [dotFa, dotFasta, List.isPrefixOf])]
      simp
    have t2 : trimEndMatches dotFa b = b := by
      simp only [trimEndMatches]
      rw [stripPrefixRep_stop _ _ hnfa]
      simp
    have e := trimEndMatches_suffix dotFasta b (by decide)
    rw [t1, t2, e]

/-- `/d/x.fa` and `/d/x.fa.gz` are both sample `x`; so are `x.fasta` and `x.fasta.gz`. -/
example : fileName [47, 100, 47, 120, 46, 102, 97] = [120] ++ dotFa := by decide

/-- The side condition is needed: `x.fa.fasta` is sample `x`, `x.fa.fasta.gz` is sample `x.fa`
(`trim_end_matches(".fa")` runs before `trim_end_matches(".fasta")`). -/
theorem sample_name_gz_witness :
    sampleNameOfFile ([120] ++ dotFa ++ dotFasta) = [120] ∧
    sampleNameOfFile ([120] ++ dotFa ++ dotFasta ++ dotGz) = [120] ++ dotFa := by
  have e1 : fileStem ([120] ++ dotFa ++ dotFasta) = [120] ++ dotFa :=
    fileStem_ext ([120] ++ dotFa) [102, 97, 115, 116, 97] (by decide) (by decide)
  have e2 : fileStem ([120] ++ dotFa ++ dotFasta ++ dotGz) = [120] ++ dotFa ++ dotFasta :=
    fileStem_ext ([120] ++ dotFa ++ dotFasta) [103, 122] (by decide) (by decide)
  have a1 : trimEndMatches dotFa ([120] ++ dotFa) = [120] := by
    rw [trimEndMatches_suffix _ _ (by decide)]
    simp only [trimEndMatches]; rw [stripPrefixRep_stop _ _ (by decide)]; rfl
  have a2 : trimEndMatches dotFasta [120] = [120] := by
    simp only [trimEndMatches]; rw [stripPrefixRep_stop _ _ (by decide)]; rfl
  have a3 : trimEndMatches dotFa ([120] ++ dotFa ++ dotFasta) = [120] ++ dotFa ++ dotFasta := by
    simp only [trimEndMatches]; rw [stripPrefixRep_stop _ _ (by decide)]; simp
  have a4 : trimEndMatches dotFasta ([120] ++ dotFa ++ dotFasta) = [120] ++ dotFa := by
    rw [trimEndMatches_suffix _ _ (by decide)]
    simp only [trimEndMatches]; rw [stripPrefixRep_stop _ _ (by decide)]; simp
  constructor
  · simp only [sampleNameOfFile, e1, a1, a2]
  · simp only [sampleNameOfFile, e2, a3, a4]

/-- The stream `create` receives from a file depends only on the records, not on the style. -/
theorem stream_render (fileSample : Bytes) (fin : Bool) (pres : List (Rec × RecStyle))
    (h : ValidPres pres) :
    fileStream fileSample (render fin pres) = some (streamOf fileSample (pres.map (·.1))) :=
  fileStream_render fileSample fin pres h

/-- One PanSN file versus one file per sample: when every header carries its sample (≥ 3
`#`-fields), the per-sample files — each presented in its own style, under any file name — and a
single file presenting the same records in the same order in any style give `create` the same
`(sample, contig name, codes)` stream (every read succeeds). -/
theorem pansn_vs_files (files : List (Bytes × Bool × List (Rec × RecStyle)))
    (single : Bytes) (fin : Bool) (all : List (Rec × RecStyle))
    (hfiles : ∀ f ∈ files, ValidPres f.2.2) (hall : ValidPres all)
    (hsame : all.map (·.1) = files.flatMap (fun f => f.2.2.map (·.1)))
    (hpansn : ∀ f ∈ files, ∀ p ∈ f.2.2, IsPansn p.1) :
    (∀ f ∈ files, fileStream f.1 (render f.2.1 f.2.2) = some (streamOf f.1 (f.2.2.map (·.1)))) ∧
    fileStream single (render fin all) =
      some (files.flatMap (fun f => streamOf f.1 (f.2.2.map (·.1)))) := by
  refine ⟨fun f hf => fileStream_render f.1 f.2.1 f.2.2 (hfiles f hf), ?_⟩
  rw [fileStream_render single fin all hall, hsame]
  clear hsame hall
  congr 1
  induction files with
  | nil => rfl
  | cons f fs ih =>
    simp only [List.flatMap_cons, streamOf_append]
    rw [ih (fun g hg => hfiles g (by simp [hg])) (fun g hg => hpansn g (by simp [hg]))]
    congr 1
    apply streamOf_pansn
    intro r hr
    simp only [List.mem_map] at hr
    obtain ⟨p, hp, rfl⟩ := hr
    exact hpansn f (by simp) p hp

/-- two samples `A#1`, `B#1`, one contig each -/
def exFiles : List (Bytes × Bool × List (Rec × RecStyle)) :=
  [([115, 48], true, [(⟨[65, 35, 49, 35, 99], [65, 67]⟩, ⟨60, false, []⟩)]),
   ([115, 49], false, [(⟨[66, 35, 49, 35, 99], [103, 116]⟩, ⟨1, true, [true, true]⟩)])]

def exAll : List (Rec × RecStyle) :=
  [(⟨[65, 35, 49, 35, 99], [65, 67]⟩, ⟨7, true, [true]⟩),
   (⟨[66, 35, 49, 35, 99], [103, 116]⟩, ⟨80, false, []⟩)]

set_option maxRecDepth 8192 in
example : (∀ f ∈ exFiles, ValidPres f.2.2) ∧ ValidPres exAll ∧
    exAll.map (·.1) = exFiles.flatMap (fun f => f.2.2.map (·.1)) ∧
    (∀ f ∈ exFiles, ∀ p ∈ f.2.2, IsPansn p.1) ∧
    streamOf [97] (exAll.map (·.1)) =
      [([65, 35, 49], [65, 35, 49, 35, 99], [0, 1]), ([66, 35, 49], [66, 35, 49, 35, 99], [2, 3])] := by
  decide

end Ragc.Props.C19
