import RagcModel.Lemmas.FileIO
/-!
C15 — write failures during `create` are reported, never swallowed.

Model: `Model/FileIO.lean` (`Sink` = the output file with a persistent write fault at byte offset
`limit`; `BufWriter`; `Arch.close`/`serialize`/`Drop`; `finalize`; `createRun` = `finalize` followed
by the destructors). All statements hold for every buffer capacity, every fault offset, every list
of chunks handed to `write_all` by `flush_buffers` and every footer (and every footer `Drop`'s
second `close` might produce). Helper lemmas: `Lemmas/FileIO.lean`.
-/
namespace Ragc.Props.C15
open Ragc.FileIO Ragc.Varint

/-- `finalize` returns `Ok` only if the file holds the complete archive — all parts, the footer and
its 8-byte length — and the writer has been closed. -/
theorem finalize_ok_complete (cap limit : Nat) (chunks : List Bytes) (footer : Bytes) (a : Arch)
    (h : finalize (Arch.create cap limit) chunks footer = (.ok, a)) :
    a.file = fullFile chunks footer ∧ a.writer = none ∧ (fullFile chunks footer).length ≤ limit := by
  unfold finalize Arch.create at h
  dsimp only at h
  have g0 : Good limit [] (⟨cap, [], ⟨limit, []⟩⟩ : BufWriter) := ⟨rfl, Nat.zero_le _, rfl⟩
  rcases hwc : writeChunks ⟨cap, [], ⟨limit, []⟩⟩ chunks with ⟨r, w1⟩
  rw [hwc] at h
  cases r with
  | err => simp at h
  | ok =>
    dsimp only at h
    obtain ⟨g1, _⟩ := writeChunks_ok chunks g0 hwc
    rw [List.nil_append] at g1
    unfold Arch.close BufWriter.flush at h
    dsimp only at h
    rcases hfb : w1.flushBuf with ⟨r2, w2⟩
    rw [hfb] at h
    cases r2 with
    | err => simp at h
    | ok =>
      dsimp only at h
      obtain ⟨g2, _, _⟩ := flushBuf_ok g1 hfb
      rcases hser : serialize w2 footer with ⟨r3, w3⟩
      rw [hser] at h
      cases r3 with
      | err => simp at h
      | ok =>
        dsimp only at h
        obtain ⟨g3, hb⟩ := serialize_ok g2 hser
        simp only [Prod.mk.injEq, true_and] at h
        subst h
        have hc : w3.inner.contents = fullFile chunks footer := by
          have := g3.stream; rw [hb, List.append_nil] at this; exact this
        have hdrop : w3.drop.contents = w3.inner.contents := by
          unfold BufWriter.drop BufWriter.flushBuf Sink.write
          rw [hb]; simp
        refine ⟨?_, rfl, ?_⟩
        · simp only [Arch.file, hdrop, hc]
        · rw [← hc]; exact g3.inv

example : finalize (Arch.create 4 100) [[1, 2], [3, 4, 5, 6, 7]] [9, 9]
    = (.ok, ⟨none, some ⟨100, [1, 2, 3, 4, 5, 6, 7, 9, 9, 2, 0, 0, 0, 0, 0, 0, 0]⟩⟩) := by decide

/-- After an `Err` from `finalize` the file is full: it holds exactly the first `limit` bytes of
the complete archive, and the complete archive is longer (a *strict* prefix — which `open` rejects,
C14). -/
theorem finalize_err_prefix (cap limit : Nat) (chunks : List Bytes) (footer : Bytes) (a : Arch)
    (h : finalize (Arch.create cap limit) chunks footer = (.err, a)) :
    a.file = (fullFile chunks footer).take limit ∧ limit < (fullFile chunks footer).length ∧
    ∃ w, a.writer = some w ∧ w.inner.limit = limit ∧ w.inner.contents.length = limit := by
  unfold finalize Arch.create at h
  dsimp only at h
  have g0 : Good limit [] (⟨cap, [], ⟨limit, []⟩⟩ : BufWriter) := ⟨rfl, Nat.zero_le _, rfl⟩
  have fin : ∀ (w : BufWriter) (tgt more : Bytes), Failed limit tgt w.inner →
      tgt ++ more = fullFile chunks footer →
      (⟨some w, none⟩ : Arch).file = (fullFile chunks footer).take limit ∧
      limit < (fullFile chunks footer).length ∧
      ∃ w', (⟨some w, none⟩ : Arch).writer = some w' ∧ w'.inner.limit = limit ∧
        w'.inner.contents.length = limit := by
    intro w tgt more hf he
    have hf' := hf.extend more
    rw [he] at hf'
    exact ⟨by simp only [Arch.file]; exact hf'.contents, hf'.short, w, rfl, hf'.lim_eq,
      by rw [hf'.full, hf'.lim_eq]⟩
  rcases hwc : writeChunks ⟨cap, [], ⟨limit, []⟩⟩ chunks with ⟨r, w1⟩
  rw [hwc] at h
  cases r with
  | err =>
    simp only [Prod.mk.injEq, true_and] at h
    subst h
    obtain ⟨hf, _⟩ := writeChunks_err chunks g0 hwc
    rw [List.nil_append] at hf
    exact fin w1 _ (footer ++ le64 footer.length) hf (by simp [fullFile])
  | ok =>
    dsimp only at h
    obtain ⟨g1, _⟩ := writeChunks_ok chunks g0 hwc
    rw [List.nil_append] at g1
    unfold Arch.close BufWriter.flush at h
    dsimp only at h
    rcases hfb : w1.flushBuf with ⟨r2, w2⟩
    rw [hfb] at h
    cases r2 with
    | err =>
      simp only [Prod.mk.injEq, true_and] at h
      subst h
      obtain ⟨hf, _⟩ := flushBuf_err g1 hfb
      exact fin w2 _ (footer ++ le64 footer.length) hf (by simp [fullFile])
    | ok =>
      dsimp only at h
      obtain ⟨g2, _, _⟩ := flushBuf_ok g1 hfb
      rcases hser : serialize w2 footer with ⟨r3, w3⟩
      rw [hser] at h
      cases r3 with
      | ok => simp at h
      | err =>
        simp only [Prod.mk.injEq, true_and] at h
        subst h
        have hf := serialize_err g2 hser
        exact fin w3 _ [] hf (by simp [fullFile])

example : finalize (Arch.create 4 8) [[1, 2], [3, 4, 5, 6, 7]] [9, 9]
    = (.err, ⟨some ⟨4, [9], ⟨8, [1, 2, 3, 4, 5, 6, 7, 9]⟩⟩, none⟩) := by decide

/-- `finalize` is total on a freshly created archive: `Ok` or `Err`, nothing else; and it is `Ok`
exactly when the complete archive fits below the fault offset. Hence: for every fault offset
`limit` smaller than the size of the complete archive — inside a part, inside the footer, inside
the 8-byte length — `create` returns an error. -/
theorem finalize_ok_iff (cap limit : Nat) (chunks : List Bytes) (footer : Bytes) :
    (finalize (Arch.create cap limit) chunks footer).1 = .ok ↔
      (fullFile chunks footer).length ≤ limit := by
  rcases hfin : finalize (Arch.create cap limit) chunks footer with ⟨r, a⟩
  cases r with
  | ok =>
    have := (finalize_ok_complete cap limit chunks footer a hfin).2.2
    simp [this]
  | err =>
    have := (finalize_err_prefix cap limit chunks footer a hfin).2.1
    simp only [reduceCtorEq, false_iff]; omega

/-- The write-fault form of the property: every first failing offset below the archive size makes
`finalize` (hence `create`, hence the exit status) report an error. -/
theorem finalize_limit_err (cap limit : Nat) (chunks : List Bytes) (footer : Bytes)
    (h : limit < (fullFile chunks footer).length) :
    (finalize (Arch.create cap limit) chunks footer).1 = .err := by
  have := finalize_ok_iff cap limit chunks footer
  cases hr : (finalize (Arch.create cap limit) chunks footer).1 with
  | err => rfl
  | ok => rw [hr] at this; have := this.mp rfl; omega

example : ∀ limit < 17, (finalize (Arch.create 4 limit) [[1, 2], [3, 4, 5, 6, 7]] [9, 9]).1 = .err :=
  fun limit h => finalize_limit_err 4 limit _ _ (by simpa [fullFile, le64, leBytes] using h)

/-- The whole run, destructors included (`Drop for Archive` calls `close` again and throws the
result away; `Drop for BufWriter` flushes once more): the file the process leaves behind is the
first `limit` bytes of the complete archive — the complete archive iff `finalize` returned `Ok` —
whatever the second `close` tried to append. -/
theorem createRun_file (cap limit : Nat) (chunks : List Bytes) (footer footerD : Bytes) :
    (createRun cap limit chunks footer footerD).2.2 = (fullFile chunks footer).take limit ∧
    ((createRun cap limit chunks footer footerD).1 = .ok ↔ (fullFile chunks footer).length ≤ limit) := by
  have hiff := finalize_ok_iff cap limit chunks footer
  unfold createRun
  rcases hfin : finalize (Arch.create cap limit) chunks footer with ⟨r, a⟩
  rw [hfin] at hiff
  refine ⟨?_, hiff⟩
  cases r with
  | ok =>
    obtain ⟨hfile, hw, hlen⟩ := finalize_ok_complete cap limit chunks footer a hfin
    have : a.dropArchive footerD = (.noWriter, a.file) := by
      simp only [Arch.dropArchive, Arch.close, hw]
    dsimp only
    rw [this, hfile, List.take_of_length_le hlen]
  | err =>
    obtain ⟨hfile, _, w, hw, hl, hfull⟩ := finalize_err_prefix cap limit chunks footer a hfin
    have ha : a = ⟨some w, a.closed⟩ := by cases a; simp_all
    have hinv : w.inner.contents.length ≤ w.inner.limit := by omega
    obtain ⟨s', hext, hs'⟩ := dropArchive_Ext w a.closed footerD hinv
    have hsame := hext.of_full (by omega)
    dsimp only
    rw [ha]
    rcases hd : (⟨some w, a.closed⟩ : Arch).dropArchive footerD with ⟨d, file⟩
    rw [hd] at hs'
    dsimp only at hs' ⊢
    rw [hs', hsame, ← file_of_writer a w hw, hfile]

example : createRun 4 8 [[1, 2], [3, 4, 5, 6, 7]] [9, 9] [7]
    = (.err, .ioErr, [1, 2, 3, 4, 5, 6, 7, 9]) := by decide

/-- `Drop for Archive` swallows the result of `close`. That result is an I/O error only when
`finalize` has already returned an error (so the exit status is already non-zero); after a
successful `finalize` the writer is gone, the second `close` stops at "Archive not open for
writing" without touching the file. -/
theorem drop_swallows_only_after_error (cap limit : Nat) (chunks : List Bytes) (footer footerD : Bytes) :
    ((createRun cap limit chunks footer footerD).1 = .ok →
      (createRun cap limit chunks footer footerD).2.1 = .noWriter) ∧
    ((createRun cap limit chunks footer footerD).2.1 = .ioErr →
      (createRun cap limit chunks footer footerD).1 = .err) := by
  have key : (createRun cap limit chunks footer footerD).1 = .ok →
      (createRun cap limit chunks footer footerD).2.1 = .noWriter := by
    unfold createRun
    rcases hfin : finalize (Arch.create cap limit) chunks footer with ⟨r, a⟩
    cases r with
    | err => intro h; simp at h
    | ok =>
      intro _
      obtain ⟨_, hw, _⟩ := finalize_ok_complete cap limit chunks footer a hfin
      have : a.dropArchive footerD = (.noWriter, a.file) := by
        simp only [Arch.dropArchive, Arch.close, hw]
      dsimp only; rw [this]
  refine ⟨key, fun hio => ?_⟩
  cases hr : (createRun cap limit chunks footer footerD).1 with
  | err => rfl
  | ok => have := key hr; rw [this] at hio; cases hio

example : (createRun 4 100 [[1, 2], [3, 4, 5, 6, 7]] [9, 9] [7]).2.1 = .noWriter := by decide

/-- Reported, never swallowed, in one statement: the run's result is `Ok` if and only if the file
left behind is the complete archive. -/
theorem ok_iff_complete (cap limit : Nat) (chunks : List Bytes) (footer footerD : Bytes) :
    (createRun cap limit chunks footer footerD).1 = .ok ↔
      (createRun cap limit chunks footer footerD).2.2 = fullFile chunks footer := by
  obtain ⟨hfile, hiff⟩ := createRun_file cap limit chunks footer footerD
  rw [hiff, hfile]
  constructor
  · intro h; exact List.take_of_length_le h
  · intro h
    have := congrArg List.length h
    rw [List.length_take] at this
    omega

example : (createRun 4 16 [[1, 2], [3, 4, 5, 6, 7]] [9, 9] []).1 = .err ∧
    (createRun 4 16 [[1, 2], [3, 4, 5, 6, 7]] [9, 9] []).2.2 ≠ fullFile [[1, 2], [3, 4, 5, 6, 7]] [9, 9] := by
  decide

end Ragc.Props.C15
