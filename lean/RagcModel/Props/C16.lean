import RagcModel.Model.Fasta
import RagcModel.Lemmas.Fasta
/-!
# C16 — every successfully created archive is fully extractable (any FASTA text)

Model: `RagcModel/Model/Fasta.lean` (genome_io.rs `read_contig_raw` / `read_contig_impl` /
`GenomeWriter`, contig_iterator.rs sample naming, decompressor.rs output letters, main.rs skip of
empty sequences), with the letter table `Ragc.Gen.cnvNum` regenerated from genome_io.rs on every
run. The FASTA side of the property is decided here; that the archive stores and returns the codes
it is given is C01/C09 (the LZ literal for code 30 is D2, outside this file).

Result (model of the reader after the D9 repair — blank lines in front of a header are skipped, a
header without sequence is an empty contig, a record without a name is an error): the letter
mapping and the normalisation are as documented (with one precisely stated exception: the 11
non-letter bytes above `@`), every presentation of well-formed records parses to the same thing
(`parse_render`), and no record with a base is dropped (`no_record_dropped`, full statement).
-/
namespace Ragc.Props.C16
open Ragc.Fasta

/-! ## the letter table -/

set_option maxRecDepth 8192 in
/-- The generated 128-entry table, completely: it has 128 entries and bytes `≤ 64` are dropped
before it is consulted (`keepAbove`); every ASCII letter maps to a code in `0..15` or to `30`,
upper and lower case agree; the code is `< 16` exactly for the 16 IUPAC letters, which map to
`0..15` bijectively (the `i`-th letter of `ACGTNRYSWKMBDHVU` has code `i`); the 11 non-letters
above `@` are **not** dropped: the back quote maps to 32, the ten others (`[ \ ] ^ _ { | } ~` DEL) to 30. -/
theorem letter_codes :
    Ragc.Gen.cnvNum.length = 128 ∧ Ragc.Gen.keepAbove = 64 ∧
    (∀ b, b < 128 → isLetter b = true →
      (cnv b < 16 ∨ cnv b = 30) ∧ cnv (toUpper b) = cnv b ∧ cnv (toLower b) = cnv b ∧
      (cnv b < 16 ↔ iupac.contains (toUpper b) = true)) ∧
    iupac.map cnv = List.range 16 ∧
    (∀ b, b < 128 → isHighPunct b = true → cnv b = if b = 96 then 32 else 30) ∧
    (∀ b, b < 128 → (64 < b ↔ (isLetter b = true ∨ isHighPunct b = true))) := by
  decide +kernel

example : cnv 71 = 2 ∧ cnv 103 = 2 ∧ cnv 88 = 30 ∧ cnv 95 = 30 ∧ cnv 96 = 32 := by decide

set_option maxRecDepth 8192 in
/-- Reading back: the output letter of a letter's code is the letter in upper case if it is one
of the 16 IUPAC letters and `N` otherwise; every code `≥ 16` (30, 32, anything) reads back as `N`. -/
theorem out_letter_code :
    (∀ b, b < 128 → isLetter b = true →
      outLetter (cnv b) = if iupac.contains (toUpper b) then toUpper b else 78) ∧
    (∀ c, 16 ≤ c → outLetter c = 78) := by
  constructor
  · decide +kernel
  · intro c hc
    simp only [outLetter]
    have : ¬ c < 16 := by omega
    simp [this]

example : outLetter (cnv 114) = 82 ∧ outLetter (cnv 120) = 78 ∧ outLetter 30 = 78 := by decide

/-- Conversion followed by read-back is the documented normalisation (non-letters dropped, upper
case, letters outside the IUPAC set → `N`) of every sequence text that does not contain one of the
11 non-letter bytes above `@`. -/
theorem convert_normalise (raw : Bytes) (h : ∀ b ∈ raw, isHighPunct b = false) :
    (convert raw).map outLetter = normalise raw := by
  rw [convert_map_outLetter, normaliseCode_eq_normalise h]

example : (∀ b ∈ [97, 67, 45, 10, 120, 13, 78, 49], isHighPunct b = false) ∧
    normalise [97, 67, 45, 10, 120, 13, 78, 49] = [65, 67, 78, 78] := by decide

/-- … and for ALL byte strings it is `normaliseCode`: as documented, except that those 11 bytes
are kept and read back as `N`. -/
theorem convert_normalise_general (raw : Bytes) :
    (convert raw).map outLetter = normaliseCode raw :=
  convert_map_outLetter raw

set_option maxRecDepth 8192 in
/-- The exception is real: `A[C` reads back as `ANC`, the documented normalisation is `AC`. -/
theorem convert_normalise_high_punct_witness :
    (convert [65, 91, 67]).map outLetter = [65, 78, 67] ∧ normalise [65, 91, 67] = [65, 67] := by
  decide

/-! ## presentations (shared with C19) -/

/-- Every presentation of records parses to the same thing: for every line width `≥ 1` per
record, LF or CRLF per record, any case pattern, with or without final newline. Records: header
without `\n` whose id is not empty, at least one base, all letters. -/
theorem parse_render (fin : Bool) (recs : List (Rec × RecStyle)) (h : ValidPres recs) :
    parseFile (render fin recs) = some (canon (recs.map (·.1))) :=
  parseFile_render fin recs h

example : ValidPres [(⟨[99, 49, 32, 120], [65, 99, 71, 116, 120]⟩, ⟨2, true, [true, false]⟩),
      (⟨[99, 50], [78]⟩, ⟨1, false, []⟩)] ∧
    canon [⟨[99, 49, 32, 120], [65, 99, 71, 116, 120]⟩, ⟨[99, 50], [78]⟩]
      = [([99, 49, 32, 120], [0, 1, 2, 3, 30]), ([99, 50], [4])] := by decide

/-! ## what extraction writes can be read again -/

/-- The FASTA text `getset` writes for a sample (`write_sample_fasta`: `>name`, 80 columns, LF, upper
case, code `< 16` → its letter, anything else → `N`) parses back to the same names and the same
codes (a code `≥ 16` comes back as 4 = `N`): re-creating from an extraction loses nothing. -/
theorem write_read_roundtrip (contigs : List (Bytes × Bytes)) (h : ∀ c ∈ contigs, ValidContig c) :
    parseFile (writeFasta contigs) = some (contigs.map (fun c => (c.1, c.2.map reread))) := by
  rw [writeFasta_eq_render, parseFile_render true _ (validPres_of_contigs contigs h),
    canon_of_contigs contigs h]

set_option maxRecDepth 8192 in
example : (∀ c ∈ [([99, 49], [0, 1, 2, 3, 15, 30]), ([99, 32, 50], [4])], ValidContig c) ∧
    [([99, 49], [0, 1, 2, 3, 15, 30]), ([99, 32, 50], [4])].map (fun c => (c.1, c.2.map reread))
      = [([99, 49], [0, 1, 2, 3, 15, 4]), ([99, 32, 50], [4])] := by decide

/-! ## no record is dropped -/

/-- The reader loop, exactly: leading blank lines are skipped; then every record of the text is
returned, in order, with its id and its codes (also records without any line: empty codes, which
main.rs skips) — unless some record has no name, in which case reading fails (`create` exits
with an error). -/
theorem reader_complete (t : Bytes) : parseFile t = readRecords (specRecords t) :=
  parseFile_eq t

/-- For well-formed FASTA text (after leading blank lines the first line is a header line, every
header has a name) reading succeeds and what `create` pushes is exactly, in order, every record
that has a base: nothing is left out. -/
theorem no_record_dropped (t : Bytes) (hwf : wellFormedText t = true) : NoRecordDropped t := by
  apply noRecordDropped_of_good
  simp only [wellFormedText, Bool.and_eq_true] at hwf
  simpa [good] using hwf.2

/-- `\n \n>a\nAC\n\n>e\n>b\n \n>c\ngt`: leading blank lines, blank line inside, a record without any
line, a record with only a blank line, no final newline. -/
def exText : Bytes :=
  [10, 32, 10, 62, 97, 10, 65, 67, 10, 10, 62, 101, 10, 62, 98, 10, 32, 10, 62, 99, 10, 103, 116]

set_option maxRecDepth 8192 in
example : wellFormedText exText = true ∧
    (specRecords exText).map (fun p => headerId p.1) = [[97], [101], [98], [99]] ∧
    ((specRecords exText).filter hasBase).map (fun p => headerId p.1) = [[97], [99]] := by decide

/-- `>a\n>b\nAC\n`: a record without sequence before a record with bases (dropped `b` before
the repair). -/
def afterEmptyRecord : Bytes := [62, 97, 10, 62, 98, 10, 65, 67, 10]
/-- `\n>a\nAC\n`: a leading blank line (dropped everything before the repair). -/
def afterLeadingBlank : Bytes := [10, 62, 97, 10, 65, 67, 10]

set_option maxRecDepth 8192 in
/-- The two former defect witnesses now give `create` their records. -/
theorem former_witnesses_kept :
    createInput afterEmptyRecord = some [([98], [0, 1])] ∧
    createInput afterLeadingBlank = some [([97], [0, 1])] := by
  simp only [createInput, parseFile_eq]; decide

/-- A record without a name makes reading fail (`create` exits with an error) — it is not taken
for the end of the input. -/
theorem empty_name_is_error (t : Bytes) (h : (specRecords t).any (fun p => headerId p.1 = []) = true) :
    parseFile t = none := by
  rw [parseFile_eq, readRecords]
  have : (specRecords t).all good = false := by
    simp only [List.any_eq_true, decide_eq_true_eq] at h
    obtain ⟨p, hp, he⟩ := h
    cases hall : (specRecords t).all good with
    | false => rfl
    | true =>
      have := List.all_eq_true.mp hall p hp
      simp [good, he] at this
  simp [this]

set_option maxRecDepth 8192 in
/-- `>  \nAC\n>b\nAC\n` -/
example : parseFile [62, 32, 32, 10, 65, 67, 10, 62, 98, 10, 65, 67, 10] = none := by
  apply empty_name_is_error; decide

end Ragc.Props.C16
