import RagcModel.Model.Fasta
import RagcModel.Lemmas.Fasta
/-!
# C16 — every successfully created archive is fully extractable (any FASTA text)

Model: `RagcModel/Model/Fasta.lean` (genome_io.rs `read_contig_raw` / `read_contig_impl` /
`GenomeWriter`, contig_iterator.rs sample naming, decompressor.rs output letters, main.rs skip of
empty sequences), with the letter table `Ragc.Gen.cnvNum` regenerated from genome_io.rs on every
run. The FASTA side of the property is decided here; that the archive stores and returns the codes
it is given is C01/C09 (the LZ literal for code 30 is D2, outside this file).

Result: the letter mapping and the normalisation are as documented (with one precisely stated
exception: the 11 non-letter bytes above `@`), every presentation of well-formed records parses to
the same thing (`parse_render`), but `no_record_dropped` is FALSE for the code as it stands
(defect D9): the reader loop is characterised exactly by `reader_truncates`, the statement is
proved for texts without the two triggers (`no_record_dropped_partial`) and refuted by two
concrete texts.
-/
namespace Ragc.Props.C16
open Ragc.Fasta

/-! ## the letter table -/

set_option maxRecDepth 8192 in
/-- The generated 128-entry table, completely: it has 128 entries and bytes `≤ 64` are dropped
before it is consulted (`keepAbove`); every ASCII letter maps to a code in `0..15` or to `30`,
upper and lower case agree; the code is `< 16` exactly for the 16 IUPAC letters, which map to
`0..15` bijectively (the `i`-th letter of `ACGTNRYSWKMBDHVU` has code `i`); the 11 non-letters
above `@` are **not** dropped: the back quote maps to 32, the ten others (`[ \ ] ^ _ { | } ~` DEL) to 30. -/
theorem letter_codes :
    Ragc.Gen.cnvNum.length = 128 ∧ Ragc.Gen.keepAbove = 64 ∧
    (∀ b, b < 128 → isLetter b = true →
      (cnv b < 16 ∨ cnv b = 30) ∧ cnv (toUpper b) = cnv b ∧ cnv (toLower b) = cnv b ∧
      (cnv b < 16 ↔ iupac.contains (toUpper b) = true)) ∧
    iupac.map cnv = List.range 16 ∧
    (∀ b, b < 128 → isHighPunct b = true → cnv b = if b = 96 then 32 else 30) ∧
    (∀ b, b < 128 → (64 < b ↔ (isLetter b = true ∨ isHighPunct b = true))) := by
  decide +kernel

example : cnv 71 = 2 ∧ cnv 103 = 2 ∧ cnv 88 = 30 ∧ cnv 95 = 30 ∧ cnv 96 = 32 := by decide

set_option maxRecDepth 8192 in
/-- Reading back: the output letter of a letter's code is the letter in upper case if it is one
of the 16 IUPAC letters and `N` otherwise; every code `≥ 16` (30, 32, anything) reads back as `N`. -/
theorem out_letter_code :
    (∀ b, b < 128 → isLetter b = true →
      outLetter (cnv b) = if iupac.contains (toUpper b) then toUpper b else 78) ∧
    (∀ c, 16 ≤ c → outLetter c = 78) := by
  constructor
  · decide +kernel
  · intro c hc
    simp only [outLetter]
    have : ¬ c < 16 := by omega
    simp [this]

example : outLetter (cnv 114) = 82 ∧ outLetter (cnv 120) = 78 ∧ outLetter 30 = 78 := by decide

/-- Conversion followed by read-back is the documented normalisation (non-letters dropped, upper
case, letters outside the IUPAC set → `N`) of every sequence text that does not contain one of the
11 non-letter bytes above `@`. -/
theorem convert_normalise (raw : Bytes) (h : ∀ b ∈ raw, isHighPunct b = false) :
    (convert raw).map outLetter = normalise raw := by
  rw [convert_map_outLetter, normaliseCode_eq_normalise h]

example : (∀ b ∈ [97, 67, 45, 10, 120, 13, 78, 49], isHighPunct b = false) ∧
    normalise [97, 67, 45, 10, 120, 13, 78, 49] = [65, 67, 78, 78] := by decide

/-- … and for ALL byte strings it is `normaliseCode`: as documented, except that those 11 bytes
are kept and read back as `N`. -/
theorem convert_normalise_general (raw : Bytes) :
    (convert raw).map outLetter = normaliseCode raw :=
  convert_map_outLetter raw

set_option maxRecDepth 8192 in
/-- The exception is real: `A[C` reads back as `ANC`, the documented normalisation is `AC`. -/
theorem convert_normalise_high_punct_witness :
    (convert [65, 91, 67]).map outLetter = [65, 78, 67] ∧ normalise [65, 91, 67] = [65, 67] := by
  decide

/-! ## presentations (shared with C19) -/

/-- Every presentation of records parses to the same thing: for every line width `≥ 1` per
record, LF or CRLF per record, any case pattern, with or without final newline. Records: header
without `\n` whose id is not empty, at least one base, all letters. -/
theorem parse_render (fin : Bool) (recs : List (Rec × RecStyle)) (h : ValidPres recs) :
    parseFile (render fin recs) = canon (recs.map (·.1)) :=
  parseFile_render fin recs h

example : ValidPres [(⟨[99, 49, 32, 120], [65, 99, 71, 116, 120]⟩, ⟨2, true, [true, false]⟩),
      (⟨[99, 50], [78]⟩, ⟨1, false, []⟩)] ∧
    canon [⟨[99, 49, 32, 120], [65, 99, 71, 116, 120]⟩, ⟨[99, 50], [78]⟩]
      = [([99, 49, 32, 120], [0, 1, 2, 3, 30]), ([99, 50], [4])] := by decide

/-! ## what extraction writes can be read again -/

/-- The FASTA text `getset` writes for a sample (`write_sample_fasta`: `>name`, 80 columns, LF, upper
case, code `< 16` → its letter, anything else → `N`) parses back to the same names and the same
codes (a code `≥ 16` comes back as 4 = `N`): re-creating from an extraction loses nothing. -/
theorem write_read_roundtrip (contigs : List (Bytes × Bytes)) (h : ∀ c ∈ contigs, ValidContig c) :
    parseFile (writeFasta contigs) = contigs.map (fun c => (c.1, c.2.map reread)) := by
  rw [writeFasta_eq_render, parseFile_render true _ (validPres_of_contigs contigs h),
    canon_of_contigs contigs h]

set_option maxRecDepth 8192 in
example : (∀ c ∈ [([99, 49], [0, 1, 2, 3, 15, 30]), ([99, 32, 50], [4])], ValidContig c) ∧
    [([99, 49], [0, 1, 2, 3, 15, 30]), ([99, 32, 50], [4])].map (fun c => (c.1, c.2.map reread))
      = [([99, 49], [0, 1, 2, 3, 15, 4]), ([99, 32, 50], [4])] := by decide

/-! ## no record is dropped — false as the code stands (D9) -/

/-- The reader loop, exactly: what the callers of `read_contig_converted` get from a text is the
records (the first line taken as a header line whatever it is) **up to the first one whose id is
empty or that has no line at all after its header**; that record and everything after it is
dropped, and the callers see a normal end of input. -/
theorem reader_truncates (t : Bytes) :
    parseFile t = ((records (lines t)).takeWhile good).map conv :=
  parseFile_eq t

/-
Full statement (FALSE for the code as it stands):

theorem no_record_dropped (t : Bytes) (h : wellFormedText t = true) : NoRecordDropped t

i.e. `(createInput t).map header = headers of the records of t that have ≥ 1 base`.
-/

/-- Proved part: for well-formed text that does not start with a blank line and in which every
header is followed by at least one line (blank lines count), what `create` pushes is exactly, in
order, every record that has a base. -/
theorem no_record_dropped_partial (t : Bytes) (hwf : wellFormedText t = true)
    (hlead : specLines t = lines t) (hbody : ∀ p ∈ specRecords t, p.2 ≠ []) :
    NoRecordDropped t := by
  apply noRecordDropped_of_good t hlead
  intro p hp
  simp only [wellFormedText, Bool.and_eq_true, List.all_eq_true, decide_eq_true_eq] at hwf
  have h1 := hwf.2 p (by simpa [specRecords, hlead] using hp)
  have h2 := hbody p (by simpa [specRecords, hlead] using hp)
  simp [good, h1, h2]

/-- `>a\nAC\n\n>b\n \n>c\ngt` : blank line inside, a record with only a blank line, no final newline. -/
def exText : Bytes := [62, 97, 10, 65, 67, 10, 10, 62, 98, 10, 32, 10, 62, 99, 10, 103, 116]

set_option maxRecDepth 8192 in
example : wellFormedText exText = true ∧ specLines exText = lines exText ∧
    (∀ p ∈ specRecords exText, p.2 ≠ []) ∧
    ((specRecords exText).filter hasBase).map (fun p => headerId p.1) = [[97], [99]] := by decide

/-- `>a\n>b\nAC\n`: a record without sequence before a record with bases. -/
def dropAfterEmptyRecord : Bytes := [62, 97, 10, 62, 98, 10, 65, 67, 10]
/-- `\n>a\nAC\n`: a leading blank line. -/
def dropAfterLeadingBlank : Bytes := [10, 62, 97, 10, 65, 67, 10]

set_option maxRecDepth 8192 in
/-- Negation witness 1: the text is well formed, its record `b` has two bases, and `create` gets
nothing at all. -/
theorem no_record_dropped_false_empty_record :
    wellFormedText dropAfterEmptyRecord = true ∧ createInput dropAfterEmptyRecord = [] ∧
    ((specRecords dropAfterEmptyRecord).filter hasBase).map (fun p => headerId p.1) = [[98]] ∧
    ¬ NoRecordDropped dropAfterEmptyRecord := by
  have h : createInput dropAfterEmptyRecord = [] := by
    simp only [createInput, parseFile_eq]; decide
  refine ⟨by decide, h, by decide, ?_⟩
  simp only [NoRecordDropped, h]; decide

set_option maxRecDepth 8192 in
/-- Negation witness 2: a leading blank line makes the whole file disappear. -/
theorem no_record_dropped_false_leading_blank :
    wellFormedText dropAfterLeadingBlank = true ∧ createInput dropAfterLeadingBlank = [] ∧
    ((specRecords dropAfterLeadingBlank).filter hasBase).map (fun p => headerId p.1) = [[97]] ∧
    ¬ NoRecordDropped dropAfterLeadingBlank := by
  have h : createInput dropAfterLeadingBlank = [] := by
    simp only [createInput, parseFile_eq]; decide
  refine ⟨by decide, h, by decide, ?_⟩
  simp only [NoRecordDropped, h]; decide

end Ragc.Props.C16
