import RagcModel.Model.Fasta
import RagcModel.Lemmas.Fasta
import RagcModel.Model.EndToEnd
import RagcModel.Lemmas.EndToEnd
import RagcModel.Props.C01
import RagcModel.Props.C17
/-!
# C16 — every successfully created archive is fully extractable (any FASTA text)

Model: `RagcModel/Model/Fasta.lean` (genome_io.rs `read_contig_raw` / `read_contig_impl` /
`GenomeWriter`, contig_iterator.rs sample naming, decompressor.rs output letters, main.rs skip of
empty sequences), with the letter table `Ragc.Gen.cnvNum` regenerated from genome_io.rs on every
run. The FASTA side of the property is decided here; that the archive stores and returns the codes
it is given is C01/C09 (the LZ literal for code 30 is D2, outside this file).

Result (model of the reader after the D9 repair — blank lines in front of a header are skipped, a
header without sequence is an empty contig, a record without a name is an error): the letter
mapping and the normalisation are as documented (with one precisely stated exception: the 11
non-letter bytes above `@`), every presentation of well-formed records parses to the same thing
(`parse_render`), and no record with a base is dropped (`no_record_dropped`, full statement).

Last section — the composition with C01 (`read_write`: decode ∘ write = id for ALL decisions) and C17
(`getset_concat`): `Model/EndToEnd.lean` composes the layer models into `createModel` (text in,
archive bytes out) and `extractModel` (archive bytes in, text out), and `create_extract_text` is the
property's sentence as ONE theorem over text; `create_extract_presentation` (C19 through the
archive) and `getset_of_create` (C17 on the decoded archive) are corollaries. What is still outside
is listed in the comment block at the end of the file.
-/
namespace Ragc.Props.C16
open Ragc.Fasta

/-! ## the letter table -/

set_option maxRecDepth 8192 in
/-- The generated 128-entry table, completely: it has 128 entries and bytes `≤ 64` are dropped
before it is consulted (`keepAbove`); every ASCII letter maps to a code in `0..15` or to `30`,
upper and lower case agree; the code is `< 16` exactly for the 16 IUPAC letters, which map to
`0..15` bijectively (the `i`-th letter of `ACGTNRYSWKMBDHVU` has code `i`); the 11 non-letters
above `@` are **not** dropped: the back quote maps to 32, the ten others (`[ \ ] ^ _ { | } ~` DEL) to 30. -/
theorem letter_codes :
    Ragc.Gen.cnvNum.length = 128 ∧ Ragc.Gen.keepAbove = 64 ∧
    (∀ b, b < 128 → isLetter b = true →
      (cnv b < 16 ∨ cnv b = 30) ∧ cnv (toUpper b) = cnv b ∧ cnv (toLower b) = cnv b ∧
      (cnv b < 16 ↔ iupac.contains (toUpper b) = true)) ∧
    iupac.map cnv = List.range 16 ∧
    (∀ b, b < 128 → isHighPunct b = true → cnv b = if b = 96 then 32 else 30) ∧
    (∀ b, b < 128 → (64 < b ↔ (isLetter b = true ∨ isHighPunct b = true))) := by
  decide +kernel

example : cnv 71 = 2 ∧ cnv 103 = 2 ∧ cnv 88 = 30 ∧ cnv 95 = 30 ∧ cnv 96 = 32 := by decide

set_option maxRecDepth 8192 in
/-- Reading back: the output letter of a letter's code is the letter in upper case if it is one
of the 16 IUPAC letters and `N` otherwise; every code `≥ 16` (30, 32, anything) reads back as `N`. -/
theorem out_letter_code :
    (∀ b, b < 128 → isLetter b = true →
      outLetter (cnv b) = if iupac.contains (toUpper b) then toUpper b else 78) ∧
    (∀ c, 16 ≤ c → outLetter c = 78) := by
  constructor
  · decide +kernel
  · intro c hc
    simp only [outLetter]
    have : ¬ c < 16 := by omega
    simp [this]

example : outLetter (cnv 114) = 82 ∧ outLetter (cnv 120) = 78 ∧ outLetter 30 = 78 := by decide

/-- Conversion followed by read-back is the documented normalisation (non-letters dropped, upper
case, letters outside the IUPAC set → `N`) of every sequence text that does not contain one of the
11 non-letter bytes above `@`. -/
theorem convert_normalise (raw : Bytes) (h : ∀ b ∈ raw, isHighPunct b = false) :
    (convert raw).map outLetter = normalise raw := by
  rw [convert_map_outLetter, normaliseCode_eq_normalise h]

example : (∀ b ∈ [97, 67, 45, 10, 120, 13, 78, 49], isHighPunct b = false) ∧
    normalise [97, 67, 45, 10, 120, 13, 78, 49] = [65, 67, 78, 78] := by decide

/-- … and for ALL byte strings it is `normaliseCode`: as documented, except that those 11 bytes
are kept and read back as `N`. -/
theorem convert_normalise_general (raw : Bytes) :
    (convert raw).map outLetter = normaliseCode raw :=
  convert_map_outLetter raw

set_option maxRecDepth 8192 in
/-- The exception is real: `A[C` reads back as `ANC`, the documented normalisation is `AC`. -/
theorem convert_normalise_high_punct_witness :
    (convert [65, 91, 67]).map outLetter = [65, 78, 67] ∧ normalise [65, 91, 67] = [65, 67] := by
  decide

/-! ## presentations (shared with C19) -/

/-- Every presentation of records parses to the same thing: for every line width `≥ 1` per
record, LF or CRLF per record, any case pattern, with or without final newline. Records: header
without `\n` whose id is not empty, at least one base, all letters. -/
theorem parse_render (fin : Bool) (recs : List (Rec × RecStyle)) (h : ValidPres recs) :
    parseFile (render fin recs) = some (canon (recs.map (·.1))) :=
  parseFile_render fin recs h

example : ValidPres [(⟨[99, 49, 32, 120], [65, 99, 71, 116, 120]⟩, ⟨2, true, [true, false]⟩),
      (⟨[99, 50], [78]⟩, ⟨1, false, []⟩)] ∧
    canon [⟨[99, 49, 32, 120], [65, 99, 71, 116, 120]⟩, ⟨[99, 50], [78]⟩]
      = [([99, 49, 32, 120], [0, 1, 2, 3, 30]), ([99, 50], [4])] := by decide

/-! ## what extraction writes can be read again -/

/-- The FASTA text `getset` writes for a sample (`write_sample_fasta`: `>name`, 80 columns, LF, upper
case, code `< 16` → its letter, anything else → `N`) parses back to the same names and the same
codes (a code `≥ 16` comes back as 4 = `N`): re-creating from an extraction loses nothing. -/
theorem write_read_roundtrip (contigs : List (Bytes × Bytes)) (h : ∀ c ∈ contigs, ValidContig c) :
    parseFile (writeFasta contigs) = some (contigs.map (fun c => (c.1, c.2.map reread))) := by
  rw [writeFasta_eq_render, parseFile_render true _ (validPres_of_contigs contigs h),
    canon_of_contigs contigs h]

set_option maxRecDepth 8192 in
example : (∀ c ∈ [([99, 49], [0, 1, 2, 3, 15, 30]), ([99, 32, 50], [4])], ValidContig c) ∧
    [([99, 49], [0, 1, 2, 3, 15, 30]), ([99, 32, 50], [4])].map (fun c => (c.1, c.2.map reread))
      = [([99, 49], [0, 1, 2, 3, 15, 4]), ([99, 32, 50], [4])] := by decide

/-! ## no record is dropped -/

/-- The reader loop, exactly: leading blank lines are skipped; then every record of the text is
returned, in order, with its id and its codes (also records without any line: empty codes, which
main.rs skips) — unless some record has no name, in which case reading fails (`create` exits
with an error). -/
theorem reader_complete (t : Bytes) : parseFile t = readRecords (specRecords t) :=
  parseFile_eq t

/-- For well-formed FASTA text (after leading blank lines the first line is a header line, every
header has a name) reading succeeds and what `create` pushes is exactly, in order, every record
that has a base: nothing is left out. -/
theorem no_record_dropped (t : Bytes) (hwf : wellFormedText t = true) : NoRecordDropped t := by
  apply noRecordDropped_of_good
  simp only [wellFormedText, Bool.and_eq_true] at hwf
  simpa [good] using hwf.2

/-- `\n \n>a\nAC\n\n>e\n>b\n \n>c\ngt`: leading blank lines, blank line inside, a record without any
line, a record with only a blank line, no final newline. -/
def exText : Bytes :=
  [10, 32, 10, 62, 97, 10, 65, 67, 10, 10, 62, 101, 10, 62, 98, 10, 32, 10, 62, 99, 10, 103, 116]

set_option maxRecDepth 8192 in
example : wellFormedText exText = true ∧
    (specRecords exText).map (fun p => headerId p.1) = [[97], [101], [98], [99]] ∧
    ((specRecords exText).filter hasBase).map (fun p => headerId p.1) = [[97], [99]] := by decide

/-- `>a\n>b\nAC\n`: a record without sequence before a record with bases (dropped `b` before
the repair). -/
def afterEmptyRecord : Bytes := [62, 97, 10, 62, 98, 10, 65, 67, 10]
/-- `\n>a\nAC\n`: a leading blank line (dropped everything before the repair). -/
def afterLeadingBlank : Bytes := [10, 62, 97, 10, 65, 67, 10]

set_option maxRecDepth 8192 in
/-- The two former defect witnesses now give `create` their records. -/
theorem former_witnesses_kept :
    createInput afterEmptyRecord = some [([98], [0, 1])] ∧
    createInput afterLeadingBlank = some [([97], [0, 1])] := by
  simp only [createInput, parseFile_eq]; decide

/-- A record without a name makes reading fail (`create` exits with an error) — it is not taken
for the end of the input. -/
theorem empty_name_is_error (t : Bytes) (h : (specRecords t).any (fun p => headerId p.1 = []) = true) :
    parseFile t = none := by
  rw [parseFile_eq, readRecords]
  have : (specRecords t).all good = false := by
    simp only [List.any_eq_true, decide_eq_true_eq] at h
    obtain ⟨p, hp, he⟩ := h
    cases hall : (specRecords t).all good with
    | false => rfl
    | true =>
      have := List.all_eq_true.mp hall p hp
      simp [good, he] at this
  simp [this]

set_option maxRecDepth 8192 in
/-- `>  \nAC\n>b\nAC\n` -/
example : parseFile [62, 32, 32, 10, 65, 67, 10, 62, 98, 10, 65, 67, 10] = none := by
  apply empty_name_is_error; decide

/-! ## create then extract, over TEXT (composition of C16 + C01 + C17)

`Model/EndToEnd.lean`: `createModel cfg files dec zc` = parse every input file (`parseFile`), name
samples as `MultiFileIterator` does, skip records without a base, register in first-seen order,
`Writer.writeArchive` with the compressor's choices `dec` as data; `extractModel bs zd s` = the
independent decoder, look `s` up, `outLetter`, `GenomeWriter` layout.

Vocabulary (all in `Lemmas/EndToEnd.lean`, all computable):
* `textRecords files` — the records of the input TEXT that have a base, in command-line / file
  order, as `(sample, name, raw sequence lines)`: over `specRecords` (leading blank lines do not
  count, a record is a header line and every line up to the next one), `name = headerId` of the
  header line, `sample` = the PanSN part of the name if it has ≥ 3 `#`-fields, else the file stem;
* `recordsOfSample norm recs s` — the `(name, norm sequence)` of the records of sample `s`, in order;
* `fastaText` — `>name`, 80 columns, LF;
* `inputOf files` — the compressor's input as a function of the text (`DecisionsOK` speaks about it);
* `admissible files` — `createSamples` accepts: at least one file, every path names a file and
  every record has a name (`readable`), not (one file with a sample name coming back after another
  sample), no empty sample name, no two records with a base under the same (sample, name).
-/

section EndToEnd
open Ragc.EndToEnd

/-- **When `createModel` answers**, exactly: the inputs are `admissible` and the reference writer
answers on `inputOf files`. Every other case is `none` — `createOutcome` says which: an error exit
(`noInputs`, `emptyName`, `unsortedSingleFile`) or outside the composed model (`badPath`,
`emptySampleName`, `writer`; `duplicateContig` is an error exit since repair D13). -/
theorem create_answers_iff (cfg : Ragc.Writer.Cfg) (files : List InFile) (dec : Ragc.Writer.Decisions)
    (zc : Nat → List Nat → List Nat) (bs : List Nat) :
    createModel cfg files dec zc = some bs ↔
      admissible files ∧ Ragc.Writer.writeArchive cfg (inputOf files) dec zc = some bs :=
  createModel_some_iff cfg files dec zc bs

/-- Two input files: `A.fa` = `>c\nacgtAC\nGTAC\n>e\n>d\nG-N\r\nc\n` (lower case, two lines, a record
without sequence, a gap, a CRLF) and `x.fa` = `>B#1#c\nACGGACGTAC` (PanSN header, no final newline). -/
def exFiles : List InFile :=
  [([65, 46, 102, 97],
    [62, 99, 10, 97, 99, 103, 116, 65, 67, 10, 71, 84, 65, 67, 10, 62, 101, 10, 62, 100, 10,
     71, 45, 78, 13, 10, 99, 10]),
   ([120, 46, 102, 97], [62, 66, 35, 49, 35, 99, 10, 65, 67, 71, 71, 65, 67, 71, 84, 65, 67])]

/-- `k = 3`, `min_match_len = 10`, segment size 10, level 17 (the configuration of C01's example) -/
def exCfg : Ragc.Writer.Cfg := ⟨3, 10, 10, 17⟩

/-- the input the compressor gets from `exFiles`: sample `A` (file stem) with `c`, `d`; sample
`B#1` (PanSN) with `B#1#c` -/
def exInp : List Ragc.Writer.Sample :=
  [⟨[65], [⟨[99], [0, 1, 2, 3, 0, 1, 2, 3, 0, 1]⟩, ⟨[100], [2, 4, 1]⟩]⟩,
   ⟨[66, 35, 49], [⟨[66, 35, 49, 35, 99], [0, 1, 2, 2, 0, 1, 2, 3, 0, 1]⟩]⟩]

/-- decisions: `c` of `A` in two 3-overlapping pieces, LZ group 16 holds its first piece (reference)
and the first piece of `B#1#c` (a real delta), raw group 0 the other three pieces, one stored
reverse-complemented -/
def exDec : Ragc.Writer.Decisions :=
  ⟨[[[⟨6, 16, 0, false⟩, ⟨7, 0, 0, true⟩], [⟨3, 0, 1, false⟩]], [[⟨6, 16, 1, false⟩, ⟨7, 0, 2, false⟩]]],
   [⟨16, false, [(0, 0, 0), (1, 0, 0)]⟩, ⟨0, false, [(0, 0, 1), (0, 1, 0), (1, 0, 1)]⟩]⟩

def zcToy : Nat → List Nat → List Nat := fun l x => l :: x
def zdToy : List Nat → Option (List Nat) := fun c => some c.tail

set_option maxRecDepth 100000 in
-- `decide +kernel` (here and in the examples below) only evaluates closed terms of the executable
-- models; it is not a step of any theorem.
example : ∃ bs, createModel exCfg exFiles exDec zcToy = some bs := by
  have h1 : admissible exFiles := by decide +kernel
  have h2 : inputOf exFiles = exInp := by decide +kernel
  have h6 : (Ragc.Writer.writeArchive exCfg exInp exDec zcToy).isSome = true := by decide +kernel
  obtain ⟨bs, hbs⟩ := Option.isSome_iff_exists.mp h6
  exact ⟨bs, (create_answers_iff _ _ _ _ _).mpr ⟨h1, by rw [h2]; exact hbs⟩⟩

/-- **The error side.** A record without a name in any input file: there is no archive
(`create` exits with an error; if an earlier path is outside the model the outcome is `outside`) —
and, for texts that are well formed in the sense of `no_record_dropped` (`wellFormedText`: after
leading blank lines the first line is a header line, every header has a name), reading never is
the reason why `create` fails. -/
theorem create_error_side (cfg : Ragc.Writer.Cfg) (files : List InFile) (dec : Ragc.Writer.Decisions)
    (zc : Nat → List Nat → List Nat) :
    ((∃ f ∈ files, (specRecords f.2).any (fun p => headerId p.1 = []) = true) →
      createModel cfg files dec zc = none) ∧
    ((∀ f ∈ files, wellFormedText f.2 = true) →
      createOutcome cfg files dec zc ≠ .error (.error .emptyName)) := by
  constructor
  · rintro ⟨f, hf, hany⟩
    cases hc : createModel cfg files dec zc with
    | none => rfl
    | some bs =>
      exfalso
      have hr := ((create_answers_iff cfg files dec zc bs).mp hc).1.2.1 f hf
      simp only [readable, Bool.and_eq_true] at hr
      obtain ⟨p, hp, he⟩ := List.any_eq_true.mp hany
      have := List.all_eq_true.mp hr.2 p hp
      simp only [good, decide_eq_true_eq] at this he
      exact this he
  · intro hwf h
    obtain ⟨f, hf, hb⟩ := createOutcome_emptyName cfg files dec zc h
    rw [good_of_wellFormed f.2 (hwf f hf)] at hb
    cases hb

set_option maxRecDepth 8192 in
/-- `A.fa` = `>  \nAC\n`: no archive. -/
example : createModel exCfg [([65, 46, 102, 97], [62, 32, 32, 10, 65, 67, 10])] exDec zcToy = none :=
  (create_error_side _ _ _ _).1 ⟨_, List.mem_singleton.mpr rfl, by decide⟩

/-- **create then extract, general form**: for ALL byte strings as input texts (no
well-formedness asked: `createModel = some` already says every record has a name). As
`create_extract_text` below, with `normaliseCode` in place of `normalise`: the documented
normalisation except that the 11 non-letter bytes above `@` are kept and read back as `N`
(`convert_normalise_general`). -/
theorem create_extract_text_general (cfg : Ragc.Writer.Cfg) (files : List InFile)
    (dec : Ragc.Writer.Decisions) (zc : Nat → List Nat → List Nat) (zd : List Nat → Option (List Nat))
    (bs : List Nat) (hdec : Ragc.Writer.DecisionsOK cfg (inputOf files) dec)
    (hz : ∀ l x, zd (zc l x) = some x) (hne : ∀ l x, zc l x = [] → x = [])
    (hc : createModel cfg files dec zc = some bs) :
    listModel bs zd = some (Ragc.Details.firstSeen ((textRecords files).map (·.1))) ∧
    (∀ s, extractModel bs zd s =
      if s ∈ (textRecords files).map (·.1) then
        some (fastaText (recordsOfSample normaliseCode (textRecords files) s))
      else none) ∧
    ∃ d, Ragc.Agc3.decodeArchive bs zd = .ok d ∧ d.violations = [] ∧
      (∀ f ∈ files, ∀ p ∈ specRecords f.2, hasBase p = true →
        ∃ smp ∈ d.samples, smp.name = sampleOf (fileSample f.1) (headerId p.1) ∧
          ∃ c ∈ smp.contigs, c.name = headerId p.1 ∧ c.bases.map outLetter = normaliseCode p.2) := by
  obtain ⟨d, h1, h2, h3, h4, h5⟩ := create_extract_general cfg files dec zc zd bs hdec hz hne hc
  refine ⟨h4, h5, d, h1, h2, ?_⟩
  intro f hf p hp hb
  exact record_in_view normaliseCode (textRecords files) d.samples h3 _
    ((mem_textRecords files _).mpr ⟨f, hf, p, hp, hb, rfl⟩)

set_option maxRecDepth 100000 in
example : Ragc.Writer.DecisionsOK exCfg (inputOf exFiles) exDec ∧
    (∀ l x, zdToy (zcToy l x) = some x) ∧ (∀ l x, zcToy l x = [] → x = []) :=
  ⟨by decide +kernel, fun _ _ => rfl, fun _ _ h => by simp [zcToy] at h⟩

/-- **C16 ∘ C01 over text: create then extract.** For every list of `(path, text)` inputs whose
texts are well formed (`wellFormedText`, the predicate of `no_record_dropped`: after leading blank
lines the first line is a header line, and every header has a non-empty name) and whose sequence
lines are free of the 11 non-letter bytes above `@` (`SeqClean`; C16 quantifies over letters,
digits and gaps), every configuration and ALL decisions of the compressor that are well formed for
the input (`DecisionsOK`: `k ≥ 1`, `u32` parameters, names over the bytes 1..127, any tiling of each
contig, any group / orientation / arrival order / group creation order / tuple flags), any ZSTD
pair with the two C12 facts:

* reading is never why `create` fails (the repaired reader errs only on a record without a name,
  `create_error_side`); and whenever `createModel` answers with archive bytes `bs`,
* `listset` is the list of sample names of the text's records in first-seen order,
* for EVERY sample `s` of that list `extractModel bs zd s` is exactly the `GenomeWriter` text of
  the records of `s`, in input order, each with its name and its sequence under the documented
  normalisation (`normalise`: non-letters dropped, upper case, letters outside the IUPAC set → `N`);
  any other name is not found,
* the archive decodes with NO breached format rule, and every record of every input file that has
  at least one base is a contig of its sample with exactly its normalised sequence: none is left out.

`wellFormedText` is used for the first item only: `createModel = some` by itself implies that
every record has a name (`create_extract_text_general` is the statement without it). -/
theorem create_extract_text (cfg : Ragc.Writer.Cfg) (files : List InFile)
    (dec : Ragc.Writer.Decisions) (zc : Nat → List Nat → List Nat) (zd : List Nat → Option (List Nat))
    (hwf : ∀ f ∈ files, wellFormedText f.2 = true) (hclean : SeqClean files)
    (hdec : Ragc.Writer.DecisionsOK cfg (inputOf files) dec)
    (hz : ∀ l x, zd (zc l x) = some x) (hne : ∀ l x, zc l x = [] → x = []) :
    createOutcome cfg files dec zc ≠ .error (.error .emptyName) ∧
    ∀ bs, createModel cfg files dec zc = some bs →
      listModel bs zd = some (Ragc.Details.firstSeen ((textRecords files).map (·.1))) ∧
      (∀ s ∈ Ragc.Details.firstSeen ((textRecords files).map (·.1)),
        extractModel bs zd s = some (fastaText (recordsOfSample normalise (textRecords files) s))) ∧
      (∀ s, s ∉ Ragc.Details.firstSeen ((textRecords files).map (·.1)) → extractModel bs zd s = none) ∧
      ∃ d, Ragc.Agc3.decodeArchive bs zd = .ok d ∧ d.violations = [] ∧
        (∀ f ∈ files, ∀ p ∈ specRecords f.2, hasBase p = true →
          ∃ smp ∈ d.samples, smp.name = sampleOf (fileSample f.1) (headerId p.1) ∧
            ∃ c ∈ smp.contigs, c.name = headerId p.1 ∧ c.bases.map outLetter = normalise p.2) := by
  refine ⟨(create_error_side cfg files dec zc).2 hwf, ?_⟩
  intro bs hc
  obtain ⟨h1, h2, d, h3, h4, h5⟩ := create_extract_text_general cfg files dec zc zd bs hdec hz hne hc
  refine ⟨h1, ?_, ?_, d, h3, h4, ?_⟩
  · intro s hs
    have hm := (mem_firstSeen _ s).mp hs
    rw [h2 s, if_pos hm, recordsOfSample_clean files hclean]
  · intro s hs
    have hm : ¬ s ∈ (textRecords files).map (·.1) := fun e => hs ((mem_firstSeen _ s).mpr e)
    rw [h2 s, if_neg hm]
  · intro f hf p hp hb
    obtain ⟨smp, a1, a2, c, a3, a4, a5⟩ := h5 f hf p hp hb
    exact ⟨smp, a1, a2, c, a3, a4, by rw [a5]; exact normaliseCode_eq_normalise (hclean f hf p hp)⟩

set_option maxRecDepth 100000 in
/-- Non-vacuity, evaluated on `exFiles` (toy ZSTD `zc l x = l :: x`): `create` answers; `listset`
is `A`, `B#1`; `getset A` prints `>c\nACGTACGTAC\n>d\nGNC\n` (the record `e` without sequence is
skipped, the gap and the line ends are dropped, lower case is raised), `getset B#1` prints
`>B#1#c\nACGGACGTAC\n`. -/
example : ∃ bs, createModel exCfg exFiles exDec zcToy = some bs ∧
    listModel bs zdToy = some [[65], [66, 35, 49]] ∧
    extractModel bs zdToy [65] = some [62, 99, 10, 65, 67, 71, 84, 65, 67, 71, 84, 65, 67, 10,
      62, 100, 10, 71, 78, 67, 10] ∧
    extractModel bs zdToy [66, 35, 49] = some [62, 66, 35, 49, 35, 99, 10,
      65, 67, 71, 71, 65, 67, 71, 84, 65, 67, 10] ∧
    extractModel bs zdToy [66] = none := by
  have h1 : admissible exFiles := by decide +kernel
  have h2 : inputOf exFiles = exInp := by decide +kernel
  have h3 : ∀ f ∈ exFiles, wellFormedText f.2 = true := by decide +kernel
  have h4 : SeqClean exFiles := by unfold SeqClean; decide +kernel
  have h5 : Ragc.Writer.DecisionsOK exCfg exInp exDec := by decide +kernel
  have h6 : (Ragc.Writer.writeArchive exCfg exInp exDec zcToy).isSome = true := by decide +kernel
  have h7 : textRecords exFiles =
      [([65], [99], [97, 99, 103, 116, 65, 67, 10, 71, 84, 65, 67, 10]),
       ([65], [100], [71, 45, 78, 13, 10, 99, 10]),
       ([66, 35, 49], [66, 35, 49, 35, 99], [65, 67, 71, 71, 65, 67, 71, 84, 65, 67])] := by
    decide +kernel
  obtain ⟨bs, hbs⟩ := Option.isSome_iff_exists.mp h6
  have hc : createModel exCfg exFiles exDec zcToy = some bs :=
    (create_answers_iff _ _ _ _ _).mpr ⟨h1, by rw [h2]; exact hbs⟩
  obtain ⟨_, hall⟩ := create_extract_text exCfg exFiles exDec zcToy zdToy h3 h4 (by rw [h2]; exact h5)
    (fun _ _ => rfl) (fun _ _ h => by simp [zcToy] at h)
  obtain ⟨a1, a2, a3, _⟩ := hall bs hc
  rw [h7] at a1 a2 a3
  refine ⟨bs, hc, by rw [a1]; decide +kernel, ?_, ?_, ?_⟩
  · rw [a2 [65] (by decide +kernel)]; decide +kernel
  · rw [a2 [66, 35, 49] (by decide +kernel)]; decide +kernel
  · exact a3 [66] (by decide +kernel)

/-- **Extraction does not depend on the presentation** (C19 through the archive). Two lists of
input files with the same paths presenting the same records — each record in ANY line width `≥ 1`,
LF or CRLF, any case pattern, each file with or without final newline (`ValidPres`: header without
`\n` and with a name, at least one base, all letters):

* `create` gets the same input from both: with the same configuration and decisions `createModel`
  returns the same bytes or fails on both;
* and whatever the configurations, decisions and ZSTDs of the two runs are (different `k`, other
  groupings, another schedule), `listset` and `getset` of every name give the same answer. -/
theorem create_extract_presentation (P Q : List (Bytes × Bool × List (Rec × RecStyle)))
    (hP : ∀ f ∈ P, ValidPres f.2.2) (hQ : ∀ f ∈ Q, ValidPres f.2.2)
    (hsame : P.map (fun f => (f.1, f.2.2.map (·.1))) = Q.map (fun f => (f.1, f.2.2.map (·.1)))) :
    (∀ cfg dec zc, createModel cfg (filesOf P) dec zc = createModel cfg (filesOf Q) dec zc) ∧
    ∀ (cfg₁ cfg₂ : Ragc.Writer.Cfg) (dec₁ dec₂ : Ragc.Writer.Decisions)
      (zc₁ zc₂ : Nat → List Nat → List Nat) (zd₁ zd₂ : List Nat → Option (List Nat)) (bs₁ bs₂ : List Nat),
      Ragc.Writer.DecisionsOK cfg₁ (inputOf (filesOf P)) dec₁ →
      Ragc.Writer.DecisionsOK cfg₂ (inputOf (filesOf Q)) dec₂ →
      (∀ l x, zd₁ (zc₁ l x) = some x) → (∀ l x, zc₁ l x = [] → x = []) →
      (∀ l x, zd₂ (zc₂ l x) = some x) → (∀ l x, zc₂ l x = [] → x = []) →
      createModel cfg₁ (filesOf P) dec₁ zc₁ = some bs₁ →
      createModel cfg₂ (filesOf Q) dec₂ zc₂ = some bs₂ →
      listModel bs₁ zd₁ = listModel bs₂ zd₂ ∧ ∀ s, extractModel bs₁ zd₁ s = extractModel bs₂ zd₂ s := by
  have hcs := createSamples_filesOf P Q hP hQ hsame
  constructor
  · intro cfg dec zc
    simp only [createModel, createOutcome, hcs]
  · intro cfg₁ cfg₂ dec₁ dec₂ zc₁ zc₂ zd₁ zd₂ bs₁ bs₂ hd1 hd2 hz1 hn1 hz2 hn2 hc1 hc2
    obtain ⟨ha1, hw1⟩ := (create_answers_iff _ _ _ _ _).mp hc1
    obtain ⟨ha2, hw2⟩ := (create_answers_iff _ _ _ _ _).mp hc2
    have hinp : inputOf (filesOf P) = inputOf (filesOf Q) := by
      have e1 := (createSamples_ok_iff (filesOf P) _).mpr ⟨ha1, rfl⟩
      have e2 := (createSamples_ok_iff (filesOf Q) _).mpr ⟨ha2, rfl⟩
      rw [hcs, e2] at e1
      injection e1 with e1
      exact e1.symm
    obtain ⟨_, _, _, _, l1, x1⟩ := extract_of_samples cfg₁ _ dec₁ zc₁ zd₁ bs₁ hd1 hz1 hn1
      (codesOK_inputOf _) hw1
    obtain ⟨_, _, _, _, l2, x2⟩ := extract_of_samples cfg₂ _ dec₂ zc₂ zd₂ bs₂ hd2 hz2 hn2
      (codesOK_inputOf _) hw2
    refine ⟨by rw [l1, l2, hinp], fun s => by rw [x1 s, x2 s, hinp]⟩

/-- the records of `exFiles` with a base, as `A.fa` / `x.fa` present them … -/
def exP : List (Bytes × Bool × List (Rec × RecStyle)) :=
  [([65, 46, 102, 97], true,
    [(⟨[99], [65, 67, 71, 84, 65, 67, 71, 84, 65, 67]⟩, ⟨6, false, [true, true, true, true]⟩),
     (⟨[100], [71, 78, 67]⟩, ⟨2, true, [false, false, true]⟩)]),
   ([120, 46, 102, 97], false, [(⟨[66, 35, 49, 35, 99], [65, 67, 71, 71, 65, 67, 71, 84, 65, 67]⟩, ⟨80, false, []⟩)])]

/-- … and the same records in one column, CRLF, lower case, no final newline / 3 columns -/
def exQ : List (Bytes × Bool × List (Rec × RecStyle)) :=
  [([65, 46, 102, 97], false,
    [(⟨[99], [65, 67, 71, 84, 65, 67, 71, 84, 65, 67]⟩, ⟨1, true, List.replicate 10 true⟩),
     (⟨[100], [71, 78, 67]⟩, ⟨80, false, []⟩)]),
   ([120, 46, 102, 97], true, [(⟨[66, 35, 49, 35, 99], [65, 67, 71, 71, 65, 67, 71, 84, 65, 67]⟩, ⟨3, true, [true]⟩)])]

set_option maxRecDepth 100000 in
example : (∀ f ∈ exP, ValidPres f.2.2) ∧ (∀ f ∈ exQ, ValidPres f.2.2) ∧
    exP.map (fun f => (f.1, f.2.2.map (·.1))) = exQ.map (fun f => (f.1, f.2.2.map (·.1))) ∧
    filesOf exP ≠ filesOf exQ ∧ inputOf (filesOf exP) = exInp ∧ admissible (filesOf exP) := by
  refine ⟨by decide +kernel, by decide +kernel, by decide +kernel, by decide +kernel,
    by decide +kernel, by decide +kernel⟩

/-- **`getset` on the created archive** (C17 on top): run the CLI model's `getset` on the decoded
archive (`cliArchive`) with ANY non-empty list of names of samples of the input (repeats allowed,
any order): it exits 0 and prints — on stdout after what was there, or as the complete content of
the `-o` file — the concatenation, in request order, of each sample's records in the documented
normalisation; no temp file is left. Hypotheses as in `create_extract_text`. -/
theorem getset_of_create (cfg : Ragc.Writer.Cfg) (files : List InFile)
    (dec : Ragc.Writer.Decisions) (zc : Nat → List Nat → List Nat) (zd : List Nat → Option (List Nat))
    (bs : List Nat) (hclean : SeqClean files)
    (hdec : Ragc.Writer.DecisionsOK cfg (inputOf files) dec)
    (hz : ∀ l x, zd (zc l x) = some x) (hne : ∀ l x, zc l x = [] → x = [])
    (hc : createModel cfg files dec zc = some bs)
    (ns : List Bytes) (hns : ns ≠ []) (hk : ∀ n ∈ ns, n ∈ (textRecords files).map (·.1))
    (oc : Bool) (fs : Ragc.Cli.Fs) :
    ∃ d, Ragc.Agc3.decodeArchive bs zd = .ok d ∧
      Ragc.Cli.getset ⟨some (cliArchive d), oc, true⟩ ⟨ns, none⟩ .stdout fs =
        (.ok, { fs with
          stdout := fs.stdout ++
            (ns.map (fun n => fastaText (recordsOfSample normalise (textRecords files) n))).flatten,
          temp := none }) ∧
      Ragc.Cli.getset ⟨some (cliArchive d), true, true⟩ ⟨ns, none⟩ .file fs =
        (.ok, { fs with
          out := some (ns.map (fun n => fastaText (recordsOfSample normalise (textRecords files) n))).flatten,
          temp := none }) := by
  obtain ⟨_, h2, d, h3, _, _⟩ := create_extract_text_general cfg files dec zc zd bs hdec hz hne hc
  have hx : ∀ n ∈ ns, extractModel bs zd n =
      some (fastaText (recordsOfSample normalise (textRecords files) n)) := by
    intro n hn
    rw [h2 n, if_pos (hk n hn), recordsOfSample_clean files hclean]
  have hknown : ∀ n ∈ ns, (cliArchive d).known n = true := by
    intro n hn
    rw [(cli_fasta_known bs zd d h3 n).2, hx n hn]; rfl
  have hf : ns.map (cliArchive d).fasta =
      ns.map (fun n => fastaText (recordsOfSample normalise (textRecords files) n)) := by
    apply List.map_congr_left
    intro n hn
    rw [(cli_fasta_known bs zd d h3 n).1, hx n hn]; rfl
  obtain ⟨g1, g2⟩ := Ragc.Props.C17.getset_concat (cliArchive d) oc ns fs hns hknown
  rw [hf] at g1 g2
  exact ⟨d, h3, g1, g2⟩

set_option maxRecDepth 100000 in
/-- Non-vacuity: `getset B#1 A B#1` on the archive of `exFiles`. -/
example : ∃ bs d, createModel exCfg exFiles exDec zcToy = some bs ∧
    Ragc.Agc3.decodeArchive bs zdToy = .ok d ∧
    (Ragc.Cli.getset ⟨some (cliArchive d), false, true⟩ ⟨[[66, 35, 49], [65], [66, 35, 49]], none⟩ .stdout
        ⟨none, none, []⟩).2.stdout =
      [62, 66, 35, 49, 35, 99, 10, 65, 67, 71, 71, 65, 67, 71, 84, 65, 67, 10] ++
      [62, 99, 10, 65, 67, 71, 84, 65, 67, 71, 84, 65, 67, 10, 62, 100, 10, 71, 78, 67, 10] ++
      [62, 66, 35, 49, 35, 99, 10, 65, 67, 71, 71, 65, 67, 71, 84, 65, 67, 10] := by
  have h1 : admissible exFiles := by decide +kernel
  have h2 : inputOf exFiles = exInp := by decide +kernel
  have h3 : ∀ f ∈ exFiles, wellFormedText f.2 = true := by decide +kernel
  have h4 : SeqClean exFiles := by unfold SeqClean; decide +kernel
  have h5 : Ragc.Writer.DecisionsOK exCfg exInp exDec := by decide +kernel
  have h6 : (Ragc.Writer.writeArchive exCfg exInp exDec zcToy).isSome = true := by decide +kernel
  have h7 : textRecords exFiles =
      [([65], [99], [97, 99, 103, 116, 65, 67, 10, 71, 84, 65, 67, 10]),
       ([65], [100], [71, 45, 78, 13, 10, 99, 10]),
       ([66, 35, 49], [66, 35, 49, 35, 99], [65, 67, 71, 71, 65, 67, 71, 84, 65, 67])] := by
    decide +kernel
  obtain ⟨bs, hbs⟩ := Option.isSome_iff_exists.mp h6
  have hc : createModel exCfg exFiles exDec zcToy = some bs :=
    (create_answers_iff _ _ _ _ _).mpr ⟨h1, by rw [h2]; exact hbs⟩
  obtain ⟨d, hd, g1, _⟩ := getset_of_create exCfg exFiles exDec zcToy zdToy bs h4 (by rw [h2]; exact h5)
    (fun _ _ => rfl) (fun _ _ h => by simp [zcToy] at h) hc [[66, 35, 49], [65], [66, 35, 49]]
    (by decide) (by rw [h7]; decide +kernel) false ⟨none, none, []⟩
  refine ⟨bs, d, hc, hd, ?_⟩
  rw [g1, h7]
  decide +kernel

/-- **One PanSN file versus one file per sample, through the archive** (C19 `pansn_vs_files` composed
with C01). When every header carries its sample (≥ 3 `#`-fields): the per-sample files — each in
its own style, under any file names — and a single file presenting the same records in the same
order in any style lead, whenever both `create` runs answer (the single-file run additionally
needs the samples to be contiguous), to archives with the same `listset` and the same `getset`
output for every name — whatever the two configurations, decisions and ZSTDs are. -/
theorem create_extract_pansn_vs_files (files : List (Bytes × Bool × List (Rec × RecStyle)))
    (single : Bytes) (fin : Bool) (all : List (Rec × RecStyle))
    (hfiles : ∀ f ∈ files, ValidPres f.2.2) (hall : ValidPres all)
    (hsame : all.map (·.1) = files.flatMap (fun f => f.2.2.map (·.1)))
    (hpansn : ∀ f ∈ files, ∀ p ∈ f.2.2, IsPansn p.1)
    (cfg₁ cfg₂ : Ragc.Writer.Cfg) (dec₁ dec₂ : Ragc.Writer.Decisions)
    (zc₁ zc₂ : Nat → List Nat → List Nat) (zd₁ zd₂ : List Nat → Option (List Nat)) (bs₁ bs₂ : List Nat)
    (hd1 : Ragc.Writer.DecisionsOK cfg₁ (inputOf (filesOf files)) dec₁)
    (hd2 : Ragc.Writer.DecisionsOK cfg₂ (inputOf (filesOf [(single, fin, all)])) dec₂)
    (hz1 : ∀ l x, zd₁ (zc₁ l x) = some x) (hn1 : ∀ l x, zc₁ l x = [] → x = [])
    (hz2 : ∀ l x, zd₂ (zc₂ l x) = some x) (hn2 : ∀ l x, zc₂ l x = [] → x = [])
    (hc1 : createModel cfg₁ (filesOf files) dec₁ zc₁ = some bs₁)
    (hc2 : createModel cfg₂ (filesOf [(single, fin, all)]) dec₂ zc₂ = some bs₂) :
    listModel bs₁ zd₁ = listModel bs₂ zd₂ ∧ ∀ s, extractModel bs₁ zd₁ s = extractModel bs₂ zd₂ s := by
  obtain ⟨ha1, hw1⟩ := (create_answers_iff _ _ _ _ _).mp hc1
  obtain ⟨ha2, hw2⟩ := (create_answers_iff _ _ _ _ _).mp hc2
  have hinp : inputOf (filesOf files) = inputOf (filesOf [(single, fin, all)]) := by
    rw [inputOf_filesOf files hfiles ha1.2.1,
      inputOf_filesOf [(single, fin, all)] (by simpa using hall) ha2.2.1]
    congr 1
    simp only [List.flatMap_cons, List.flatMap_nil, List.append_nil, hsame, streamOf_flatMap]
    apply flatMap_congr_left
    intro f hf
    apply streamOf_pansn
    intro r hr
    obtain ⟨p, hp, rfl⟩ := List.mem_map.mp hr
    exact hpansn f hf p hp
  obtain ⟨_, _, _, _, l1, x1⟩ := extract_of_samples cfg₁ _ dec₁ zc₁ zd₁ bs₁ hd1 hz1 hn1
    (codesOK_inputOf _) hw1
  obtain ⟨_, _, _, _, l2, x2⟩ := extract_of_samples cfg₂ _ dec₂ zc₂ zd₂ bs₂ hd2 hz2 hn2
    (codesOK_inputOf _) hw2
  exact ⟨by rw [l1, l2, hinp], fun s => by rw [x1 s, x2 s, hinp]⟩

/-- two files `s0` (records `A#1#c`, `A#1#d`) and `s1` (`B#1#c`), and the single file `all.fa` -/
def exPansnFiles : List (Bytes × Bool × List (Rec × RecStyle)) :=
  [([115, 48], true,
    [(⟨[65, 35, 49, 35, 99], [65, 67, 71, 84, 65, 67, 71, 84, 65, 67]⟩, ⟨60, false, []⟩),
     (⟨[65, 35, 49, 35, 100], [71, 78, 67]⟩, ⟨60, false, []⟩)]),
   ([115, 49], false, [(⟨[66, 35, 49, 35, 99], [65, 67, 71, 71, 65, 67, 71, 84, 65, 67]⟩, ⟨4, true, [true, true]⟩)])]

def exPansnAll : List (Rec × RecStyle) :=
  [(⟨[65, 35, 49, 35, 99], [65, 67, 71, 84, 65, 67, 71, 84, 65, 67]⟩, ⟨7, true, [true]⟩),
   (⟨[65, 35, 49, 35, 100], [71, 78, 67]⟩, ⟨1, false, []⟩),
   (⟨[66, 35, 49, 35, 99], [65, 67, 71, 71, 65, 67, 71, 84, 65, 67]⟩, ⟨80, false, []⟩)]

set_option maxRecDepth 100000 in
example : (∀ f ∈ exPansnFiles, ValidPres f.2.2) ∧ ValidPres exPansnAll ∧
    exPansnAll.map (·.1) = exPansnFiles.flatMap (fun f => f.2.2.map (·.1)) ∧
    (∀ f ∈ exPansnFiles, ∀ p ∈ f.2.2, IsPansn p.1) ∧
    admissible (filesOf exPansnFiles) ∧ admissible (filesOf [([97, 108, 108, 46, 102, 97], true, exPansnAll)]) ∧
    Ragc.Writer.DecisionsOK exCfg (inputOf (filesOf exPansnFiles)) exDec ∧
    (Ragc.Writer.writeArchive exCfg (inputOf (filesOf exPansnFiles)) exDec zcToy).isSome = true := by
  refine ⟨by decide +kernel, by decide +kernel, by decide +kernel, by decide +kernel,
    by decide +kernel, by decide +kernel, by decide +kernel, by decide +kernel⟩

/-- **The catalogue is the one `register_sample_contig` builds** (C03 `register_order`): for inputs
that `createSamples` admits, registering the pushed `(sample, contig name)` pairs with the model of
`CollectionV3::register_sample_contig` (`Details.registerAll`) succeeds and gives the sample list
and the per-sample contig lists of `inputOf files`, the input `createModel` hands to the writer. -/
theorem create_catalogue_is_registration (files : List InFile) (h : admissible files) :
    ∃ ss, Ragc.Details.registerAll [] ((textRecords files).map (fun r => (r.1, r.2.1))) = some ss ∧
      Ragc.Details.samplesList ss = (inputOf files).map (·.name) ∧
      ∀ s ∈ inputOf files, (Ragc.Details.contigList ss s.name).getD [] = s.contigs.map (·.name) := by
  have e : ((textRecords files).map code).map (fun r => (r.1, r.2.1))
      = (textRecords files).map (fun r => (r.1, r.2.1)) := by
    rw [List.map_map]; rfl
  have := registration_agrees ((textRecords files).map code)
    (by
      intro r hr
      obtain ⟨r0, hr0, rfl⟩ := List.mem_map.mp hr
      exact h.2.2.2.1 r0 hr0)
    (by rw [e]; exact h.2.2.2.2)
  rw [e] at this
  exact this

set_option maxRecDepth 100000 in
example : admissible exFiles ∧
    (inputOf exFiles).map (fun s => (s.name, s.contigs.map (·.name)))
      = [([65], [[99], [100]]), ([66, 35, 49], [[66, 35, 49, 35, 99]])] := by
  refine ⟨by decide +kernel, by decide +kernel⟩

end EndToEnd

/-!
## What the end-to-end section does NOT prove (and what covers it)

`create_extract_text` is a theorem about the COMPOSED MODELS; nothing is left open, no glue is
missing inside the models. What remains between it and the binary:

1. **Model ↔ code.** `createModel` is `Fasta.parseFile`/`fileStream` (correspondence: C16/C19
   harness) followed by `Writer.writeArchive` with the compressor's choices as DATA. That the real
   compressor is an instance — its decisions satisfy `DecisionsOK` and `writeArchive` with those
   decisions is the real file byte for byte — is checked per generated archive by the C02 harness,
   not proved. `extractModel` uses the INDEPENDENT decoder `Agc3.decodeArchive`; that ragc's own
   reader returns the same bases is the C02/C01 harness comparison (and C08 for the reader's state).
2. **Duplicate records** (`Failure.duplicateContig`): two records with a base under the same
   (sample, name). Found while composing this theorem (the composition had no place for them),
   replayed on the real code and confirmed as a genuine defect: `push` ignored the `Ok(false)` of
   `register_sample_contig`, the second contig was compressed as well and its segments were placed
   over those of the first under the one catalogue entry — `ragc create` exited 0 and
   `>a` came back as a 4685-base chimera of a 3000- and a 1700-base record. Repaired in /repo
   (3f11240: the second record is refused, create fails); the model now classes it as an error exit.
3. **Empty sample name** (`Outside.emptySampleName`: a file called `.fa`, `.fa.gz`, …):
   `register_sample_contig` substitutes the first word of the contig name; not composed.
4. **Names** are bytes 1..127 (inside `DecisionsOK`, from C03); invalid UTF-8 / non-ASCII white
   space around headers, gzip framing and paths without a normal last component are outside
   `Model/Fasta.lean` already.
5. **`writeArchive = none`** (`Outside.writer`): `min_match_len < 4`, sizes outside `u32`/`u64`,
   decisions that do not name the pieces.
6. **`getset --prefix`** on the created archive is not restated here; `Props.C17.getset_prefix`
   applies to `cliArchive d` in the same way `getset_concat` does in `getset_of_create` (sample
   names of `inputOf files` are pairwise different: `nodup_firstSeen`).
-/

end Ragc.Props.C16
