import RagcModel.Lemmas.QueueRefine
/-!
C06 — bounded priority queue: exactly-once, priority order, capacity bound, close.

All theorems are about `Model/Queue.lean` (the transition system of
ragc-core/src/memory_bounded_queue.rs at the granularity of the under-lock events of hook H2) and
quantify over **every** event sequence that the model accepts from the initial state with `n`
threads: `run cap (init n) evs = some s`. That is every interleaving of any number of threads
running arbitrary programs over push / try_push / pull / try_pull / close, with every choice of
`notify_one` and with spurious wake-ups. `s.hist` is the linearisation history (newest first).
Helper lemmas and the invariants are in `Lemmas/Queue.lean`; the completed-call queue `AbsQ`, the
projection `trace` and the measure `mu` of the last section are in `Lemmas/QueueRefine.lean`.
-/
namespace Ragc.Props.C06
open Ragc.Queue Ragc.Queue.TStatus

/-! ## exactly-once -/

/-- Conservation: the multiset of items accepted by `push`/`try_push` is the multiset still queued
plus the multiset returned by `pull`/`try_pull`. -/
theorem conservation {cap n : Nat} {evs : List Event} {s : State}
    (h : run cap (init n) evs = some s) :
    (accepted s.hist).Perm (s.items ++ returned s.hist) :=
  let ia := InvA_run h
  (accepted_perm s.hist ia.hist).trans (ia.perm.append_right _)

example : (accepted Demo.final.hist).Perm (Demo.final.items ++ returned Demo.final.hist) :=
  conservation Demo.run_evs
example : accepted Demo.final.hist = [Demo.c, Demo.b, Demo.a] := by decide

/-- Nothing else is ever returned: a returned item was accepted before … -/
theorem nothing_foreign {cap n : Nat} {evs : List Event} {s : State}
    (h : run cap (init n) evs = some s) : ∀ x ∈ returned s.hist, x ∈ accepted s.hist :=
  fun _ hx => (conservation h).mem_iff.mpr (List.mem_append_right _ hx)

/-- … and an accepted item is one that some thread offered with `push` or `try_push`. -/
theorem accepted_offered {cap n : Nat} {evs : List Event} {s : State}
    (h : run cap (init n) evs = some s) : ∀ x ∈ accepted s.hist, x ∈ offered evs :=
  (InvR_run (R := (· ∈ offered evs)) (offersOnly_offered evs) h).acc

example : ∀ x ∈ returned Demo.final.hist, x ∈ offered Demo.evs :=
  fun x hx => accepted_offered Demo.run_evs x (nothing_foreign Demo.run_evs x hx)

/-- Exactly once: if the accepted items have distinct ids then no id is returned twice and no
returned id is still queued. -/
theorem exactly_once {cap n : Nat} {evs : List Event} {s : State}
    (h : run cap (init n) evs = some s) (hd : ((accepted s.hist).map Item.id).Nodup) :
    ((returned s.hist).map Item.id).Nodup ∧
      ∀ x ∈ s.items, ∀ y ∈ returned s.hist, x.id ≠ y.id := by
  have hp := ((conservation h).map Item.id).nodup_iff.mp hd
  rw [List.map_append, List.nodup_append] at hp
  refine ⟨hp.2.1, fun x hx y hy => ?_⟩
  exact hp.2.2 x.id (List.mem_map_of_mem hx) y.id (List.mem_map_of_mem hy)

example : ((returned Demo.final.hist).map Item.id).Nodup :=
  (exactly_once Demo.run_evs (by decide)).1

/-! ## priority order -/

/-- The queue contents can be recomputed from the linearisation history alone. -/
theorem queued_is_history {cap n : Nat} {evs : List Event} {s : State}
    (h : run cap (init n) evs = some s) : (queuedOf s.hist).Perm s.items :=
  (InvA_run h).perm

/-- A pull never returns an item while a strictly higher-priority item that was already queued
stays behind: at every take event of the history (`h1` = what happened before it) the returned
item was queued and no queued item had a larger priority key. -/
theorem pull_max {cap n : Nat} {evs : List Event} {s : State}
    (h : run cap (init n) evs = some s) {h2 h1 : List HEv} {t : Nat} {x : Item}
    (hh : s.hist = h2 ++ HEv.take t x :: h1) :
    x ∈ queuedOf h1 ∧ ∀ y ∈ queuedOf h1, y.prio ≤ x.prio := by
  have hk := HistOK_suffix h2 _ (hh ▸ (InvA_run h).hist)
  simp only [HistOK] at hk
  exact hk.1

example : Demo.b ∈ queuedOf [.accept 0 Demo.b, .accept 0 Demo.a] ∧
    ∀ y ∈ queuedOf [.accept 0 Demo.b, .accept 0 Demo.a], y.prio ≤ Demo.b.prio :=
  pull_max Demo.run_evs (h2 := [.refuse 0 Demo.a, .eos 1, .close 2, .take 1 Demo.a, .take 1 Demo.c,
    .accept 0 Demo.c]) (t := 1) rfl

/-! ## capacity -/

/-- `current_size` is the sum of the sizes of the queued items (the `-=` of lines 216/242 never
underflows). -/
theorem size_accounting {cap n : Nat} {evs : List Event} {s : State}
    (h : run cap (init n) evs = some s) : s.cur = sizeSum s.items :=
  (InvA_run h).cur_eq

/-- The admission rule (lines 107–110, 119, 154): an accept event happens only on an open queue, and
only if the item fits on top of what is queued **or the queue is empty**. -/
theorem accept_rule {cap n : Nat} {evs : List Event} {s : State}
    (h : run cap (init n) evs = some s) {h2 h1 : List HEv} {t : Nat} {x : Item}
    (hh : s.hist = h2 ++ HEv.accept t x :: h1) :
    (¬ ∃ u, HEv.close u ∈ h1) ∧ (sizeSum (queuedOf h1) + x.size ≤ cap ∨ queuedOf h1 = []) := by
  have hk := HistOK_suffix h2 _ (hh ▸ (InvA_run h).hist)
  simp only [HistOK] at hk
  refine ⟨fun hc => ?_, hk.2.1⟩
  have := closedIn_iff.mpr hc
  rw [hk.1] at this
  exact absurd this (by simp)

/-- The bytes queued never exceed the capacity whenever each item individually fits (every item
offered by `push` / `try_push` has `size ≤ cap`). -/
theorem cap_bound {cap n : Nat} {evs : List Event} {s : State}
    (h : run cap (init n) evs = some s)
    (hf : ∀ e ∈ evs, OffersOnly (fun it => it.size ≤ cap) e) : sizeSum s.items ≤ cap := by
  have ia := InvA_run h
  rcases ia.bound with hb | ⟨x, hx⟩
  · exact ia.cur_eq ▸ hb
  · have hacc : x ∈ accepted s.hist :=
      ((accepted_perm s.hist ia.hist).trans (ia.perm.append_right _)).mem_iff.mpr
        (List.mem_append_left _ (by rw [hx]; exact List.mem_singleton.mpr rfl))
    have := (InvR_run hf h).acc x hacc
    simp only [hx, sizeSum]
    omega

example : Demo.mid.cur = sizeSum Demo.mid.items ∧ sizeSum Demo.mid.items ≤ 10 :=
  ⟨size_accounting Demo.run_mid, cap_bound Demo.run_mid (by decide)⟩
example : sizeSum Demo.mid.items = 10 := by decide

/-- The exact bound without any hypothesis on the sizes: in every reachable state the bytes queued
are within the capacity, **or exactly one item is queued and that item alone exceeds the
capacity** (it was admitted into the empty queue; nothing is admitted on top of it). -/
theorem cap_bound_general {cap n : Nat} {evs : List Event} {s : State}
    (h : run cap (init n) evs = some s) :
    sizeSum s.items ≤ cap ∨ ∃ x, s.items = [x] ∧ cap < x.size := by
  have ia := InvA_run h
  rcases ia.bound with hb | ⟨x, hx⟩
  · exact .inl (ia.cur_eq ▸ hb)
  · by_cases hc : x.size ≤ cap
    · left; simp only [hx, sizeSum]; omega
    · exact .inr ⟨x, hx, by omega⟩

/-- Same bound as a number: if every offered item has at most `M` bytes, the bytes queued never
exceed `max cap M` (the capacity or the largest single item). -/
theorem cap_bound_max {cap n M : Nat} {evs : List Event} {s : State}
    (h : run cap (init n) evs = some s)
    (hM : ∀ e ∈ evs, OffersOnly (fun it => it.size ≤ M) e) : sizeSum s.items ≤ max cap M := by
  rcases cap_bound_general h with hb | ⟨x, hx, _⟩
  · exact Nat.le_trans hb (Nat.le_max_left _ _)
  · have ia := InvA_run h
    have hacc : x ∈ accepted s.hist :=
      ((accepted_perm s.hist ia.hist).trans (ia.perm.append_right _)).mem_iff.mpr
        (List.mem_append_left _ (by rw [hx]; exact List.mem_singleton.mpr rfl))
    have := (InvR_run hM h).acc x hacc
    simp only [hx, sizeSum]
    have := Nat.le_max_right cap M
    omega

/-- the second alternative of `cap_bound_general` does occur: capacity 4, one queued item of 6 bytes -/
example : ∃ x, Demo.over3.items = [x] ∧ 4 < x.size :=
  (cap_bound_general Demo.run_over3).resolve_left (by decide)
example : sizeSum Demo.over3.items ≤ max 4 6 := cap_bound_max Demo.run_over3 (by decide)

/-- The model computes `current_size + size_bytes` in ℕ, the code in `usize`. If every item offered
by `push`/`try_push` has at most `M` bytes and `max cap M + M < 2^64`, no sum the code evaluates
(lines 107, 130, 154, 165) reaches 2^64, so the two coincide: for every item a thread carries
inside `push` and for every item of at most `M` bytes a `try_push` could offer next. With
`M = cap` (every item fits) the condition is `2 * cap < 2^64`. -/
theorem no_usize_overflow {cap n M : Nat} {evs : List Event} {s : State}
    (h : run cap (init n) evs = some s) (hM : ∀ e ∈ evs, OffersOnly (fun it => it.size ≤ M) e)
    (hc : max cap M + M < 2 ^ 64) :
    (∀ st ∈ s.thr, ∀ it, st.item? = some it → s.cur + it.size < 2 ^ 64) ∧
    (∀ it : Item, it.size ≤ M → s.cur + it.size < 2 ^ 64) := by
  have hcur : s.cur ≤ max cap M := size_accounting h ▸ cap_bound_max h hM
  refine ⟨fun st hst it hit => ?_, fun it hit => by omega⟩
  have := (InvR_run hM h).carried st hst it hit
  omega

example : ∀ st ∈ Demo.mid.thr, ∀ it, st.item? = some it → Demo.mid.cur + it.size < 2 ^ 64 :=
  (no_usize_overflow (M := 10) Demo.run_mid (by decide) (by decide)).1

/-! ## close -/

/-- `closed` is set exactly when a close event is in the history (and is never reset). -/
theorem closed_iff {cap n : Nat} {evs : List Event} {s : State}
    (h : run cap (init n) evs = some s) : s.closed = true ↔ ∃ t, HEv.close t ∈ s.hist := by
  rw [(InvA_run h).closed_eq, closedIn_iff]

/-- After close, pushes are refused: no admit event follows a close event. -/
theorem closed_refuses {cap n : Nat} {evs : List Event} {s : State}
    (h : run cap (init n) evs = some s) {h2 h1 : List HEv} {t : Nat}
    (hh : s.hist = h2 ++ HEv.close t :: h1) : ∀ e ∈ h2, ∀ u x, e ≠ HEv.accept u x :=
  no_admit_after_close h2 h1 t (hh ▸ (InvA_run h).hist)

/-- … and a push is refused only after close. -/
theorem refuse_only_closed {cap n : Nat} {evs : List Event} {s : State}
    (h : run cap (init n) evs = some s) {h2 h1 : List HEv} {t : Nat} {x : Item}
    (hh : s.hist = h2 ++ HEv.refuse t x :: h1) : ∃ u, HEv.close u ∈ h1 := by
  have hk := HistOK_suffix h2 _ (hh ▸ (InvA_run h).hist)
  simp only [HistOK] at hk
  exact closedIn_iff.mp hk.1

example : ∀ e ∈ [HEv.refuse 0 Demo.a, .eos 1], ∀ u x, e ≠ HEv.accept u x :=
  closed_refuses Demo.run_evs (h2 := [.refuse 0 Demo.a, .eos 1]) (t := 2) rfl

/-- End-of-stream (`pull` returning `None`) is reported only when the queue is closed **and**
empty: the remaining items are handed out first. -/
theorem pull_eos_iff {cap n : Nat} {evs : List Event} {s : State}
    (h : run cap (init n) evs = some s) {h2 h1 : List HEv} {t : Nat}
    (hh : s.hist = h2 ++ HEv.eos t :: h1) : (∃ u, HEv.close u ∈ h1) ∧ queuedOf h1 = [] := by
  have hk := HistOK_suffix h2 _ (hh ▸ (InvA_run h).hist)
  simp only [HistOK] at hk
  exact ⟨closedIn_iff.mp hk.1, hk.2.1⟩

/-- The decision a thread inside `pull` takes (lines 194 and 203), in every state: it reports
end-of-stream iff closed ∧ empty, it waits iff open ∧ empty, and it can take only from a non-empty
queue (and then some take is enabled, whatever `closed` says). -/
theorem pull_decision (cap : Nat) (s : State) (t : Nat) (ht : s.thr[t]? = some .pulling) :
    ((step cap s (.pullEos t)).isSome ↔ (s.closed = true ∧ s.items = [])) ∧
    ((step cap s (.pullWait t)).isSome ↔ (s.closed = false ∧ s.items = [])) ∧
    (∀ it w, (step cap s (.pullTake t it w)).isSome → s.items ≠ []) := by
  refine ⟨?_, ?_, ?_⟩
  · by_cases he : s.items = [] <;> by_cases hc : s.closed = true <;> simp [step, ht, he, hc]
  · by_cases he : s.items = [] <;> by_cases hc : s.closed = true <;> simp [step, ht, he, hc]
  · intro it w hs he
    simp only [step, ht, true_and, he] at hs
    simp [isMax] at hs

example : (∃ u, HEv.close u ∈ [HEv.close 2, .take 1 Demo.a]) ∧
    queuedOf [HEv.close 2, .take 1 Demo.a, .take 1 Demo.c, .accept 0 Demo.c, .take 1 Demo.b,
      .accept 0 Demo.b, .accept 0 Demo.a] = [] :=
  ⟨⟨2, by simp⟩, (pull_eos_iff Demo.run_evs (h2 := [.refuse 0 Demo.a]) (t := 1) rfl).2⟩

/-- After close no thread stays in a wait set (`notify_all`, and nobody can start waiting). -/
theorem closed_no_waiter {cap n : Nat} {evs : List Event} {s : State}
    (h : run cap (init n) evs = some s) (hc : s.closed = true) :
    ∀ (t : Nat) (st : TStatus), s.thr[t]? = some st → st.isWaitNF = false ∧ st.isWaitNE = false := by
  intro t st ht
  have hb := InvB_run h
  constructor
  · cases hw : st.isWaitNF with
    | false => rfl
    | true => have := countP_pos_of_get isWaitNF ht hw; have := hb.closedNF hc; omega
  · cases hw : st.isWaitNE with
    | false => rfl
    | true => have := countP_pos_of_get isWaitNE ht hw; have := hb.closedNE hc; omega

/-- After close every unfinished call has an enabled event of its own that brings it strictly
closer to returning (rank: waiting 3 — excluded by `closed_no_waiter` —, notified 2, running 1,
returned 0). Hence at most two own steps complete it, whatever the other threads do. -/
theorem closed_progress {cap n : Nat} {evs : List Event} {s : State}
    (h : run cap (init n) evs = some s) (hc : s.closed = true)
    {t : Nat} {st : TStatus} (ht : s.thr[t]? = some st) (hne : st ≠ .idle) :
    ∃ e s' st', e.tid = t ∧ step cap s e = some s' ∧ s'.thr[t]? = some st' ∧
      st'.rank < st.rank :=
  closed_progress_aux (InvB_run h) hc ht hne

example : ∃ e s' st', e.tid = 1 ∧ step 10 Demo.afterClose e = some s' ∧ s'.thr[1]? = some st' ∧
    st'.rank < TStatus.notifNE.rank :=
  closed_progress Demo.run_afterClose rfl (t := 1) rfl (by decide)

/-! ## no lost wake-up -/

/-- `not_empty`: while some consumer sleeps un-notified, every queued item is covered by a
distinct consumer that is on its way (notified, or running inside `pull`): `notify_one` per admit
suffices. -/
theorem no_lost_wakeup_not_empty {cap n : Nat} {evs : List Event} {s : State}
    (h : run cap (init n) evs = some s) (hw : 0 < s.cnt isWaitNE) :
    s.items.length ≤ s.cnt isNotifNE + s.cnt isPulling :=
  (InvB_run h).ne hw

/-- In particular: if a consumer sleeps and no consumer is on its way, the queue is empty. -/
theorem consumer_asleep_queue_empty {cap n : Nat} {evs : List Event} {s : State}
    (h : run cap (init n) evs = some s) (hw : 0 < s.cnt isWaitNE)
    (h0 : s.cnt isNotifNE + s.cnt isPulling = 0) : s.items = [] := by
  have := no_lost_wakeup_not_empty h hw
  exact List.eq_nil_of_length_eq_zero (by omega)

example : Demo.asleep.items = [] :=
  consumer_asleep_queue_empty Demo.run_asleep (by decide) (by decide)

/-- `not_full`, one producer (the pipeline's case): if only thread `p` ever calls the blocking
`push`, then whenever it sleeps un-notified its item really does not fit, the queue is non-empty
(so a future take will notify it) and open. `try_push` by other threads is allowed. No hypothesis
on the sizes. -/
theorem no_lost_wakeup_not_full_single {cap n p : Nat} {evs : List Event} {s : State}
    (h : run cap (init n) evs = some s) (hp : ∀ e ∈ evs, OnlyPusher p e)
    {t : Nat} {it : Item} (ht : s.thr[t]? = some (.waitNF it)) :
    t = p ∧ s.cur + it.size > cap ∧ s.items ≠ [] ∧ s.closed = false := by
  have hd := InvD_run hp h
  exact ⟨hd.only t _ ht (by simp [item?]), hd.wait t it ht⟩

example : (0 : Nat) = 0 ∧ Demo.mid.cur + Demo.c.size > 10 ∧ Demo.mid.items ≠ [] ∧
    Demo.mid.closed = false :=
  no_lost_wakeup_not_full_single (p := 0) Demo.run_mid (by decide) (t := 0) rfl

/-- `not_full`, any number of producers, any sizes: while some producer sleeps un-notified, the
queue is non-empty or a producer is on its way (notified, or running inside `push`). So a future
take — which notifies — is always possible, or someone is coming. (Before the repair of D5 this
needed "every pushed item fits on its own".) -/
theorem not_full_covered {cap n : Nat} {evs : List Event} {s : State}
    (h : run cap (init n) evs = some s)
    (hw : 0 < s.cnt isWaitNF) : s.items ≠ [] ∨ 0 < s.cnt isNotifNF + s.cnt isPushing := by
  have := (InvC_run h).nf hw
  by_cases he : s.items = []
  · right; simp only [he, List.length_nil] at this; simp only [State.cnt]; omega
  · exact .inl he

example : Demo.mid.items ≠ [] ∨ 0 < Demo.mid.cnt isNotifNF + Demo.mid.cnt isPushing :=
  not_full_covered Demo.run_mid (by decide)

/-- Consequently, for all sizes: the queue itself never deadlocks — a state in which a producer and
a consumer both sleep un-notified while nobody is running or on its way is unreachable. -/
theorem no_mutual_wait {cap n : Nat} {evs : List Event} {s : State}
    (h : run cap (init n) evs = some s) :
    ¬ (0 < s.cnt isWaitNF ∧ 0 < s.cnt isWaitNE ∧
        s.cnt isNotifNF + s.cnt isPushing + s.cnt isNotifNE + s.cnt isPulling = 0) := by
  rintro ⟨h1, h2, h0⟩
  have he := consumer_asleep_queue_empty h h2 (by omega)
  rcases not_full_covered h h1 with hne | hpos
  · exact hne he
  · omega

/-- What does **not** hold with two or more producers: "a sleeping producer does not fit".
Capacity 10, queue X(5) Y(5); producer 1 sleeps with A(10), producer 2 with B(5); thread 0 takes
X and the single `notify_one` goes to producer 1, which still does not fit and sleeps again. In
the state reached producer 2 **fits** (5+5 ≤ 10), sleeps un-notified, nobody is on the way, and
the only enabled events are new calls of thread 0 or spurious wake-ups: producer 2 stays blocked
until some thread takes again (a delay if consumers keep pulling — `not_full_covered` —, a
deadlock if thread 0 waits for B). `not_full_covered` and `no_mutual_wait` apply to this run;
`no_lost_wakeup_not_full_single` does not (two pushers). Unchanged by the repair of D5 (every
item fits, and the queue is never empty while a producer sleeps). -/
theorem two_producers_delayed_wakeup :
    ∃ evs s, run 10 (init 3) evs = some s ∧ (∀ e ∈ evs, FitsEv 10 e) ∧
      (∃ it, s.thr[2]? = some (.waitNF it) ∧ s.cur + it.size ≤ 10) ∧ s.closed = false ∧
      s.cnt isNotifNF + s.cnt isPushing = 0 ∧
      (∀ e s', step 10 s e = some s' → e.tid = 0 ∨ e = .pushSpur 1 ∨ e = .pushSpur 2) :=
  ⟨Demo.evs2, Demo.stuck2, Demo.run_evs2, by decide, ⟨Demo.B, rfl, by decide⟩, rfl, by decide,
    Demo.stuck2_enabled⟩

/-! ## items larger than the capacity (repair of D5, commit c0ac607) -/

/-- What a thread inside `push` does next, in every state (lines 107–110 and 119): it waits iff
too full ∧ non-empty ∧ open, it is refused iff closed, and it is admitted (for a suitable choice
of the notified waiter) iff open ∧ (fits ∨ the queue is empty). Exactly one of the three. -/
theorem push_decision (cap : Nat) (s : State) (t : Nat) (it : Item)
    (ht : s.thr[t]? = some (.pushing it)) :
    ((step cap s (.pushWait t)).isSome ↔
      (s.cur + it.size > cap ∧ s.items ≠ [] ∧ s.closed = false)) ∧
    ((step cap s (.pushRefuse t)).isSome ↔ s.closed = true) ∧
    ((∃ w, (step cap s (.pushAdmit t w)).isSome) ↔
      ((s.cur + it.size ≤ cap ∨ s.items = []) ∧ s.closed = false)) := by
  refine ⟨?_, ?_, ?_⟩
  · simp only [step, ht]
    split <;> simp_all
  · simp only [step, ht]
    split <;> simp_all
  · simp only [step, ht]
    constructor
    · rintro ⟨w, hw⟩
      split at hw
      · assumption
      · simp at hw
    · intro hc
      obtain ⟨w, s', hs'⟩ := notifyNE_enabled ((s.setT t .idle).enq t it)
      exact ⟨w, by rw [if_pos hc, hs']; rfl⟩

/-- An item larger than the capacity does not block `push` for ever any more: once the queue is
empty (and open) the push cannot wait, and it is admitted. Together with `not_full_covered` /
`no_lost_wakeup_not_full_single` (a sleeping producer always has a non-empty queue in front of it,
and the take that empties the queue notifies) an oversize push completes as soon as the consumers
have drained the queue.

Formerly (before commit c0ac607) the model had the proved witness `oversize_blocks`: capacity 4,
item of 6 bytes, `[pullEnter 1, pullWait 1, pushEnter 0 Big, pushWait 0]` reached
`{items := [], thr := [waitNF Big, waitNE]}` in which only spurious wake-ups were enabled — the
defect D5 (`push` blocked for ever and the consumers with it). That run is no longer accepted by
the model nor produced by the code: `pushWait` needs a non-empty queue. -/
theorem oversize_admitted_when_empty (cap : Nat) (s : State) (t : Nat) (it : Item)
    (ht : s.thr[t]? = some (.pushing it)) (he : s.items = []) (hc : s.closed = false) :
    step cap s (.pushWait t) = none ∧
      ∃ w s', step cap s (.pushAdmit t w) = some s' ∧ s'.items = [it] := by
  constructor
  · simp [step, ht, he]
  · obtain ⟨w, s', hs'⟩ := notifyNE_enabled ((s.setT t .idle).enq t it)
    refine ⟨w, s', by simp only [step, ht, he, hc, or_true, and_self, ↓reduceIte, hs'], ?_⟩
    cases notifyNE_sound hs' <;> simp [State.setT, State.enq, he]

/-- capacity 4, empty queue, consumer asleep: the 6-byte item is admitted and taken (the run that
used to end in the stuck state) … -/
example : run 4 (init 2) Demo.evs3 = some Demo.final3 ∧ returned Demo.final3.hist = [Demo.Big] :=
  ⟨Demo.run_evs3, by decide⟩
/-- … and on a non-empty queue it sleeps, is notified by the take that empties the queue, and is
admitted. -/
example : run 4 (init 2) Demo.evs4 = some Demo.final4 ∧ Demo.final4.items = [Demo.Big] :=
  ⟨Demo.run_evs4, rfl⟩
example : ∃ w s', step 4 (State.mk [] 0 false [.pushing Demo.Big, .waitNE] []) (.pushAdmit 0 w) = some s' ∧
    s'.items = [Demo.Big] :=
  (oversize_admitted_when_empty 4 _ 0 Demo.Big rfl rfl rfl).2

/-! ## the completed-call queue (the queue of `Model/Pipeline.lean`) is refined by this model

`AbsQ` is the queue at the granularity of completed calls: `push x` enabled iff
`open ∧ (cur + size ≤ cap ∨ empty)`, `pull x` iff `x` is queued and maximal, `exit` (pull returning
`None`) iff `closed ∧ empty`, `close` always; `cur` is recomputed from the items. `trace` projects an
event sequence: `pushAdmit`/`tryPushAdmit` ↦ push, `pullTake`/`tryPullTake` ↦ pull, `pullEos` ↦
exit, `close` ↦ close, every other event (enter, wait, wake, spurious wake, refuse, would-block,
try-pull-empty) ↦ nothing. -/

/-- Refinement (safety). For every run of the model — any number of threads, any `notify_one`
choices, spurious wake-ups — the projected sequence of completed calls is a run of the
completed-call queue from the empty open queue to the abstraction `(items, closed)` of the state
reached; the byte counter is the recomputed one; and the projection is exactly the linearisation
history read oldest first. -/
theorem queue_refines_abstract {cap n : Nat} {evs : List Event} {s : State}
    (h : run cap (init n) evs = some s) :
    arun cap AbsQ.init (trace cap (init n) evs) = some s.abs ∧ s.cur = s.abs.cur ∧
      histOps s.hist = trace cap (init n) evs := by
  obtain ⟨h1, h2⟩ := refines_run evs (s0 := init n) rfl h
  exact ⟨h1, h2, by simpa [init, histOps] using hist_run evs h⟩

example : trace 10 (init 3) Demo.evs =
    [.push 0 Demo.a, .push 0 Demo.b, .pull 1 Demo.b, .push 0 Demo.c, .pull 1 Demo.c, .pull 1 Demo.a,
     .close 2, .exit 1] := by decide
example : arun 10 AbsQ.init (trace 10 (init 3) Demo.evs) = some ⟨[], true⟩ :=
  (queue_refines_abstract Demo.run_evs).1

/-- What "is a run of the completed-call queue" says, call by call: the `k`-th projected call was
enabled in the abstract state `a1` reached by the calls before it. A push happened on an open queue
into which the item fits or which is empty (the guard `Pipeline.pushGuard true`), a pull returned a
queued item of maximal key, an exit happened on a closed empty queue (`AOp.spec`: for `push _ x`
`a1.closed = false ∧ (sizeSum a1.items + x.size ≤ cap ∨ a1.items = []) ∧ a2 = ⟨x :: a1.items, a1.closed⟩`,
for `pull _ x` `x ∈ a1.items ∧ (∀ y ∈ a1.items, y.prio ≤ x.prio) ∧ a2 = ⟨a1.items.erase x, a1.closed⟩`,
for `exit _` `a1.closed = true ∧ a1.items = [] ∧ a2 = a1`, for `close _` `a2 = ⟨a1.items, true⟩`). -/
theorem projected_calls_enabled {cap n : Nat} {evs : List Event} {s : State}
    (h : run cap (init n) evs = some s) {pre post : List AOp} {o : AOp}
    (ht : trace cap (init n) evs = pre ++ o :: post) :
    ∃ a1 a2, arun cap AbsQ.init pre = some a1 ∧ arun cap a2 post = some s.abs ∧ o.spec cap a1 a2 := by
  have hr := (queue_refines_abstract h).1
  rw [ht] at hr
  obtain ⟨a1, a2, h1, h2, h3⟩ := arun_split hr
  exact ⟨a1, a2, h1, h3, astep_spec h2⟩

example : ∃ a1 a2, arun 10 AbsQ.init [.push 0 Demo.a, .push 0 Demo.b] = some a1 ∧
    arun 10 a2 [.push 0 Demo.c, .pull 1 Demo.c, .pull 1 Demo.a, .close 2, .exit 1] = some Demo.final.abs ∧
    (Demo.b ∈ a1.items ∧ (∀ y ∈ a1.items, y.prio ≤ Demo.b.prio) ∧ a2 = ⟨a1.items.erase Demo.b, a1.closed⟩) :=
  projected_calls_enabled Demo.run_evs (o := .pull 1 Demo.b) (by decide)

/-! ## no stuck call: the condvar protocol never withholds an enabled completed call

The pipeline's usage: only thread `p` calls the blocking `push` (`OnlyPusher p`); any number of
threads call `pull`. (`try_push`/`try_pull`/`close` by any thread are allowed as well — the theorems
do not need their absence.) An event is *internal* if it is neither a spurious wake-up nor the start
of a new call: `pushWait`, `pushWake`, `pushRefuse`, `pushAdmit`, `pullWait`, `pullWake`, `pullEos`,
`pullTake` — the steps the code itself takes inside a call that is in progress. -/

/-- A call in progress is never blocked without a cause. In every reachable state, for every thread
`t` inside a call:

(a) inside `pull`: `t` has an enabled internal step of its own (it is running or has been
notified), or it sleeps in `not_empty.wait`, the queue is open, and every queued item is covered by a
distinct consumer that is awake inside `pull` (`#items ≤ #notified + #running`); hence either the
queue is empty — both completed outcomes of `pull` are disabled — or another consumer `u`, notified
or running, has an enabled internal step (a wake-up is in flight);

(b) inside `push`: `t` has an enabled internal step of its own, or it is the producer `p` asleep in
`not_full.wait` and the completed `push` of its item is disabled (does not fit, queue non-empty,
open). -/
theorem blocked_call_has_cause {cap n p : Nat} {evs : List Event} {s : State}
    (h : run cap (init n) evs = some s) (hp : ∀ e ∈ evs, OnlyPusher p e)
    {t : Nat} {st : TStatus} (ht : s.thr[t]? = some st) :
    (st.inPull = true →
      (∃ e s', e.tid = t ∧ e.isInternal = true ∧ step cap s e = some s') ∨
      (st = .waitNE ∧ s.closed = false ∧ s.items.length ≤ s.cnt isNotifNE + s.cnt isPulling ∧
        (s.items = [] ∨ ∃ u stu e s', u ≠ t ∧ s.thr[u]? = some stu ∧ (stu = .notifNE ∨ stu = .pulling) ∧
          e.tid = u ∧ e.isInternal = true ∧ step cap s e = some s'))) ∧
    (st.inPush = true →
      (∃ e s', e.tid = t ∧ e.isInternal = true ∧ step cap s e = some s') ∨
      (∃ it, st = .waitNF it ∧ t = p ∧ ¬ s.abs.canPush cap it ∧
        s.cur + it.size > cap ∧ s.items ≠ [] ∧ s.closed = false)) := by
  constructor
  · intro hin
    cases st <;> simp [inPull] at hin
    · exact .inl (own_step_pulling cap ht)
    · exact .inr ⟨rfl, sleeping_consumer cap (InvB_run h) ht⟩
    · exact .inl (own_step_notifNE cap ht)
  · intro hin
    cases st <;> simp [inPush] at hin
    · exact .inl (own_step_pushing cap ht)
    · next it =>
      obtain ⟨h1, h2, h3, h4⟩ := sleeping_producer (InvD_run hp h) ht
      refine .inr ⟨it, rfl, h1, ?_, h2, h3, h4⟩
      rintro ⟨_, hfit⟩
      simp only [AbsQ.cur, State.abs, ← size_accounting h] at hfit
      rcases hfit with hfit | hfit
      · omega
      · exact h3 hfit
    · exact .inl (own_step_notifNF cap ht)

/-- the sleeping producer of `Demo.mid` (item `c`, 1 byte, on a full queue): alternative two of (b) -/
example : (∃ e s', e.tid = 0 ∧ e.isInternal = true ∧ step 10 Demo.mid e = some s') ∨
    (∃ it, TStatus.waitNF Demo.c = .waitNF it ∧ (0 : Nat) = 0 ∧ ¬ Demo.mid.abs.canPush 10 it ∧
      Demo.mid.cur + it.size > 10 ∧ Demo.mid.items ≠ [] ∧ Demo.mid.closed = false) :=
  (blocked_call_has_cause (p := 0) Demo.run_mid (by decide) (t := 0) rfl).2 rfl
example : ¬ Demo.mid.abs.canPush 10 Demo.c := by decide
/-- the sleeping consumer of `Demo.asleep` on the empty open queue: alternative two of (a) -/
example : (∃ e s', e.tid = 1 ∧ e.isInternal = true ∧ step 10 Demo.asleep e = some s') ∨
    (TStatus.waitNE = .waitNE ∧ Demo.asleep.closed = false ∧
      Demo.asleep.items.length ≤ Demo.asleep.cnt isNotifNE + Demo.asleep.cnt isPulling ∧
      (Demo.asleep.items = [] ∨ ∃ u stu e s', u ≠ 1 ∧ Demo.asleep.thr[u]? = some stu ∧
        (stu = .notifNE ∨ stu = .pulling) ∧ e.tid = u ∧ e.isInternal = true ∧
        step 10 Demo.asleep e = some s')) :=
  (blocked_call_has_cause (p := 0) Demo.run_asleep (by decide) (t := 1) rfl).1 rfl
example : Demo.asleep.items = [] ∧ ¬ Demo.asleep.abs.canExit := by decide

/-- Consequently: whenever the completed-call queue has an enabled operation for a thread that is
inside the corresponding call, the model has an enabled event that is not a spurious wake-up (and not
a new call). For `push` it is an event of the caller itself; for `pull` (an item is queued, or the
queue is closed and empty) it is an event of some thread `u` that is awake inside `pull` — the caller
or, if the caller sleeps, a consumer to which the wake-up went. -/
theorem enabled_abstract_step_implies_enabled_concrete_step {cap n p : Nat} {evs : List Event}
    {s : State} (h : run cap (init n) evs = some s) (hp : ∀ e ∈ evs, OnlyPusher p e)
    {t : Nat} {st : TStatus} (ht : s.thr[t]? = some st) :
    (∀ it, st.item? = some it → s.abs.canPush cap it →
      ∃ e s', e.tid = t ∧ e.isInternal = true ∧ step cap s e = some s') ∧
    (st.inPull = true → ((∃ x, s.abs.canPull x) ∨ s.abs.canExit) →
      ∃ u stu e s', s.thr[u]? = some stu ∧ (stu = .pulling ∨ stu = .notifNE) ∧
        e.tid = u ∧ e.isInternal = true ∧ step cap s e = some s') := by
  have hb := blocked_call_has_cause h hp ht
  constructor
  · intro it hit hcan
    have hin : st.inPush = true := by cases st <;> simp [item?] at hit <;> rfl
    rcases hb.2 hin with hown | ⟨it', hst, _, hno, _⟩
    · exact hown
    · subst hst
      simp only [item?, Option.some.injEq] at hit
      subst hit
      exact absurd hcan hno
  · intro hin hen
    rcases hb.1 hin with ⟨e, s', he, hint, hs⟩ | ⟨hst, hopen, _, hemp | ⟨u, stu, e, s', _, hu, hstu, he, hint, hs⟩⟩
    · cases st <;> simp [inPull] at hin
      · exact ⟨t, _, e, s', ht, .inl rfl, he, hint, hs⟩
      · exfalso
        obtain ⟨st', hst', hpre⟩ := step_pre hs
        rw [he, ht] at hst'
        cases hst'
        cases e <;> simp [Event.pre, isIdle, isPushing, isNotifNF, isWaitNF, isPulling, isNotifNE,
          isWaitNE, Event.isInternal, Event.isSpur, Event.isStart] at hpre hint
      · exact ⟨t, _, e, s', ht, .inr rfl, he, hint, hs⟩
    · exfalso
      rcases hen with ⟨x, hx, _⟩ | ⟨hc, _⟩
      · simp only [State.abs, hemp] at hx; cases hx
      · simp only [State.abs] at hc; rw [hopen] at hc; cases hc
    · exact ⟨u, stu, e, s', hu, hstu.symm, he, hint, hs⟩

/-- `Demo.mid`: `b` is queued and maximal, consumer 1 has been notified and can resume -/
example : ∃ u stu e s', Demo.mid.thr[u]? = some stu ∧ (stu = .pulling ∨ stu = .notifNE) ∧
    e.tid = u ∧ e.isInternal = true ∧ step 10 Demo.mid e = some s' :=
  (enabled_abstract_step_implies_enabled_concrete_step (p := 0) Demo.run_mid (by decide) (t := 1) rfl).2
    rfl (.inl ⟨Demo.b, by decide⟩)

/-- Internal steps terminate, and where they stop nothing is withheld. From a reachable state, every
sequence `fs` of internal events (no spurious wake-up, no new call) has at most `mu s ≤ 4·n` events
(`mu` weighs a thread outside the queue 0, asleep 2, evaluating its loop condition 3, notified 4);
and if no internal event is enabled after it, every thread is outside the queue (its call
completed), or a consumer asleep on an open empty queue, or the producer asleep with an item whose
completed `push` is disabled. -/
theorem internal_steps_terminate {cap n p : Nat} {evs : List Event} {s : State}
    (h : run cap (init n) evs = some s) (hp : ∀ e ∈ evs, OnlyPusher p e)
    {fs : List Event} {s' : State} (hf : run cap s fs = some s')
    (hi : ∀ e ∈ fs, e.isInternal = true) :
    fs.length + mu s' ≤ mu s ∧ mu s ≤ 4 * n ∧
    (Quiescent cap s' → ∀ t st, s'.thr[t]? = some st →
      st = .idle ∨ (st = .waitNE ∧ s'.items = [] ∧ s'.closed = false) ∨
      (∃ it, st = .waitNF it ∧ t = p ∧ s'.cur + it.size > cap ∧ s'.items ≠ [] ∧ s'.closed = false)) := by
  refine ⟨internal_run_bounded fs hf hi, ?_, fun hq t st ht => ?_⟩
  · have := mu_le s
    rw [run_thr_length h] at this
    simpa [init] using this
  · have hrun : run cap (init n) (evs ++ fs) = some s' := by rw [run_append, h]; exact hf
    have hp' : ∀ e ∈ evs ++ fs, OnlyPusher p e := by
      intro e he
      rcases List.mem_append.mp he with he | he
      · exact hp e he
      · exact internal_onlyPusher p (hi e he)
    exact quiescent_blocked (InvB_run hrun) (InvD_run hp' hrun) hq ht

/-- from `Demo.mid` (producer asleep with `c`, consumer notified): wake, take `b` notifying the
producer, producer wakes and its item is accepted — four internal steps, `mu` falls from 6 to 0 -/
example : run 10 Demo.mid [.pullWake 1, .pullTake 1 Demo.b (some 0), .pushWake 0, .pushAdmit 0 none]
    = some { items := [Demo.c, Demo.a], cur := 5, closed := false, thr := [.idle, .idle, .idle],
             hist := [.accept 0 Demo.c, .take 1 Demo.b, .accept 0 Demo.b, .accept 0 Demo.a] } := by decide
example : mu Demo.mid = 6 := by decide
example : (4 : Nat) + 0 ≤ mu Demo.mid ∧ mu Demo.mid ≤ 4 * 3 :=
  let r := internal_steps_terminate (p := 0) Demo.run_mid (by decide)
    (fs := [.pullWake 1, .pullTake 1 Demo.b (some 0), .pushWake 0, .pushAdmit 0 none])
    (s' := { items := [Demo.c, Demo.a], cur := 5, closed := false, thr := [.idle, .idle, .idle],
             hist := [.accept 0 Demo.c, .take 1 Demo.b, .accept 0 Demo.b, .accept 0 Demo.a] })
    (by decide) (by decide)
  ⟨by have := r.1; simpa [mu, TStatus.wt] using this, r.2.1⟩
/-- `Demo.asleep` is quiescent with a consumer asleep on the empty open queue -/
example : Demo.asleep.thr[1]? = some .waitNE ∧ Demo.asleep.items = [] ∧ Demo.asleep.closed = false := by
  decide

end Ragc.Props.C06
