import RagcModel.Lemmas.Cli
/-!
C17 — CLI extraction composes and exit codes tell the truth.

Model: `Model/Cli.lean` (`getset`, `getsetOld`, `listset`, `listctg`, `parseCapacity`,
`createDispatch`, `createExit`). The model is thin — it says which bytes go where and which exit
class results, taking the per-sample FASTA text as given — so these theorems mainly fix the
*composition* and the *exit-status* logic; the weight of C17 is on the differential run of the real
binary against this model. Helper lemmas: `Lemmas/Cli.lean` (`Archive.fasta a n` = what extracting
the single sample `n` prints, `Archive.known a n` = `n` is a sample of `a`).
-/
namespace Ragc.Props.C17
open Ragc.Cli

/-- A small archive used by the non-vacuity examples: three samples, prefix-related names
`s`, `s1`, `t`. -/
def demo : Archive :=
  ⟨[⟨[115], [([99, 49], [65, 67, 71, 84])]⟩,
    ⟨[115, 49], [([99, 50], [84, 84]), ([99, 51], [])]⟩,
    ⟨[116], [([120], [71])]⟩]⟩

def demoEnv : Env := ⟨some demo, true, true⟩

/-- `getset` with several sample names (all present, repeats allowed, any order) prints the
concatenation of the single-sample extractions in *request* order, exits 0, leaves no temp file;
with `-o` the same bytes are the complete content of the output file, whatever it held before. -/
theorem getset_concat (a : Archive) (oc : Bool) (ns : List Bytes) (fs : Fs)
    (hne : ns ≠ []) (hk : ∀ n ∈ ns, a.known n = true) :
    getset ⟨some a, oc, true⟩ ⟨ns, none⟩ .stdout fs =
      (.ok, { fs with stdout := fs.stdout ++ (ns.map a.fasta).flatten, temp := none }) ∧
    getset ⟨some a, true, true⟩ ⟨ns, none⟩ .file fs =
      (.ok, { fs with out := some (ns.map a.fasta).flatten, temp := none }) := by
  have hs : samplesToExtract a ⟨ns, none⟩ = some ns := by
    cases ns with
    | nil => exact absurd rfl hne
    | cons x xs => simp [samplesToExtract]
  constructor
  · simp only [getset, hs, extractLoop_closed, takeWhile_all _ _ hk, exitAfter_all a ns _ hk,
      foldl_emit_stdout]
  · simp only [getset, hs, Bool.not_true, Bool.false_eq_true, ↓reduceIte, extractLoop_closed,
      takeWhile_all _ _ hk, exitAfter_all a ns _ hk]
    rw [foldl_emit_file _ _ [] (by simp [File.create])]
    simp

example : (getset demoEnv ⟨[[116], [115], [116]], none⟩ .stdout ⟨none, none, []⟩).2.stdout
    = [62, 120, 10, 71, 10] ++ [62, 99, 49, 10, 65, 67, 71, 84, 10] ++ [62, 120, 10, 71, 10] := by
  decide

/-- The literal form of the property: the multi-sample output equals the concatenation of the
outputs of the single-sample runs (stdout case; the `-o` case follows with `getset_stdout_eq_file`). -/
theorem getset_concat_singles (a : Archive) (oc : Bool) (ns : List Bytes) (t : File) (o : File)
    (hne : ns ≠ []) (hk : ∀ n ∈ ns, a.known n = true) :
    (getset ⟨some a, oc, true⟩ ⟨ns, none⟩ .stdout ⟨t, o, []⟩).2.stdout =
      (ns.map (fun n => (getset ⟨some a, oc, true⟩ ⟨[n], none⟩ .stdout ⟨t, o, []⟩).2.stdout)).flatten := by
  rw [(getset_concat a oc ns _ hne hk).1]
  show [] ++ (ns.map a.fasta).flatten = _
  rw [List.nil_append]
  congr 1
  apply List.map_congr_left
  intro n hn
  rw [(getset_concat a oc [n] _ (by simp) (by simpa using hk n hn)).1]
  simp

/-- `getset --prefix p` extracts exactly the samples whose name starts with `p`, in *archive*
order (positional names are ignored when a prefix is given), provided at least one matches and
sample names are distinct. -/
theorem getset_prefix (a : Archive) (oc : Bool) (p : Bytes) (names : List Bytes) (fs : Fs)
    (hd : (a.samples.map (·.name)).Nodup)
    (hm : (a.samples.filter (fun s => p.isPrefixOf s.name)) ≠ []) :
    getset ⟨some a, oc, true⟩ ⟨names, some p⟩ .stdout fs =
      (.ok, { fs with
        stdout := fs.stdout ++ ((a.samples.filter (fun s => p.isPrefixOf s.name)).map sampleFasta).flatten,
        temp := none }) ∧
    getset ⟨some a, true, true⟩ ⟨names, some p⟩ .file fs =
      (.ok, { fs with
        out := some ((a.samples.filter (fun s => p.isPrefixOf s.name)).map sampleFasta).flatten,
        temp := none }) := by
  have hne : listSamplesWithPrefix a p ≠ [] := by
    rw [listSamplesWithPrefix_eq]; simpa using hm
  have hs : samplesToExtract a ⟨names, some p⟩ = some (listSamplesWithPrefix a p) := by
    simp [samplesToExtract, hne]
  have hk : ∀ n ∈ listSamplesWithPrefix a p, a.known n = true := by
    intro n hn
    rw [listSamplesWithPrefix_eq, List.mem_map] at hn
    obtain ⟨s, hs, rfl⟩ := hn
    exact known_of_mem a s (List.mem_filter.mp hs).1
  have hf : (listSamplesWithPrefix a p).map a.fasta =
      (a.samples.filter (fun s => p.isPrefixOf s.name)).map sampleFasta := by
    rw [listSamplesWithPrefix_eq, List.map_map]
    apply List.map_congr_left
    intro s hs
    exact fasta_of_mem a hd s (List.mem_filter.mp hs).1
  constructor
  · simp only [getset, hs, extractLoop_closed, takeWhile_all _ _ hk, exitAfter_all a _ _ hk,
      foldl_emit_stdout, hf]
  · simp only [getset, hs, Bool.not_true, Bool.false_eq_true, ↓reduceIte, extractLoop_closed,
      takeWhile_all _ _ hk, exitAfter_all a _ _ hk, hf]
    rw [foldl_emit_file _ _ [] (by simp [File.create])]
    simp

example : (getset demoEnv ⟨[[116]], some [115]⟩ .file ⟨none, some [1, 2, 3], []⟩).2.out
    = some ([62, 99, 49, 10, 65, 67, 71, 84, 10] ++ [62, 99, 50, 10, 84, 84, 10, 62, 99, 51, 10]) := by
  decide

/-- Any unknown name among the requested ones makes `getset` exit non-zero (status 1). What has
been written by then stays: exactly the samples *before the first unknown name*, in request order —
on stdout, or as the content of the (truncated and re-filled) `-o` file. Nothing of the samples
after it is written, and the temp file is removed. -/
theorem getset_unknown_fails (a : Archive) (oc : Bool) (ns : List Bytes) (fs : Fs)
    (hu : ∃ n ∈ ns, a.known n = false) :
    (getset ⟨some a, oc, true⟩ ⟨ns, none⟩ .stdout fs =
      (.err, { fs with stdout := fs.stdout ++ ((ns.takeWhile a.known).map a.fasta).flatten,
                       temp := none })) ∧
    (getset ⟨some a, true, true⟩ ⟨ns, none⟩ .file fs =
      (.err, { fs with out := some ((ns.takeWhile a.known).map a.fasta).flatten, temp := none })) ∧
    Exit.err.code ≠ 0 := by
  have hne : ns ≠ [] := by
    obtain ⟨n, hn, _⟩ := hu
    exact List.ne_nil_of_mem hn
  have hs : samplesToExtract a ⟨ns, none⟩ = some ns := by
    cases ns with
    | nil => exact absurd rfl hne
    | cons x xs => simp [samplesToExtract]
  refine ⟨?_, ?_, by decide⟩
  · simp only [getset, hs, extractLoop_closed, exitAfter_unknown a ns _ hu, foldl_emit_stdout]
  · simp only [getset, hs, Bool.not_true, Bool.false_eq_true, ↓reduceIte, extractLoop_closed,
      exitAfter_unknown a ns _ hu]
    rw [foldl_emit_file _ _ [] (by simp [File.create])]
    simp

example : getset demoEnv ⟨[[116], [120], [115]], none⟩ .stdout ⟨none, none, []⟩
    = (.err, ⟨none, none, [62, 120, 10, 71, 10]⟩) := by decide

/-- stdout and `-o` carry the same bytes and give the same exit status, for every archive (or
none), every request (names, prefix, nothing), writable temp directory or not, success or
failure: either the run fails before the destination is opened (then the `-o` path is untouched
and nothing is printed), or the `-o` file holds exactly what the stdout run prints. -/
theorem getset_stdout_eq_file (archive : Option Archive) (tc : Bool) (r : Request) (t o : File) :
    (getset ⟨archive, true, tc⟩ r .stdout ⟨t, o, []⟩).1 =
      (getset ⟨archive, true, tc⟩ r .file ⟨t, o, []⟩).1 ∧
    ((getset ⟨archive, true, tc⟩ r .file ⟨t, o, []⟩).2.out =
        some (getset ⟨archive, true, tc⟩ r .stdout ⟨t, o, []⟩).2.stdout ∨
     ((getset ⟨archive, true, tc⟩ r .file ⟨t, o, []⟩).2.out = o ∧
      (getset ⟨archive, true, tc⟩ r .stdout ⟨t, o, []⟩).2.stdout = [] ∧
      (getset ⟨archive, true, tc⟩ r .stdout ⟨t, o, []⟩).1 = .err)) := by
  unfold getset
  cases archive with
  | none => exact ⟨rfl, Or.inr ⟨rfl, rfl, rfl⟩⟩
  | some a =>
    dsimp only
    cases samplesToExtract a r with
    | none => exact ⟨rfl, Or.inr ⟨rfl, rfl, rfl⟩⟩
    | some ns =>
      simp only [Bool.not_true, Bool.false_eq_true, ↓reduceIte]
      have := extractLoop_sim a tc ns false ⟨t, o, []⟩ ⟨t, File.create o, []⟩ rfl rfl
      exact ⟨this.1, Or.inl this.2.1⟩

example : (getset demoEnv ⟨[[115, 49], [115]], none⟩ .file ⟨none, some [7], []⟩).2.out
    = some (getset demoEnv ⟨[[115, 49], [115]], none⟩ .stdout ⟨none, some [7], []⟩).2.stdout := by
  decide

/-- The repaired defect, as a statement about the old code: before commit 158f0d4 `getset` with
all names present left only the *last* requested sample in the `-o` file / on stdout. -/
theorem getsetOld_keeps_last (a : Archive) (oc tc : Bool) (ns : List Bytes) (fs : Fs)
    (hne : ns ≠ []) (hk : ∀ n ∈ ns, a.known n = true) :
    getsetOld ⟨some a, oc, tc⟩ ⟨ns, none⟩ .file fs =
      (.ok, { fs with out := some (a.fasta (ns.getLast hne)) }) ∧
    getsetOld ⟨some a, oc, tc⟩ ⟨ns, none⟩ .stdout fs =
      (.ok, { fs with stdout := fs.stdout ++ a.fasta (ns.getLast hne), temp := none }) := by
  have hs : samplesToExtract a ⟨ns, none⟩ = some ns := by
    cases ns with
    | nil => exact absurd rfl hne
    | cons x xs => simp [samplesToExtract]
  have hl : ns.getLast? = some (ns.getLast hne) := List.getLast?_eq_some_getLast hne
  constructor
  · simp only [getsetOld, hs, oldFileLoop_known a ns false fs hk, hl]
  · simp only [getsetOld, hs, oldStdoutLoop_known a ns false fs hk, hl]

/-- Negation witness for the old code (the defect D10 that commit 158f0d4 repaired): two samples
requested, only the second survives, although the exit status is 0 — while the current `getset`
writes both. -/
theorem getsetOld_loses_samples :
    getsetOld demoEnv ⟨[[115], [116]], none⟩ .file ⟨none, none, []⟩
      = (.ok, ⟨none, some [62, 120, 10, 71, 10], []⟩) ∧
    getsetOld demoEnv ⟨[[115], [116]], none⟩ .stdout ⟨none, none, []⟩
      = (.ok, ⟨none, none, [62, 120, 10, 71, 10]⟩) ∧
    getset demoEnv ⟨[[115], [116]], none⟩ .file ⟨none, none, []⟩
      = (.ok, ⟨none, some ([62, 99, 49, 10, 65, 67, 71, 84, 10] ++ [62, 120, 10, 71, 10]), []⟩) ∧
    (getsetOld demoEnv ⟨[[115], [116]], none⟩ .file ⟨none, none, []⟩).2.out ≠
      (getset demoEnv ⟨[[115], [116]], none⟩ .file ⟨none, none, []⟩).2.out := by
  decide

/-- `getset` exits 0 exactly when everything asked for could be done: the archive opens, the
request selects at least one sample, every requested name is present, the temp file and (with `-o`)
the output file can be created. -/
theorem getset_ok_iff (env : Env) (r : Request) (d : Dest) (fs : Fs) :
    (getset env r d fs).1 = .ok ↔
      ∃ a ns, env.archive = some a ∧ samplesToExtract a r = some ns ∧
        (∀ n ∈ ns, a.known n = true) ∧ env.tempCreatable = true ∧
        (d = .file → env.outCreatable = true) := by
  have loop : ∀ (a : Archive) (tc : Bool) (ns : List Bytes) (hne : ns ≠ []) (loaded : Bool) (f : Fs),
      (extractLoop a tc d ns loaded f).1 = .ok ↔ ((∀ n ∈ ns, a.known n = true) ∧ tc = true) := by
    intro a tc ns hne loaded f
    cases tc with
    | true =>
      rw [extractLoop_closed]
      constructor
      · intro h
        refine ⟨fun n hn => ?_, rfl⟩
        cases hkn : a.known n with
        | true => rfl
        | false => rw [exitAfter_unknown a ns loaded ⟨n, hn, hkn⟩] at h; cases h
      · intro h; exact exitAfter_all a ns loaded h.1
    | false =>
      cases ns with
      | nil => exact absurd rfl hne
      | cons n rest =>
        unfold extractLoop
        cases a.lookup n with
        | none => cases loaded <;> simp [missAfterHit]
        | some s => simp
  have sne : ∀ (a : Archive) (ns : List Bytes), samplesToExtract a r = some ns → ns ≠ [] := by
    intro a ns h
    unfold samplesToExtract at h
    cases hp : r.pfx with
    | some p =>
      rw [hp] at h; dsimp only at h
      split at h
      · cases h
      · rename_i hn; cases h; intro he; rw [he] at hn; simp at hn
    | none =>
      rw [hp] at h; dsimp only at h
      split at h
      · cases h
      · rename_i hn; cases h; intro he; rw [he] at hn; simp at hn
  unfold getset
  cases ha : env.archive with
  | none => simp
  | some a =>
    dsimp only
    cases hs : samplesToExtract a r with
    | none =>
      simp only [reduceCtorEq, false_iff]
      rintro ⟨a', ns', ha', hs', _⟩
      cases ha'; rw [hs] at hs'; cases hs'
    | some ns =>
      have hne := sne a ns hs
      cases d with
      | stdout =>
        dsimp only
        rw [loop a _ ns hne]
        constructor
        · intro h; exact ⟨a, ns, rfl, hs, h.1, h.2, by simp⟩
        · rintro ⟨a', ns', ha', hs', hk, htc, _⟩
          cases ha'; rw [hs] at hs'; cases hs'; exact ⟨hk, htc⟩
      | file =>
        dsimp only
        cases hoc : env.outCreatable with
        | false =>
          simp only [Bool.not_false, ↓reduceIte]
          constructor
          · intro h; cases h
          · rintro ⟨_, _, _, _, _, _, h⟩; simp at h
        | true =>
          simp only [Bool.not_true, Bool.false_eq_true, ↓reduceIte]
          rw [loop a _ ns hne]
          constructor
          · intro h; exact ⟨a, ns, rfl, hs, h.1, h.2, by simp⟩
          · rintro ⟨a', ns', ha', hs', hk, htc, _⟩
            cases ha'; rw [hs] at hs'; cases hs'; exact ⟨hk, htc⟩

example : (getset demoEnv ⟨[], some [115]⟩ .file ⟨none, none, []⟩).1 = .ok := by decide

/-- Every failure gives a non-zero exit status: `getset` ends with status 0 or 1, `listset` and
`listctg` with 0, 1 or (no sample argument) 2 — never with 0 unless they are `Exit.ok`; and each
cause of failure (archive cannot be opened; no sample selected; unknown name; output or temp file
cannot be created) makes the exit status non-zero. -/
theorem failure_nonzero (env : Env) (r : Request) (d : Dest) (fs : Fs) :
    ((getset env r d fs).1 = .ok ∨ (getset env r d fs).1 = .err) ∧
    ((getset env r d fs).1.code = 0 ↔ (getset env r d fs).1 = .ok) ∧
    ((env.archive = none ∨
      (∀ a, env.archive = some a → samplesToExtract a r = none) ∨
      (∀ a ns, env.archive = some a → samplesToExtract a r = some ns → ∃ n ∈ ns, a.known n = false) ∨
      env.tempCreatable = false ∨ (d = .file ∧ env.outCreatable = false)) →
      (getset env r d fs).1.code ≠ 0) := by
  have hcode : ∀ e : Exit, e.code = 0 ↔ e = .ok := by intro e; cases e <;> simp [Exit.code]
  have hcls : (getset env r d fs).1 = .ok ∨ (getset env r d fs).1 = .err := by
    unfold getset
    cases env.archive with
    | none => right; rfl
    | some a =>
      dsimp only
      cases samplesToExtract a r with
      | none => right; rfl
      | some ns =>
        cases d with
        | stdout => exact extractLoop_exit ..
        | file =>
          dsimp only
          split
          · right; rfl
          · exact extractLoop_exit ..
  refine ⟨hcls, hcode _, fun hfail => ?_⟩
  rw [Ne, hcode, getset_ok_iff]
  rintro ⟨a, ns, ha, hs, hk, htc, hoc⟩
  rcases hfail with h | h | h | h | h
  · rw [ha] at h; cases h
  · rw [h a ha] at hs; cases hs
  · obtain ⟨n, hn, hkn⟩ := h a ns ha hs
    rw [hk n hn] at hkn; cases hkn
  · rw [htc] at h; cases h
  · rw [hoc h.1] at h; cases h.2

example : (getset ⟨none, true, true⟩ ⟨[[115]], none⟩ .file ⟨none, some [1], []⟩)
    = (.err, ⟨none, some [1], []⟩) := by decide

/-- `listset` prints the sample names in archive order, one per line, and exits 0; an archive
that cannot be opened, or an output file that cannot be created, gives status 1 and no output. -/
theorem listset_spec (archive : Option Archive) (oc : Bool) (d : Dest) (out : File) :
    (∀ a, archive = some a → d = .stdout →
      listset archive oc d out = (.ok, linesOf (a.samples.map (·.name)), out)) ∧
    (∀ a, archive = some a → d = .file → oc = true →
      listset archive oc d out = (.ok, [], some (linesOf (a.samples.map (·.name))))) ∧
    ((listset archive oc d out).1 = .ok ∨
      ((listset archive oc d out).1 = .err ∧ (listset archive oc d out).2 = ([], out))) := by
  refine ⟨?_, ?_, ?_⟩
  · rintro a rfl rfl; rfl
  · rintro a rfl rfl rfl; simp [listset, File.create, File.append]
  · cases archive with
    | none => right; exact ⟨rfl, rfl⟩
    | some a =>
      cases d with
      | stdout => left; rfl
      | file => cases oc <;> simp [listset]

example : listset (some demo) true .stdout none = (.ok, [115, 10, 115, 49, 10, 116, 10], none) := by
  decide

/-- Flag dispatch of `create` is total and truthful. A run that exits 0 went through the
streaming mode — none of `--batch`, `--adaptive`, `--concatenated`, `--cpp-agc` (in a build without
the FFI feature), `-t 0`, an unparsable or overflowing `--queue-capacity`, no input, no `-o` falls
through to status 0 — and reached the end of `finalize` with every step `Ok` (C15 then says the
file is complete). -/
theorem create_dispatch_total (c : CreateArgs) (e : CreateEnv) (hfeat : c.cppFeature = false) :
    (createExit c e = .ok →
      c.outputGiven = true ∧ c.nInputs ≥ 1 ∧ c.batch = false ∧ c.adaptive = false ∧
      c.concatenated = false ∧ c.cppAgc = false ∧ c.threads ≠ some 0 ∧
      (∃ n, parseCapacity c.queueCapacity = some n ∧
        createDispatch c = .streaming (c.nInputs == 1) n) ∧
      e.inputsOk = true ∧ e.outputCreatable = true ∧ e.finalizeOk = true) ∧
    (createExit c e = .ok ∨ createExit c e = .err ∨ createExit c e = .usage) ∧
    ((createExit c e).code = 0 ↔ createExit c e = .ok) := by
  have hcode : ∀ x : Exit, x.code = 0 ↔ x = .ok := by intro x; cases x <;> simp [Exit.code]
  refine ⟨?_, ?_, hcode _⟩
  · intro h
    unfold createExit at h
    cases hd : createDispatch c with
    | usage => rw [hd] at h; cases h
    | reject w => rw [hd] at h; cases h
    | cppFfi => have := (dispatch_cppFfi hd).2; rw [hfeat] at this; cases this
    | streaming s n =>
      rw [hd] at h
      dsimp only at h
      obtain ⟨h1, h2, h3, h4, h5, h6, h7, h8, h9⟩ := dispatch_streaming hd
      have hi : e.inputsOk = true := by
        cases hh : e.inputsOk <;> simp [hh] at h ⊢
      have ho : e.outputCreatable = true := by
        cases hh : e.outputCreatable <;> simp [hi, hh] at h ⊢
      have hf : e.finalizeOk = true := by
        cases hh : e.finalizeOk <;> simp [hi, ho, hh] at h ⊢
      exact ⟨h1, by omega, h5, h6, h7, h4, h3, ⟨n, h8, by rw [h9]⟩, hi, ho, hf⟩
  · unfold createExit
    cases createDispatch c with
    | usage => right; right; rfl
    | reject w => right; left; rfl
    | cppFfi => dsimp only; cases e.ffiOk <;> simp
    | streaming s n =>
      dsimp only
      cases e.inputsOk <;> cases e.outputCreatable <;> cases e.finalizeOk <;> simp

example : createExit ⟨true, 3, 0, false, false, false, false, [50, 71], none, false⟩ ⟨true, true, true, true⟩
    = .ok ∧
    createDispatch ⟨true, 3, 0, false, false, false, false, [50, 71], none, false⟩
    = .streaming false 2147483648 := by decide

/-- Each unsupported flag (combination) alone is enough for a non-zero exit status, whatever the
other flags and the environment are. -/
theorem create_unsupported_nonzero (c : CreateArgs) (e : CreateEnv) (hfeat : c.cppFeature = false)
    (h : c.batch = true ∨ c.adaptive = true ∨ c.concatenated = true ∨ c.cppAgc = true ∨
      c.threads = some 0 ∨ parseCapacity c.queueCapacity = none ∨ c.nInputs = 0 ∨
      c.outputGiven = false ∨ e.inputsOk = false ∨ e.outputCreatable = false ∨
      e.finalizeOk = false) :
    (createExit c e).code ≠ 0 := by
  obtain ⟨hok, _, hcode⟩ := create_dispatch_total c e hfeat
  rw [Ne, hcode]
  intro hx
  obtain ⟨h1, h2, h3, h4, h5, h6, h7, ⟨n, h8, _⟩, h9, h10, h11⟩ := hok hx
  rcases h with h | h | h | h | h | h | h | h | h | h | h
  · rw [h3] at h; cases h
  · rw [h4] at h; cases h
  · rw [h5] at h; cases h
  · rw [h6] at h; cases h
  · exact h7 h
  · rw [h8] at h; cases h
  · omega
  · rw [h1] at h; cases h
  · rw [h9] at h; cases h
  · rw [h10] at h; cases h
  · rw [h11] at h; cases h

example : (createExit ⟨true, 2, 1, false, false, true, false, [50, 71], some 4, false⟩ ⟨true, true, true, true⟩).code
    = 1 := by decide

/-- `parse_capacity` on the suffix forms: `<n>K`, `<n>M`, `<n>G` (either case, surrounding blanks
allowed) give `n·1024`, `n·1024²`, `n·1024³` when the product fits 64 bits and an error otherwise;
a plain number is taken as bytes. -/
theorem parseCapacity_examples :
    parseCapacity [50, 71] = some 2147483648 ∧
    parseCapacity [32, 53, 107, 32] = some 5120 ∧
    parseCapacity [53, 49, 50, 77] = some 536870912 ∧
    parseCapacity [52, 48, 48, 48] = some 4000 ∧
    parseCapacity [43, 55] = some 7 ∧
    parseCapacity [49, 55, 49, 55, 57, 56, 54, 57, 49, 56, 51, 71] = some (17179869183 * 1024 ^ 3) ∧
    parseCapacity [49, 55, 49, 55, 57, 56, 54, 57, 49, 56, 52, 71] = none ∧
    parseCapacity [] = none ∧ parseCapacity [71] = none ∧ parseCapacity [49, 46, 53, 71] = none ∧
    parseCapacity [45, 49] = none ∧ parseCapacity [120] = none := by
  decide

end Ragc.Props.C17
