import RagcModel.Lemmas.Container
/-!
C14 — a partially written (or otherwise malformed) archive is rejected cleanly: container level.

`openBytes env bs` is `Archive::open` (input mode) on a file with contents `bs`, with outcomes
`ok | err | panic site | alloc n` (`alloc n`: a buffer of `n > |bs|` bytes is requested), in the
dev/test reading (`env.checked = true`, overflow checks panic) and the release reading
(`env.checked = false`, wrap-around). `env.seekMax` is the largest offset `lseek` accepts.

Full statement — FALSE for the code as it stands (defect D3), witnesses below:

    theorem open_total (env : Env) (bs : List Nat) :
        openBytes env bs = .err ∨ ∃ r, openBytes env bs = .ok r

(`alloc` is excluded by this statement, i.e. every buffer the open allocates is at most `|bs|`.)
-/
namespace Ragc.Props.C14
open Ragc.Varint Ragc.Container

/-- Negation witness, dev/test profile: an 8-byte file whose length field says 1.
`file_size - 8 - footer_size = 0 - 1` panics at archive.rs:382. -/
theorem open_total_false_checked :
    openBytes Env.dev [1, 0, 0, 0, 0, 0, 0, 0] = .panic "archive.rs:382" := by decide

/-- Negation witness, release profile: eight `0xFF` bytes. The wrapped footer offset is 1, the seek
succeeds and `vec![0u8; 2^64-1]` is requested (Rust: "capacity overflow" panic). -/
theorem open_total_false_release :
    openBytes Env.release (List.replicate 8 255) = .alloc (2 ^ 64 - 1) := by decide

/-- Negation witness on a real truncation, dev/test profile: the archive written by
`register "a"; add_part(0, [1,2,3], 5); close` (23 bytes, `arch-run r,61;a,0,010203,5`), cut after
12 bytes, panics at archive.rs:382; so does almost every other strict prefix of ≥ 8 bytes. -/
theorem truncation_panics_checked :
    openBytes Env.dev
      ([1, 5, 1, 2, 3, 1, 1, 97, 0, 1, 1, 0, 0, 1, 3, 10, 0, 0, 0, 0, 0, 0, 0].take 12)
      = .panic "archive.rs:382" := by decide

/-- The same truncation in the release profile happens to be rejected (the wrapped offset is
≥ 2^63 and `lseek` fails) … -/
theorem truncation_err_release :
    openBytes Env.release
      ([1, 5, 1, 2, 3, 1, 1, 97, 0, 1, 1, 0, 0, 1, 3, 10, 0, 0, 0, 0, 0, 0, 0].take 12)
      = .err := by decide

/-- … but not every truncation is: the archive `register "a"; add_part(0, [1], u64::MAX); close`
cut after 9 bytes ends in eight `0xFF` bytes (the metadata varint) and requests a buffer of
2^64-1 bytes in the release profile. -/
theorem truncation_allocs_release :
    openBytes Env.release
      ([8, 255, 255, 255, 255, 255, 255, 255, 255, 1, 1, 1, 97, 0, 1, 1, 0, 0, 1, 1,
        10, 0, 0, 0, 0, 0, 0, 0].take 9)
      = .alloc (2 ^ 64 - 1) := by decide

set_option maxRecDepth 8192 in
/-- Second panic site, dev/test profile only: a well-framed footer whose first varint has length
byte 255 overflows `no_bytes + 1` (u8) at varint.rs:58. -/
theorem varint_count_panics_checked :
    openBytes Env.dev (255 :: List.replicate 255 0 ++ [0, 1, 0, 0, 0, 0, 0, 0])
      = .panic "varint.rs:58" := by decide

/-- Garbage-sized part buffer: a well-formed 23-byte file whose directory claims a part of 2^40
bytes opens fine, and reading that part requests a 1 TiB buffer (archive.rs:317), in both
profiles. -/
theorem part_alloc_unchecked :
    ∃ r, openBytes Env.release [0, 1, 1, 0, 1, 1, 0, 0, 6, 1, 0, 0, 0, 0, 0, 14, 0, 0, 0, 0, 0, 0, 0]
        = .ok r ∧ getPartById Env.release r 0 0 = .alloc (2 ^ 40) ∧
        getPartById Env.dev r 0 0 = .alloc (2 ^ 40) := by
  refine ⟨⟨[0, 1, 1, 0, 1, 1, 0, 0, 6, 1, 0, 0, 0, 0, 0, 14, 0, 0, 0, 0, 0, 0, 0],
    [⟨[], 0, [⟨0, 2 ^ 40⟩]⟩], [0]⟩, by decide, by decide, by decide⟩

/-- The clause "a strict prefix never opens" cannot hold for this format (no magic number, no
checksum) whatever range checks are added: the archive written by
`register "a"; add_part(0, [0,1,0,0,0,0,0,0,0,0xff], 5); flush; close` (30 bytes), cut after 11
bytes, *is* a well-formed archive with zero streams (length field 1, footer `[0]`). Accepted by
the code as it stands in both profiles and by the repaired reader. -/
theorem prefix_accepted_witness :
    let bs := [1, 5, 0, 1, 0, 0, 0, 0, 0, 0, 0, 255, 1, 1, 97, 0, 1, 1, 0, 0, 1, 10,
      10, 0, 0, 0, 0, 0, 0, 0].take 11
    openBytes Env.release bs = .ok ⟨bs, [], []⟩ ∧ openBytes Env.dev bs = .ok ⟨bs, [], []⟩ ∧
    openBytesFixed (2 ^ 63 - 1) bs = .ok ⟨bs, [], []⟩ := by decide

/-- What does hold for the code as it stands. Hypothesis (exactly the missing range check): the
file is shorter than 8 bytes, or its length field satisfies `footer_size + 8 ≤ file_size`. Then in
both profiles and on every file system the open is `err` or `ok` — no arithmetic panic at
archive.rs:382 and no buffer larger than the file — except, with overflow checks on, the
byte-count overflow of `read_varint` (varint.rs:58) on a length byte of 255. -/
theorem open_total_partial (env : Env) (bs : List Nat)
    (h : bs.length < 8 ∨ leVal (bs.drop (bs.length - 8)) + 8 ≤ bs.length) :
    openBytes env bs = .err ∨ (∃ r, openBytes env bs = .ok r) ∨
      (env.checked = true ∧ openBytes env bs = .panic "varint.rs:58") := by
  have hs := safe_openBytes env bs h
  cases ho : openBytes env bs with
  | ok r => exact Or.inr (Or.inl ⟨r, rfl⟩)
  | err => exact Or.inl rfl
  | panic s => rw [ho] at hs; obtain ⟨h1, rfl⟩ := hs; exact Or.inr (Or.inr ⟨h1, rfl⟩)
  | alloc n => rw [ho] at hs; exact absurd hs (by simp [Safe])

/-- Non-vacuity: a complete archive meets the hypothesis (and opens); so does a 5-byte file. -/
example : let bs := [1, 5, 1, 2, 3, 1, 1, 97, 0, 1, 1, 0, 0, 1, 3, 10, 0, 0, 0, 0, 0, 0, 0]
    (bs.length < 8 ∨ leVal (bs.drop (bs.length - 8)) + 8 ≤ bs.length) ∧
    openBytes Env.dev bs = .ok ⟨bs, [⟨[97], 0, [⟨0, 3⟩]⟩], [0]⟩ := by decide

/-- Release profile: under the same hypothesis the open is `err` or `ok`, nothing else. -/
theorem open_total_release_partial (seekMax : Nat) (bs : List Nat)
    (h : bs.length < 8 ∨ leVal (bs.drop (bs.length - 8)) + 8 ≤ bs.length) :
    openBytes ⟨false, seekMax⟩ bs = .err ∨ ∃ r, openBytes ⟨false, seekMax⟩ bs = .ok r := by
  rcases open_total_partial ⟨false, seekMax⟩ bs h with h | h | ⟨h, _⟩
  · exact Or.inl h
  · exact Or.inr h
  · cases h

example : openBytes ⟨false, 2 ^ 44⟩ [0, 0, 0, 0, 0, 0, 0, 0, 0] = .err := by decide

/-- **The repaired reader is total**: for ALL byte strings and every file system, `openBytesFixed`
(footer_size ≤ file_size - 8 checked before the subtraction; every part `offset + size ≤
file_size`; `read_varint` counting in `usize`) returns `ok` or `err` — no panic, no buffer larger
than the file. -/
theorem openFixed_total (seekMax : Nat) (bs : List Nat) :
    openBytesFixed seekMax bs = .err ∨ ∃ r, openBytesFixed seekMax bs = .ok r :=
  (safe_false_iff _).mp (safe_openBytesFixed seekMax bs)

set_option maxRecDepth 8192 in
/-- The witnesses above are rejected by the repaired reader (the 255-length varint no longer
panics: it decodes to 0 streams, an empty archive); a complete archive still opens. -/
example : openBytesFixed (2 ^ 63 - 1) [1, 0, 0, 0, 0, 0, 0, 0] = .err ∧
    openBytesFixed (2 ^ 63 - 1) (List.replicate 8 255) = .err ∧
    openBytesFixed (2 ^ 63 - 1) (255 :: List.replicate 255 0 ++ [0, 1, 0, 0, 0, 0, 0, 0])
      = .ok ⟨255 :: List.replicate 255 0 ++ [0, 1, 0, 0, 0, 0, 0, 0], [], []⟩ ∧
    openBytesFixed (2 ^ 63 - 1)
      [0, 1, 1, 0, 1, 1, 0, 0, 6, 1, 0, 0, 0, 0, 0, 14, 0, 0, 0, 0, 0, 0, 0] = .err ∧
    (∃ r, openBytesFixed (2 ^ 63 - 1)
      [1, 5, 1, 2, 3, 1, 1, 97, 0, 1, 1, 0, 0, 1, 3, 10, 0, 0, 0, 0, 0, 0, 0] = .ok r) := by
  refine ⟨by decide, by decide, by decide, by decide,
    ⟨⟨[1, 5, 1, 2, 3, 1, 1, 97, 0, 1, 1, 0, 0, 1, 3, 10, 0, 0, 0, 0, 0, 0, 0], [⟨[97], 0, [⟨0, 3⟩]⟩], [0]⟩,
      by decide⟩⟩

/-- … and so is every later read on a handle it returned: `get_part_by_id` and `get_part` (at any
cursor position, after any earlier reads) return `ok` or `err` and allocate at most `|bs|`. -/
theorem openFixed_reads_total (seekMax : Nat) (bs : List Nat) (r : Reader)
    (h : openBytesFixed seekMax bs = .ok r) (r' : Reader)
    (hr' : r'.file = r.file ∧ r'.dir = r.dir) (sid pid : Nat) :
    (getPartByIdFixed seekMax r' sid pid = .err ∨ ∃ b, getPartByIdFixed seekMax r' sid pid = .ok b) ∧
    ((getPartFixed seekMax r' sid).2 = .err ∨ ∃ b, (getPartFixed seekMax r' sid).2 = .ok b) ∧
    (getPartFixed seekMax r' sid).1.file = r.file ∧ (getPartFixed seekMax r' sid).1.dir = r.dir := by
  obtain ⟨hf, hp⟩ := openBytesFixed_ok h
  have hr : partsInFile r'.file.length r'.dir = true := by rw [hr'.1, hr'.2, hf]; exact hp
  have hg := getPartFixed_spec (seekMax := seekMax) hr sid
  exact ⟨(safe_false_iff _).mp (safe_getPartByIdFixed hr sid pid), (safe_false_iff _).mp hg.1,
    hg.2.1.trans hr'.1, hg.2.2.trans hr'.2⟩

example : ∃ r, openBytesFixed (2 ^ 63 - 1)
      [1, 5, 1, 2, 3, 1, 1, 97, 0, 1, 1, 0, 0, 1, 3, 10, 0, 0, 0, 0, 0, 0, 0] = .ok r ∧
    getPartByIdFixed (2 ^ 63 - 1) r 0 0 = .ok ([1, 2, 3], 5) :=
  ⟨⟨[1, 5, 1, 2, 3, 1, 1, 97, 0, 1, 1, 0, 0, 1, 3, 10, 0, 0, 0, 0, 0, 0, 0], [⟨[97], 0, [⟨0, 3⟩]⟩], [0]⟩,
    by decide, by decide⟩

end Ragc.Props.C14
