import RagcModel.Gen.Tables
import RagcModel.Lemmas.Roundtrip
import RagcModel.Props.C02
import RagcModel.Props.C07
import RagcModel.Props.C09
import RagcModel.Props.C10
import RagcModel.Props.C12
import RagcModel.Lemmas.WriterBases
import RagcModel.Lemmas.WriterSamples
import RagcModel.Lemmas.WriterMain
/-!
# C01 — lossless round trip: create then extract returns every sample exactly

The writer is modelled in layers whose interfaces are ordinary data, and the theorems compose the
layers that carry the *bases* of one contig from the input to the reader:

  segmentation (C10)  →  split decisions  →  orientation flags  →  storage form
      (raw entry | reference part | LZ entry; pack layout; part framing; ZSTD as a parameter)
  →  the reader's inverse of each (C12, C09, C02 `unpack_pack`)  →  undo orientation (C07)
  →  `reconstruct_contig` (C07).

The writer's grouping HEURISTICS — which group a piece joins (hence which reference it is encoded
against), whether it is stored reverse-complemented, whether and where a segment is split, which
other entries share its pack, tuple packing or not — are **universally quantified decisions**, not
modelled algorithms: `contig_roundtrip` holds for every value they could return.

What remains outside these theorems, and what covers it:

* the catalogue (sample / contig names, descriptor tables, 50-sample batches): C03;
* the container (stream directory, part offsets): C13 (and C14 for damaged files);
* id ↦ (pack, entry) bookkeeping of `flush_pack_compress_only`: `Props.C02.packs_addressing`;
* FASTA parsing and letter ↔ code mapping: C19/C16;
* that the real writer's decisions are inside the quantified range and that the glue between the
  layers (registration of each piece under the descriptor that points at its entry) is what the
  model says: not proved; it is checked on every generated archive by the independent decoder's
  `violations` (C02 harness) and by the oracle extract = input (C01 harness).

## The reference writer and the end-to-end statement

`Model/Writer.lean` defines `writeArchive cfg inp dec zc`, a whole-archive reference writer composed
from the layer models, with every heuristic / scheduling choice of the compressor as data
(`Decisions`), and the decidable `DecisionsOK`. The C02 harness shows that every real archive it
generates IS an instance: the decisions read off the archive make `writeArchive` reproduce the file
byte for byte. Proved about it (last section of this file and of `Props/C02.lean`), for ALL
decisions, all inputs over the literal codes, every `k ≥ 1`:

* `pieces_tile`: the piece lengths accepted by `DecisionsOK` cut each contig into a `k`-overlap tiling;
* `Props.C02.container_returns_every_part`, `group_roundtrip`, `read_write_segments`;
* `read_write_bases`: for well-formed decisions, from the group table the decoder builds
  (`group_roundtrip`), `decodeContig` on the descriptors the writer registers returns every
  contig's bases and reports no violation (`addressing`, `raw-length`, `segment-shorter-than-k`);
* `read_write_samples`: the decoder's last stage returns all samples with the input's catalogue
  and bases and no violation.

* **`read_write`** (end of this file): the END-TO-END theorem — for well-formed decisions, any ZSTD
  with the two C12 facts, inputs over the literal codes: the independent decoder reads the bytes of
  the reference writer and returns exactly the input's catalogue and bases with an empty list of
  breached format rules. The stages are theorems of their own in `Props/C02.lean`
  (`read_write_container`, `read_write_catalogue`, `read_write_groups`) and here
  (`read_write_samples`).
-/
namespace Ragc.Props.C01
open Ragc.Segment Ragc.Range Ragc.Packs Ragc.Roundtrip

/-! ## orientation -/

/-- `rc^f (rc^f d) = d` for the decompressor's rule, on arbitrary codes (IUPAC codes, the
unknown-letter code 30, anything a byte can hold): what the reader does to a segment stored with
flag `f` undoes what the writer did. -/
theorem orientation_roundtrip (f : Bool) (d : List Nat) : orient f (orient f d) = d :=
  orient_involutive f d

example : orient true (orient true [0, 1, 2, 3, 4, 11, 30]) = [0, 1, 2, 3, 4, 11, 30] ∧
    orient true [0, 1, 2, 3, 4, 11, 30] = [30, 11, 4, 0, 1, 2, 3] := by decide

/-- The writer's `reverse_complement_sequence` (used on split halves and whole-segment
re-assignment) is the same function as the reader's `reverse_complement_segment`. (Before the
repair of defect D1 it mapped every code ≥ 4 to 4 and this statement was false: `[5] ↦ [4]`.) -/
theorem writer_rc_is_reader_rc (s : List Nat) :
    reverseComplementSequence s = reverseComplementSegment s := rfl

example : reverseComplementSequence [5, 0] = [3, 5] := by decide

/-! ## splitting -/

/-- `split_segment_at_position`: the halves are `data[..s+k]` and `data[s..]` for
`s = split_pos.saturating_sub((k+1)/2)`, and the call panics exactly when `s + k > len`. -/
theorem split_at_position_spec (data : List Nat) (pos k : Nat) :
    splitSegmentAtPosition data pos k =
      if pos - (k + 1) / 2 + k ≤ data.length then
        some (data.take (pos - (k + 1) / 2 + k), data.drop (pos - (k + 1) / 2))
      else none := rfl

example : splitSegmentAtPosition [0, 1, 2, 3, 0, 1, 2, 3, 0, 1] 5 3 = some ([0, 1, 2, 3, 0, 1], [3, 0, 1, 2, 3, 0, 1]) := by
  decide

/-- **Splitting preserves the tiling.** Take any tiling of a contig into `k`-overlapping pieces
and any piece `p` of it (in contig orientation). Let the writer hold it in either stored
orientation (`should_reverse` arbitrary), split it with `split_segment_at_position` at ANY position
for which that call does not panic, re-orient each half by ANY pair of flags and number the parts
as the code does (swapped when `should_reverse`). Then what the reader makes of the two buffered
halves (undo each flag, order by part number), put in place of `p`, is again a tiling of the same
contig. -/
theorem split_at_position_tiles (k : Nat) (c : List Nat) (pre post : List (List Nat)) (p : List Nat)
    (pos : Nat) (sr lf rf : Bool) (hs : Half × Half)
    (ht : Tiles k c (pre ++ p :: post))
    (h : splitStored (orient sr p) pos k sr lf rf = some hs) :
    Tiles k c (pre ++ readHalves hs ++ post) := by
  obtain ⟨h1, h2⟩ := hs
  obtain ⟨s, hle, hp0, hp1, hd0, hd1⟩ := splitStored_spec p pos k sr lf rf h1 h2 h
  have hread : readHalves (h1, h2) = [p.take (s + k), p.drop s] := by
    unfold readHalves readOriented
    cases sr with
    | false =>
      simp only [Bool.false_eq_true, if_false] at hp0 hp1 hd0 hd1
      simp only [hp0, hp1, Nat.zero_le, if_true, hd0, hd1]
      have e1 := orient_involutive h1.rev (p.take (s + k))
      have e2 := orient_involutive h2.rev (p.drop s)
      unfold orient at e1 e2 ⊢
      rw [e1, e2]
    | true =>
      simp only [if_true] at hp0 hp1 hd0 hd1
      simp only [hp0, hp1, hd0, hd1]
      have e1 := orient_involutive h2.rev (p.take (s + k))
      have e2 := orient_involutive h1.rev (p.drop s)
      unfold orient at e1 e2 ⊢
      rw [e1, e2]
      simp
  rw [hread]
  have := tiles_split k c s p pre post hle ht
  simpa using this

-- a piece of 10 symbols held reverse-complemented, split at position 5 with k = 3, both halves
-- re-oriented again: the reader sees the two overlapping halves in contig order
example :
    (splitStored (orient true [0, 1, 2, 3, 0, 1, 2, 3, 0, 1]) 5 3 true false false).map readHalves
      = some [[0, 1, 2, 3, 0, 1, 2], [0, 1, 2, 3, 0, 1]] := by decide

/-! ## storage forms -/

/-- **Each storage form reads back as the identity.** For any ZSTD with the two C12 facts, any
piece `x` (non-empty, codes inside the LZ literal range — ragc's codes 0..15, 30 are, see
`Props.C09.ragc_codes_ok`), stored as a raw-group entry (with or without the placeholder, among any
splittable neighbours), as a reference part (tuple-packed or plain, compressed or raw fallback),
or as an LZ entry against ANY reference with ANY candidate supplier for which the encoder answers:
unframing the part by its metadata, splitting the pack, taking the addressed entry and LZ-decoding
returns `x`. Composition of C12 (`stored_pack_roundtrip`, `ref_roundtrip`), C02 (`unpack_pack`,
`lz_entry_decodes`) and C09. -/
theorem storage_form_roundtrip (zc : Nat → List Nat → List Nat) (zd : List Nat → Option (List Nat))
    (hz : ∀ l x, zd (zc l x) = some x) (hne : ∀ l x, zc l x = [] → x = [])
    (mm level : Nat) (fm : Form) (x : List Nat)
    (hx : x ≠ []) (hc : ∀ b ∈ x, b ≤ Ragc.Gen.lzLiteralSpan) (hok : fm.OK mm x) :
    storeRead zc zd mm level fm x = some x := by
  have hspan : Ragc.Gen.lzLiteralSpan < 255 := by decide
  cases fm with
  | raw ph b a =>
    obtain ⟨hb, ha⟩ := hok
    have hxs : 255 ∉ x := fun hm => by have := hc 255 hm; omega
    have hall : ∀ e ∈ b ++ x :: a, 255 ∉ e := by
      intro e he
      simp only [List.mem_append, List.mem_cons] at he
      rcases he with he | he | he
      · exact hb e he
      · subst he; exact hxs
      · exact ha e he
    unfold storeRead writePack
    simp only []
    rw [Ragc.Props.C12.stored_pack_roundtrip zc zd hz hne level]
    simp only [Option.bind_some]
    cases ph with
    | false =>
      simp only [Bool.false_eq_true, if_false, Nat.add_zero]
      rw [Ragc.Props.C02.unpack_pack _ _ hall (by simp)]
      simp
    | true =>
      simp only [if_true]
      have := (Ragc.Props.C02.unpack_pack_raw (b ++ x :: a) b.length hall (by simp)).2
      rw [this]
      simp
  | ref t =>
    unfold storeRead
    simp only []
    exact Ragc.SegCompress.unframe_frame zd _ _ x (Ragc.Props.C12.ref_roundtrip zc zd hz hne t x)
  | lz S r b a =>
    obtain ⟨hb, ha, hsome⟩ := hok
    unfold storeRead
    cases henc : Ragc.Model.LzDiff.encode S mm r x with
    | none => rw [henc] at hsome; cases hsome
    | some enc =>
      simp only []
      obtain ⟨hdec, _, hno⟩ := Ragc.Props.C02.lz_entry_decodes S mm r x enc hc hx henc
      have hall : ∀ e ∈ b ++ enc :: a, 255 ∉ e := by
        intro e he
        simp only [List.mem_append, List.mem_cons] at he
        rcases he with he | he | he
        · exact hb e he
        · subst he; exact hno
        · exact ha e he
      unfold writePack
      simp only [henc, Bool.false_eq_true, if_false]
      rw [Ragc.Props.C12.stored_pack_roundtrip zc zd hz hne level]
      simp only [Option.bind_some]
      rw [Ragc.Props.C02.unpack_pack _ _ hall (by simp)]
      simp [hdec]

private def zcToy : Nat → List Nat → List Nat := fun l x => l :: x
private def zdToy : List Nat → Option (List Nat) := fun c => some c.tail

example : storeRead zcToy zdToy 5 17 (.raw true [[1, 2]] [[3]]) [0, 1, 2, 3, 30]
    = some [0, 1, 2, 3, 30] :=
  storage_form_roundtrip zcToy zdToy (fun _ _ => rfl) (fun _ _ h => by simp [zcToy] at h) 5 17 _ _
    (by decide) (by decide) ⟨by unfold NoSep; decide, by unfold NoSep; decide⟩
example : storeRead zcToy zdToy 5 17 (.ref true) [0, 1, 2, 3, 0, 1, 2, 3, 0] = some [0, 1, 2, 3, 0, 1, 2, 3, 0] :=
  storage_form_roundtrip zcToy zdToy (fun _ _ => rfl) (fun _ _ h => by simp [zcToy] at h) 5 17 _ _
    (by decide) (by decide) trivial

/-! ## the composition -/

/-- **C01 for the bases of one contig.** For every contig over the LZ literal codes, every
`k ≥ 1`, every splitter predicate and either segmenter (`ws`), with any window tracker satisfying
the C10 window condition (the real `Kmer` does, `Props.C10` part 2):

1. segment the contig with C10's model;
2. apply ANY list of split decisions `(piece index, start of the right half)` — each is applied when
   it is in the range where `split_segment_at_position` does not panic (see
   `split_at_position_tiles` for the orientation / part-number bookkeeping of a split), halves may
   be split again;
3. give every resulting piece ANY orientation flag and ANY storage form (`choices`): raw entry,
   reference part, or LZ entry against any reference — with any neighbours in its pack;
4. write, read back as the format says, undo the orientation flag: every piece comes back
   (`mapM readBack = some pieces`), and
5. `reconstruct_contig` on the read pieces (with descriptors `raw_length` = decoded length, as the
   writer registers them) returns exactly the input contig.

`zc`/`zd` is any ZSTD with the two facts of C12. -/
theorem contig_roundtrip (zc : Nat → List Nat → List Nat) (zd : List Nat → Option (List Nat))
    (hz : ∀ l x, zd (zc l x) = some x) (hne : ∀ l x, zc l x = [] → x = [])
    (mm level : Nat)
    {σ : Type} {T : Tracker σ} {k : Nat} {R : σ → Nat → Prop} (hT : T.Window k R) (init : σ)
    (h0 : R init 0) (isSplitter : UInt64 → Bool) (ws : Bool) (contig : List UInt8) (hk : 1 ≤ k)
    (hcne : contig ≠ []) (hcodes : ∀ b ∈ contig, b.toNat ≤ Ragc.Gen.lzLiteralSpan)
    (segs : List Segment) (hseg : splitGeneric T init isSplitter ws k contig = some segs)
    (splits : List (Nat × Nat)) (choices : List (Bool × Form))
    (pieces : List (List Nat))
    (hpieces : pieces = applySplits k (segs.map fun s => s.data.map UInt8.toNat) splits)
    (hlen : choices.length = pieces.length)
    (hok : ∀ i (h : i < choices.length), choices[i].2.OK mm (orient choices[i].1 (pieces[i]'(by omega)))) :
    (List.zip choices pieces).mapM (readBack zc zd mm level) = some pieces ∧
      reconstruct k (pieces.map fun d => (⟨d.length, d⟩ : Seg)) = some (contig.map UInt8.toNat) := by
  -- the logical pieces tile the contig
  have ht0 := Ragc.Props.C10.split_tiles hT init h0 isSplitter ws contig hk segs hseg
  have ht1 := tiles_map UInt8.toNat k contig _ ht0
  have hmm : (segs.map Segment.data).map (List.map UInt8.toNat)
      = segs.map fun s => s.data.map UInt8.toNat := by
    simp [List.map_map, Function.comp_def]
  rw [hmm] at ht1
  have ht : Tiles k (contig.map UInt8.toNat) pieces := by
    rw [hpieces]; exact applySplits_tiles k _ splits _ ht1
  have hcne' : contig.map UInt8.toNat ≠ [] := by simpa using hcne
  have hpne := Ragc.Segment.tiles_nonempty k hk _ _ ht hcne'
  have hpc : ∀ p ∈ pieces, ∀ x ∈ p, x ≤ Ragc.Gen.lzLiteralSpan := by
    intro p hp x hx
    have := tiles_mem k _ _ ht p hp x hx
    obtain ⟨b, hb, rfl⟩ := List.mem_map.mp this
    exact hcodes b hb
  refine ⟨?_, ?_⟩
  · -- every piece is read back
    have hsnd : (List.zip choices pieces).map Prod.snd = pieces := by
      rw [List.map_snd_zip]; omega
    rw [mapM_some_of_forall (readBack zc zd mm level) Prod.snd, hsnd]
    intro x hx
    obtain ⟨i, hi, rfl⟩ := List.getElem_of_mem hx
    simp only [List.length_zip] at hi
    have hic : i < choices.length := by omega
    have hip : i < pieces.length := by omega
    simp only [List.getElem_zip]
    unfold readBack
    simp only []
    have hp := pieces[i]
    have hmem : pieces[i] ∈ pieces := List.getElem_mem hip
    have hx1 : orient choices[i].1 pieces[i] ≠ [] := by
      intro hc
      have := congrArg List.length hc
      rw [orient_length] at this
      exact hpne _ hmem (List.eq_nil_of_length_eq_zero this)
    have hx2 : ∀ b ∈ orient choices[i].1 pieces[i], b ≤ Ragc.Gen.lzLiteralSpan :=
      orient_mem_le _ _ _ (by decide) (hpc _ hmem)
    rw [storage_form_roundtrip zc zd hz hne mm level _ _ hx1 hx2 (hok i hic)]
    simp [orient_involutive]
  · -- and the reader's re-assembly gives the contig
    have hlater : ∀ s ∈ (pieces.map fun d => (⟨d.length, d⟩ : Seg)).tail, k ≤ s.data.length := by
      cases hpz : pieces with
      | nil => intro s hs; simp at hs
      | cons p ps =>
        rw [hpz] at ht
        intro s hs
        simp only [List.map_cons, List.tail_cons, List.mem_map] at hs
        obtain ⟨d, hd, rfl⟩ := hs
        exact Ragc.Segment.tilesFrom_later_ge k _ ps _ ht.2.2 d hd
    rw [Ragc.Props.C07.reconstruct_eq_full k _ hlater, full_eq_reassemble,
      Ragc.Segment.reassemble_of_tiles k _ _ ht]

/-- Non-vacuity: the `k = 3` example contig of C10 (`ACAN CCACGGGACT`, with an `N`), segmented at
its three splitters by the real `Kmer` tracker, first segment split again at 2, the four pieces
stored reverse-complemented / forward as raw entries (with and without placeholder) and as
tuple-packed / plain references. -/
private def exPieces : List (List Nat) :=
  [[0, 1, 0, 4, 1], [0, 4, 1, 1, 0, 1, 2], [0, 1, 2, 2, 2, 0, 1], [2, 0, 1, 3]]
private def exChoices : List (Bool × Form) :=
  [(true, .raw true [] []), (false, .ref true), (true, .ref false), (false, .raw false [[7]] [])]

example : (List.zip exChoices exPieces).mapM (readBack zcToy zdToy 5 17) = some exPieces ∧
    reconstruct 3 (exPieces.map fun d => (⟨d.length, d⟩ : Seg)) = some (exContig.map UInt8.toNat) :=
  contig_roundtrip zcToy zdToy (fun _ _ => rfl) (fun _ _ h => by simp [zcToy] at h) 5 17
    (kmer_window 3) _ (kmer_init 3) exSpl true exContig (by decide) (by decide) (by decide)
    exSegsWs ex_ws_generic [(0, 2)] exChoices exPieces (by decide) (by decide)
    (by
      intro i h
      match i, h with
      | 0, _ => exact ⟨by unfold NoSep; decide, by unfold NoSep; decide⟩
      | 1, _ => trivial
      | 2, _ => trivial
      | 3, _ => exact ⟨by unfold NoSep; decide, by unfold NoSep; decide⟩
      | n + 4, h => exact absurd h (by simp [exChoices]))

example : exContig.map UInt8.toNat = [0, 1, 0, 4, 1, 1, 0, 1, 2, 2, 2, 0, 1, 3] ∧
    orient true [0, 1, 0, 4, 1] = [2, 4, 3, 2, 3] := by decide

/-! ### per-base reverse-complement rules translated from the source (translator tie)

`tools/gen_tables.py` translates, on every run, the per-base closures of the three places that
reverse-complement segment data — the worker's precomputed `data_rc`, the classifier's
`reverse_complement_sequence` (used on split halves) and the reader's
`reverse_complement_segment` — from the Rust text into `Ragc.Gen.*RcBase`. The theorem says all
three are the rule the model uses (`Range.complementBase`: complement A/C/G/T, keep every other
code). Before repair D1 the writer's rule was `kmerRcBase` (every code ≥ 4 ↦ 4) and this statement
was false (`writerRcBase 5 = 4`); a regression of that kind breaks this obligation. -/
theorem rc_rules_agree (b : Nat) :
    Ragc.Gen.writerRcBase b = Ragc.Range.complementBase b ∧
    Ragc.Gen.workerRcBase b = Ragc.Range.complementBase b ∧
    Ragc.Gen.readerRcBase b = Ragc.Range.complementBase b := by
  unfold Ragc.Gen.writerRcBase Ragc.Gen.workerRcBase Ragc.Gen.readerRcBase Ragc.Range.complementBase
  refine ⟨?_, ?_, ?_⟩ <;> (repeat' split) <;> omega

/-- the k-mer rule (`kmer.rs reverse_complement`) differs from it exactly on codes ≥ 4. -/
theorem kmer_rc_differs_on_iupac :
    (∀ b, b < 4 → Ragc.Gen.kmerRcBase b = Ragc.Range.complementBase b) ∧
    Ragc.Gen.kmerRcBase 5 = 4 ∧ Ragc.Range.complementBase 5 = 5 := by
  refine ⟨?_, by decide, by decide⟩
  intro b hb
  unfold Ragc.Gen.kmerRcBase Ragc.Range.complementBase
  (repeat' split) <;> omega

/-! ## the reference writer: pieces and bases -/

/-- The piece lengths that `DecisionsOK` accepts for a contig (`Writer.tilesB`) cut it into a
`k`-overlapping tiling: segmentation at splitters (C10 `split_tiles`) and every split of a segment
(`split_at_position_tiles`) produce such lengths, and nothing else is needed of them. -/
theorem pieces_tile (k : Nat) (c : List Nat) (lens : List Nat)
    (h : Ragc.Writer.tilesB k c.length lens = true) :
    Tiles k c (Ragc.Writer.cutPieces k c lens) ∧
      (Ragc.Writer.cutPieces k c lens).map List.length = lens :=
  ⟨Ragc.WriterLemmas.tiles_of_check k c lens h, Ragc.WriterLemmas.cutPieces_lengths0 k c lens h⟩

example : Ragc.Writer.tilesB 3 10 [6, 7] = true ∧
    Ragc.Writer.cutPieces 3 [0, 1, 2, 3, 0, 1, 2, 3, 0, 1] [6, 7] = [[0, 1, 2, 3, 0, 1], [3, 0, 1, 2, 3, 0, 1]] := by
  decide

open Ragc.Writer Ragc.WriterLemmas Ragc.Agc3 in
/-- **The bases of every contig come back.** For every configuration with `k ≥ 1`, every input
over the LZ literal codes, ALL well-formed decisions (`DecisionsOK`: any tiling of each contig, any
group / orientation per piece, any arrival order inside each group, any group creation order, any
tuple flags), and any `zc`: let `outs` be what the reference writer stores for the groups
(`writeGroups`, the first stage of `writeArchive`). If the decoder's group table `gds` holds, for
every group, what the group's plan says — which is what `decodeGroup` produces from the group's
two streams (`Props.C02.group_roundtrip`) — then for every contig of every sample, `decodeContig`
on the descriptors the writer registers for it (`descOf`: group, in-group id from the `Packs`
machine, flag, raw length) returns the SAME violation accumulator and exactly the contig's bases.

Composition of: the tiling (`pieces_tile`), the piece ↔ group consistency of `DecisionsOK`,
`read_write_segments` (C02 `packs_addressing`, C09), orientation (`orientation_roundtrip`) and
`reconstruct_contig` (C07). -/
theorem read_write_bases (cfg : Cfg) (inp : List Sample) (dec : Decisions) (zc : Nat → List Nat → List Nat)
    (outs : List GroupOut) (hok : DecisionsOK cfg inp dec) (hcodes : codesOK inp)
    (hw : writeGroups cfg zc (storedAll cfg.k inp dec) dec.groups = some outs)
    (gds : Array GroupD)
    (hgds : ∀ G ∈ dec.groups, ∀ datas P, G.members.mapM (lookup3 (storedAll cfg.k inp dec)) = some datas →
      planGroup cfg.minMatch G datas = some P → ∃ GD, Ragc.Agc3.findGroup gds G.id = some GD ∧ GDMatches GD P)
    (s c : Nat) (smp : Sample) (ctg : Contig) (dcs : List (List PieceDec)) (ds : List PieceDec)
    (h1 : inp[s]? = some smp) (h2 : smp.contigs[c]? = some ctg) (h3 : dec.pieces[s]? = some dcs)
    (h4 : dcs[c]? = some ds) (sampleName contigName : List Nat) (a : Acc) :
    decodeContig cfg.k cfg.minMatch gds sampleName a (contigName, ds.map (descOf outs))
      = (a, ⟨contigName, ds.map (descOf outs), ctg.data⟩) :=
  contig_bases cfg inp dec zc outs (decOK_of cfg inp dec hok) hcodes hw gds hgds s c smp ctg dcs ds
    h1 h2 h3 h4 sampleName contigName a

/-- Non-vacuity: one sample, a contig of 10 symbols cut into two 3-overlapping pieces (the first is
the reference of LZ group 16, the second joins raw group 0 reverse-complemented) and a contig of 3
symbols (raw group 0): the decisions are well formed, the input is over the codes, and the
reference writer stores the groups. -/
private def exCfg : Ragc.Writer.Cfg := ⟨3, 5, 10, 17⟩
private def exInp : List Ragc.Writer.Sample :=
  [⟨[83], [⟨[99], [0, 1, 2, 3, 0, 1, 2, 3, 0, 1]⟩, ⟨[100], [2, 4, 1]⟩]⟩]
private def exDec : Ragc.Writer.Decisions :=
  ⟨[[[⟨6, 16, 0, false⟩, ⟨7, 0, 0, true⟩], [⟨3, 0, 1, false⟩]]],
   [⟨16, false, [(0, 0, 0)]⟩, ⟨0, false, [(0, 0, 1), (0, 1, 0)]⟩]⟩

example : Ragc.Writer.DecisionsOK exCfg exInp exDec ∧ Ragc.Writer.codesOK exInp ∧
    (Ragc.Writer.writeGroups exCfg zcToy (Ragc.Writer.storedAll exCfg.k exInp exDec) exDec.groups).isSome = true ∧
    Ragc.Writer.catalogueOf exInp = [([83], [[99], [100]])] := by
  refine ⟨by decide, by decide, by decide, by decide⟩

open Ragc.Writer Ragc.WriterLemmas Ragc.Agc3 in
/-- **All samples come back: catalogue and bases.** Same hypotheses as `read_write_bases`. The
decoder's last stage `decodeSamples`, run on the sample names and on the per-sample tables
`contig name ↦ descriptors` that the writer's catalogue holds (`Writer.catalogue`, C03 gives these
tables back from the collection streams), returns the SAME violation accumulator and samples whose
catalogue is `catalogueOf inp` and whose bases are `basesOf inp` — exactly the last three
conjuncts of the target `read_write`, from the decoded catalogue and group table on. -/
theorem read_write_samples (cfg : Cfg) (inp : List Sample) (dec : Decisions) (zc : Nat → List Nat → List Nat)
    (outs : List GroupOut) (hok : DecisionsOK cfg inp dec) (hcodes : codesOK inp)
    (hw : writeGroups cfg zc (storedAll cfg.k inp dec) dec.groups = some outs)
    (gds : Array GroupD)
    (hgds : ∀ G ∈ dec.groups, ∀ datas P, G.members.mapM (lookup3 (storedAll cfg.k inp dec)) = some datas →
      planGroup cfg.minMatch G datas = some P → ∃ GD, Ragc.Agc3.findGroup gds G.id = some GD ∧ GDMatches GD P)
    (a : Acc) :
    ∃ samples : List DSample,
      decodeSamples cfg.k cfg.minMatch gds (inp.map (·.name))
        (List.zipWith (fun s dcs => tableOf outs s.contigs dcs) inp dec.pieces).toArray a = (a, samples.toArray) ∧
      samples.map (fun s => (s.name, s.contigs.map (·.name))) = catalogueOf inp ∧
      samples.map (fun s => s.contigs.map (·.bases)) = basesOf inp := by
  have hd := decOK_of cfg inp dec hok
  exact ⟨_, decodeSamples_ok cfg inp dec zc outs hd hcodes hw gds hgds a,
    (expected_samples cfg inp dec outs hd).1, (expected_samples cfg inp dec outs hd).2⟩

example : Ragc.Writer.basesOf exInp = [[[0, 1, 2, 3, 0, 1, 2, 3, 0, 1], [2, 4, 1]]] ∧
    Ragc.WriterLemmas.tableOf [⟨16, none, [], [0]⟩, ⟨0, none, [], [1, 2]⟩] (exInp.map (·.contigs)).flatten
      (exDec.pieces.flatten) =
      [([99], [⟨16, 0, false, 6⟩, ⟨0, 1, true, 7⟩]), ([100], [⟨0, 2, false, 3⟩])] := by decide

/-! ### the end-to-end theorem -/

open Ragc.Writer Ragc.Agc3 in
/-- **decode ∘ write = id.** For EVERY configuration, input and decision vector that is well
formed (`DecisionsOK cfg inp dec`, decidable: `k ≥ 1`; `k`, `min_match_len`, `segment_size` are
`u32` with `segment_size + k ≤ 2^31`; fewer than `2^32` samples / contigs per sample / pieces per
contig; names over the bytes 1..127; contigs non-empty and shorter than 4 GiB; the piece lengths
of every contig tile it with `k`-overlaps; group ids distinct `u32`s, every group has between 1 and
`2^31 - 2` members; pieces and groups point at each other), every input over the LZ literal codes
(`codesOK`: ragc's 0..15, 30, 32 are), and ANY ZSTD pair with the two facts of C12
(`zd ∘ zc = some`, frames never empty): if the reference writer answers (`writeArchive … = some
bs`: it does unless `min_match_len < 4`, a part/stream size leaves `u64`/`u32`, or the file
exceeds `2^63 - 1` bytes), then the INDEPENDENT decoder reads `bs` and

* its catalogue (sample names with their contig names, in order) is the input's,
* the bases of every contig are the input's,
* its list of breached format rules is EMPTY (C02: fixed streams, file version, params, batch
  sizes, stream names, one reference part per LZ group, metadata convention, pack cardinality,
  final separator, placeholder, unused groups, id ↦ (pack, entry) addressing, raw lengths, `≥ k`).

ALL decisions: any tiling of each contig (segmentation and splits), any group and orientation per
piece, any arrival order inside each group (the first member of an LZ group is its reference),
any group creation order, any tuple-packing flags. No bound `k ≥ 3` is needed: the independent
decoder has no "2-bit packed?" heuristic (that heuristic is in ragc's own reader, C08's business).
The hypotheses that the composition forced beyond the original brief are all inside `DecisionsOK`
(the C03 bounds: names 1..127, `u32` counts, ids below `2^31`, lengths below `2^32`).

Proof: `Props.C02.read_write_container` (C13) → fixed streams → `read_write_catalogue` (C03) →
`read_write_groups` (C12, C02 `packs_addressing`, pack splitter) → `read_write_samples`
(C09, C07, tiling). -/
theorem read_write (cfg : Cfg) (inp : List Sample) (dec : Decisions)
    (zc : Nat → List Nat → List Nat) (zd : List Nat → Option (List Nat)) (bs : List Nat)
    (hdec : DecisionsOK cfg inp dec) (hz : ∀ l x, zd (zc l x) = some x) (hne : ∀ l x, zc l x = [] → x = [])
    (hcodes : codesOK inp) (hw : writeArchive cfg inp dec zc = some bs) :
    ∃ d, decodeArchive bs zd = .ok d ∧ d.catalogue = catalogueOf inp ∧ d.bases = basesOf inp ∧
      d.violations = [] := by
  obtain ⟨d, h1, h2, h3, h4, _⟩ := Ragc.WriterLemmas.read_write_main cfg inp dec zc zd bs hdec hz hne hcodes hw
  exact ⟨d, h1, h2, h3, h4⟩

/-- Non-vacuity, evaluated: two samples; `k = 3`, `min_match_len = 10`. Sample `A` has a contig of
10 symbols cut into two 3-overlapping pieces and a contig of 3 symbols (with an `N`); sample `B`
has a contig that differs from `A`'s in one base. LZ group 16 holds the first piece of `A` (its
reference) and the first piece of `B` (a real delta, `ABCCAB`); raw group 0 holds the other three
pieces, one of them stored reverse-complemented. Toy ZSTD `zc l x = l :: x`, `zd = tail`. -/
private def exCfg2 : Ragc.Writer.Cfg := ⟨3, 10, 10, 17⟩
private def exInp2 : List Ragc.Writer.Sample :=
  [⟨[65], [⟨[99], [0, 1, 2, 3, 0, 1, 2, 3, 0, 1]⟩, ⟨[100], [2, 4, 1]⟩]⟩,
   ⟨[66], [⟨[99], [0, 1, 2, 2, 0, 1, 2, 3, 0, 1]⟩]⟩]
private def exDec2 : Ragc.Writer.Decisions :=
  ⟨[[[⟨6, 16, 0, false⟩, ⟨7, 0, 0, true⟩], [⟨3, 0, 1, false⟩]], [[⟨6, 16, 1, false⟩, ⟨7, 0, 2, false⟩]]],
   [⟨16, false, [(0, 0, 0), (1, 0, 0)]⟩, ⟨0, false, [(0, 0, 1), (0, 1, 0), (1, 0, 1)]⟩]⟩

example : Ragc.Writer.DecisionsOK exCfg2 exInp2 exDec2 ∧ Ragc.Writer.codesOK exInp2 ∧
    (∀ l x, zdToy (zcToy l x) = some x) ∧ (∀ l x, zcToy l x = [] → x = []) :=
  ⟨by decide, by decide, fun _ _ => rfl, fun _ _ h => by simp [zcToy] at h⟩

-- The writer answers on this input and `read_write` applies: the decoder returns both samples with
-- all bases, no violation. `decide +kernel` is used ONLY for "the writer answers": a closed
-- evaluation of the executable model (not a step of any theorem); the kernel unfolds the
-- well-founded recursions (`Varint.digits`, `intToBase64`, `storeBatches`, `LzDiff.encLoop`) that
-- elaborator-side `decide` leaves stuck.
set_option maxRecDepth 100000 in
example : ∃ bs d, Ragc.Writer.writeArchive exCfg2 exInp2 exDec2 zcToy = some bs ∧
    Ragc.Agc3.decodeArchive bs zdToy = .ok d ∧
    d.catalogue = [([65], [[99], [100]]), ([66], [[99]])] ∧
    d.bases = [[[0, 1, 2, 3, 0, 1, 2, 3, 0, 1], [2, 4, 1]], [[0, 1, 2, 2, 0, 1, 2, 3, 0, 1]]] ∧
    d.violations = [] := by
  have hsome : (Ragc.Writer.writeArchive exCfg2 exInp2 exDec2 zcToy).isSome = true := by decide +kernel
  obtain ⟨bs, hbs⟩ := Option.isSome_iff_exists.mp hsome
  obtain ⟨d, h1, h2, h3, h4⟩ := read_write exCfg2 exInp2 exDec2 zcToy zdToy bs (by decide)
    (fun _ _ => rfl) (fun _ _ h => by simp [zcToy] at h) (by decide) hbs
  exact ⟨bs, d, hbs, h1, by rw [h2]; decide, by rw [h3]; decide, h4⟩

end Ragc.Props.C01
