-- Root of the `RagcModel` library: models, lemmas and property theorems.
import RagcModel.Model.Kmer
import RagcModel.Model.Tuple
import RagcModel.Model.SegCompress
import RagcModel.Model.Pipeline
