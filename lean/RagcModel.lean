-- Root of the `RagcModel` library: models, lemmas and property theorems.
import RagcModel.Model.Kmer
import RagcModel.Model.Tuple
import RagcModel.Model.SegCompress
import RagcModel.Model.Segment
import RagcModel.Model.Queue
import RagcModel.Model.Varint
import RagcModel.Model.Container
import RagcModel.Model.Range
import RagcModel.Model.LzDiff
import RagcModel.Model.Pipeline
import RagcModel.Model.Packs
import RagcModel.Model.Agc3
import RagcModel.Model.Fasta
import RagcModel.Model.FileIO
import RagcModel.Model.Cli
import RagcModel.Model.EndToEnd
