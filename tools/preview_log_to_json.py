#!/usr/bin/env python3
"""Turns the log of tools/preview_seeded.sh runs (sections '=== <id> (<Cxx>)') into
seeded/<id>/preview.json in the format of run_seeded.py's result.json."""
import json, os, re, sys, time
V = os.path.dirname(os.path.dirname(os.path.abspath(__file__)))
for log in sys.argv[1:]:
    txt = open(log).read()
    for sec in re.split(r"(?m)^=== ", txt)[1:]:
        m = re.match(r"(\S+) \((C\d+)\)", sec)
        if not m:
            continue
        sid, prop = m.groups()
        d = os.path.join(V, "seeded", sid)
        if not os.path.isdir(d):
            continue
        lines = [l for l in sec.splitlines() if l.startswith("VIOLATION") or l.startswith("KNOWN-FINDING")]
        summ = re.search(r"\[%s\] (ok|VIOLATION) in (\d+)s: (.*)" % prop, sec)
        if not summ:
            continue
        kind = re.search(r"kind: (\S+) sig: (\S+)", sec)
        what = re.search(r" what: (.*)", sec)
        broken = re.search(r" broken: (\[.*\])", sec)
        lines = [re.sub(r"replay=\S+", "replay=<path in the scratch copy>", l) for l in lines]
        res = {"seeded": sid, "mode": "patched copy of /repo (tools/preview_seeded.sh); /repo itself untouched", "ran": time.strftime("%Y-%m-%d"),
               "checks": {prop: {"exit": 0 if summ.group(1) == "ok" else 1, "lines": lines, "summary": summ.group(3), "wall_s": int(summ.group(2)),
                                 "detail": {"kind": kind.group(1) if kind else None, "signature": None if not kind or kind.group(2) == "None" else kind.group(2),
                                            "what": what.group(1)[:300] if what else "", "no_longer_checks": eval(broken.group(1)) if broken else []}}}}
        if summ.group(1) == "ok":
            res["checks"][prop]["detail"] = None
        json.dump(res, open(os.path.join(d, "preview.json"), "w"), indent=1)
        print(sid, summ.group(1))
