#!/usr/bin/env python3
"""Writes MANIFEST.json from tools/manifest_src.py (keeps the manifest valid and in one place)."""
import json, os, sys
sys.path.insert(0, os.path.dirname(os.path.abspath(__file__)))
from manifest_src import MANIFEST
p = os.path.join(os.path.dirname(os.path.abspath(__file__)), "..", "MANIFEST.json")
json.dump(MANIFEST, open(p, "w"), indent=1)
try:
    import jsonschema
    jsonschema.validate(MANIFEST, json.load(open("/root/.vp/MANIFEST.schema.json")))
    print("MANIFEST.json valid:", len(MANIFEST["checks"]), "checks,", len(MANIFEST.get("not_applicable", [])), "not claimed")
except ImportError:
    print("written (jsonschema not available here)")
