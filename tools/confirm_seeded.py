#!/usr/bin/env python3
"""
confirm_seeded.py <Cxx> <mutX> <crate> <id> "<needs>"
Confirms a candidate seeded change produced by an independent sub-agent, in that agent's scratch
worktree /tmp/mut/<Cxx> (never in /repo): the demonstration passes on the unchanged tree, fails with
the patch, the patched tree builds and the existing test suite still passes with the patch
(failures confined to ragc-core/tests/test_subsequence.rs, which uses fixed /tmp paths and collides
with concurrent runs, are accepted only if that test file passes when re-run alone).
On success writes /verif/seeded/<id>/{patch.diff, demo.rs, meta.json}.
"""
import json, os, re, shutil, subprocess, sys, time
prop, mut, crate, sid, needs = sys.argv[1:6]
BASE = os.environ.get("MUT_BASE", "/tmp/mut")
WT = "%s/%s" % (BASE, prop)
SRC = "%s/out/%s/%s" % (BASE, prop, mut)
VERIF = os.path.dirname(os.path.dirname(os.path.abspath(__file__)))
env = dict(os.environ, CARGO_TARGET_DIR=WT + "/target", CARGO_NET_OFFLINE="true")

def sh(cmd, **kw):
    p = subprocess.run(cmd, cwd=WT, env=env, stdout=subprocess.PIPE, stderr=subprocess.STDOUT, text=True, **kw)
    return p.returncode, p.stdout

def clean():
    sh(["git", "checkout", "--", "."])
    sh(["git", "clean", "-fdq", "-e", "target"])

log = {"property": prop, "mutant": mut, "ran": time.strftime("%Y-%m-%d %H:%M:%S"), "steps": []}
def step(name, rc, out, expect_ok):
    ok = (rc == 0) == expect_ok
    summ = [l for l in out.splitlines() if l.startswith("test result") or "FAILED" in l or "panicked" in l][:12]
    log["steps"].append({"step": name, "exit": rc, "as_expected": ok, "summary": summ})
    print(name, "exit", rc, "OK" if ok else "UNEXPECTED", file=sys.stderr)
    return ok

clean()
os.makedirs(os.path.join(WT, crate, "tests"), exist_ok=True)
demo_dst = os.path.join(WT, crate, "tests", "seeded_demo.rs")
shutil.copy(os.path.join(SRC, "demo.rs"), demo_dst)
demo_cmd = ["cargo", "test", "-p", crate, "--offline", "--test", "seeded_demo"]
ok = True
rc, out = sh(["cargo", "build", "--workspace", "--offline"]); ok &= step("cargo build --workspace, unchanged tree", rc, out, True)
rc, out = sh(demo_cmd); ok &= step("demo on unchanged tree (must pass)", rc, out, True)
rc, out = sh(["git", "apply", os.path.join(SRC, "patch.diff")]); ok &= step("git apply patch", rc, out, True)
rc, out = sh(["cargo", "build", "--workspace", "--offline"]); ok &= step("cargo build --workspace with patch", rc, out, True)
rc, out = sh(demo_cmd); ok &= step("demo with patch (must fail)", rc, out, False)
os.remove(demo_dst)
iso = BASE + "/run_isolated.sh"
suite_cmd = ([iso, prop] if os.path.exists(iso) else []) + ["cargo", "test", "--workspace", "--offline", "--no-fail-fast"]
rc, out = sh(suite_cmd)
failed = sorted(set(re.findall(r"^test (\S+) \.\.\. FAILED", out, flags=re.M)))
passed = len(re.findall(r"^test \S+ \.\.\. ok", out, flags=re.M))
log["suite_with_patch"] = {"exit": rc, "passed": passed, "failed": failed}
suite_ok = rc == 0
if not suite_ok:
    # Known load-sensitive tests of the unchanged tree (fixed /tmp paths; a 100 ms timing assertion):
    # a failed test target is accepted only if the same target passes when re-run alone with the patch.
    bad_targets = re.findall(r"error: test failed, to rerun pass `([^`]*)`", out)
    log["suite_with_patch"]["failed_targets"] = bad_targets
    all_ok = bool(bad_targets)
    for t in bad_targets:
        args = t.split()
        passed_alone = False
        for attempt in range(4):
            rc2, out2 = sh(suite_cmd[:suite_cmd.index("cargo")] + ["cargo", "test", "--offline"] + args)
            if rc2 == 0:
                passed_alone = True
                log["suite_with_patch"].setdefault("reruns", {})[t] = "passed alone on attempt %d" % (attempt + 1)
                break
        if not passed_alone:
            log["suite_with_patch"].setdefault("reruns", {})[t] = "still failing alone"
            all_ok = False
    suite_ok = all_ok
ok &= suite_ok
log["steps"].append({"step": "existing test suite with patch", "as_expected": suite_ok})
print("suite", "OK" if suite_ok else "FAILED", passed, failed, file=sys.stderr)
clean()
log["confirmed"] = bool(ok)
out_dir = os.path.join(VERIF, "seeded", sid)
if ok:
    os.makedirs(out_dir, exist_ok=True)
    shutil.copy(os.path.join(SRC, "patch.diff"), os.path.join(out_dir, "patch.diff"))
    shutil.copy(os.path.join(SRC, "demo.rs"), os.path.join(out_dir, "demo.rs"))
    readme = os.path.join(SRC, "README.md")
    if os.path.exists(readme):
        shutil.copy(readme, os.path.join(out_dir, "AUTHOR_README.md"))
    meta = {"id": sid, "property": prop, "breaks": prop, "needs_to_manifest": needs,
            "origin": "independent sub-agent given only the property text and a scratch worktree (%s/%s)" % (prop, mut),
            "demo": "copy demo.rs to %s/tests/seeded_demo.rs and run `cargo test -p %s --offline --test seeded_demo`: passes on the unchanged tree, fails with patch.diff" % (crate, crate),
            "confirmation": log}
    json.dump(meta, open(os.path.join(out_dir, "meta.json"), "w"), indent=1)
print(json.dumps({"id": sid, "confirmed": ok}))
