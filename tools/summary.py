#!/usr/bin/env python3
"""Prints markdown tables: per-property state (from evidence/ and tools/props.d) and the seeded
changes with what each check reported (from seeded/*/meta.json, result.json, preview.json)."""
import glob, json, os, sys
V = os.path.dirname(os.path.dirname(os.path.abspath(__file__)))
sys.path.insert(0, os.path.join(V, "tools"))
from props_config import PROPS, CHECKS
print("| property | level | theorems | cases (quick) | distinct non-trivial | model requests | quick wall s |")
print("|---|---|---|---|---|---|---|")
for pid in sorted(PROPS):
    f = os.path.join(V, "evidence", pid + ".json")
    if not os.path.exists(f):
        print("| %s | %s | – | – | – | – | – |" % (pid, PROPS[pid]["level"])); continue
    d = json.load(open(f)); c = d["coverage"]
    print("| %s | %s | %s | %s | %s | %s | %s |" % (pid, d["level"], c.get("discharged"), c.get("evaluations"), c.get("distinct_nontrivial"), c.get("model_requests"), d["wall_s"]))
print()
print("| seeded change | property | needs to manifest | verdict of `./check` | how it was caught |")
print("|---|---|---|---|---|")
for m in sorted(glob.glob(os.path.join(V, "seeded", "*", "meta.json"))):
    meta = json.load(open(m)); d = os.path.dirname(m)
    res = None
    for name in ("result.json", "preview.json"):
        p = os.path.join(d, name)
        if os.path.exists(p):
            res = json.load(open(p)); break
    if not res:
        print("| %s | %s | %s | not run yet | |" % (meta["id"], meta["property"], meta["needs_to_manifest"])); continue
    for c, r in res["checks"].items():
        line = (r["lines"] or ["(exit %s, no VIOLATION line)" % r["exit"]])[0]
        verdict = "VIOLATION" + (" no-failing-input-found" if "no-failing-input-found" in line else " with failing input") if line.startswith("VIOLATION") else "MISSED (exit %s)" % r["exit"]
        det = r.get("detail") or {}
        how = det.get("signature") or "; ".join((det.get("no_longer_checks") or [])[:2]) or ""
        print("| %s | %s | %s | %s | %s |" % (meta["id"], c, meta["needs_to_manifest"], verdict, how[:160]))
