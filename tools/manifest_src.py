"""Source of MANIFEST.json (run tools/gen_manifest.py after editing)."""
ALL = ["C%02d" % i for i in range(1, 21)]

BASE_NOTE = ("Trusted: Lean 4.33.0 kernel (axioms propext, Classical.choice, Quot.sound only; audited with #print axioms "
             "on every run), tools/gen_tables.py, the Rust harness (generators, canonicalisation, line protocol) and the "
             "Lean compiler that executes the proved definitions. The theorem is about a hand-written model; the model is "
             "tied to /repo's working tree by running both on the same inputs on every run.")

CHECKS = {
    "C03": {
        "category": "proof",
        "text": "Lean theorems about Model/{CollVarint,Zigzag,Names,Details}.lean: prefix-varint, predictive-zigzag, string, "
                "sample-name, contig-name (any table of names over bytes 1..127), 5-stream descriptor (any table, ids < i32::MAX, "
                "segment_size+k <= 2^31) round trips, predictor-table synchronisation, 50-sample batches with the cursor, "
                "registration order. The models are executed against the real (de)serialisers through the H1 wrappers on "
                "grammar-generated name tables, descriptor tables, malformed streams and 1..130-sample catalogues; the "
                "catalogue round trip is also evaluated on the real code directly and through a real archive file.",
        "design_ref": "DESIGN.md §5 C03, Appendix A.2",
        "technique": "Lean 4 proof over byte-level models + byte-exact correspondence through hook H1",
    },
    "C20": {
        "category": "proof",
        "text": "Lean theorems about Model/Kmer.lean (UInt64 shifts/masks exactly as kmer.rs) for all k in 1..32 and all "
                "base sequences; the model is executed against the real Kmer/enumerate_kmers/reverse_complement_kmer on all "
                "4^k windows (k<=6 quick, 8 thorough), all sequences up to k+3 over {A,C,G,T,N} and random sequences for "
                "every k incl. 32; the laws are also evaluated directly on the real code against a from-scratch packing.",
        "design_ref": "DESIGN.md §5 C20",
        "technique": "Lean 4 proof over a UInt64 model + exhaustive/random correspondence",
    },
}

def check(pid, c):
    return {
        "property_id": pid,
        "quick_cmd": "./check %s --tier quick" % pid,
        "thorough_cmd": "./check %s --tier thorough" % pid,
        "evidence_file": "evidence/%s.json" % pid,
        "replay_cmd_template": "./check %s --replay {path}" % pid,
        "engine": "lean-proof+correspondence",
        "level_claimed": {"category": c["category"], "text": c["text"], "design_ref": c["design_ref"]},
        "level_note": c.get("note", BASE_NOTE),
        "technique": c["technique"],
    }

MANIFEST = {
    "version": 1,
    "setup_cmd": "./check --setup",
    "hooks": {
        "guard": "--cfg ragc_verif",
        "enable": "RUSTFLAGS='--cfg ragc_verif' cargo build (the harness in /verif/harness path-depends on /repo's crates)",
        "baseline_off_cmd": "cd /repo && cargo test --workspace --no-fail-fast --offline",
        "source_commits": [],
        "add_only": True,
    },
    "engines": [
        {"name": "lean-proof+correspondence", "path": "check",
         "serves_properties": sorted(CHECKS),
         "kind_free_text": "Lean 4 theorems about executable models (lean/), tied to the Rust code by an in-process "
                           "differential harness (harness/) and a table/constant translator (tools/gen_tables.py)"},
    ],
    "checks": [check(p, CHECKS[p]) for p in sorted(CHECKS)],
    "not_applicable": [{"property_id": p, "reason": "not claimed yet: machinery under construction (see DESIGN.md §5 for the plan)"}
                       for p in ALL if p not in CHECKS],
    "notes": "All checks go through ./check <id>; see DESIGN.md.",
}
