"""Source of MANIFEST.json (run tools/gen_manifest.py after editing)."""
ALL = ["C%02d" % i for i in range(1, 21)]

BASE_NOTE = ("Trusted: Lean 4.33.0 kernel (axioms propext, Classical.choice, Quot.sound only; audited with #print axioms "
             "on every run), tools/gen_tables.py, the Rust harness (generators, canonicalisation, line protocol) and the "
             "Lean compiler that executes the proved definitions. The theorem is about a hand-written model; the model is "
             "tied to /repo's working tree by running both on the same inputs on every run.")

CHECKS = {
    "C09": {
        "category": "proof",
        "text": "Lean theorems about Model/LzDiff.lean: for every candidate supplier (hence for the real linear-probing index), "
                "every min-match >= HASHING_STEP, every reference and every non-empty target whose codes are literal codes of "
                "the decoder (generated constant lzLiteralSpan), decode(encode(target)) = target (through the reader's "
                "empty-delta convention and, for target != reference, for raw LZDiff::decode); encoding empty iff target = "
                "reference or target empty; no 0xFF byte; loop invariant and termination by the measure |target| - i; "
                "byte-level decoder = token-level decoder on well-formed tokens. The executable model (exact index, MurMur64, "
                "f64 sizing) is compared byte for byte with LZDiff::encode/decode on all pairs up to length 7/8 over small "
                "alphabets, mutation-derived pairs to 4 kB/40 kB with min-match 5..32, and random token streams; the property "
                "is also evaluated directly on the real code. Code 30 (unknown letter) is outside the theorem's hypothesis on "
                "the current tree and fails on the real code (negation witness proved).",
        "design_ref": "DESIGN.md §5 C09, Appendix A.1",
        "technique": "Lean 4 proof (loop invariant, supplier-parametric) + exhaustive/random byte-exact correspondence",
    },
    "C20": {
        "category": "proof",
        "text": "Lean theorems about Model/Kmer.lean (UInt64 shifts/masks exactly as kmer.rs) for all k in 1..32 and all "
                "base sequences; the model is executed against the real Kmer/enumerate_kmers/reverse_complement_kmer on all "
                "4^k windows (k<=6 quick, 8 thorough), all sequences up to k+3 over {A,C,G,T,N} and random sequences for "
                "every k incl. 32; the laws are also evaluated directly on the real code against a from-scratch packing.",
        "design_ref": "DESIGN.md §5 C20",
        "technique": "Lean 4 proof over a UInt64 model + exhaustive/random correspondence",
    },
}

def check(pid, c):
    return {
        "property_id": pid,
        "quick_cmd": "./check %s --tier quick" % pid,
        "thorough_cmd": "./check %s --tier thorough" % pid,
        "evidence_file": "evidence/%s.json" % pid,
        "replay_cmd_template": "./check %s --replay {path}" % pid,
        "engine": "lean-proof+correspondence",
        "level_claimed": {"category": c["category"], "text": c["text"], "design_ref": c["design_ref"]},
        "level_note": c.get("note", BASE_NOTE),
        "technique": c["technique"],
    }

MANIFEST = {
    "version": 1,
    "setup_cmd": "./check --setup",
    "hooks": {
        "guard": "--cfg ragc_verif",
        "enable": "RUSTFLAGS='--cfg ragc_verif' cargo build (the harness in /verif/harness path-depends on /repo's crates)",
        "baseline_off_cmd": "cd /repo && cargo test --workspace --no-fail-fast --offline",
        "source_commits": [],
        "add_only": True,
    },
    "engines": [
        {"name": "lean-proof+correspondence", "path": "check",
         "serves_properties": sorted(CHECKS),
         "kind_free_text": "Lean 4 theorems about executable models (lean/), tied to the Rust code by an in-process "
                           "differential harness (harness/) and a table/constant translator (tools/gen_tables.py)"},
    ],
    "checks": [check(p, CHECKS[p]) for p in sorted(CHECKS)],
    "not_applicable": [{"property_id": p, "reason": "not claimed yet: machinery under construction (see DESIGN.md §5 for the plan)"}
                       for p in ALL if p not in CHECKS],
    "notes": "All checks go through ./check <id>; see DESIGN.md.",
}
