"""Source of MANIFEST.json (run tools/gen_manifest.py after editing)."""
ALL = ["C%02d" % i for i in range(1, 21)]

BASE_NOTE = ("Trusted: Lean 4.33.0 kernel (axioms propext, Classical.choice, Quot.sound only; audited with #print axioms "
             "on every run), tools/gen_tables.py, the Rust harness (generators, canonicalisation, line protocol) and the "
             "Lean compiler that executes the proved definitions. The theorem is about a hand-written model; the model is "
             "tied to /repo's working tree by running both on the same inputs on every run.")

CHECKS = {
    "C11": {
        "category": "proof",
        "text": "Lean theorems about Model/Splitters.lean (run scanning of the sorted k-mer vector, the second pass with its "
                "current_len counter, window resets and the right-most-candidate end rule, one determineSplitters for the three "
                "Rust entry points): singleton/duplicate sets are exactly count=1 / count>=2, disjoint, invariant under contig "
                "permutation and (by C20's enumerate_spec/canonical_rc, 1<=k<=32) under reverse-complementing any contig; every "
                "splitter is a singleton and the canonical packing of the k bases ending at its pick position; loop picks are "
                ">= segment_size apart, at most one end pick after them; segmenting a reference contig with the reference's own "
                "splitters cuts exactly at the pick positions (self_segmentation), so in the C10 model of "
                "split_at_splitters_with_size every segment but the first and the last two has >= segment_size + k symbols "
                "(self_segmentation_segments); "
                "the first-sample variant reads the leading run only. The model is executed against determine_splitters, "
                "_streaming and _streaming_first_sample (files written by the harness, PanSN file with later samples) under "
                "rayon pools of 1/2/4/16 threads; the laws are also evaluated on the real output against a from-scratch "
                "HashMap count, and the reference is segmented with its own splitters (split_at_splitters_with_size).",
        "design_ref": "DESIGN.md §5 C11",
        "technique": "Lean 4 proof over a list model + exhaustive/random set-exact correspondence of three variants x thread counts",
    },
    "C20": {
        "category": "proof",
        "text": "Lean theorems about Model/Kmer.lean (UInt64 shifts/masks exactly as kmer.rs) for all k in 1..32 and all "
                "base sequences; the model is executed against the real Kmer/enumerate_kmers/reverse_complement_kmer on all "
                "4^k windows (k<=6 quick, 8 thorough), all sequences up to k+3 over {A,C,G,T,N} and random sequences for "
                "every k incl. 32; the laws are also evaluated directly on the real code against a from-scratch packing.",
        "design_ref": "DESIGN.md §5 C20",
        "technique": "Lean 4 proof over a UInt64 model + exhaustive/random correspondence",
    },
}

def check(pid, c):
    return {
        "property_id": pid,
        "quick_cmd": "./check %s --tier quick" % pid,
        "thorough_cmd": "./check %s --tier thorough" % pid,
        "evidence_file": "evidence/%s.json" % pid,
        "replay_cmd_template": "./check %s --replay {path}" % pid,
        "engine": "lean-proof+correspondence",
        "level_claimed": {"category": c["category"], "text": c["text"], "design_ref": c["design_ref"]},
        "level_note": c.get("note", BASE_NOTE),
        "technique": c["technique"],
    }

MANIFEST = {
    "version": 1,
    "setup_cmd": "./check --setup",
    "hooks": {
        "guard": "--cfg ragc_verif",
        "enable": "RUSTFLAGS='--cfg ragc_verif' cargo build (the harness in /verif/harness path-depends on /repo's crates)",
        "baseline_off_cmd": "cd /repo && cargo test --workspace --no-fail-fast --offline",
        "source_commits": [],
        "add_only": True,
    },
    "engines": [
        {"name": "lean-proof+correspondence", "path": "check",
         "serves_properties": sorted(CHECKS),
         "kind_free_text": "Lean 4 theorems about executable models (lean/), tied to the Rust code by an in-process "
                           "differential harness (harness/) and a table/constant translator (tools/gen_tables.py)"},
    ],
    "checks": [check(p, CHECKS[p]) for p in sorted(CHECKS)],
    "not_applicable": [{"property_id": p, "reason": "not claimed yet: machinery under construction (see DESIGN.md §5 for the plan)"}
                       for p in ALL if p not in CHECKS],
    "notes": "All checks go through ./check <id>; see DESIGN.md.",
}
