"""Source of MANIFEST.json (run tools/gen_manifest.py after editing)."""
ALL = ["C%02d" % i for i in range(1, 21)]

BASE_NOTE = ("Trusted: Lean 4.33.0 kernel (axioms propext, Classical.choice, Quot.sound only; audited with #print axioms "
             "on every run), tools/gen_tables.py, the Rust harness (generators, canonicalisation, line protocol) and the "
             "Lean compiler that executes the proved definitions. The theorem is about a hand-written model; the model is "
             "tied to /repo's working tree by running both on the same inputs on every run.")

from props_config import CHECKS  # entries live in tools/props.d/Cxx.py (MANIFEST)

def check(pid, c):
    return {
        "property_id": pid,
        "quick_cmd": "./check %s --tier quick" % pid,
        "thorough_cmd": "./check %s --tier thorough" % pid,
        "evidence_file": "evidence/%s.json" % pid,
        "replay_cmd_template": "./check %s --replay {path}" % pid,
        "engine": "lean-proof+correspondence",
        "level_claimed": {"category": c["category"], "text": c["text"], "design_ref": c["design_ref"]},
        "level_note": c.get("note", BASE_NOTE),
        "technique": c["technique"],
    }

MANIFEST = {
    "version": 1,
    "setup_cmd": "./check --setup",
    "hooks": {
        "guard": "--cfg ragc_verif",
        "enable": "RUSTFLAGS='--cfg ragc_verif' cargo build (the harness in /verif/harness path-depends on /repo's crates)",
        "baseline_off_cmd": "cd /repo && cargo test --workspace --no-fail-fast --offline",
        "source_commits": ["59a5b32324c1fe5f597d17383c498fa5d6e4bd73", "5f793bfc9cca57e21f3d72c9e3bf65a23272c99c", "94cec8d55fc34884836ad68db7187dd4f71e98d9"],
        "add_only": True,
    },
    "engines": [
        {"name": "lean-proof+correspondence", "path": "check",
         "serves_properties": sorted(CHECKS),
         "kind_free_text": "Lean 4 theorems about executable models (lean/), tied to the Rust code by an in-process "
                           "differential harness (harness/) and a table/constant translator (tools/gen_tables.py)"},
    ],
    "checks": [check(p, CHECKS[p]) for p in sorted(CHECKS)],
    "not_applicable": [{"property_id": p, "reason": "not claimed yet: machinery under construction (see DESIGN.md §5 for the plan)"}
                       for p in ALL if p not in CHECKS],
    "notes": "All checks go through ./check <id>; see DESIGN.md.",
}
