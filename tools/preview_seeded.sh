#!/bin/bash
# preview_seeded.sh <patch.diff> <Cxx> [Cxx...]: run checks against a PATCHED COPY of /repo without
# touching /repo (used while other work depends on /repo being unchanged). The authoritative run is
# tools/run_seeded.py, which applies the patch to /repo itself.
set -e
PATCH=$(readlink -f "$1"); shift
S=/tmp/seedrun
rm -rf $S/verif; mkdir -p $S
[ -d $S/repo ] && git -C /repo worktree remove --force $S/repo 2>/dev/null || true
git -C /repo worktree add --detach $S/repo HEAD -q
git -C $S/repo apply "$PATCH"
rsync -a --exclude build --exclude replays /verif/ $S/verif/
mkdir -p $S/verif/build
# reuse build caches
cp -r /verif/build/harness $S/verif/build/harness 2>/dev/null || true
sed -i "s|/repo/|$S/repo/|g" $S/verif/harness/Cargo.toml
cd $S/verif
for c in "$@"; do
  VERIF_REPO=$S/repo ./check $c --tier quick 2>&1 | tail -3
done
git -C /repo worktree remove --force $S/repo
