"""C15: check configuration (CONFIG, used by ./check) and manifest entry (MANIFEST)."""
CONFIG = {'level': 'fault_enumeration',
 'cli': True,
 'assumptions': ['the fault is persistent and positional: the output file accepts bytes up to offset n and every later '
                 'write of a non-empty buffer fails (RLIMIT_FSIZE with SIGXFSZ ignored: short write up to the limit, '
                 'then EFBIG); ENOSPC is represented by EFBIG; transient faults, failing fsync/close and failures of '
                 'other system calls (open, mmap) are outside the model',
                 'only the write path of the current design is modelled and exercised: every part is buffered in '
                 'memory (add_part_buffered) and file I/O happens only in finalize (flush_buffers + close, both with '
                 '?); Model/FileIO.lean mirrors std BufWriter (write_all / flush_buf / flush / Drop), '
                 'Archive::close / serialize / Drop and the tail of StreamingQueueCompressor::finalize; the content '
                 'of parts and footer is opaque (C13)',
                 'the BufWriter rules are tied to the real std::io::BufWriter in-process (exhaustive small + random op '
                 'sequences over a sink with the same fault); the whole run is tied to the real binary by exit '
                 'status and bytes left on disk for every enumerated fault offset; archives above the 4 MiB BufWriter '
                 'capacity (mid-run flushes) are exercised in the thorough tier only',
                 'the child is the release CLI built from the working tree; the limit applies to every file it '
                 'writes (only the archive; stderr goes to /dev/null)'],
 'trusted': ['Linux RLIMIT_FSIZE semantics (write(2) transfers the bytes below the limit, then fails with EFBIG)',
             'libc::setrlimit / signal in pre_exec'],
 'timeout': {'quick': 2400, 'thorough': 6000}}

MANIFEST = {'category': 'fault_enumeration',
 'text': 'Fault enumeration on the real code: `ragc create` (release binary from the working tree) is run as a child '
         'under RLIMIT_FSIZE = n (SIGXFSZ ignored, so the first write crossing offset n fails with EFBIG after a short '
         'write) for n over a stride of 0..size, EVERY offset of the last footer+8+64 bytes (inside the last parts, '
         'the footer and its 8-byte length), sampled part boundaries, and n >= size, on 2 (quick) / 8+1 (thorough) '
         'archives of 5-40 kB (thorough: one < 6.5 kB exhaustively over all offsets, one > 4 MiB around the BufWriter '
         'capacity); for each run the exit status and the bytes left on disk are compared with the prediction of '
         'Model/FileIO.lean (Sink with a persistent fault at offset n, std BufWriter, Archive close/serialize/Drop, '
         'finalize), whose BufWriter rules are separately executed against the real std::io::BufWriter. Lean '
         'theorems about that model, for ALL capacities, fault offsets, chunk lists and footers: finalize returns '
         'Ok iff the complete archive fits below the fault offset; Ok implies the file is exactly parts ++ footer ++ '
         'length; Err implies the file is the strict prefix of length n; the destructors (Drop for Archive calling '
         'close again, Drop for BufWriter) never change that and swallow an I/O error only after finalize already '
         'returned Err. Direct oracle on every run: exit status != 0, or the file is the complete archive and '
         'listset lists every sample.',
 'design_ref': 'DESIGN.md §5 C15',
 'technique': 'RLIMIT_FSIZE fault injection over all enumerated offsets on the real binary + Lean 4 theorems over a '
              'BufWriter/sink model + differential correspondence'}
