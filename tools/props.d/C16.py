"""C16: check configuration (CONFIG, used by ./check) and manifest entry (MANIFEST)."""
CONFIG = {'level': 'proof',
 'cli': True,
 'assumptions': ['Model/Fasta.lean mirrors genome_io.rs (read_contig_raw as a state machine over the read_until lines with '
                 'the buffered next header, read_contig_impl filter/convert through the regenerated CNV_NUM table, '
                 'parse_sample_from_header, GenomeWriter 80-column output), contig_iterator.rs MultiFileIterator sample '
                 'naming, decompressor.rs write_sample_fasta letters and main.rs skip of empty sequences; tied by running '
                 'GenomeIO (Cursor and file entry points, MultiFileIterator) and the model on the same texts: every token '
                 'sequence of length <= 5 over a 9-token alphabet, FASTA-grammar texts, byte-random texts, UTF-8 headers, '
                 'file names from <= 4 tokens',
                 'header handling is modelled on bytes: exact for header lines that are valid UTF-8 without non-ASCII '
                 'Unicode white space next to their ends (String::from_utf8_lossy + trim otherwise differ)',
                 'that the archive stores and returns the code sequence it is given is C01/C09/C12/C13 (not re-proved '
                 'here); it is exercised end to end: create (library driving as main.rs, and the ragc binary) then '
                 'listset/listctg/getset against the normalisation computed from the structure each text was rendered from',
                 'the FASTA grammar of the end-to-end cases: 1..4 related samples, multi-file and single PanSN file, '
                 'reference and non-reference samples carry the special lines'],
 'trusted': ['zstd crate: decompress(compress(x)) = x (exercised, not proved)',
             'flate2 MultiGzDecoder returns the concatenation of the members (exercised, not proved)'],
 'timeout': {'quick': 3000, 'thorough': 9000}}

MANIFEST = {'category': 'proof',
 'text': 'Lean theorems about Model/Fasta.lean: the complete generated 128-entry letter table (letters -> 0..15 or 30, '
         'case-insensitive, IUPAC bijective, the 11 non-letters above @ kept as 30/32), read-back letters, '
         'convert-then-read-back = documented normalisation, every presentation of records parses to the same '
         '(id, codes) list, and the exact characterisation of the reader loop (everything after the first record with '
         'an empty id or without any line is dropped). The property clause "no record with a base is left out" is '
         'FALSE for the code as it stands (defect D9): proved for texts without the two triggers '
         '(no_record_dropped_partial), refuted by two concrete texts (kernel-checked), and the refutations are '
         'replayed on the real code through the library and the ragc binary. The model is executed against GenomeIO / '
         'MultiFileIterator / GenomeWriter on exhaustive small and grammar-generated texts; the property is evaluated '
         'end to end on generated FASTA texts.',
 'design_ref': 'DESIGN.md §5 C16',
 'technique': 'Lean 4 proof over a byte-list model of the FASTA reader + differential correspondence + end-to-end oracle '
              '(library and CLI)'}
