"""C11: check configuration (CONFIG, used by ./check) and manifest entry (MANIFEST)."""
CONFIG = {'level': 'proof',
 'assumptions': ['Model/Splitters.lean mirrors splitters.rs determine_splitters / _streaming / '
                 '_streaming_first_sample (one model, three entry points; the first-sample variant on the leading '
                 "run of records with the first record's sample name), find_actual_splitters_in_contig and "
                 'kmer_extract.rs remove_non_singletons(_with_duplicates); tied by set-exact correspondence of all '
                 'three variants under rayon pools of 1/2/4/16 threads and by pick positions = split positions',
                 'trusted library behaviour: rdst radix sort returns the sorted permutation (model: List.mergeSort), '
                 'AHashSet::contains is membership (model: binary search, proved), rayon par_iter().map().collect() '
                 'preserves order, genome_io parses the FASTA written by the harness into the contigs it was '
                 'rendered from',
                 "strand invariance (strand_invariant, enumerate_rc_closed) and pick_is_canonical_window use C20's "
                 'enumerate_spec, canonical_rc and the Inv invariant of Lemmas/Kmer.lean (1 <= k <= 32); '
                 'kmers_rc_invariant / enumerate_rc keep them as explicit hypotheses h_window / h_canon_rc',
                 'self_segmentation_segments composes with the C10 model (Model/Segment.lean, Lemmas/Segment.lean): '
                 'the split events `cuts` of split_at_splitters_with_size over the Kmer tracker are the loop picks '
                 'of findLoop with segment_size 0 (cuts_eq_findLoop); that reading is additionally tied to the real '
                 'segmenter by comparing split positions on arbitrary splitter sets (harness, '
                 'segmenter-loop/positions)'],
 'trusted': ['rdst radix sort / ahash set / rayon ordered collect (DESIGN §3)']}

MANIFEST = {'category': 'proof',
 'text': 'Lean theorems about Model/Splitters.lean (run scanning of the sorted k-mer vector, the second pass with '
         'its current_len counter, window resets and the right-most-candidate end rule, one determineSplitters for '
         'the three Rust entry points): singleton/duplicate sets are exactly count=1 / count>=2, disjoint, invariant '
         "under contig permutation and (by C20's enumerate_spec/canonical_rc, 1<=k<=32) under reverse-complementing "
         'any contig; every splitter is a singleton and the canonical packing of the k bases ending at its pick '
         'position; loop picks are >= segment_size apart, at most one end pick after them; segmenting a reference '
         "contig with the reference's own splitters cuts exactly at the pick positions (self_segmentation), so in "
         'the C10 model of split_at_splitters_with_size every segment but the first and the last two has >= '
         'segment_size + k symbols (self_segmentation_segments); the first-sample variant reads the leading run '
         'only. The model is executed against determine_splitters, _streaming and _streaming_first_sample (files '
         'written by the harness, PanSN file with later samples) under rayon pools of 1/2/4/16 threads; the laws are '
         'also evaluated on the real output against a from-scratch HashMap count, and the reference is segmented '
         'with its own splitters (split_at_splitters_with_size).',
 'design_ref': 'DESIGN.md §5 C11',
 'technique': 'Lean 4 proof over a list model + exhaustive/random set-exact correspondence of three variants x '
              'thread counts'}
