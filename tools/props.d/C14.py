"""C14: check configuration (CONFIG, used by ./check) and manifest entry (MANIFEST)."""
CONFIG = {'level': 'proof',
 'checked_profile': True,
 'assumptions': ['Model/Container.lean mirrors Archive::open (deserialize) in release arithmetic and in dev/test '
                 "arithmetic (overflow checks; second harness build, profile 'checked'), including the footer-offset "
                 'wrap-around / panic, the lseek limit of the file system (probed) and the size of the footer '
                 'allocation; tied by the outcome class (ok / err / panic) of opening every strict prefix of '
                 'generated archives',
                 "Vec allocation of more than isize::MAX bytes panics with 'capacity overflow' without allocating "
                 '(Rust std)']}

MANIFEST = {'category': 'proof',
 'text': 'Lean theorems about the reader of Model/Container.lean (open on an arbitrary byte string: ok / err / panic '
         '/ oversized allocation); the model is executed against Archive::open on every strict prefix of archives '
         'written by the real code (all offsets up to 8 kB, sampled offsets plus the last 600 bytes beyond) and on '
         'hand-made garbage files; the property (every strict prefix is rejected with Err) is evaluated directly on '
         'the real code.',
 'design_ref': 'DESIGN.md §5 C14',
 'technique': 'Lean 4 proof over a byte-list model + exhaustive-prefix correspondence'}
