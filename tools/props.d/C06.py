"""C06: check configuration (CONFIG, used by ./check) and manifest entry (MANIFEST)."""
CONFIG = {'level': 'proof',
 'assumptions': ['Model/Queue.lean mirrors memory_bounded_queue.rs at the granularity of the under-lock events of '
                 'hook H2; tied by replaying the event log of every real run (<= 16 threads, seeded perturbation) '
                 'through the model: every event enabled, every (len, current_size, closed) snapshot equal, every '
                 'take maximal',
                 'std::sync::Mutex/Condvar as formalised in Model/Queue.lean: mutual exclusion (events totally '
                 'ordered), wait atomically releases and enqueues, notify_one removes one arbitrary waiter if there '
                 'is one, notify_all removes all, spurious wake-ups allowed; BinaryHeap::pop returns a greatest '
                 'element',
                 'usize arithmetic does not overflow (current_size + size_bytes < 2^64; proved in the model when '
                 'every item has at most M bytes and max(cap, M) + M < 2^64); OS scheduling fairness is outside the '
                 'model'],
 'timeout': {'quick': 600, 'thorough': 3000}}

MANIFEST = {'category': 'proof',
 'text': 'Lean theorems about Model/Queue.lean, a transition system of MemoryBoundedQueue at critical-section '
         'granularity (mutex, two condvars with arbitrary notify_one choice and spurious wake-ups), proved as '
         'invariants over all event sequences, i.e. all interleavings of any number of threads running arbitrary '
         'programs over push/try_push/pull/try_pull/close: conservation / exactly-once / nothing foreign, every take '
         'maximal, current_size = sum of sizes, <= capacity whenever each item fits (in general: <= capacity or '
         'exactly one oversize item queued, the admission rule after the repair of D5), no admit after close, '
         'end-of-stream only when closed and empty, no waiter after close and every unfinished call completes in <= '
         '2 own steps, no lost wake-up on not_empty (any number of consumers) and on not_full (one producer: asleep '
         '=> does not fit, queue non-empty, open; weaker covered-ness and deadlock freedom for several, for all '
         'sizes, with a proved counterexample to the strong form), an oversize push is admitted once the queue is '
         'empty. The model is tied to the code by replaying the under-lock event log (hook H2) of real runs with '
         '3..16 threads, seeded programs and seeded schedule perturbation through the model (every event enabled, '
         "every snapshot equal), and the property is checked directly on the same logs and on the callers' results, "
         'with a watchdog for hangs. queue_refines_abstract / projected_calls_enabled: every run projects onto a run '
         'of the completed-call queue used by the pipeline model; blocked_call_has_cause, internal_steps_terminate: '
         'with one blocking producer no call sleeps while its guard holds unless a wake-up is in flight.',
 'design_ref': 'DESIGN.md §5 C06, §6 H2',
 'technique': 'Lean 4 invariant proofs over a transition system + trace-replay correspondence on real concurrent '
              'runs'}
