"""C01: check configuration (CONFIG, used by ./check) and manifest entry (MANIFEST)."""
CONFIG = {'level': 'proof',
 'assumptions': ['Layer theorems are proved about hand-written models: Model/Segment.lean (segmentation, C10), '
                 'Model/Packs.lean (pack layout, id/flush bookkeeping, split_segment_at_position, '
                 'reverse_complement_sequence and the orientation / part-number bookkeeping of a split), '
                 'Model/SegCompress.lean + Model/Tuple.lean (part framing, C12), Model/LzDiff.lean (C09), '
                 'Model/Range.lean (reverse_complement_segment, reconstruct_contig, C07). contig_roundtrip composes '
                 'them for the bases of one contig, for EVERY split decision, orientation flag, group/reference choice '
                 'and pack neighbourhood the writer could take',
                 "the writer's grouping heuristics (which group, which orientation, whether/where to split) are "
                 'universally quantified decisions, not modelled algorithms; that the real writer registers each piece '
                 'under the descriptor that points at its entry (the glue between the layers) is NOT proved: it is '
                 'tied on every generated archive by the oracle extract == input and by the independent Lean decoder '
                 '(Model/Agc3.lean) reading the same bytes (counters decoder_eq_input, decoder_violations_empty)',
                 'catalogue plumbing (names, descriptor tables, batches) is C03; the container is C13; FASTA parsing and '
                 'letter<->code mapping are C16/C19',
                 'END TO END: Model/Writer.lean is a whole-archive reference writer with all compressor decisions as data '
                 '(Decisions) and a decidable DecisionsOK; the C02 harness shows every real archive is an instance (the '
                 'decisions read off the archive make it reproduce the file byte for byte). Theorem read_write: for every '
                 'cfg/inp/dec with DecisionsOK (k >= 1; k, min_match, segment_size u32 with segment_size + k <= 2^31; u32 '
                 'counts; names over bytes 1..127; contigs non-empty and < 4 GiB; piece lengths tile each contig with '
                 'k-overlaps; distinct u32 group ids, 1..2^31-2 members per group; pieces and groups point at each other), '
                 'codesOK inp, any zc/zd with the two C12 facts: writeArchive cfg inp dec zc = some bs -> exists d, '
                 'decodeArchive bs zd = ok d /\\ d.catalogue = catalogueOf inp /\\ d.bases = basesOf inp /\\ d.violations = []. '
                 'All decisions are quantified (tiling incl. splits, group and orientation per piece, arrival order per '
                 'group, group creation order, tuple flags). No k >= 3 bound: the independent decoder has no 2-bit-packed '
                 'heuristic. Non-vacuity: a 2-sample input with an LZ group (reference + real delta) and a raw group, '
                 'evaluated (the statement writeArchive .. isSome by decide +kernel, a closed evaluation of the model)',
                 'ZSTD enters the theorems as a pair zc/zd with zd (zc l x) = some x and non-empty frames (hypotheses '
                 'of C12); codes are assumed inside the LZ literal range (ragc produces 0..15 and 30: '
                 'Props.C09.ragc_codes_ok)'],
 'trusted': ['zstd crate: decompress(compress(x)) = x and context-history independence (exercised, not proved)',
             'flate2 (gzip inputs are not part of the quick tier of this check; C19 covers presentation)'],
 'timeout': {'quick': 1500, 'thorough': 6000}}

MANIFEST = {'category': 'proof',
 'text': 'Lean theorems (Props/C01.lean): orientation_roundtrip (rc^f(rc^f d) = d on arbitrary codes) and '
         'writer_rc_is_reader_rc; split_at_position_spec and split_at_position_tiles (replacing a piece of a '
         'k-overlap tiling by the two halves split_segment_at_position returns, in either stored orientation, with any '
         'pair of re-orientation flags and the part-number swap, is again a tiling as the reader sees it); '
         'storage_form_roundtrip (raw entry with/without placeholder, reference part tuple-packed or plain, LZ entry '
         'against any reference: write then read = identity); contig_roundtrip (main theorem: for every contig, k >= 1, '
         'splitter predicate, every list of split decisions, every vector of orientation flags and storage forms: '
         'segment (C10), split, orient, store, read back, undo orientation, reconstruct_contig = the contig). This is '
         'the composition C10 + C09 + C12 + C07 + C02(unpack_pack) for the bases of a contig. END-TO-END theorem read_write about the '
         'whole-archive reference writer (Model/Writer.lean, every compressor decision is data, DecisionsOK decidable): '
         'for all well-formed decisions, inputs over the literal codes and any ZSTD pair with the two C12 facts, the '
         'independent decoder applied to the bytes of writeArchive returns exactly the input catalogue and the bases of '
         'every contig, with an empty list of breached format rules (decode o write = id); stages pieces_tile, '
         'read_write_bases, read_write_samples here and read_write_container / _catalogue / _groups in Props/C02. The '
         'reference writer is tied to the REAL writer by the C02 run (byte identity on every generated archive with the '
         'decisions read off that archive); in addition create then extract is run '
         'on every generated sample set (oracle extract == input) and the independent Lean decoder on '
         'the same archive bytes.',
 'design_ref': 'DESIGN.md §5 C01',
 'technique': 'Lean 4 proof of the layered round trip and of the end-to-end theorem decode o write = id for a reference writer '
              'with quantified decisions (tied to the real writer by byte identity in C02) + end-to-end oracle on generated '
              'archives + independent decoder run'}
