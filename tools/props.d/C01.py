"""C01: check configuration (CONFIG, used by ./check) and manifest entry (MANIFEST)."""
CONFIG = {'level': 'proof',
 'assumptions': ['Layer theorems are proved about hand-written models: Model/Segment.lean (segmentation, C10), '
                 'Model/Packs.lean (pack layout, id/flush bookkeeping, split_segment_at_position, '
                 'reverse_complement_sequence and the orientation / part-number bookkeeping of a split), '
                 'Model/SegCompress.lean + Model/Tuple.lean (part framing, C12), Model/LzDiff.lean (C09), '
                 'Model/Range.lean (reverse_complement_segment, reconstruct_contig, C07). contig_roundtrip composes '
                 'them for the bases of one contig, for EVERY split decision, orientation flag, group/reference choice '
                 'and pack neighbourhood the writer could take',
                 "the writer's grouping heuristics (which group, which orientation, whether/where to split) are "
                 'universally quantified decisions, not modelled algorithms; that the real writer registers each piece '
                 'under the descriptor that points at its entry (the glue between the layers) is NOT proved: it is '
                 'tied on every generated archive by the oracle extract == input and by the independent Lean decoder '
                 '(Model/Agc3.lean) reading the same bytes (counters decoder_eq_input, decoder_violations_empty)',
                 'catalogue plumbing (names, descriptor tables, batches) is C03; the container is C13; FASTA parsing and '
                 'letter<->code mapping are C16/C19; the end-to-end theorem wf_read (ArchiveWF inp a -> decodeArchive a = '
                 'inp) is not proved',
                 'ZSTD enters the theorems as a pair zc/zd with zd (zc l x) = some x and non-empty frames (hypotheses '
                 'of C12); codes are assumed inside the LZ literal range (ragc produces 0..15 and 30: '
                 'Props.C09.ragc_codes_ok)'],
 'trusted': ['zstd crate: decompress(compress(x)) = x and context-history independence (exercised, not proved)',
             'flate2 (gzip inputs are not part of the quick tier of this check; C19 covers presentation)'],
 'timeout': {'quick': 1500, 'thorough': 6000}}

MANIFEST = {'category': 'proof',
 'text': 'Lean theorems (Props/C01.lean): orientation_roundtrip (rc^f(rc^f d) = d on arbitrary codes) and '
         'writer_rc_is_reader_rc; split_at_position_spec and split_at_position_tiles (replacing a piece of a '
         'k-overlap tiling by the two halves split_segment_at_position returns, in either stored orientation, with any '
         'pair of re-orientation flags and the part-number swap, is again a tiling as the reader sees it); '
         'storage_form_roundtrip (raw entry with/without placeholder, reference part tuple-packed or plain, LZ entry '
         'against any reference: write then read = identity); contig_roundtrip (main theorem: for every contig, k >= 1, '
         'splitter predicate, every list of split decisions, every vector of orientation flags and storage forms: '
         'segment (C10), split, orient, store, read back, undo orientation, reconstruct_contig = the contig). This is '
         'the composition C10 + C09 + C12 + C07 + C02(unpack_pack) for the bases of a contig; the end-to-end '
         'composition with the real writer (its decisions and its registration of pieces) is tied by running create '
         'then extract on every generated sample set (oracle extract == input) and the independent Lean decoder on '
         'the same archive bytes.',
 'design_ref': 'DESIGN.md §5 C01',
 'technique': 'Lean 4 proof of the layered round trip with quantified writer decisions + end-to-end oracle on generated '
              'archives + independent decoder run'}
