"""C01: check configuration (CONFIG, used by ./check) and manifest entry (MANIFEST)."""
CONFIG = {'level': 'proof',
 'assumptions': ['Layer theorems are proved about hand-written models: Model/Segment.lean (segmentation, C10), '
                 'Model/Packs.lean (pack layout, id/flush bookkeeping, split_segment_at_position, '
                 'reverse_complement_sequence and the orientation / part-number bookkeeping of a split), '
                 'Model/SegCompress.lean + Model/Tuple.lean (part framing, C12), Model/LzDiff.lean (C09), '
                 'Model/Range.lean (reverse_complement_segment, reconstruct_contig, C07). contig_roundtrip composes '
                 'them for the bases of one contig, for EVERY split decision, orientation flag, group/reference choice '
                 'and pack neighbourhood the writer could take',
                 "the writer's grouping heuristics (which group, which orientation, whether/where to split) are "
                 'universally quantified decisions, not modelled algorithms; that the real writer registers each piece '
                 'under the descriptor that points at its entry (the glue between the layers) is NOT proved: it is '
                 'tied on every generated archive by the oracle extract == input and by the independent Lean decoder '
                 '(Model/Agc3.lean) reading the same bytes (counters decoder_eq_input, decoder_violations_empty)',
                 'catalogue plumbing (names, descriptor tables, batches) is C03; the container is C13; FASTA parsing and '
                 'letter<->code mapping are C16/C19',
                 'end to end: Model/Writer.lean is a whole-archive reference writer with all compressor decisions as data; '
                 'the C02 harness shows every real archive is an instance (byte identity). Proved for ALL well-formed '
                 'decisions (DecisionsOK), k >= 1, inputs over the literal codes: pieces_tile, read_write_samples (the decoder\'s '
                 'last stage returns all samples with catalogue = catalogueOf inp, bases = basesOf inp, no violation, from '
                 'the catalogue tables and the group table), read_write_bases (from the '
                 'group table the decoder builds - Props.C02.group_roundtrip - decodeContig on the registered descriptors '
                 'returns every contig\'s bases and no violation), on top of Props.C02.container_returns_every_part and '
                 'read_write_segments. The final theorem read_write (decodeArchive (writeArchive ..) = ok d, catalogue, '
                 'bases, violations = []) is NOT proved: the missing glue (directory analysis, catalogue batches, folds over '
                 'groups and samples) is listed at the end of Props/C01.lean and covered by the correspondence runs only',
                 'ZSTD enters the theorems as a pair zc/zd with zd (zc l x) = some x and non-empty frames (hypotheses '
                 'of C12); codes are assumed inside the LZ literal range (ragc produces 0..15 and 30: '
                 'Props.C09.ragc_codes_ok)'],
 'trusted': ['zstd crate: decompress(compress(x)) = x and context-history independence (exercised, not proved)',
             'flate2 (gzip inputs are not part of the quick tier of this check; C19 covers presentation)'],
 'timeout': {'quick': 1500, 'thorough': 6000}}

MANIFEST = {'category': 'proof',
 'text': 'Lean theorems (Props/C01.lean): orientation_roundtrip (rc^f(rc^f d) = d on arbitrary codes) and '
         'writer_rc_is_reader_rc; split_at_position_spec and split_at_position_tiles (replacing a piece of a '
         'k-overlap tiling by the two halves split_segment_at_position returns, in either stored orientation, with any '
         'pair of re-orientation flags and the part-number swap, is again a tiling as the reader sees it); '
         'storage_form_roundtrip (raw entry with/without placeholder, reference part tuple-packed or plain, LZ entry '
         'against any reference: write then read = identity); contig_roundtrip (main theorem: for every contig, k >= 1, '
         'splitter predicate, every list of split decisions, every vector of orientation flags and storage forms: '
         'segment (C10), split, orient, store, read back, undo orientation, reconstruct_contig = the contig). This is '
         'the composition C10 + C09 + C12 + C07 + C02(unpack_pack) for the bases of a contig. About the whole-archive '
         'reference writer (Model/Writer.lean, every compressor decision is data, DecisionsOK decidable): pieces_tile, '
         'read_write_samples (all samples: catalogue and bases equal the input, no violation) and '
         'read_write_bases (all decisions: the decoder returns the bases of every contig from the descriptors the writer '
         'registers, no violation), composing Props.C02.read_write_segments / group_roundtrip; the full read_write is not '
         'finished (missing glue listed in Props/C01.lean). The end-to-end '
         'composition with the real writer (its decisions and its registration of pieces) is tied by running create '
         'then extract on every generated sample set (oracle extract == input) and the independent Lean decoder on '
         'the same archive bytes.',
 'design_ref': 'DESIGN.md §5 C01',
 'technique': 'Lean 4 proof of the layered round trip with quantified writer decisions + end-to-end oracle on generated '
              'archives + independent decoder run'}
