"""C10: check configuration (CONFIG, used by ./check) and manifest entry (MANIFEST)."""
CONFIG = {'level': 'proof',
 'assumptions': ['Model/Segment.lean mirrors segment.rs split_at_splitters_with_size / split_at_splitters over the '
                 'k-mer window of Model/Kmer.lean; tied by exact correspondence (segment data, front/back k-mers, '
                 'orientation flags) on exhaustive small contigs with all splitter subsets and random contigs for k '
                 '1..32',
                 'the tiling theorems hold for every window tracker whose `is_full` implies that k symbols were '
                 'inserted since the last reset (proved for the Kmer model from its `cur` counter alone); boundary '
                 'k-mer values are stated relative to the tracker (C20 identifies them with the canonical k-mer of '
                 'the window)']}

MANIFEST = {'category': 'proof',
 'text': 'Lean theorems about Model/Segment.lean (the split_at_splitters_with_size / split_at_splitters loop over an '
         'abstract k-mer window and an arbitrary splitter predicate) for every contig, every k >= 1 and every '
         'splitter set: tiling with exact k-symbol overlaps, reassembly, later segments >= k (>= 2k for non-final '
         'ones of split_at_splitters_with_size), boundary k-mers recorded as back/front, members of the splitter set '
         "and equal to the window tracker's value at the boundary, first front / last back missing, single segment "
         'without splitter occurrence or below k; the model is executed against the real functions on all contigs '
         'over {A,C,N} up to length 9 (10 thorough) with k<=4 and all (capped) splitter subsets and on random '
         'contigs up to 3000 symbols for k 1..32; the property is also evaluated directly on the real output with a '
         'from-scratch canonical k-mer.',
 'design_ref': 'DESIGN.md §5 C10',
 'technique': 'Lean 4 proof over a list model with an abstract window tracker + exhaustive/random correspondence'}
