"""C08: check configuration (CONFIG, used by ./check) and manifest entry (MANIFEST)."""
CONFIG = {'level': 'proof',
 'assumptions': ['Model/ReaderState.lean mirrors the public methods of decompressor.rs (lazy "load ALL batches" '
                 'trigger, get_contig_range early return, get_segment cache fill, get_reference_segment, the '
                 'full-table queries) and collection.rs load_contig_batch / get_no_contigs / get_contig_list / '
                 'get_sample_desc / get_contig_desc over an abstract archive content; tied by running the state '
                 'machine (rd-run) on every history the harness executes on the real Decompressor (all histories up '
                 'to length 3 over the operation alphabet, random ones up to length 30, cloned handles in 4 threads '
                 'through rd-sys) and comparing result by result, and by comparing the specification function '
                 '(rd-answer) with fresh-handle answers',
                 'the abstract archive content (sample names, contig tables per metadata batch of 50, reference per '
                 'group, decoded segment per (group, in-group id), stream table) is measured on the real archive '
                 'through a fresh handle per item; decoding of names/descriptors/containers/ZSTD/LZ-diff is outside '
                 'this property (C03/C09/C12/C13)',
                 'WF: the metadata batches hold exactly one entry per sample name (the harness checks that the '
                 'number of collection-contigs parts is ceil(samples/50) on every generated archive)',
                 'get_contig_length is modelled in the release (wrapping) reading, the first pass of '
                 'get_contig_range in the checked reading; they differ only on descriptors whose later segments are '
                 'shorter than k (C07)',
                 'handles obtained by clone_for_thread share nothing but the read-only file (each re-opens it); OS '
                 'file reads of an unchanged file are deterministic'],
 'trusted': ['zstd crate: decompress(compress(x)) = x and context-history independence (exercised, not proved)'],
 'timeout': {'quick': 900, 'thorough': 3000}}

MANIFEST = {'category': 'proof',
 'text': 'Lean theorems about Model/ReaderState.lean, the Decompressor handle as a state machine (per-sample contig '
         'tables loaded lazily in batches, the samples_loaded cursor, the reference cache) over an ABSTRACT archive '
         'content (arbitrary sample names, batches, reference/segment decoders): an invariant (metadata untouched or '
         'exactly the archive table; cache holds only correct references) is preserved by every public operation, '
         'and under it every result equals answer(archive, operation) - hence for ALL operation sequences the result '
         'of a query equals the result on a fresh handle, for ALL interleavings of any number of clone_for_thread '
         'handles, unknown sample/contig names give err and never panic (sole exception proved exactly: '
         'get_contig_range with start >= end returns Ok([]) before any lookup), reloading is idempotent. The '
         'pre-repair behaviours (cumulative cursor; get_reference_segment with its own decoding) are modelled as '
         'stepOld and proved to violate the property. The state machine is executed against the real Decompressor on '
         'two-batch archives (>= 51 samples) and small ones: all histories up to length 3 over the operation '
         'alphabet x {existing, unknown} arguments, random histories up to length 30, cloned handles in 4 concurrent '
         'threads; the property itself is evaluated on the real code (every result vs the same operation on a fresh '
         'handle; panics). reader_answers_input: over the abstract content of an archive that the reference writer '
         "produced, every listing / extraction answer after any history (and on any clone) is the input's data; "
         'unknown names are errors.',
 'design_ref': 'DESIGN.md §5 C08',
 'technique': 'Lean 4 invariant proof over a state machine + exhaustive short-history correspondence on real '
              'archives'}
