"""C09: check configuration (CONFIG, used by ./check) and manifest entry (MANIFEST)."""
CONFIG = {'level': 'proof',
 'assumptions': ['Model/LzDiff.lean mirrors lz_diff.rs (new/prepare/encode/decode, linear-probing index, MurMur64, '
                 'f64 table sizing) with unbounded integers (u32/i64 ranges of positions and lengths not modelled: '
                 'sequences < 2^31); tied by byte equality of encode and decode on exhaustive small domains, '
                 'random/mutation-derived pairs and token streams',
                 'the theorems hold for every candidate supplier; for the real linear-probing index (exactSupplier) '
                 'it is proved that it only proposes positions that leave room for a k-mer in the padded reference '
                 '(exactSupplier_ok), hence encode is total (encode_total, lz_roundtrip_exact); that the Rust index '
                 'IS exactSupplier is the byte-exact correspondence of encode on every case']}

MANIFEST = {'category': 'proof',
 'text': 'Lean theorems about Model/LzDiff.lean: for every candidate supplier (hence for the real linear-probing '
         'index), every min-match >= HASHING_STEP, every reference and every non-empty target whose codes are '
         'literal codes of the decoder (generated constant lzLiteralSpan), decode(encode(target)) = target (through '
         "the reader's empty-delta convention and, for target != reference, for raw LZDiff::decode); encoding empty "
         'iff target = reference or target empty; no 0xFF byte; loop invariant and termination by the measure '
         '|target| - i; byte-level decoder = token-level decoder on well-formed tokens. The executable model (exact '
         'index, MurMur64, f64 sizing) is compared byte for byte with LZDiff::encode/decode on all pairs up to '
         'length 7/8 over small alphabets, mutation-derived pairs to 4 kB/40 kB with min-match 5..32, and random '
         'token streams; the property is also evaluated directly on the real code. Code 30 (unknown letter) is '
         "outside the theorem's hypothesis on the current tree and fails on the real code (negation witness proved).",
 'design_ref': 'DESIGN.md §5 C09, Appendix A.1',
 'technique': 'Lean 4 proof (loop invariant, supplier-parametric) + exhaustive/random byte-exact correspondence'}
