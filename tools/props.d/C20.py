"""C20: check configuration (CONFIG, used by ./check) and manifest entry (MANIFEST)."""
CONFIG = {'level': 'proof',
 'assumptions': ['Model/Kmer.lean mirrors kmer.rs (canonical mode) and kmer_extract.rs::enumerate_kmers; tied by '
                 'byte-exact correspondence on exhaustive small domains and random sequences for k 1..32']}

MANIFEST = {'category': 'proof',
 'text': 'Lean theorems about Model/Kmer.lean (UInt64 shifts/masks exactly as kmer.rs) for all k in 1..32 and all '
         'base sequences; the model is executed against the real Kmer/enumerate_kmers/reverse_complement_kmer on all '
         '4^k windows (k<=6 quick, 8 thorough), all sequences up to k+3 over {A,C,G,T,N} and random sequences for '
         'every k incl. 32; the laws are also evaluated directly on the real code against a from-scratch packing.',
 'design_ref': 'DESIGN.md §5 C20',
 'technique': 'Lean 4 proof over a UInt64 model + exhaustive/random correspondence'}
