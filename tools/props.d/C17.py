"""C17: check configuration (CONFIG, used by ./check) and manifest entry (MANIFEST)."""
CONFIG = {'level': 'translation_validation',
 'cli': True,
 'assumptions': ['thin model, weight on the differential against the real binary: Model/Cli.lean says which bytes go '
                 'where (stdout, -o file, temp file) and which exit status results for getset / listset / listctg and '
                 'for the flag dispatch of create, taking the per-sample FASTA text and the success of the pipeline '
                 'as inputs; what the bases of a sample are is C01/C07/C16, termination of the pipeline is C05, '
                 'complete writing of the archive is C15',
                 "the model's archive (sample names in archive order, contig headers, bases as letters) is read "
                 'through the library (Decompressor::list_samples / get_sample) from the archive the binary created; '
                 'the rendering (>header, 80-column lines) is part of the model and is compared byte for byte',
                 'exit classes: Ok -> 0, Err -> 1, clap usage error -> 2, panic -> 101 (Rust runtime / clap '
                 'conventions); clap itself (which command lines are usage errors) is trusted and only sampled',
                 'file system: a file is a byte string that File::create truncates; stdout always accepts bytes; '
                 'sample names distinct within an archive (observed: counter archive_names_distinct)',
                 'builds without the cpp_agc feature (the FFI path is modelled but not exercised)'],
 'trusted': ['clap argument parsing', 'zstd crate (archives are created and read by the real code)'],
 'timeout': {'quick': 2400, 'thorough': 6000}}

MANIFEST = {'category': 'translation_validation',
 'text': 'Differential validation of the real CLI binary (built from the working tree) against the executable Lean '
         'model Model/Cli.lean on every generated run: archives created by the binary itself (multi-file and '
         'single-file PanSN, prefix-related sample names) x single samples, name lists with repeats and '
         'reorderings, prefixes (empty, full, matching several, matching none, with ignored positionals), unknown '
         'names first/middle/last, empty request x {stdout, -o fresh, -o pre-existing, -o in a missing directory} x '
         'unusable temp directory x 12+ unreadable archive variants (missing, directory, empty, garbage, truncated '
         'at 8 points), listset/listctg, 6 concurrent getset runs in one temp directory; create with all 16 '
         'combinations of --batch/--adaptive/--concatenated/--cpp-agc x verbosity, -t (absent, 0, 1, 3, 64, junk), '
         '21 --queue-capacity strings, missing inputs/outputs, unknown flag; parse_capacity on fixed and random '
         'strings. Compared: exit status, stdout bytes, -o bytes, temp directory content, the reject reason on '
         'stderr (order of the checks), the parsed capacity. Direct oracles on the real code: multi-sample / '
         'prefix output == concatenation of the single-sample extractions in request / archive order, stdout == -o, '
         'every failure case exits non-zero, create exit 0 => archive exists, listset lists every input sample and '
         'every sample extracts with the input number of bases, no hang, no panic. Lean theorems about the model '
         '(for all archives, requests, destinations): getset_concat, getset_prefix, getset_unknown_fails (partial '
         'output = samples before the first unknown name), getset_stdout_eq_file, getset_ok_iff, failure_nonzero, '
         'create_dispatch_total, create_unsupported_nonzero, and getsetOld_loses_samples (witness of the repaired '
         'defect). The model is thin; the level claimed is that of the differential.',
 'design_ref': 'DESIGN.md §5 C17',
 'technique': 'differential testing of the CLI binary against an executable Lean model + Lean 4 theorems about the '
              'model + direct oracles'}
