"""C12: check configuration (CONFIG, used by ./check) and manifest entry (MANIFEST)."""
CONFIG = {'level': 'proof',
 'assumptions': ['ZSTD (zstd / zstd-safe crates) is a parameter of the model: the theorems assume '
                 'decompress(compress(l, x)) = x and that a frame is never empty; both, and the independence of the '
                 'frame from the history of the thread-local compression context, are exercised on the real library '
                 'on every run (counters zstd_*), not proved',
                 'Model/Tuple.lean mirrors tuple_packing.rs (incl. its panics on malformed input, in both arithmetic '
                 'profiles), Model/SegCompress.lean mirrors segment_compression.rs and the stored-part framing of '
                 'agc_compressor.rs / decompressor.rs; tied by byte-exact correspondence on exhaustive small '
                 'alphabets and random strings to 100 kB',
                 'the repetitiveness test (IEEE doubles) only selects the marker; the theorems hold for either '
                 'choice, the executable model uses Lean Float and an integer reformulation, both compared with the '
                 'code around the 0.5 threshold'],
 'trusted': ['zstd crate: decompress(compress(x)) = x and context-history independence (exercised, not proved)']}

MANIFEST = {'category': 'proof',
 'text': 'Lean theorems about Model/Tuple.lean and Model/SegCompress.lean: tuples_to_bytes(bytes_to_tuples(x)) = x '
         'for ALL byte strings (four symbol ranges, every length and remainder, both overflow profiles), '
         'injectivity, byte range of the output; compress_reference_segment / compress_segment_configured followed '
         'by decompress_segment_with_marker, and the stored-part framing (marker byte, raw fallback), return the '
         'input for either marker choice and every level, for any ZSTD that round-trips and never emits an empty '
         'frame. The model is executed against the real functions on every string over {0..3} (len<=8), {0..5} '
         '(7/8), {0..15} (5/6), {0,255}, on random strings to 100 kB, on every 1-/2-byte and many malformed tuple '
         'strings, and on reference segments steered to the 0.5 repetitiveness threshold; the round trips and ZSTD '
         'context-history independence are evaluated directly on the real code at levels 1,3,9,13,17,19,22.',
 'design_ref': 'DESIGN.md §5 C12',
 'technique': 'Lean 4 proof over a list model with ZSTD as a parameter + exhaustive/random correspondence'}
