"""C02: check configuration (CONFIG, used by ./check) and manifest entry (MANIFEST)."""
CONFIG = {'level': 'proof',
 'assumptions': ['The independent decoder Model/Agc3.lean is my reading of the AGC v3 format (8-byte footer length + '
                 'stream directory, length-prefixed big-endian integers, params, collection-samples/-contigs/-details, '
                 'x<base64 id>r / x<base64 id>d streams, 0xFF-separated packs of 50, raw groups 0-15 with placeholder '
                 '0x7f, marker 0 = plain ZSTD / other = tuple-packed, LZ-diff V2 text) with the normative constants as '
                 'literals; agreement with the C++ agc binary itself is not checked (not available offline)',
                 'the decoder composes codec models proved elsewhere (Container C13/C14, Names/Details C03, '
                 'SegCompress/Tuple C12, LzDiff C09, Range C07); constants_pinned proves that every regenerated constant '
                 'those models and the sources use equals the normative literal',
                 'layer theorems proved here: stream names injective and equal to the decoder\'s naming, pack '
                 'splitter inverts the pack layout, id/flush bookkeeping of flush_pack_compress_only obeys the '
                 '(i-1) div/mod 50 resp. i div/mod 50 rule with full non-final packs, metadata convention, LZ entries '
                 'decode and contain no 0xFF',
                 'Model/Writer.lean is a whole-archive REFERENCE WRITER (writeArchive cfg inp dec zc) composed only from '
                 'the layer models, with every heuristic / scheduling choice of the compressor as data (Decisions: piece '
                 'lengths, group and orientation per piece, arrival order inside each group, group creation order, tuple '
                 'flags) and a decidable DecisionsOK. It is tied to the REAL writer on every generated archive: the '
                 'decisions are read off the decoded archive and the container directory, the ZSTD oracle zc is the table '
                 'plain -> frame harvested from the archive itself (plus, for parts stored raw, what ragc\'s own '
                 'compress entry points answer), and writeArchive on the INPUT must reproduce the real file BYTE FOR BYTE '
                 '(request writer-check; counters writer_bytes_identical / writer_parts_identical; a difference is a '
                 'disagreement). Why no ordering freedom is left: every archive write of the compressor is '
                 'add_part_buffered and finalize flushes once, a stable sort by stream id (C13)',
                 'proved about the reference writer for ALL well-formed decisions (DecisionsOK, decidable; it carries the C03 '
                 'bounds: names over bytes 1..127, u32 counts, ids below 2^31, lengths below 2^32), inputs over the literal '
                 'codes, any ZSTD pair with the two C12 facts: writer_conforms - the independent decoder reads every output '
                 'of writeArchive, finds the given parameters and its list of breached format rules is EMPTY; this is the '
                 'conformance half of the end-to-end theorem Props.C01.read_write (decode o write = id), whose stages are '
                 'theorems here: read_write_container (C13), read_write_catalogue (C03 over the 50-sample batches), '
                 'read_write_groups (group_roundtrip folded over xStreams/addStream), with container_returns_every_part, '
                 'group_roundtrip, read_write_segments underneath; writer_output_accepted: for ALL decisions the output is '
                 'accepted by Container.openBytesFixed with every part inside the file (C14 link). writeArchive returns '
                 'none (explicitly, never a silent default) for min_match_len < 4, metadata >= 2^64, a file above 2^63-1 '
                 'bytes, and a descriptor stream of a batch >= 4 GiB (there the Rust casts as u32 silently). What ties the '
                 'theorem to the real writer is the byte-identity run above, not a proof about the Rust text',
                 'ZSTD is outside Lean: the harness decompresses every frame the decoder lists with the zstd crate and '
                 'hands the results back'],
 'trusted': ['zstd crate: decode_all of a frame written by ragc returns the compressed content (exercised, not proved)'],
 'timeout': {'quick': 1500, 'thorough': 6000}}

MANIFEST = {'category': 'proof',
 'text': 'Lean theorems (Props/C02.lean): stream_name_injective, delta_name_injective, ref_ne_delta, xname_not_fixed, '
         'decoder_names_agree, decoder_parses_names, part_reader_agrees (array part reader = C13 reader); constants_pinned (separator 255, pack cardinalities 50, 16 raw groups, version 3.0, LZ '
         'constants, tuple tables, the 64 base-64 digits, placeholder 0x7f = the normative literals of the decoder, by '
         'decide on the regenerated tables); unpack_pack / split_pack / unpack_pack_raw; packs_addressing (state machine '
         'of flush_pack_compress_only incl. empty deltas, id reuse and the final partial flush: id i>=1 is entry '
         '(i-1)%50 of pack (i-1)/50 in LZ groups, entry i%50 of pack i/50 in raw groups with the placeholder at pack 0 '
         'entry 0, every non-final pack has 50 entries); metadata_convention(+_parts); lz_entry_decodes, '
         'lz_pack_entry_decodes; about the reference writer Model/Writer.lean (every compressor decision is data): '
         'writer_conforms (every output of the reference writer is read by the independent decoder with an EMPTY '
         'violation list - all well-formed decisions, any ZSTD with the two C12 facts), its stages read_write_container, '
         'read_write_catalogue, read_write_groups, the layer facts container_returns_every_part, group_roundtrip, '
         'read_write_segments, and writer_output_accepted (openBytesFixed accepts the output, parts inside the file). The reference writer is run against every real archive of the run with the decisions read off that '
         'archive and must reproduce it byte for byte (writer_bytes_identical = number of archives). The independent decoder (Model/Agc3.lean, written from the format rules, constants '
         'hard-wired) is executed on every archive ragc writes for the C01 generator plus two targeted shapes (>50 '
         'deltas per group and two sample batches; raw groups with ids >= 50): it must recover catalogue and bases '
         'identical to the input and to ragc\'s reader, and its addressing-rule checks (one reference part per LZ '
         'group, id -> pack/entry, placeholder, pack cardinality and final separator, raw_length = decoded length, '
         'metadata 0 <=> raw else unpacked size, params, stream names, batches of 50) must find nothing.',
 'design_ref': 'DESIGN.md §5 C02',
 'technique': 'Lean 4 proofs about the writer-side bookkeeping and codecs + an executable independent decoder in Lean run on '
              'the bytes of every generated archive (differential against input and against ragc\'s reader) + an executable '
              'reference writer in Lean that must reproduce every real archive byte for byte'}
