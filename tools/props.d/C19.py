"""C19: check configuration (CONFIG, used by ./check) and manifest entry (MANIFEST)."""
CONFIG = {'level': 'proof',
 'assumptions': ['Model/Fasta.lean mirrors the FASTA reader and the sample naming (see C16); `render` of the model is '
                 'compared with the renderer of the harness on every presented file and the real reader (through '
                 'GenomeIO::open, i.e. through MultiGzDecoder for .gz) with the model parser on the decompressed text',
                 'everything downstream of the (sample, contig name, codes) stream is a deterministic function of that '
                 'stream and the parameters (C04, one fixed thread count here); byte identity of archives across '
                 'presentations is observed (sha256), not re-proved',
                 'single PanSN file versus per-sample files: equality of the streams is proved; that the archives then '
                 'extract equally is C01 and is observed here'],
 'trusted': ['flate2 MultiGzDecoder returns the concatenation of the members contents (exercised with member boundaries '
             'anywhere including inside a header, not proved)',
             'zstd crate: decompress(compress(x)) = x and context-history independence (exercised, not proved)'],
 'timeout': {'quick': 3000, 'thorough': 9000}}

MANIFEST = {'category': 'proof',
 'text': 'Lean theorems about Model/Fasta.lean: parse (render recs style) = canon recs for EVERY style (line width >= 1, '
         'LF/CRLF and case pattern per record, with/without final newline) and all records with a non-empty id and >= 1 '
         'letter; .gz file names give the same sample name as the plain name for .fa/.fasta (with the exact side '
         'condition and a counterexample outside it); one PanSN file and per-sample files give create the same '
         '(sample, contig, codes) stream. The model is executed against the real reader on every presented file '
         '(plain / gzip / multi-member gzip with a boundary inside a header, widths 1/7/60/100000, CRLF, lower/mixed '
         'case); archives are compared byte for byte (sha256) across presentations and extraction across PanSN-file '
         'versus per-sample files.',
 'design_ref': 'DESIGN.md §5 C19',
 'technique': 'Lean 4 proof over a byte-list model of the FASTA reader + differential correspondence + archive sha256 / '
              'extraction comparison'}
