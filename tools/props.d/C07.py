"""C07: check configuration (CONFIG, used by ./check) and manifest entry (MANIFEST)."""
CONFIG = {'level': 'proof',
 'assumptions': ['Model/Range.lean mirrors decompressor.rs get_contig_range / get_contig_length / reconstruct_contig '
                 '/ reverse_complement_segment; tied by running the model on the descriptors and decoded segments of '
                 'every contig of generated archives and comparing with the real answers for every query issued',
                 "well-formedness of the reader's view (raw_length = decoded segment length, later segments at least "
                 'k long) is a hypothesis of the theorems; it is observed (counter wf_holds) on every contig of '
                 'every generated archive',
                 'segment decoding (get_segment: ZSTD, LZ-diff, pack splitting) is outside this property '
                 '(C09/C12/C13)'],
 'trusted': ['zstd crate: decompress(compress(x)) = x and context-history independence (exercised, not proved)'],
 'timeout': {'quick': 600, 'thorough': 3000}}

MANIFEST = {'category': 'proof',
 'text': 'Lean theorems about Model/Range.lean (get_contig_range two-pass loop, get_contig_length with the usize '
         'subtraction in checked and wrapping readings, reconstruct_contig, reverse_complement_segment): for ALL '
         'segment lists and ALL (start,end) the range query equals the slice [start, min(end,len)) of the '
         'reconstructed contig and the length query equals its length, under the stated well-formedness (raw_length '
         '= decoded length, later segments >= k). The model is executed against the real Decompressor on every '
         'contig of generated archives (exhaustive (start,end) for short contigs, every junction +-(k+1) for long '
         'ones), and the property is evaluated directly on the real code against the slice of get_contig. '
         'range_on_written_archive: on any archive the reference writer produces, after any query history, the range '
         'query is the slice of the INPUT contig and the length query its length (C07 + C08 + C01 composed).',
 'design_ref': 'DESIGN.md §5 C07',
 'technique': 'Lean 4 proof over a list model + differential correspondence on real archives'}
