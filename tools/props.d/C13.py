"""C13: check configuration (CONFIG, used by ./check) and manifest entry (MANIFEST)."""
CONFIG = {'level': 'proof',
 'assumptions': ['Model/Container.lean + Model/Varint.lean mirror ragc-common/src/archive.rs and varint.rs (release '
                 'arithmetic, lseek limit probed on the work directory); tied by byte-exact correspondence of the '
                 'written file, the per-operation results and every reader answer on random operation histories',
                 'std::fs / BufWriter / BufReader deliver the bytes handed to them (I/O failures belong to C15)']}

MANIFEST = {'category': 'proof',
 'text': 'Lean theorems about Model/Container.lean (writer state machine, footer serialisation, reader) and '
         'Model/Varint.lean for all operation histories; the model is executed against the real Archive on random '
         'histories of register_stream/add_part/add_part_buffered/flush_buffers/set_raw_size (file bytes, '
         'per-operation results, directory, every part by id and sequentially, out-of-range ids) and against '
         'encode/decode_varint; the round-trip law is also evaluated directly on the real code against an '
         'independent commit log.',
 'design_ref': 'DESIGN.md §5 C13',
 'technique': 'Lean 4 proof over a byte-list model + random-history correspondence'}
