"""C18: check configuration (CONFIG, used by ./check) and manifest entry (MANIFEST)."""
CONFIG = {'level': 'proof',
 'checked_profile': True,
 'cli': True,
 'cli_debug': True,
 'timeout': {'quick': 1500, 'thorough': 7200},
 'assumptions': ['"no code path anywhere relies on wrap-around" is not a theorem: proved per modelled arithmetic site '
                 '(k-mer shifts/adds, raw_length - k, tuple unpacking, LZ encoder indices, repaired archive reader, '
                 'container offsets, zigzag, priority counter, capacity parsing, the k-mer mask of the fallback-minimizer '
                 'scans (D14, found by the thorough tier of this check)); everything else is covered only as '
                 'far as the two-profile differential run reaches',
                 "the overflow-checked build is the harness profile 'checked' (release optimisation + overflow-checks + "
                 'debug-assertions) and the dev-profile CLI binary'],
 'trusted': ['zstd crate output identical in both builds of the harness (same C library)']}

MANIFEST = {'category': 'proof',
 'text': 'Per-site Lean theorems that the overflow-checked and the wrapping readings of the modelled arithmetic '
         'coincide on the function domains (k-mer insert/reverse complement for k 1..32, raw_length - k under archive '
         'well-formedness, tuple unpacking, LZ encoder totality, the repaired Archive::open for all byte strings, '
         'container offsets in both profiles, zigzag, the i32 priority counter and sync-token priorities incl. the '
         'negation witness for the repaired +1_000_000 rule, checked capacity parsing, the fallback k-mer mask with the negation witness old_mask_k32). Tied to the code by running '
         'the C01/C04 case streams (create through the library exactly as main.rs, extraction, length/range queries) '
         'under the release profile and under the overflow-checked profile: archives must be byte-identical, '
         'extractions equal, no arithmetic panic; and the release and dev CLI binaries on thread/capacity/single-file '
         'flag cases. Partial by nature: sites that are neither modelled nor reached by the case streams are not '
         'covered.',
 'design_ref': 'DESIGN.md §5 C18',
 'technique': 'Lean 4 per-site no-overflow theorems + two-profile differential (library and CLI)'}
