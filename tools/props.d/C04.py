"""C04: check configuration (CONFIG, used by ./check) and manifest entry (MANIFEST)."""
CONFIG = {'level': 'proof',
 'assumptions': ['Model/Pipeline.lean mirrors the queue operations of ragc-cli create_archive + '
                 'StreamingQueueCompressor::{push,drain,sync_and_flush,finalize} (priority arithmetic included), '
                 'ContigTask::cmp, the guards of MemoryBoundedQueue at completed-call granularity and '
                 "worker_thread's loop with its four barrier waits; tied to the code by replaying the event log of "
                 'real runs (thread counts 2..16, tight and unbounded capacities, perturbed schedules) through the '
                 "model's transition function and by comparing the push sequence with the model's producer program",
                 'arrival order inside a batch is proved irrelevant (Lemmas/Canon.lean: the drained vector is sorted by '
                 'the RawBufferedSegment order translated from the source before anything reads it; '
                 'classified_state_schedule_independent: for ANY function F of the sorted batches the final state '
                 'is the same in every execution, given distinct (sample, contig, place) keys - fix D13); that '
                 'classification and the store phase ARE such a function, i.e. read no hidden input (thread-local '
                 'ZSTD context history, hash-map iteration order, work stealing), is exercised by the byte-identity '
                 'runs (sha256 over thread counts, capacities, perturbed schedules) and by C12, not proved',
                 'PrioSep is proved for the programs generated in multi-file and single-file mode; the '
                 'RAGC_SYNC_PER_SAMPLE debugging path and library users that call push/sync_and_flush in other '
                 'patterns are outside'],
 'trusted': ['event hooks H2/H3 in /repo (cfg(ragc_verif)): queue events are emitted under the queue mutex, pipeline '
             'events by the thread that performs the step']}

MANIFEST = {'category': 'proof',
 'text': 'Lean theorem batches_schedule_independent about Model/Pipeline.lean: for every producer program satisfying '
         'PrioSep, in every execution - any N >= 1 workers, any queue capacity, any interleaving - the batches that '
         'the token rounds close are exactly the push sequence partitioned at the token rounds, as sets; PrioSep is '
         'proved for the programs generated in multi-file and in single-file mode, and a negation witness is proved '
         'for the pre-fix single-file rule (tokens boosted by +1 000 000 overtake queued contigs). Real runs are '
         'trace-validated: their event logs are replayed event by event through the model, their push sequence is '
         "compared with the model's program, and their batches (buffer appends between barrier-1 releases) are "
         'compared with the partition. Byte identity (sha256) is checked over thread counts 1..16, capacities from '
         'one contig to unbounded, and perturbed schedules. That the archive is a function of the batches as sets is '
         'exercised by those byte-identity runs; proved: the drained batch is sorted (order translated from the source) '
         'before classification, so arrival order inside a batch cannot matter (classified_state_schedule_independent).',
 'design_ref': 'DESIGN.md §5 C04',
 'technique': 'Lean 4 proof over a guarded-action transition system + trace validation of real runs + byte-identity '
              'runs'}
