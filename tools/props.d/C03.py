"""C03: check configuration (CONFIG, used by ./check) and manifest entry (MANIFEST)."""
CONFIG = {'level': 'proof',
 'assumptions': ['Model/{CollVarint,Zigzag,Names,Details}.lean mirror ragc-common/src/collection.rs (prefix varint, '
                 'predictive zigzag, sample/contig-name codecs, 5-stream descriptor codec with the in_group_ids '
                 'predictor table, register_sample_contig/add_segment_placed, 50-sample batches with the '
                 'samples_loaded cursor) in release-profile arithmetic; tied by byte-exact correspondence through '
                 'the #[cfg(ragc_verif)] wrappers (hook H1)',
                 'ZSTD and the archive container are the identity in the model (C12/C13); the real store_*/load_* '
                 'path through an archive file is exercised by the harness',
                 'the predictor Vec<i32> is modelled as a finite map with default -1 (its 1.2x growth only affects '
                 'memory)'],
 'trusted': ['zstd crate: decompress(compress(x)) = x and context-history independence (exercised, not proved)']}

MANIFEST = {'category': 'proof',
 'text': 'Lean theorems about Model/{CollVarint,Zigzag,Names,Details}.lean: prefix-varint, predictive-zigzag (both inverses: canonical codes), '
         'string, sample-name, contig-name (any table of names over bytes 1..127), 5-stream descriptor (any table, '
         'ids < i32::MAX, segment_size+k <= 2^31) round trips, predictor-table synchronisation, 50-sample batches '
         'with the cursor, registration order. The models are executed against the real (de)serialisers through the '
         'H1 wrappers on grammar-generated name tables, descriptor tables, malformed streams and 1..130-sample '
         'catalogues; the catalogue round trip is also evaluated on the real code directly and through a real '
         'archive file.',
 'design_ref': 'DESIGN.md §5 C03, Appendix A.2',
 'technique': 'Lean 4 proof over byte-level models + byte-exact correspondence through hook H1'}
