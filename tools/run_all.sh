#!/bin/bash
# runs every registered check once (quick tier) on the current tree; prints one line per check
cd "$(dirname "$0")/.."
for p in $(python3 -c "import json; print(' '.join(c['property_id'] for c in json.load(open('MANIFEST.json'))['checks']))"); do
  out=$(./check $p --tier ${1:-quick} 2>&1 | tail -1)
  echo "$out"
done
