#!/usr/bin/env python3
"""
run_seeded.py <seeded-id> [Cxx ...]   apply seeded/<id>/patch.diff to /repo, run the given checks
(default: the property in meta.json), record what they report in seeded/<id>/result.json, and undo
the patch (git -C /repo checkout -- . ; files the patch added are removed).
Never leaves /repo modified, also on error.
"""
import json, os, re, subprocess, sys, time
VERIF = os.path.dirname(os.path.dirname(os.path.abspath(__file__)))
sid = sys.argv[1]
d = os.path.join(VERIF, "seeded", sid)
meta = json.load(open(os.path.join(d, "meta.json")))
checks = sys.argv[2:] or [meta["property"]]
patch = os.path.join(d, "patch.diff")
assert subprocess.run(["git", "-C", "/repo", "status", "--porcelain"], capture_output=True, text=True).stdout.strip() == "", "/repo is not clean"
added = [l[6:].strip() for l in open(patch) if l.startswith("+++ b/")]
res = {"seeded": sid, "ran": time.strftime("%Y-%m-%d %H:%M:%S"), "checks": {}}
try:
    subprocess.run(["git", "-C", "/repo", "apply", patch], check=True)
    for c in checks:
        t0 = time.time()
        p = subprocess.run([os.path.join(VERIF, "check"), c, "--tier", "quick"], cwd=VERIF, capture_output=True, text=True)
        lines = [l for l in p.stdout.splitlines() if l.startswith("VIOLATION") or l.startswith("KNOWN-FINDING")]
        detail = None
        m = re.search(r"replay=(\S+)", "\n".join(lines))
        if m and os.path.exists(m.group(1)):
            r = json.load(open(m.group(1)))
            detail = {"kind": r.get("kind"), "signature": r.get("signature"), "what": (r.get("what") or "")[:300],
                      "no_longer_checks": [x.get("what") for x in r.get("no_longer_checks", r.get("broken_obligations", []))][:5]}
        res["checks"][c] = {"exit": p.returncode, "lines": lines, "detail": detail, "wall_s": round(time.time() - t0)}
        print(c, "exit", p.returncode, lines, file=sys.stderr)
finally:
    subprocess.run(["git", "-C", "/repo", "checkout", "--", "."])
    for f in added:
        fp = os.path.join("/repo", f)
        tracked = subprocess.run(["git", "-C", "/repo", "ls-files", "--error-unmatch", f], capture_output=True).returncode == 0
        if not tracked and os.path.exists(fp):
            os.remove(fp)
# the evidence files written by the violating runs must not replace the committed ones
subprocess.run(["git", "-C", VERIF, "checkout", "--", "evidence"])
json.dump(res, open(os.path.join(d, "result.json"), "w"), indent=1)
print(json.dumps(res, indent=1))
