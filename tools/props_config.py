"""Per-property configuration of the check driver (levels, extra builds, assumptions)."""

ZSTD = "zstd crate: decompress(compress(x)) = x and context-history independence (exercised, not proved)"

PROPS = {
    "C11": {
        "level": "proof",
        "assumptions": [
            "Model/Splitters.lean mirrors splitters.rs determine_splitters / _streaming / _streaming_first_sample (one model, three "
            "entry points; the first-sample variant on the leading run of records with the first record's sample name), "
            "find_actual_splitters_in_contig and kmer_extract.rs remove_non_singletons(_with_duplicates); tied by set-exact "
            "correspondence of all three variants under rayon pools of 1/2/4/16 threads and by pick positions = split positions",
            "trusted library behaviour: rdst radix sort returns the sorted permutation (model: List.mergeSort), AHashSet::contains "
            "is membership (model: binary search, proved), rayon par_iter().map().collect() preserves order, genome_io parses the "
            "FASTA written by the harness into the contigs it was rendered from",
            "strand invariance (strand_invariant, enumerate_rc_closed) and pick_is_canonical_window use C20's enumerate_spec, "
            "canonical_rc and the Inv invariant of Lemmas/Kmer.lean (1 <= k <= 32); kmers_rc_invariant / enumerate_rc keep them as "
            "explicit hypotheses h_window / h_canon_rc",
            "self_segmentation_segments composes with the C10 model (Model/Segment.lean, Lemmas/Segment.lean): the split events "
            "`cuts` of split_at_splitters_with_size over the Kmer tracker are the loop picks of findLoop with segment_size 0 "
            "(cuts_eq_findLoop); that reading is additionally tied to the real segmenter by comparing split positions on "
            "arbitrary splitter sets (harness, segmenter-loop/positions)",
        ],
        "trusted": ["rdst radix sort / ahash set / rayon ordered collect (DESIGN §3)"],
    },
    "C20": {
        "level": "proof",
        "assumptions": [
            "Model/Kmer.lean mirrors kmer.rs (canonical mode) and kmer_extract.rs::enumerate_kmers; tied by "
            "byte-exact correspondence on exhaustive small domains and random sequences for k 1..32",
        ],
    },
}
