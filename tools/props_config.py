"""Per-property configuration of the check driver (levels, extra builds, assumptions)."""

ZSTD = "zstd crate: decompress(compress(x)) = x and context-history independence (exercised, not proved)"

PROPS = {
    "C13": {
        "level": "proof",
        "assumptions": [
            "Model/Container.lean + Model/Varint.lean mirror ragc-common/src/archive.rs and varint.rs (release arithmetic, "
            "lseek limit probed on the work directory); tied by byte-exact correspondence of the written file, the per-operation "
            "results and every reader answer on random operation histories",
            "std::fs / BufWriter / BufReader deliver the bytes handed to them (I/O failures belong to C15)",
        ],
    },
    "C14": {
        "level": "proof",
        "checked_profile": True,
        "assumptions": [
            "Model/Container.lean mirrors Archive::open (deserialize) in release arithmetic and in dev/test arithmetic "
            "(overflow checks; second harness build, profile 'checked'), including the footer-offset wrap-around / panic, the lseek limit of the file system (probed) and the size of the footer allocation; tied by the outcome "
            "class (ok / err / panic) of opening every strict prefix of generated archives",
            "Vec allocation of more than isize::MAX bytes panics with 'capacity overflow' without allocating (Rust std)",
        ],
    },
    "C20": {
        "level": "proof",
        "assumptions": [
            "Model/Kmer.lean mirrors kmer.rs (canonical mode) and kmer_extract.rs::enumerate_kmers; tied by "
            "byte-exact correspondence on exhaustive small domains and random sequences for k 1..32",
        ],
    },
}
