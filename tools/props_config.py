"""Per-property configuration of the check driver (levels, extra builds, assumptions)."""

ZSTD = "zstd crate: decompress(compress(x)) = x and context-history independence (exercised, not proved)"

PROPS = {
    "C04": {
        "level": "proof",
        "assumptions": [
            "Model/Pipeline.lean mirrors the queue operations of ragc-cli create_archive + StreamingQueueCompressor::{push,drain,"
            "sync_and_flush,finalize} (priority arithmetic included), ContigTask::cmp, the guards of MemoryBoundedQueue at completed-call "
            "granularity and worker_thread's loop with its four barrier waits; tied to the code by replaying the event log of real runs "
            "(thread counts 2..16, tight and unbounded capacities, perturbed schedules) through the model's transition function and by "
            "comparing the push sequence with the model's producer program",
            "that the archive bytes are a function of the batches as SETS (worker 0 sorts what it classifies; pack contents do not depend "
            "on arrival order inside a batch) is exercised by the byte-identity runs (sha256 over thread counts, capacities, perturbed "
            "schedules), not proved",
            "PrioSep is proved for the programs generated in multi-file and single-file mode; the RAGC_SYNC_PER_SAMPLE debugging path and "
            "library users that call push/sync_and_flush in other patterns are outside",
        ],
        "trusted": ["event hooks H2/H3 in /repo (cfg(ragc_verif)): queue events are emitted under the queue mutex, pipeline events by the thread that performs the step"],
    },
    "C05": {
        "level": "proof",
        "assumptions": [
            "Model/Pipeline.lean is a guarded-action transition system: the producer program, the bounded priority queue at "
            "completed-call granularity (its condvar protocol is C06), N workers with the four barrier waits; tied to the code by "
            "replaying the event log of every harness run through step? (trace inclusion) and by comparing the priority arithmetic push "
            "by push",
            "termination of the protocol, not of the threads: OS scheduling fairness, condvar wake-ups (C06), worker panics (a worker "
            "that dies inside a round leaves the others at the barrier) and the termination of the sequential code between two events "
            "(segmentation, classification, compression, finalize's flush) are outside",
            "drain() and the wait inside sync_and_flush() are polling loops; they are modelled as one wait-until-empty step",
        ],
        "trusted": ["event hooks H2/H3 in /repo (cfg(ragc_verif)): queue events are emitted under the queue mutex, pipeline events by the thread that performs the step"],
    },
    "C12": {
        "level": "proof",
        "assumptions": [
            "ZSTD (zstd / zstd-safe crates) is a parameter of the model: the theorems assume decompress(compress(l, x)) = x "
            "and that a frame is never empty; both, and the independence of the frame from the history of the "
            "thread-local compression context, are exercised on the real library on every run (counters zstd_*), not proved",
            "Model/Tuple.lean mirrors tuple_packing.rs (incl. its panics on malformed input, in both arithmetic profiles), "
            "Model/SegCompress.lean mirrors segment_compression.rs and the stored-part framing of agc_compressor.rs / "
            "decompressor.rs; tied by byte-exact correspondence on exhaustive small alphabets and random strings to 100 kB",
            "the repetitiveness test (IEEE doubles) only selects the marker; the theorems hold for either choice, the "
            "executable model uses Lean Float and an integer reformulation, both compared with the code around the 0.5 threshold",
        ],
        "trusted": [ZSTD],
    },
    "C20": {
        "level": "proof",
        "assumptions": [
            "Model/Kmer.lean mirrors kmer.rs (canonical mode) and kmer_extract.rs::enumerate_kmers; tied by "
            "byte-exact correspondence on exhaustive small domains and random sequences for k 1..32",
        ],
    },
}
