"""Per-property configuration of the check driver (levels, extra builds, assumptions)."""

ZSTD = "zstd crate: decompress(compress(x)) = x and context-history independence (exercised, not proved)"

PROPS = {
    "C20": {
        "level": "proof",
        "assumptions": [
            "Model/Kmer.lean mirrors kmer.rs (canonical mode) and kmer_extract.rs::enumerate_kmers; tied by "
            "byte-exact correspondence on exhaustive small domains and random sequences for k 1..32",
        ],
    },
}
