"""Per-property configuration of the check driver (levels, extra builds, assumptions)."""

ZSTD = "zstd crate: decompress(compress(x)) = x and context-history independence (exercised, not proved)"

PROPS = {
    "C09": {
        "level": "proof",
        "assumptions": [
            "Model/LzDiff.lean mirrors lz_diff.rs (new/prepare/encode/decode, linear-probing index, MurMur64, f64 table sizing) "
            "with unbounded integers (u32/i64 ranges of positions and lengths not modelled: sequences < 2^31); tied by byte "
            "equality of encode and decode on exhaustive small domains, random/mutation-derived pairs and token streams",
            "the theorems hold for every candidate supplier; that the real index never proposes a position whose k-mer "
            "leaves the padded reference (model result `none`) is checked by the correspondence run, not proved",
        ],
    },
    "C20": {
        "level": "proof",
        "assumptions": [
            "Model/Kmer.lean mirrors kmer.rs (canonical mode) and kmer_extract.rs::enumerate_kmers; tied by "
            "byte-exact correspondence on exhaustive small domains and random sequences for k 1..32",
        ],
    },
}
