"""Per-property configuration of the check driver: loaded from tools/props.d/Cxx.py (CONFIG)."""
import glob
import os
import runpy

ZSTD = "zstd crate: decompress(compress(x)) = x and context-history independence (exercised, not proved)"

_D = os.path.join(os.path.dirname(os.path.abspath(__file__)), "props.d")
PROPS = {}
CHECKS = {}
for _p in sorted(glob.glob(os.path.join(_D, "C*.py"))):
    _pid = os.path.basename(_p)[:-3]
    _ns = runpy.run_path(_p)
    PROPS[_pid] = _ns["CONFIG"]
    if _ns.get("MANIFEST"):
        CHECKS[_pid] = _ns["MANIFEST"]
