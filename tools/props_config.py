"""Per-property configuration of the check driver (levels, extra builds, assumptions)."""

ZSTD = "zstd crate: decompress(compress(x)) = x and context-history independence (exercised, not proved)"

PROPS = {
    "C03": {
        "level": "proof",
        "assumptions": [
            "Model/{CollVarint,Zigzag,Names,Details}.lean mirror ragc-common/src/collection.rs (prefix varint, predictive "
            "zigzag, sample/contig-name codecs, 5-stream descriptor codec with the in_group_ids predictor table, "
            "register_sample_contig/add_segment_placed, 50-sample batches with the samples_loaded cursor) in release-profile "
            "arithmetic; tied by byte-exact correspondence through the #[cfg(ragc_verif)] wrappers (hook H1)",
            "ZSTD and the archive container are the identity in the model (C12/C13); the real store_*/load_* path through "
            "an archive file is exercised by the harness",
            "the predictor Vec<i32> is modelled as a finite map with default -1 (its 1.2x growth only affects memory)",
        ],
        "trusted": [ZSTD],
    },
    "C20": {
        "level": "proof",
        "assumptions": [
            "Model/Kmer.lean mirrors kmer.rs (canonical mode) and kmer_extract.rs::enumerate_kmers; tied by "
            "byte-exact correspondence on exhaustive small domains and random sequences for k 1..32",
        ],
    },
}
