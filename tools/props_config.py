"""Per-property configuration of the check driver (levels, extra builds, assumptions)."""

ZSTD = "zstd crate: decompress(compress(x)) = x and context-history independence (exercised, not proved)"

PROPS = {
    "C06": {
        "level": "proof",
        "assumptions": [
            "Model/Queue.lean mirrors memory_bounded_queue.rs at the granularity of the under-lock events of hook H2; tied by "
            "replaying the event log of every real run (<= 16 threads, seeded perturbation) through the model: every event "
            "enabled, every (len, current_size, closed) snapshot equal, every take maximal",
            "std::sync::Mutex/Condvar as formalised in Model/Queue.lean: mutual exclusion (events totally ordered), wait "
            "atomically releases and enqueues, notify_one removes one arbitrary waiter if there is one, notify_all removes "
            "all, spurious wake-ups allowed; BinaryHeap::pop returns a greatest element",
            "usize arithmetic does not overflow (current_size + size_bytes < 2^64); OS scheduling fairness is outside the model",
        ],
        "timeout": {"quick": 600, "thorough": 3000},
    },
    "C20": {
        "level": "proof",
        "assumptions": [
            "Model/Kmer.lean mirrors kmer.rs (canonical mode) and kmer_extract.rs::enumerate_kmers; tied by "
            "byte-exact correspondence on exhaustive small domains and random sequences for k 1..32",
        ],
    },
}
