"""Per-property configuration of the check driver (levels, extra builds, assumptions)."""

ZSTD = "zstd crate: decompress(compress(x)) = x and context-history independence (exercised, not proved)"

PROPS = {
    "C12": {
        "level": "proof",
        "assumptions": [
            "ZSTD (zstd / zstd-safe crates) is a parameter of the model: the theorems assume decompress(compress(l, x)) = x "
            "and that a frame is never empty; both, and the independence of the frame from the history of the "
            "thread-local compression context, are exercised on the real library on every run (counters zstd_*), not proved",
            "Model/Tuple.lean mirrors tuple_packing.rs (incl. its panics on malformed input, in both arithmetic profiles), "
            "Model/SegCompress.lean mirrors segment_compression.rs and the stored-part framing of agc_compressor.rs / "
            "decompressor.rs; tied by byte-exact correspondence on exhaustive small alphabets and random strings to 100 kB",
            "the repetitiveness test (IEEE doubles) only selects the marker; the theorems hold for either choice, the "
            "executable model uses Lean Float and an integer reformulation, both compared with the code around the 0.5 threshold",
        ],
        "trusted": [ZSTD],
    },
    "C20": {
        "level": "proof",
        "assumptions": [
            "Model/Kmer.lean mirrors kmer.rs (canonical mode) and kmer_extract.rs::enumerate_kmers; tied by "
            "byte-exact correspondence on exhaustive small domains and random sequences for k 1..32",
        ],
    },
}
