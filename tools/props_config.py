"""Per-property configuration of the check driver (levels, extra builds, assumptions)."""

ZSTD = "zstd crate: decompress(compress(x)) = x and context-history independence (exercised, not proved)"

PROPS = {
    "C10": {
        "level": "proof",
        "assumptions": [
            "Model/Segment.lean mirrors segment.rs split_at_splitters_with_size / split_at_splitters over the k-mer window "
            "of Model/Kmer.lean; tied by exact correspondence (segment data, front/back k-mers, orientation flags) on "
            "exhaustive small contigs with all splitter subsets and random contigs for k 1..32",
            "the tiling theorems hold for every window tracker whose `is_full` implies that k symbols were inserted since "
            "the last reset (proved for the Kmer model from its `cur` counter alone); boundary k-mer values are stated "
            "relative to the tracker (C20 identifies them with the canonical k-mer of the window)",
        ],
    },
    "C20": {
        "level": "proof",
        "assumptions": [
            "Model/Kmer.lean mirrors kmer.rs (canonical mode) and kmer_extract.rs::enumerate_kmers; tied by "
            "byte-exact correspondence on exhaustive small domains and random sequences for k 1..32",
        ],
    },
}
