"""Per-property configuration of the check driver (levels, extra builds, assumptions)."""

ZSTD = "zstd crate: decompress(compress(x)) = x and context-history independence (exercised, not proved)"

PROPS = {
    "C07": {
        "level": "proof",
        "assumptions": [
            "Model/Range.lean mirrors decompressor.rs get_contig_range / get_contig_length / reconstruct_contig / "
            "reverse_complement_segment; tied by running the model on the descriptors and decoded segments of every contig "
            "of generated archives and comparing with the real answers for every query issued",
            "well-formedness of the reader's view (raw_length = decoded segment length, later segments at least k long) is a "
            "hypothesis of the theorems; it is observed (counter wf_holds) on every contig of every generated archive",
            "segment decoding (get_segment: ZSTD, LZ-diff, pack splitting) is outside this property (C09/C12/C13)",
        ],
        "trusted": [ZSTD],
        "timeout": {"quick": 600, "thorough": 3000},
    },
    "C20": {
        "level": "proof",
        "assumptions": [
            "Model/Kmer.lean mirrors kmer.rs (canonical mode) and kmer_extract.rs::enumerate_kmers; tied by "
            "byte-exact correspondence on exhaustive small domains and random sequences for k 1..32",
        ],
    },
}
