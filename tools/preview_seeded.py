#!/usr/bin/env python3
"""
preview_seeded.py <seeded-id> [Cxx ...]: run checks against a PATCHED COPY of /repo (a scratch
worktree) with a scratch copy of /verif whose harness path-depends on that worktree; /repo itself is
not touched, so this can run while other work depends on /repo. Same check code, same harness,
same Lean project as `./check`; result in seeded/<id>/preview.json (format of run_seeded.py).
The authoritative run against /repo itself is tools/run_seeded.py.
"""
import json, os, re, shutil, subprocess, sys, time
V = os.path.dirname(os.path.dirname(os.path.abspath(__file__)))
sid = sys.argv[1]
d = os.path.join(V, "seeded", sid)
meta = json.load(open(os.path.join(d, "meta.json")))
checks = sys.argv[2:] or [meta["property"]]
S = "/tmp/seedrun_" + sid
repo = S + "/repo"
subprocess.run(["git", "-C", "/repo", "worktree", "remove", "--force", repo], capture_output=True)
shutil.rmtree(S, ignore_errors=True)
os.makedirs(S)
subprocess.run(["git", "-C", "/repo", "worktree", "add", "--detach", repo, "HEAD", "-q"], check=True)
res = {"seeded": sid, "mode": "patched copy of /repo (tools/preview_seeded.py); /repo itself untouched",
       "ran": time.strftime("%Y-%m-%d %H:%M:%S"), "checks": {}}
try:
    subprocess.run(["git", "-C", repo, "apply", os.path.join(d, "patch.diff")], check=True)
    subprocess.run(["rsync", "-a", "--exclude", "build", "--exclude", "replays", "--exclude", ".git", V + "/", S + "/verif/"], check=True)
    os.makedirs(S + "/verif/build", exist_ok=True)
    for sub in ("harness", "cli"):
        if os.path.isdir(V + "/build/" + sub):
            subprocess.run(["cp", "-r", V + "/build/" + sub, S + "/verif/build/" + sub])
    ct = S + "/verif/harness/Cargo.toml"
    txt = open(ct).read().replace("/repo/", repo + "/")
    open(ct, "w").write(txt)
    for c in checks:
        t0 = time.time()
        p = subprocess.run(["./check", c, "--tier", "quick"], cwd=S + "/verif", env=dict(os.environ, VERIF_REPO=repo),
                           capture_output=True, text=True)
        lines = [l for l in p.stdout.splitlines() if l.startswith("VIOLATION") or l.startswith("KNOWN-FINDING")]
        detail = None
        m = re.search(r"replay=(\S+)", "\n".join(lines))
        if m and os.path.exists(m.group(1)):
            r = json.load(open(m.group(1)))
            detail = {"kind": r.get("kind"), "signature": r.get("signature"), "what": (r.get("what") or "")[:300],
                      "no_longer_checks": [x.get("what") for x in r.get("no_longer_checks", r.get("broken_obligations", []))][:5],
                      "first_detail": str([x.get("detail") or x.get("errors") or x.get("first") for x in r.get("no_longer_checks", r.get("broken_obligations", []))][:1])[:1500]}
        summ = [l for l in p.stderr.splitlines() if l.startswith("[%s]" % c)][-1:]
        res["checks"][c] = {"exit": p.returncode, "lines": [re.sub(r"replay=\S+", "replay=<path in the scratch copy>", l) for l in lines],
                            "summary": summ[0] if summ else "", "detail": detail, "wall_s": round(time.time() - t0)}
        print(sid, c, "exit", p.returncode, summ, file=sys.stderr)
finally:
    subprocess.run(["git", "-C", "/repo", "worktree", "remove", "--force", repo], capture_output=True)
    shutil.rmtree(S, ignore_errors=True)
json.dump(res, open(os.path.join(d, "preview.json"), "w"), indent=1)
