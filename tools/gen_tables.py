#!/usr/bin/env python3
"""
Translator for tables and constants: reads the *current* /repo sources and rewrites
lean/RagcModel/Gen/Tables.lean, so that every theorem that depends on a table (`decide` over all
128 letters, all 64 digits) or on a format constant is re-checked against what the code says now.
A file is rewritten only when its content changes (keeps `lake build` a no-op otherwise).
Exit 1 if something cannot be extracted (the construct moved or changed shape).
"""
import os
import json
import re
import sys

REPO = os.environ.get("VERIF_REPO", "/repo")
OUT = os.path.join(os.path.dirname(os.path.abspath(__file__)), "..", "lean", "RagcModel", "Gen", "Tables.lean")


def read(p):
    return open(os.path.join(REPO, p), encoding="utf-8", errors="replace").read()


def strip_comments(s):
    return re.sub(r"//.*", "", s)


def byte_expr(tok):
    tok = tok.strip()
    m = re.fullmatch(r"b'(\\?.)'", tok)
    if m:
        c = m.group(1)
        esc = {"\\n": 10, "\\r": 13, "\\t": 9, "\\0": 0, "\\\\": 92, "\\'": 39}
        return esc[c] if c in esc else ord(c)
    if re.fullmatch(r"0x[0-9a-fA-F_]+", tok):
        return int(tok.replace("_", ""), 16)
    if re.fullmatch(r"[0-9_]+", tok):
        return int(tok.replace("_", ""))
    raise ValueError("cannot evaluate byte expression %r" % tok)


def const(src, name, path):
    """All `const NAME: T = <literal>;` in src (there may be several copies); returns list of ints."""
    vals = []
    for m in re.finditer(r"const\s+%s\s*:\s*\w+\s*=\s*([^;]+);" % re.escape(name), strip_comments(src)):
        vals.append(byte_expr(m.group(1)))
    if not vals:
        raise ValueError("constant %s not found in %s" % (name, path))
    return vals


# ---------------------------------------------------------------------------------------------
# A tiny Rust-expression -> Lean translator for per-base closures / const fns: integer literals,
# one identifier (the parameter), + - < <= == >= >, `if c { a } else { b }`,
# `match x { lit => e, ..., _ => e }`, calls of already translated functions, `e as T` (dropped).
# Anything else raises, so an unexpected rewrite of these functions is reported, not guessed.
class RsExpr:
    def __init__(self, text, param, funcs):
        self.toks = re.findall(r"=>|<=|>=|==|[A-Za-z_][A-Za-z_0-9]*|\d[\d_]*(?:u8|u32|u64|usize)?|[{}(),;<>+\-|_]", strip_comments(text))
        self.i = 0
        self.param = param
        self.funcs = funcs

    def peek(self):
        return self.toks[self.i] if self.i < len(self.toks) else None

    def eat(self, t=None):
        tok = self.peek()
        if tok is None or (t is not None and tok != t):
            raise ValueError("translator: expected %r, got %r" % (t, tok))
        self.i += 1
        return tok

    def expr(self):
        if self.peek() == "if":
            self.eat("if")
            c = self.cmp()
            self.eat("{"); a = self.expr(); self.eat("}")
            self.eat("else")
            self.eat("{"); b = self.expr(); self.eat("}")
            return "(if %s then %s else %s)" % (c, a, b)
        if self.peek() == "match":
            self.eat("match")
            scrut = self.cmp()
            self.eat("{")
            arms = []
            while self.peek() != "}":
                pat = self.eat()
                self.eat("=>")
                e = self.expr()
                if self.peek() == ",":
                    self.eat(",")
                arms.append((pat, e))
            self.eat("}")
            if not arms or arms[-1][0] != "_":
                raise ValueError("translator: match without a final wildcard arm")
            out = arms[-1][1]
            for pat, e in reversed(arms[:-1]):
                if not re.fullmatch(r"\d+", pat):
                    raise ValueError("translator: unsupported pattern %r" % pat)
                out = "(if %s = %s then %s else %s)" % (scrut, pat, e, out)
            return out
        if self.peek() == "{":
            self.eat("{"); e = self.expr(); self.eat("}")
            return e
        return self.cmp()

    def cmp(self):
        a = self.add()
        if self.peek() in ("<", "<=", "==", ">=", ">"):
            op = self.eat()
            b = self.add()
            return "(%s %s %s)" % (a, {"==": "="}.get(op, op), b)
        return a

    def add(self):
        a = self.atom()
        while self.peek() in ("+", "-"):
            op = self.eat()
            b = self.atom()
            a = "(%s %s %s)" % (a, op, b)
        return a

    def atom(self):
        t = self.eat()
        if re.fullmatch(r"\d[\d_]*(?:u8|u32|u64|usize)?", t):
            e = re.sub(r"(u8|u32|u64|usize)$", "", t).replace("_", "")
        elif t == "(":
            e = self.expr(); self.eat(")")
        elif t == self.param:
            e = "b"
        elif t in self.funcs and self.peek() == "(":
            self.eat("("); a = self.expr(); self.eat(")")
            e = "(%s %s)" % (self.funcs[t], a)
        else:
            raise ValueError("translator: unsupported token %r" % t)
        while self.peek() == "as":
            self.eat("as"); self.eat()
        return e


def translate_fn(body, param, funcs):
    p = RsExpr(body, param, funcs)
    e = p.expr()
    if p.peek() is not None:
        raise ValueError("translator: trailing tokens %r" % p.toks[p.i:p.i + 5])
    return e



def main():
    out = []
    w = out.append
    w("/-! GENERATED by tools/gen_tables.py from /repo — do not edit. -/")
    w("namespace Ragc.Gen")
    w("")
    # --- CNV_NUM
    g = read("ragc-core/src/genome_io.rs")
    m = re.search(r"pub const CNV_NUM:\s*\[u8;\s*128\]\s*=\s*\[(.*?)\];", g, flags=re.S)
    if not m:
        raise ValueError("CNV_NUM not found")
    toks = [t for t in strip_comments(m.group(1)).replace("\n", " ").split(",") if t.strip()]
    cnv = [byte_expr(t) for t in toks]
    if len(cnv) != 128:
        raise ValueError("CNV_NUM has %d entries" % len(cnv))
    w("/-- genome_io.rs `CNV_NUM` (128 entries). -/")
    w("def cnvNum : List Nat := [" + ", ".join(map(str, cnv)) + "]")
    w("")
    # which bytes does read_contig keep:  `c > 64 && (c as usize) < CNV_NUM.len()`
    m = re.search(r"if c > (\d+) && \(c as usize\) < CNV_NUM\.len\(\)", g)
    if not m:
        raise ValueError("read_contig byte filter not found")
    w("/-- genome_io.rs `read_contig_impl`: bytes `c > keepAbove` (and `< 128`) are kept. -/")
    w("def keepAbove : Nat := %s" % m.group(1))
    w("")
    # --- base64 digits
    s = read("ragc-common/src/stream_naming.rs")
    m = re.search(r'const DIGITS:\s*&\[u8;\s*64\]\s*=\s*b"([^"]*)";', s)
    if not m or len(m.group(1)) != 64:
        raise ValueError("DIGITS not found")
    w("/-- stream_naming.rs `DIGITS`. -/")
    w("def b64Digits : List Nat := [" + ", ".join(str(ord(c)) for c in m.group(1)) + "]")
    w("")
    # --- format constants
    t = read("ragc-common/src/types.rs")
    w("def contigSeparator : Nat := %d" % const(t, "CONTIG_SEPARATOR", "types.rs")[0])
    w("def agcFileMajor : Nat := %d" % const(t, "AGC_FILE_MAJOR", "types.rs")[0])
    w("def agcFileMinor : Nat := %d" % const(t, "AGC_FILE_MINOR", "types.rs")[0])
    a = read("ragc-core/src/agc_compressor.rs")
    d = read("ragc-core/src/decompressor.rs")
    w("/-- every copy of PACK_CARDINALITY in the compressor, then the decompressor. -/")
    w("def packCardinalityWriter : List Nat := %s" % const(a, "PACK_CARDINALITY", "agc_compressor.rs"))
    w("def packCardinalityReader : List Nat := %s" % const(d, "PACK_CARDINALITY", "decompressor.rs"))
    w("def noRawGroupsWriter : List Nat := %s" % const(a, "NO_RAW_GROUPS", "agc_compressor.rs"))
    w("def noRawGroupsReader : List Nat := %s" % const(d, "NO_RAW_GROUPS", "decompressor.rs"))
    l = read("ragc-core/src/lz_diff.rs")
    w("def lzNCode : Nat := %d" % const(l, "N_CODE", "lz_diff.rs")[0])
    w("def lzNRunStarter : Nat := %d" % const(l, "N_RUN_STARTER_CODE", "lz_diff.rs")[0])
    w("def lzMinNRunLen : Nat := %d" % const(l, "MIN_NRUN_LEN", "lz_diff.rs")[0])
    w("def lzHashingStep : Nat := %d" % const(l, "HASHING_STEP", "lz_diff.rs")[0])
    w("def lzMaxNoTries : Nat := %d" % const(l, "MAX_NO_TRIES", "lz_diff.rs")[0])
    # is_literal range:  (b'A'..=b'A' + 20).contains(&c)
    m = re.search(r"fn is_literal\(.*?\{(.*?)\}", l, flags=re.S)
    if not m:
        raise ValueError("is_literal not found")
    body = strip_comments(m.group(1))
    m2 = re.search(r"\(\s*b'A'\s*\.\.=\s*b'A'\s*\+\s*(\d+)\s*\)\.contains\(&c\)(?:\s*\|\|\s*c\s*==\s*b'!')?", body)
    if not m2:
        raise ValueError("is_literal has an unexpected shape: %r" % body)
    w("/-- lz_diff.rs `is_literal`: `b'A' ..= b'A'+lzLiteralSpan` (plus `!`). -/")
    w("def lzLiteralSpan : Nat := %s" % m2.group(1))
    # --- C12: tuple packing (threshold, width, base) triples and segment-compression constants
    tp = strip_comments(read("ragc-core/src/tuple_packing.rs"))
    enc = re.findall(r"max_elem\s*<\s*(\d+)\s*\{\s*pack_tuples::<\s*(\d+)\s*,\s*(\d+)\s*>\(bytes\)", tp)
    dec = re.findall(r"(\d+)\s*=>\s*unpack_tuples::<\s*(\d+)\s*,\s*(\d+)\s*>", tp)
    if not enc or not dec:
        raise ValueError("tuple_packing.rs: pack/unpack dispatch not found")
    w("/-- tuple_packing.rs `bytes_to_tuples`: (max_elem bound, N, MAX) in the order tested. -/")
    w("def tuplePackCases : List (Nat × Nat × Nat) := [%s]" % ", ".join("(%s, %s, %s)" % t for t in enc))
    w("/-- tuple_packing.rs `tuples_to_bytes`: (no_bytes, N, MAX) of the `match`. -/")
    w("def tupleUnpackCases : List (Nat × Nat × Nat) := [%s]" % ", ".join("(%s, %s, %s)" % t for t in dec))
    nopack = re.findall(r"push\(\s*(0x[0-9a-fA-F]+|\d+)\s*\)", tp)
    empty = re.search(r"is_empty\(\)\s*\{\s*return\s+vec!\[\s*(0x[0-9a-fA-F]+|\d+)\s*\]", tp)
    if len(nopack) != 1 or not empty:
        raise ValueError("tuple_packing.rs: verbatim/empty marker not found")
    w("def tupleVerbatimMarker : Nat := %d" % byte_expr(nopack[0]))
    w("def tupleEmptyMarker : Nat := %d" % byte_expr(empty.group(1)))
    sc = read("ragc-core/src/segment_compression.rs")
    w("def segDeltaLevel : Nat := %d" % const(sc, "DELTA_COMPRESSION_LEVEL", "segment_compression.rs")[0])
    w("def segRefTuplesLevel : Nat := %d" % const(sc, "REF_TUPLES_COMPRESSION_LEVEL", "segment_compression.rs")[0])
    w("def segRefPlainLevel : Nat := %d" % const(sc, "REF_PLAIN_COMPRESSION_LEVEL", "segment_compression.rs")[0])
    m = re.search(r"const\s+REPETITIVENESS_THRESHOLD\s*:\s*f64\s*=\s*(\d+)\.(\d+)\s*;", strip_comments(sc))
    if not m:
        raise ValueError("REPETITIVENESS_THRESHOLD not found")
    w("/-- `REPETITIVENESS_THRESHOLD` as numerator / denominator of its decimal literal. -/")
    w("def segRepThreshold : Nat × Nat := (%d, %d)" % (int(m.group(1) + m.group(2)), 10 ** len(m.group(2))))
    m = re.search(r"fn check_repetitiveness.*?for offset in (\d+)\.\.(\d+)", strip_comments(sc), flags=re.S)
    if not m:
        raise ValueError("check_repetitiveness offset range not found")
    w("/-- `check_repetitiveness`: `for offset in lo..hi`. -/")
    w("def segRepOffsets : Nat × Nat := (%s, %s)" % (m.group(1), m.group(2)))
    # --- CollectionVarInt thresholds / prefixes / masks (constant expressions are evaluated)
    c = read("ragc-common/src/collection.rs")
    m = re.search(r"impl CollectionVarInt \{(.*?)pub fn encode", c, flags=re.S)
    if not m:
        raise ValueError("impl CollectionVarInt not found")
    env = {}
    for cm in re.finditer(r"const\s+(\w+)\s*:\s*(u8|u32)\s*=\s*([^;]+);", strip_comments(m.group(1))):
        expr = cm.group(3).replace("Self::", "")
        expr = re.sub(r"(0b[01_]+|0x[0-9a-fA-F_]+|\d[\d_]*)(u8|u32|u64|usize)?", lambda x: x.group(1).replace("_", ""), expr)
        if not re.fullmatch(r"[\w\s+<>()*|&-]+", expr):
            raise ValueError("unexpected constant expression %r" % expr)
        env[cm.group(1)] = int(eval(expr, {"__builtins__": {}}, dict(env)))
    for group, names in (("collThr", ["THR_1", "THR_2", "THR_3", "THR_4"]),
                         ("collPref", ["PREF_1", "PREF_2", "PREF_3", "PREF_4", "PREF_5"]),
                         ("collMask", ["MASK_1", "MASK_2", "MASK_3", "MASK_4"])):
        if any(n not in env for n in names):
            raise ValueError("CollectionVarInt constants missing: %s" % [n for n in names if n not in env])
        w("/-- collection.rs `CollectionVarInt::%s`. -/" % ", ".join(names))
        w("def %s : List Nat := %s" % (group, [env[n] for n in names]))
    # --- per-base reverse-complement rules, TRANSLATED from the source text
    k = read("ragc-core/src/kmer.rs")
    m = re.search(r"pub const fn reverse_complement\(base: u64\) -> u64 \{(.*?)\n\}", k, flags=re.S)
    if not m:
        raise ValueError("kmer.rs reverse_complement not found")
    w("/-- kmer.rs `reverse_complement` (translated from the source). -/")
    w("def kmerRcBase (b : Nat) : Nat := " + translate_fn(m.group(1), "base", {}))
    funcs = {"reverse_complement": "kmerRcBase"}
    m = re.search(r"fn reverse_complement_sequence\(seq: &\[u8\]\) -> Vec<u8> \{(.*?)\n\}", a, flags=re.S)
    mm = m and re.search(r"\.map\(\|&base\|(.*)\)\s*\.collect\(\)", m.group(1), flags=re.S)
    if not mm:
        raise ValueError("agc_compressor.rs reverse_complement_sequence: per-base closure not found")
    w("/-- agc_compressor.rs `reverse_complement_sequence`: the per-base rule (translated). -/")
    w("def writerRcBase (b : Nat) : Nat := " + translate_fn(mm.group(1), "base", funcs))
    m = re.search(r"let segment_data_rc: Vec<u8> = segment\s*\.data\s*\.iter\(\)\s*\.rev\(\)\s*\.map\(\|&base\|(.*?)\)\s*\.collect\(\);\s*RawBufferedSegment", a, flags=re.S)
    if not m:
        raise ValueError("agc_compressor.rs worker data_rc precomputation not found")
    w("/-- agc_compressor.rs worker_thread: per-base rule of the precomputed `data_rc` (translated). -/")
    w("def workerRcBase (b : Nat) : Nat := " + translate_fn(m.group(1), "base", funcs))
    m = re.search(r"fn reverse_complement_segment\(segment: &\[u8\]\) -> Contig \{(.*?)\n    \}", d, flags=re.S)
    mm = m and re.search(r"\.map\(\|&base\|(.*)\)\s*\.collect\(\)", m.group(1), flags=re.S)
    if not mm:
        raise ValueError("decompressor.rs reverse_complement_segment: per-base closure not found")
    w("/-- decompressor.rs `reverse_complement_segment`: the per-base rule (translated). -/")
    w("def readerRcBase (b : Nat) : Nat := " + translate_fn(mm.group(1), "base", funcs))
    # --- ContigTask ordering: the keys compared, in nesting order, and which are reversed
    m = re.search(r"impl Ord for ContigTask \{(.*?)\n\}\n", a, flags=re.S)
    if not m:
        raise ValueError("impl Ord for ContigTask not found")
    keys = []
    for cm in re.finditer(r"(self|other)\.(\w+)\.cmp\(&(self|other)\.(\w+)\)", strip_comments(m.group(1))):
        if cm.group(2) != cm.group(4) or cm.group(1) == cm.group(3):
            raise ValueError("ContigTask::cmp: unexpected comparison %r" % cm.group(0))
        keys.append((cm.group(2), cm.group(1) == "other"))
    if not keys:
        raise ValueError("ContigTask::cmp: no comparisons found")
    w("/-- agc_compressor.rs `impl Ord for ContigTask`: the fields compared, outermost first, and")
    w("    whether the comparison is reversed (`other.f.cmp(&self.f)`). -/")
    w("def taskCmpKeys : List (String × Bool) := [" + ", ".join('("%s", %s)' % (k, "true" if r else "false") for k, r in keys) + "]")
    # --- RawBufferedSegment ordering (what `raw_segs.sort()` in classify_raw_segments_at_barrier uses)
    m = re.search(r"impl Ord for RawBufferedSegment \{(.*?)\n\}\n", a, flags=re.S)
    if not m:
        raise ValueError("impl Ord for RawBufferedSegment not found")
    keys = []
    for cm in re.finditer(r"(self|other)\.(\w+)\.cmp\(&(self|other)\.(\w+)\)", strip_comments(m.group(1))):
        if cm.group(2) != cm.group(4) or cm.group(1) == cm.group(3):
            raise ValueError("RawBufferedSegment::cmp: unexpected comparison %r" % cm.group(0))
        keys.append((cm.group(2), cm.group(1) == "other"))
    if not keys:
        raise ValueError("RawBufferedSegment::cmp: no comparisons found")
    w("/-- agc_compressor.rs `impl Ord for RawBufferedSegment`: fields compared, outermost first, and")
    w("    whether the comparison is reversed. -/")
    w("def rawSegCmpKeys : List (String × Bool) := [" + ", ".join('("%s", %s)' % (k, "true" if r else "false") for k, r in keys) + "]")
    # does classify_raw_segments_at_barrier sort the drained vector before anything else reads it?
    m = re.search(r"\nfn classify_raw_segments_at_barrier\((.*?)\n\}\n", a, flags=re.S)
    if not m:
        raise ValueError("classify_raw_segments_at_barrier not found")
    body = strip_comments(m.group(1))
    vm = re.search(r"let\s+mut\s+(\w+)\s*:\s*Vec<RawBufferedSegment>\s*=\s*Vec::new\(\)", body)
    var = vm.group(1) if vm else "raw_segs"
    uses = [u.start() for u in re.finditer(r"\b%s\b" % re.escape(var), body)]
    # expected uses in order: declaration, append in the drain loop, is_empty test, sort(), then the rest
    stmts = [body[u:u + 80].split(";")[0].split("{")[0].strip() for u in uses[:5]]
    stmts = [re.sub(r"\s+", " ", t.replace(var, "V")) for t in stmts]
    ok = (len(stmts) >= 5 and stmts[0].startswith("V: Vec<RawBufferedSegment> = Vec::new()")
          and stmts[1].startswith("V.append(") and stmts[2].startswith("V.is_empty()")
          and stmts[3] == "V.sort()")
    # (B) an equivalent canonicalisation further down: regrouping the drained vector into a BTreeMap keyed by
    # (sample_name, contig_name) and sorting every group by original_place gives the same order, so a tree
    # that drops the (then redundant) first sort still classifies a canonical vector
    regroup = re.search(r"BTreeMap<\(String, String\), Vec<RawBufferedSegment>>\s*=\s*BTreeMap::new\(\);\s*"
                        r"for (\w+) in %s\.drain\(\.\.\)\s*\{\s*let key = \(\1\.sample_name\.clone\(\), \1\.contig_name\.clone\(\)\);\s*"
                        r"(\w+)\.entry\(key\)\.or_default\(\)\.push\(\1\);\s*\}" % re.escape(var), body)
    resort = regroup and re.search(r"for (\w+) in %s\.values_mut\(\)\s*\{\s*\1\.sort_by_key\(\|s\| s\.original_place\);\s*\}" % re.escape(regroup.group(2)), body)
    reads_between = len(stmts) >= 4 and stmts[0].startswith("V: Vec<RawBufferedSegment> = Vec::new()") and stmts[1].startswith("V.append(") \
        and stmts[2].startswith("V.is_empty()") and stmts[3].startswith("V.drain(..)")
    ok_b = bool(regroup and resort and reads_between)
    ok = ok or ok_b
    w("/-- agc_compressor.rs `classify_raw_segments_at_barrier`: the drained vector is declared, filled by")
    w("    `append` from the per-worker buffers, tested for emptiness and then SORTED (`raw_segs.sort()`)")
    w("    before any other statement reads it - or (equivalent) drained straight into a BTreeMap keyed by")
    w("    (sample_name, contig_name) whose groups are sorted by original_place. First uses seen (V = the vector): %s -/" % json.dumps(stmts).replace("-/", "- /"))
    w("def classifySortsDrained : Bool := " + ("true" if ok else "false"))
    # --- the 2-bit k-mer masks of the fallback-minimizer scan (defect D14: `1u64 << (2 * k)` at k = 32)
    masks = [re.sub(r"\s+", " ", m.group(1)).strip()
             for m in re.finditer(r"let mask: u64 = (.*?);\n", strip_comments(a))]
    w("/-- agc_compressor.rs: every `let mask: u64 = …;` (k-mer masks of the fallback-minimizer scans), whitespace-normalised. -/")
    w("def fallbackMaskExprs : List String := [" + ", ".join(json.dumps(x) for x in masks) + "]")
    w("")
    w("end Ragc.Gen")
    text = "\n".join(out) + "\n"
    os.makedirs(os.path.dirname(OUT), exist_ok=True)
    old = open(OUT).read() if os.path.exists(OUT) else None
    if old != text:
        open(OUT, "w").write(text)
        print("rewrote", os.path.normpath(OUT))
    return 0


if __name__ == "__main__":
    try:
        sys.exit(main())
    except Exception as e:  # noqa: BLE001
        print("gen_tables: " + str(e))
        sys.exit(1)
