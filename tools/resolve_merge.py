#!/usr/bin/env python3
"""Resolve the trivial 'both sides added an entry' conflicts after pulling an agent workspace."""
import re, subprocess, sys, json
def both(s):
    return re.sub(r"<<<<<<< [^\n]*\n(.*?)=======\n(.*?)>>>>>>> [^\n]*\n", lambda m: m.group(1)+m.group(2), s, flags=re.S)
files = subprocess.run(["git","diff","--name-only","--diff-filter=U"],capture_output=True,text=True).stdout.split()
for f in files:
    s=open(f).read()
    if f.endswith("MANIFEST.json"):
        subprocess.run(["git","checkout","--ours",f]); continue
    if f.endswith("Driver/Main.lean"):
        def fix(m):
            a,b=m.group(1),m.group(2)
            la=re.search(r"\[(.*?)\]",a,flags=re.S); lb=re.search(r"\[(.*?)\]",b,flags=re.S)
            if la and lb and "handle" in a and "import" not in a:
                items=[]
                for x in (la.group(1)+","+lb.group(1)).split(","):
                    x=x.strip()
                    if x and x not in items: items.append(x)
                return "  ["+", ".join(items)+"]\n"
            return a+b
        s=re.sub(r"<<<<<<< [^\n]*\n(.*?)=======\n(.*?)>>>>>>> [^\n]*\n", fix, s, flags=re.S)
    else:
        s=both(s)
    # dedupe identical consecutive lines for imports / mod lines
    out=[]
    for line in s.split("\n"):
        if out and line==out[-1] and (line.startswith("import ") or line.startswith("pub mod ") or line.strip().startswith('"C')):
            continue
        out.append(line)
    open(f,"w").write("\n".join(out))
    print("resolved",f)
