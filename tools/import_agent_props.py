#!/usr/bin/env python3
"""import_agent_props.py <workspace> <Cxx>...: turn an agent workspace's old-style entries in
tools/props_config.py / tools/manifest_src.py into tools/props.d/Cxx.py here."""
import os, pprint, runpy, sys
ws = sys.argv[1]
sys.path.insert(0, os.path.join(ws, "tools"))
cfgs = runpy.run_path(os.path.join(ws, "tools", "props_config.py"))
mans = runpy.run_path(os.path.join(ws, "tools", "manifest_src.py"))
here = os.path.dirname(os.path.abspath(__file__))
for pid in sys.argv[2:]:
    cfg = cfgs["PROPS"].get(pid)
    man = mans.get("CHECKS", {}).get(pid) or cfgs.get("CHECKS", {}).get(pid)
    if cfg is None:
        print("no CONFIG for", pid); continue
    with open(os.path.join(here, "props.d", pid + ".py"), "w") as f:
        f.write('"""%s: check configuration (CONFIG, used by ./check) and manifest entry (MANIFEST)."""\n' % pid)
        f.write("CONFIG = " + pprint.pformat(cfg, width=118, sort_dicts=False) + "\n\n")
        f.write("MANIFEST = " + pprint.pformat(man, width=118, sort_dicts=False) + "\n")
    print("wrote props.d/%s.py (manifest: %s)" % (pid, man is not None))
