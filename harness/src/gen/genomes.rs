//! Structure-aware generator for sample sets: a random base genome, later samples derived by
//! SNPs, indels, N-runs, IUPAC codes, whole-contig reverse complements, duplicated / absent /
//! extra / reordered contigs, contigs shorter than k.
use crate::rng::Rng;
use std::io::Write;
use std::path::{Path, PathBuf};

/// 16 output letters by code (decompressor's table): ACGTNRYSWKMBDHVU
pub const LETTERS: &[u8; 16] = b"ACGTNRYSWKMBDHVU";

#[derive(Clone, Debug)]
pub struct Sample {
    pub name: String,
    /// (full header line without '>', upper-case letters)
    pub contigs: Vec<(String, Vec<u8>)>,
}

#[derive(Clone, Debug)]
pub struct SampleSet {
    pub samples: Vec<Sample>,
}

#[derive(Clone, Debug)]
pub struct GenOpts {
    pub n_samples: usize,
    pub n_contigs: usize,
    /// contig length range of the base genome
    pub len_lo: usize,
    pub len_hi: usize,
    /// per-base divergence numerator over 1000
    pub div_per_mille: u64,
    pub iupac: bool,
    pub n_runs: bool,
    pub revcomp: bool,
    pub structural: bool,
    pub short_contigs: bool,
    pub k: usize,
    /// PanSN headers `sample#1#ctg` (needed for single-file mode)
    pub pansn: bool,
    /// headers carry a description after a space
    pub descriptions: bool,
}

pub fn random_seq(rng: &mut Rng, len: usize) -> Vec<u8> {
    (0..len).map(|_| b"ACGT"[rng.below(4) as usize]).collect()
}

pub fn revcomp_letters(s: &[u8]) -> Vec<u8> {
    s.iter()
        .rev()
        .map(|&c| match c {
            b'A' => b'T',
            b'C' => b'G',
            b'G' => b'C',
            b'T' => b'A',
            o => o,
        })
        .collect()
}

fn mutate(rng: &mut Rng, s: &[u8], o: &GenOpts) -> Vec<u8> {
    let mut out = Vec::with_capacity(s.len() + 16);
    let mut i = 0;
    while i < s.len() {
        if o.div_per_mille > 0 && rng.below(1000) < o.div_per_mille {
            match rng.below(10) {
                0..=4 => {
                    // SNP
                    out.push(b"ACGT"[rng.below(4) as usize]);
                    i += 1;
                }
                5 => {
                    // short insertion
                    let n = rng.range(1, 12) as usize;
                    out.extend(random_seq(rng, n));
                }
                6 => {
                    // short deletion
                    i += rng.range(1, 12) as usize;
                }
                7 if o.n_runs => {
                    let n = rng.range(1, 8) as usize;
                    out.extend(std::iter::repeat(b'N').take(n));
                    i += n;
                }
                8 if o.iupac => {
                    out.push(LETTERS[rng.range(4, 15) as usize]);
                    i += 1;
                }
                _ => {
                    out.push(b"ACGT"[rng.below(4) as usize]);
                    i += 1;
                }
            }
        } else {
            out.push(s[i]);
            i += 1;
        }
    }
    if out.is_empty() {
        out.push(b'A');
    }
    out
}

pub fn gen_sample_set(rng: &mut Rng, o: &GenOpts) -> SampleSet {
    let mut base: Vec<Vec<u8>> = (0..o.n_contigs)
        .map(|_| {
            let len = rng.range(o.len_lo as u64, o.len_hi as u64) as usize;
            random_seq(rng, len)
        })
        .collect();
    if o.short_contigs && !base.is_empty() {
        // one contig shorter than k, one of length exactly 1 sometimes
        let l = rng.range(1, (o.k.max(2) - 1) as u64) as usize;
        base.push(random_seq(rng, l));
    }
    let mut samples = vec![];
    // PanSN sets: sometimes two haplotypes per individual (i00#1, i00#2, i01#1, …) instead of one
    // individual per sample (s000#1, s001#1, …)
    // …or one individual with many haplotypes whose numbers are string prefixes of each other
    // (p#1, p#10, p#100, p#11, p#2, …): naming 0 = one sample per individual, 1 = two haplotypes per
    // individual, 2 = prefix-related haplotype numbers
    let naming = if o.pansn { rng.below(3) } else { 0 };
    const PREFIXY: [usize; 12] = [1, 10, 100, 11, 12, 2, 20, 21, 3, 30, 4, 5];
    for s in 0..o.n_samples {
        let name = match naming {
            1 => format!("i{:02}", s / 2),
            2 => format!("p{:02}", s / PREFIXY.len()),
            _ => format!("s{:03}", s),
        };
        let hap = match naming {
            1 => 1 + s % 2,
            2 => PREFIXY[s % PREFIXY.len()],
            _ => 1,
        };
        let mut contigs: Vec<(String, Vec<u8>)> = vec![];
        let mut order: Vec<usize> = (0..base.len()).collect();
        if s > 0 && o.structural {
            if rng.chance(1, 4) && order.len() > 1 {
                // reorder
                let a = rng.below(order.len() as u64) as usize;
                let b = rng.below(order.len() as u64) as usize;
                order.swap(a, b);
            }
            if rng.chance(1, 5) && order.len() > 1 {
                // absent
                let a = rng.below(order.len() as u64) as usize;
                order.remove(a);
            }
            if rng.chance(1, 5) {
                // duplicated
                let a = *rng.pick(&order);
                order.push(a);
            }
        }
        for (ci, &bi) in order.iter().enumerate() {
            let mut seq = if s == 0 { base[bi].clone() } else { mutate(rng, &base[bi], o) };
            if s == 0 && (o.iupac || o.n_runs) && rng.chance(1, 3) {
                // the reference also carries some non-ACGT codes
                let oo = GenOpts { div_per_mille: 3, ..o.clone() };
                seq = mutate(rng, &seq, &oo);
            }
            if s > 0 && o.revcomp && rng.chance(1, 4) {
                seq = revcomp_letters(&seq);
            }
            if s > 0 && o.div_per_mille == 0 && rng.chance(1, 2) {
                // identical copy
                seq = base[bi].clone();
            }
            if s > 0 && base[bi].len() > 4 && rng.chance(1, 8) {
                // exact copy of the base contig with one end cut off (a fragment that is a strict
                // prefix / suffix of what earlier samples stored), sometimes inverted
                let l = base[bi].len();
                let cut = rng.range((l / 10).max(1) as u64, (l - 1) as u64) as usize;
                seq = if rng.chance(1, 2) { base[bi][..cut].to_vec() } else { base[bi][l - cut..].to_vec() };
                if o.revcomp && rng.chance(1, 3) {
                    seq = revcomp_letters(&seq);
                }
            }
            let ctg = format!("ctg{}", ci);
            let mut header = if o.pansn { format!("{}#{}#{}", name, hap, ctg) } else { format!("{}_{}", name, ctg) };
            if o.descriptions && rng.chance(1, 2) {
                header.push_str(&format!(" len={} desc  x", seq.len()));
            }
            contigs.push((header, seq));
        }
        if s > 0 && o.structural && rng.chance(1, 5) {
            // extra contig not in the reference
            let len = rng.range(1, o.len_hi as u64) as usize;
            let header = if o.pansn { format!("{}#{}#extra", name, hap) } else { format!("{}_extra", name) };
            contigs.push((header, random_seq(rng, len)));
        }
        samples.push(Sample { name: if o.pansn { format!("{}#{}", name, hap) } else { name }, contigs });
    }
    SampleSet { samples }
}

#[derive(Clone, Debug)]
pub struct Presentation {
    /// line width (0 = whole sequence on one line)
    pub width: usize,
    pub crlf: bool,
    /// 0 upper, 1 lower, 2 mixed
    pub case: u8,
    /// 0 plain, 1 gzip single member, 2 multi-member gzip
    pub gz: u8,
    pub final_newline: bool,
}

impl Presentation {
    pub fn plain() -> Presentation {
        Presentation { width: 60, crlf: false, case: 0, gz: 0, final_newline: true }
    }
}

pub fn render_fasta(rng: &mut Rng, contigs: &[(String, Vec<u8>)], p: &Presentation) -> Vec<u8> {
    let nl: &[u8] = if p.crlf { b"\r\n" } else { b"\n" };
    let mut out = vec![];
    for (ci, (h, s)) in contigs.iter().enumerate() {
        out.push(b'>');
        out.extend_from_slice(h.as_bytes());
        out.extend_from_slice(nl);
        let w = if p.width == 0 { s.len().max(1) } else { p.width };
        let chunks: Vec<&[u8]> = s.chunks(w).collect();
        for (li, line) in chunks.iter().enumerate() {
            for &c in line.iter() {
                let c = match p.case {
                    1 => c.to_ascii_lowercase(),
                    2 => if rng.chance(1, 2) { c.to_ascii_lowercase() } else { c },
                    _ => c,
                };
                out.push(c);
            }
            let last = ci + 1 == contigs.len() && li + 1 == chunks.len();
            if !last || p.final_newline {
                out.extend_from_slice(nl);
            }
        }
    }
    out
}

fn gzip_member(data: &[u8]) -> Vec<u8> {
    let mut e = flate2::write::GzEncoder::new(Vec::new(), flate2::Compression::fast());
    e.write_all(data).unwrap();
    e.finish().unwrap()
}

/// Write `text` under `dir/stem.fa[.gz]` according to the presentation; returns the path.
pub fn write_presented(rng: &mut Rng, dir: &Path, stem: &str, text: &[u8], p: &Presentation) -> PathBuf {
    let (path, bytes) = match p.gz {
        0 => (dir.join(format!("{stem}.fa")), text.to_vec()),
        1 => (dir.join(format!("{stem}.fa.gz")), gzip_member(text)),
        _ => {
            // member boundaries anywhere, including inside a header
            let mut cuts: Vec<usize> = (0..rng.range(1, 4)).map(|_| rng.below(text.len().max(1) as u64) as usize).collect();
            // sometimes exactly between records (a member ends with '\n', the next starts with '>')
            if rng.chance(1, 2) {
                for i in 1..text.len() {
                    if text[i] == b'>' && text[i - 1] == b'\n' && rng.chance(2, 3) {
                        cuts.push(i);
                    }
                }
            }
            cuts.push(0);
            cuts.push(text.len());
            cuts.sort();
            cuts.dedup();
            // bgzip-style: sometimes EMPTY members between the parts and at the end (what `cat` of
            // bgzip files gives: every bgzip file ends with an empty BGZF EOF block)
            let empties = rng.chance(1, 2);
            let mut b = vec![];
            for w in cuts.windows(2) {
                b.extend(gzip_member(&text[w[0]..w[1]]));
                if empties && rng.chance(2, 3) {
                    b.extend(gzip_member(&[]));
                }
            }
            (dir.join(format!("{stem}.fa.gz")), b)
        }
    };
    std::fs::write(&path, bytes).expect("write fasta");
    path
}

/// Expected extraction: upper-case letters mapped through the documented normalisation
/// (IUPAC letters kept, other letters -> N, non-letters dropped).
pub fn normalise_letters(s: &[u8]) -> Vec<u8> {
    s.iter()
        .filter(|&&c| c > 64 && c < 128)
        .filter_map(|&c| {
            let u = c.to_ascii_uppercase();
            if !u.is_ascii_uppercase() {
                // '[', '\\', ']', '^', '_', '`' and '{'.. : >64 but not letters
                return Some(None);
            }
            Some(Some(if LETTERS.contains(&u) { u } else { b'N' }))
        })
        .map(|o| o.unwrap_or(b'N'))
        .collect()
}
