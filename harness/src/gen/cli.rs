//! Running the real `ragc` binary (built from /repo's working tree by `check`, path in
//! `VERIF_RAGC`) as a child process: captured stdout/stderr, exit status, wall-clock timeout,
//! optional `RLIMIT_FSIZE` fault injection, private `TMPDIR`.
use std::io::Read;
use std::os::unix::process::{CommandExt, ExitStatusExt};
use std::path::{Path, PathBuf};
use std::process::{Command, Stdio};
use std::time::{Duration, Instant};

/// Path of the release CLI; `None` when the check did not build it.
pub fn ragc_path() -> Option<PathBuf> {
    std::env::var("VERIF_RAGC").ok().map(PathBuf::from).filter(|p| p.exists())
}

#[derive(Debug, Clone)]
pub struct Outcome {
    /// exit status; `None` when killed by a signal or by the timeout
    pub code: Option<i32>,
    pub signal: Option<i32>,
    pub timed_out: bool,
    pub stdout: Vec<u8>,
    pub stderr: Vec<u8>,
    pub ms: u64,
}

impl Outcome {
    /// Canonical exit class string: the numeric status, `signal:<n>` or `timeout`.
    pub fn class(&self) -> String {
        if self.timed_out {
            "timeout".into()
        } else if let Some(c) = self.code {
            c.to_string()
        } else {
            format!("signal:{}", self.signal.unwrap_or(0))
        }
    }
    pub fn stderr_text(&self) -> String {
        String::from_utf8_lossy(&self.stderr).to_string()
    }
}

pub struct Run<'a> {
    pub bin: &'a Path,
    pub args: Vec<String>,
    pub timeout: Duration,
    /// `RLIMIT_FSIZE` for the child (with `SIGXFSZ` ignored, so the write fails with `EFBIG`)
    pub fsize_limit: Option<u64>,
    pub tmpdir: Option<PathBuf>,
    pub cwd: Option<PathBuf>,
    pub capture_stderr: bool,
}

impl<'a> Run<'a> {
    pub fn new(bin: &'a Path, args: &[&str]) -> Run<'a> {
        Run {
            bin,
            args: args.iter().map(|s| s.to_string()).collect(),
            timeout: Duration::from_secs(60),
            fsize_limit: None,
            tmpdir: None,
            cwd: None,
            capture_stderr: true,
        }
    }
    pub fn arg(mut self, a: &str) -> Self {
        self.args.push(a.to_string());
        self
    }
    pub fn path_arg(mut self, a: &Path) -> Self {
        self.args.push(a.to_string_lossy().to_string());
        self
    }
    pub fn timeout_s(mut self, s: u64) -> Self {
        self.timeout = Duration::from_secs(s);
        self
    }
    pub fn fsize(mut self, n: u64) -> Self {
        self.fsize_limit = Some(n);
        self
    }
    pub fn tmp(mut self, d: &Path) -> Self {
        self.tmpdir = Some(d.to_path_buf());
        self
    }

    pub fn spawn(&self) -> std::io::Result<Running> {
        let mut cmd = Command::new(self.bin);
        cmd.args(&self.args).stdin(Stdio::null()).stdout(Stdio::piped());
        // always a pipe (drained by a thread below), never /dev/null: under RLIMIT_FSIZE a
        // stderr that is a regular file (e.g. a damaged /dev/null) would make `eprintln!` panic
        cmd.stderr(Stdio::piped());
        cmd.env("RUST_BACKTRACE", "0");
        if let Some(t) = &self.tmpdir {
            cmd.env("TMPDIR", t);
        }
        if let Some(c) = &self.cwd {
            cmd.current_dir(c);
        }
        if let Some(n) = self.fsize_limit {
            unsafe {
                cmd.pre_exec(move || {
                    // the first write past `n` must fail with EFBIG instead of killing the process
                    libc::signal(libc::SIGXFSZ, libc::SIG_IGN);
                    let lim = libc::rlimit { rlim_cur: n as libc::rlim_t, rlim_max: n as libc::rlim_t };
                    if libc::setrlimit(libc::RLIMIT_FSIZE, &lim) != 0 {
                        return Err(std::io::Error::last_os_error());
                    }
                    Ok(())
                });
            }
        }
        let t0 = Instant::now();
        let mut child = cmd.spawn()?;
        let mut so = child.stdout.take().unwrap();
        let h_out = std::thread::spawn(move || {
            let mut v = vec![];
            let _ = so.read_to_end(&mut v);
            v
        });
        let h_err = child.stderr.take().map(|mut se| {
            std::thread::spawn(move || {
                let mut v = vec![];
                let _ = se.read_to_end(&mut v);
                v
            })
        });
        Ok(Running { child, h_out: Some(h_out), h_err, t0, timeout: self.timeout })
    }

    pub fn run(&self) -> Outcome {
        match self.spawn() {
            Ok(r) => r.wait(),
            Err(e) => Outcome { code: None, signal: None, timed_out: false, stdout: vec![], stderr: format!("spawn failed: {e}").into_bytes(), ms: 0 },
        }
    }
}

pub struct Running {
    child: std::process::Child,
    h_out: Option<std::thread::JoinHandle<Vec<u8>>>,
    h_err: Option<std::thread::JoinHandle<Vec<u8>>>,
    t0: Instant,
    timeout: Duration,
}

impl Running {
    pub fn wait(mut self) -> Outcome {
        let mut timed_out = false;
        let status = loop {
            match self.child.try_wait() {
                Ok(Some(st)) => break Some(st),
                Ok(None) => {
                    if self.t0.elapsed() > self.timeout {
                        timed_out = true;
                        let _ = self.child.kill();
                        let _ = self.child.wait();
                        break None;
                    }
                    std::thread::sleep(Duration::from_millis(2));
                }
                Err(_) => break None,
            }
        };
        let stdout = self.h_out.take().map(|h| h.join().unwrap_or_default()).unwrap_or_default();
        let stderr = self.h_err.take().map(|h| h.join().unwrap_or_default()).unwrap_or_default();
        Outcome {
            code: status.and_then(|s| s.code()),
            signal: status.and_then(|s| s.signal()),
            timed_out,
            stdout,
            stderr,
            ms: self.t0.elapsed().as_millis() as u64,
        }
    }
}

/// Read a file, `None` when it does not exist (or is not a regular file).
pub fn read_opt(p: &Path) -> Option<Vec<u8>> {
    if p.is_file() { std::fs::read(p).ok() } else { None }
}

/// Names of the entries of a directory (sorted); empty when it does not exist.
pub fn dir_entries(p: &Path) -> Vec<String> {
    let mut v: Vec<String> = std::fs::read_dir(p)
        .map(|rd| rd.filter_map(|e| e.ok()).map(|e| e.file_name().to_string_lossy().to_string()).collect())
        .unwrap_or_default();
    v.sort();
    v
}
