//! Shared generators: sample sets of the C01 input space, FASTA presentations, archive creation
//! through the library API exactly as ragc-cli/src/main.rs `create_archive` drives it.
pub mod archive;
pub mod genomes;
pub mod cli;
