//! Create archives through the library API exactly as `ragc-cli/src/main.rs::create_archive`
//! (streaming-queue mode) drives it, and read them back with `Decompressor`.
use ragc_core::contig_iterator::ContigIterator;
use ragc_core::{Decompressor, DecompressorConfig, MultiFileIterator, StreamingQueueCompressor, StreamingQueueConfig};
use std::path::{Path, PathBuf};

#[derive(Clone, Debug)]
pub struct Params {
    pub k: usize,
    pub segment_size: usize,
    pub min_match_len: usize,
    pub pack_size: usize,
    pub threads: usize,
    pub queue_capacity: usize,
    pub fallback_frac: f64,
}

impl Params {
    pub fn to_json(&self) -> serde_json::Value {
        serde_json::json!({"k": self.k, "segment_size": self.segment_size, "min_match_len": self.min_match_len,
            "pack_size": self.pack_size, "threads": self.threads, "queue_capacity": self.queue_capacity,
            "fallback_frac": self.fallback_frac})
    }
    pub fn from_json(v: &serde_json::Value) -> Params {
        Params {
            k: v["k"].as_u64().unwrap_or(21) as usize,
            segment_size: v["segment_size"].as_u64().unwrap_or(1000) as usize,
            min_match_len: v["min_match_len"].as_u64().unwrap_or(20) as usize,
            pack_size: v["pack_size"].as_u64().unwrap_or(50) as usize,
            threads: v["threads"].as_u64().unwrap_or(1) as usize,
            queue_capacity: v["queue_capacity"].as_u64().unwrap_or(1 << 30) as usize,
            fallback_frac: v["fallback_frac"].as_f64().unwrap_or(0.0),
        }
    }
}

/// Mirror of main.rs create_archive, streaming-queue mode (the default), non-adaptive.
pub fn create_archive(inputs: &[PathBuf], output: &Path, p: &Params) -> Result<(), String> {
    create_archive_ext(inputs, output, p, &[], false)
}

/// Harness marker in the verif event log (no-op when logging is off). The harness is always built
/// with `--cfg ragc_verif` (see `check`), which is what exports `ragc_core::verif_hooks`.
fn mark(kind: &'static str) {
    ragc_core::verif_hooks::ev(kind, [0; 4]);
}

/// `create_archive` with (a) extra `sync_and_flush("X")` calls: one for every occurrence of `i` in
/// `extra_syncs` after input file `i` was pushed (multi-file mode only; for `i = 0` after the regular
/// drain + sync_and_flush), each preceded by the log marker `h.extra`; (b) with `mark_waits`, the log
/// marker `h.wait` right after every `drain()` / `sync_and_flush()` returned (the producer saw an
/// empty queue; no push can intervene because the producer is the only pusher).
pub fn create_archive_ext(inputs: &[PathBuf], output: &Path, p: &Params, extra_syncs: &[usize], mark_waits: bool) -> Result<(), String> {
    let e = |e: anyhow::Error| format!("{e:#}");
    let wait_mark = || {
        if mark_waits {
            mark("h.wait");
        }
    };
    if inputs.is_empty() {
        return Err("No input files provided".into());
    }
    let concatenated_genomes = inputs.len() == 1;
    let config = StreamingQueueConfig {
        k: p.k,
        segment_size: p.segment_size,
        min_match_len: p.min_match_len,
        pack_size: p.pack_size,
        queue_capacity: p.queue_capacity,
        num_threads: p.threads,
        verbosity: 0,
        adaptive_mode: false,
        fallback_frac: p.fallback_frac,
        concatenated_genomes,
        ..StreamingQueueConfig::default()
    };
    let splitters = if inputs.len() == 1 {
        ragc_core::determine_splitters_streaming_first_sample(&inputs[0], p.k, p.segment_size).map_err(e)?.0
    } else {
        ragc_core::determine_splitters_streaming(&inputs[0], p.k, p.segment_size).map_err(e)?.0
    };
    let mut compressor =
        StreamingQueueCompressor::with_splitters(output.to_str().unwrap(), config, splitters).map_err(e)?;
    if inputs.len() == 1 {
        let mut it = MultiFileIterator::new(vec![inputs[0].clone()]).map_err(e)?;
        let mut current: Option<String> = None;
        let mut seen = std::collections::HashSet::new();
        let mut ref_done = false;
        while let Some((sample, contig, seq)) = it.next_contig().map_err(e)? {
            if seq.is_empty() {
                continue;
            }
            if current.as_ref() != Some(&sample) {
                if seen.contains(&sample) {
                    return Err("Single-file PanSN mode requires samples to be sorted by name".into());
                }
                if !ref_done && current.is_some() {
                    compressor.drain().map_err(e)?;
                    wait_mark();
                    ref_done = true;
                }
                if let Some(prev) = current.take() {
                    seen.insert(prev);
                }
                current = Some(sample.clone());
            }
            compressor.push(sample, contig, seq).map_err(e)?;
        }
    } else {
        let mut it = MultiFileIterator::new(vec![inputs[0].clone()]).map_err(e)?;
        while let Some((sample, contig, seq)) = it.next_contig().map_err(e)? {
            if !seq.is_empty() {
                compressor.push(sample, contig, seq).map_err(e)?;
            }
        }
        compressor.drain().map_err(e)?;
        wait_mark();
        compressor.sync_and_flush("AAA#0_REF").map_err(e)?;
        wait_mark();
        for _ in extra_syncs.iter().filter(|&&x| x == 0) {
            mark("h.extra");
            compressor.sync_and_flush("X").map_err(e)?;
            wait_mark();
        }
        for (fi, f) in inputs.iter().enumerate().skip(1) {
            let mut it = MultiFileIterator::new(vec![f.clone()]).map_err(e)?;
            while let Some((sample, contig, seq)) = it.next_contig().map_err(e)? {
                if !seq.is_empty() {
                    compressor.push(sample, contig, seq).map_err(e)?;
                }
            }
            for _ in extra_syncs.iter().filter(|&&x| x == fi) {
                mark("h.extra");
                compressor.sync_and_flush("X").map_err(e)?;
                wait_mark();
            }
        }
    }
    compressor.finalize().map_err(e)?;
    Ok(())
}

pub fn open(path: &Path) -> Result<Decompressor, String> {
    Decompressor::open(path.to_str().unwrap(), DecompressorConfig { verbosity: 0 }).map_err(|e| format!("{e:#}"))
}

/// All samples with all contigs as numeric codes.
pub fn extract_all(path: &Path) -> Result<Vec<(String, Vec<(String, Vec<u8>)>)>, String> {
    let mut d = open(path)?;
    let mut out = vec![];
    for s in d.list_samples() {
        let contigs = d.get_sample(&s).map_err(|e| format!("get_sample({s}): {e:#}"))?;
        out.push((s, contigs));
    }
    Ok(out)
}

/// codes -> letters as write_sample_fasta does (code < 16 -> table letter, else N)
pub fn codes_to_letters(codes: &[u8]) -> Vec<u8> {
    codes.iter().map(|&c| if (c as usize) < 16 { super::genomes::LETTERS[c as usize] } else { b'N' }).collect()
}
