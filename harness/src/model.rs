//! The Lean model driver as a child process: one request line in, one reply line out.
use std::io::{BufRead, BufReader, Write};
use std::process::{Child, ChildStdin, ChildStdout, Command, Stdio};

pub struct Model {
    child: Child,
    stdin: ChildStdin,
    stdout: BufReader<ChildStdout>,
    pub requests: u64,
}

impl Model {
    pub fn spawn(path: &str) -> std::io::Result<Model> {
        // unlimited stack: the models are structurally recursive over lists
        let mut child = Command::new("sh")
            .arg("-c")
            .arg(format!("ulimit -s unlimited 2>/dev/null || ulimit -s 1000000 2>/dev/null; exec '{}'", path))
            .stdin(Stdio::piped())
            .stdout(Stdio::piped())
            .stderr(Stdio::inherit())
            .spawn()?;
        let stdin = child.stdin.take().unwrap();
        let stdout = BufReader::with_capacity(1 << 20, child.stdout.take().unwrap());
        Ok(Model { child, stdin, stdout, requests: 0 })
    }

    /// Send one request; returns the reply without the newline. A dead driver gives "driver-died".
    pub fn ask(&mut self, req: &str) -> String {
        self.requests += 1;
        if self.stdin.write_all(req.as_bytes()).is_err()
            || self.stdin.write_all(b"\n").is_err()
            || self.stdin.flush().is_err()
        {
            return "driver-died".to_string();
        }
        let mut line = String::new();
        match self.stdout.read_line(&mut line) {
            Ok(0) | Err(_) => "driver-died".to_string(),
            Ok(_) => line.trim_end().to_string(),
        }
    }
}

impl Drop for Model {
    fn drop(&mut self) {
        let _ = self.child.kill();
        let _ = self.child.wait();
    }
}

pub fn hex(bytes: &[u8]) -> String {
    if bytes.is_empty() {
        return "-".to_string();
    }
    const D: &[u8; 16] = b"0123456789abcdef";
    let mut s = String::with_capacity(bytes.len() * 2);
    for b in bytes {
        s.push(D[(b >> 4) as usize] as char);
        s.push(D[(b & 15) as usize] as char);
    }
    s
}

pub fn unhex(s: &str) -> Option<Vec<u8>> {
    if s == "-" {
        return Some(vec![]);
    }
    if s.len() % 2 != 0 {
        return None;
    }
    let b = s.as_bytes();
    let v = |c: u8| -> Option<u8> {
        match c {
            b'0'..=b'9' => Some(c - b'0'),
            b'a'..=b'f' => Some(c - b'a' + 10),
            b'A'..=b'F' => Some(c - b'A' + 10),
            _ => None,
        }
    };
    let mut out = Vec::with_capacity(s.len() / 2);
    for i in (0..b.len()).step_by(2) {
        out.push(v(b[i])? * 16 + v(b[i + 1])?);
    }
    Some(out)
}

pub fn nat_list<T: std::fmt::Display>(xs: &[T]) -> String {
    let v: Vec<String> = xs.iter().map(|x| x.to_string()).collect();
    format!("[{}]", v.join(","))
}
