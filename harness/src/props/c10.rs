//! C10 segmentation tiles each contig: segment.rs `split_at_splitters_with_size` /
//! `split_at_splitters` vs Model/Segment.lean, plus the property itself evaluated on the real
//! output (tiling, reassembly, boundary k-mers against a from-scratch canonical k-mer).
use crate::model::{hex, nat_list, unhex};
use crate::props::guarded;
use crate::report::Report;
use crate::rng::Rng;
use crate::Ctx;
use ahash::AHashSet;
use ragc_core::segment::{split_at_splitters, split_at_splitters_with_size, Segment, MISSING_KMER};
use serde_json::{json, Value};

/// from-scratch canonical k-mer of a window of bases (all <= 3): base i at bits 63-2i..62-2i,
/// reverse complement packed the same way, minimum of the two; also "direct <= rc".
fn canon_scratch(w: &[u8]) -> (u64, bool) {
    let mut d: u128 = 0;
    let mut r: u128 = 0;
    let k = w.len();
    for i in 0..k {
        d |= (w[i] as u128) << (62 - 2 * i);
        r |= ((3 - w[k - 1 - i]) as u128) << (62 - 2 * i);
    }
    let (d, r) = (d as u64, r as u64);
    (d.min(r), d <= r)
}

/// Every position `e` (exclusive end) such that contig[e-k..e] is k bases <= 3, with its
/// canonical value: the "splitter occurrences" are those whose value is in the set.
fn windows(contig: &[u8], k: usize) -> Vec<(usize, u64)> {
    let mut out = vec![];
    if k == 0 || contig.len() < k {
        return out;
    }
    let mut run = 0usize;
    for (i, &b) in contig.iter().enumerate() {
        if b > 3 {
            run = 0;
        } else {
            run += 1;
            if run >= k {
                out.push((i + 1, canon_scratch(&contig[i + 1 - k..=i]).0));
            }
        }
    }
    out
}

fn real_split(ws: bool, contig: &Vec<u8>, set: &AHashSet<u64>, k: usize, minseg: usize) -> Vec<Segment> {
    if ws {
        split_at_splitters_with_size(contig, set, k, minseg)
    } else {
        split_at_splitters(contig, set, k)
    }
}

fn canon_reply(segs: &[Segment]) -> String {
    let parts: Vec<String> = segs
        .iter()
        .map(|s| {
            format!(
                "{}:{}:{}:{}:{}",
                hex(&s.data),
                s.front_kmer,
                s.back_kmer,
                s.front_kmer_is_dir as u8,
                s.back_kmer_is_dir as u8
            )
        })
        .collect();
    format!("ok {}", parts.join(" "))
}

/// The property on the real output. Err((signature, message)).
fn oracle(ws: bool, k: usize, contig: &[u8], set: &AHashSet<u64>, segs: &[Segment]) -> Result<(), (&'static str, String)> {
    if segs.is_empty() {
        return Err(("seg-no-segments", "no segment returned".into()));
    }
    let n = segs.len();
    // --- tiling
    let s0 = &segs[0].data;
    if s0.len() > contig.len() || s0[..] != contig[..s0.len()] {
        return Err(("seg-tiling", "first segment is not a prefix of the contig".into()));
    }
    if !contig.is_empty() && s0.is_empty() {
        return Err(("seg-tiling", "empty first segment".into()));
    }
    let mut ends = vec![s0.len()];
    let mut e = s0.len();
    for (i, s) in segs.iter().enumerate().skip(1) {
        if s.data.len() < k {
            return Err(("seg-later-lt-k", format!("segment {i} has {} < k symbols", s.data.len())));
        }
        if e < k {
            return Err(("seg-tiling", format!("segment {} ends at {e} < k", i - 1)));
        }
        let st = e - k;
        if st + s.data.len() > contig.len() || s.data[..] != contig[st..st + s.data.len()] {
            return Err(("seg-tiling", format!("segment {i} is not contig[{st}..{}] (k-base overlap broken)", st + s.data.len())));
        }
        // (a final segment of exactly k symbols, after a split at the last base, adds nothing)
        if st + s.data.len() < e || (st + s.data.len() == e && i + 1 < n) {
            return Err(("seg-tiling", format!("non-final segment {i} adds no new symbol")));
        }
        e = st + s.data.len();
        ends.push(e);
    }
    if e != contig.len() {
        return Err(("seg-tiling", format!("last segment ends at {e}, contig has {}", contig.len())));
    }
    // --- reassembly
    let mut re: Vec<u8> = segs[0].data.clone();
    for s in &segs[1..] {
        re.extend_from_slice(&s.data[k..]);
    }
    if re != contig {
        return Err(("seg-reassembly", "dropping k symbols of every later segment does not give the contig".into()));
    }
    // --- boundary k-mers
    if segs[0].front_kmer != MISSING_KMER || segs[0].front_kmer_is_dir {
        return Err(("seg-first-front", "first segment has a front k-mer".into()));
    }
    if segs[n - 1].back_kmer != MISSING_KMER || segs[n - 1].back_kmer_is_dir {
        return Err(("seg-last-back", "last segment has a back k-mer".into()));
    }
    for i in 0..n - 1 {
        let b = ends[i];
        let w = &contig[b - k..b];
        if w.iter().any(|&x| x > 3) {
            return Err(("seg-boundary-window", format!("boundary {i} window contains a non-ACGT code")));
        }
        let (c, isdir) = canon_scratch(w);
        if segs[i].back_kmer != c {
            return Err(("seg-boundary-kmer", format!("back k-mer of segment {i} is {} but the boundary window is {c}", segs[i].back_kmer)));
        }
        if segs[i + 1].front_kmer != c {
            return Err(("seg-boundary-kmer", format!("front k-mer of segment {} is {} but the boundary window is {c}", i + 1, segs[i + 1].front_kmer)));
        }
        if !set.contains(&c) {
            return Err(("seg-boundary-not-splitter", format!("boundary {i} k-mer {c} is not a splitter")));
        }
        if segs[i].back_kmer_is_dir != isdir || segs[i + 1].front_kmer_is_dir != isdir {
            return Err(("seg-boundary-dir", format!("orientation flags at boundary {i} differ from direct<=rc = {isdir}")));
        }
        // non-final later segments: window restarted after the split (ws) => >= 2k; else > k
        if i >= 1 {
            let l = segs[i].data.len();
            if ws && l < 2 * k {
                return Err(("seg-later-lt-2k", format!("non-final later segment {i} has {l} < 2k symbols")));
            }
            if l <= k {
                return Err(("seg-later-lt-k", format!("non-final later segment {i} has only {l} symbols")));
            }
        }
    }
    // --- single-segment cases
    let occ = windows(contig, k).iter().filter(|(_, v)| set.contains(v)).count();
    if contig.len() < k || occ == 0 {
        let s = &segs[0];
        if n != 1 || s.data[..] != contig[..] || s.front_kmer != MISSING_KMER || s.back_kmer != MISSING_KMER || s.front_kmer_is_dir || s.back_kmer_is_dir {
            return Err(("seg-single", "contig without splitter occurrence (or shorter than k) is not one segment with both k-mers missing".into()));
        }
    } else if n < 2 {
        return Err(("seg-missed-splitter", format!("{occ} splitter occurrence(s) but a single segment")));
    }
    Ok(())
}

struct Case<'a> {
    k: usize,
    minseg: usize,
    contig: &'a [u8],
    splitters: &'a [u64],
    origin: &'a str,
}

fn one_case(ctx: &mut Ctx, rep: &mut Report, c: &Case) {
    let k = c.k;
    let contig = c.contig.to_vec();
    let set: AHashSet<u64> = c.splitters.iter().copied().collect();
    let mut sorted: Vec<u64> = set.iter().copied().collect();
    sorted.sort();
    let win = windows(&contig, k);
    let occ: Vec<usize> = win.iter().filter(|(_, v)| set.contains(v)).map(|(e, _)| *e).collect();
    rep.case(&(k, &contig, &sorted), !occ.is_empty());
    // ---- branch counters (input shape)
    if contig.len() < k {
        rep.count("branch_contig_shorter_than_k");
    }
    if contig.is_empty() {
        rep.count("branch_empty_contig");
    }
    if set.is_empty() {
        rep.count("branch_empty_splitter_set");
    }
    if !win.is_empty() && occ.len() == win.len() {
        rep.count("branch_dense_every_window_splits");
    }
    if k == 32 {
        rep.count("branch_k32");
    }
    if contig.len() >= k && contig.iter().any(|&b| b > 3) {
        rep.count("branch_N_inside_a_window");
    }
    if contig.iter().any(|&b| b > 4) {
        rep.count("branch_iupac_other_codes");
    }
    if occ.windows(2).any(|p| p[1] - p[0] < k) {
        rep.count("branch_adjacent_overlapping_occurrences");
    }
    if occ.iter().any(|&e| contig.len() - e < k) {
        rep.count("branch_occurrence_in_last_k_bases");
    }
    if occ.last() == Some(&contig.len()) {
        rep.count("branch_occurrence_at_last_base");
    }
    for ws in [true, false] {
        let variant = if ws { "ws" } else { "plain" };
        let case = json!({"variant": variant, "k": k, "minseg": c.minseg, "contig": hex(&contig),
                          "splitters": sorted, "origin": c.origin});
        let real = guarded(|| real_split(ws, &contig, &set, k, c.minseg));
        let real_str = match &real {
            Ok(segs) => canon_reply(segs),
            Err(p) => format!("panic {p}"),
        };
        // direct oracle
        match &real {
            Ok(segs) => {
                if let Err((sig, msg)) = oracle(ws, k, &contig, &set, segs) {
                    rep.oracle_fail(sig, &format!("[{variant}] {msg}"), case.clone());
                }
                let n = segs.len();
                rep.count(match n {
                    1 => "branch_nseg_1",
                    2 => "branch_nseg_2",
                    3..=9 => "branch_nseg_3_9",
                    _ => "branch_nseg_10plus",
                });
                if n >= 2 {
                    let last = segs[n - 1].data.len();
                    if last < 2 * k {
                        rep.count("branch_split_in_last_k_bases");
                    }
                    if last == k {
                        rep.count("branch_split_at_last_base");
                    }
                }
                if ws && n - 1 < occ.len() {
                    rep.count("branch_occurrence_skipped_after_reset");
                }
                if ws {
                    // `_min_segment_size` is unused: the output must not depend on it
                    let other = guarded(|| real_split(true, &contig, &set, k, c.minseg.wrapping_add(1000)));
                    if other.as_ref().ok() != Some(segs) {
                        rep.oracle_fail("seg-minseg-dependence", "output depends on min_segment_size", case.clone());
                    }
                }
            }
            Err(p) => rep.oracle_fail("seg-panic", &format!("[{variant}] panic: {p}"), case.clone()),
        }
        // correspondence
        let req = format!("seg-split {} {} {} {} {}", variant, k, c.minseg, hex(&contig), nat_list(&sorted));
        if let Some(m) = ctx.ask(&req) {
            if m != real_str {
                rep.disagree("seg-split", case.clone(), &m, &real_str);
            }
        }
        if rep.samples.len() < 5 && ws {
            if let Ok(segs) = &real {
                if (3..=4).contains(&segs.len()) && contig.len() <= 40 && contig.iter().any(|&b| b > 3) && k >= 3 && c.origin != "exhaustive" && rep.samples.iter().all(|s| s["k"] != json!(k)) {
                    rep.sample(json!({"variant": variant, "k": k, "contig": hex(&contig), "splitters": sorted, "impl": real_str}));
                }
            }
        }
    }
}

fn distinct_values(win: &[(usize, u64)]) -> Vec<u64> {
    let mut v: Vec<u64> = win.iter().map(|x| x.1).collect();
    v.sort();
    v.dedup();
    v
}

fn gen_contig(rng: &mut Rng, len: usize) -> Vec<u8> {
    // alphabet / structure
    let mode = rng.below(6);
    let n_den = *rng.pick(&[0u64, 0, 0, 8, 40, 200]);
    let iupac_den = *rng.pick(&[0u64, 0, 30, 300]);
    let mut out = Vec::with_capacity(len);
    let period = rng.range(1, 12) as usize;
    let unit: Vec<u8> = (0..period).map(|_| rng.below(4) as u8).collect();
    while out.len() < len {
        if n_den > 0 && rng.chance(1, n_den) {
            let run = rng.range(1, 6) as usize;
            for _ in 0..run {
                if out.len() < len {
                    out.push(4);
                }
            }
            continue;
        }
        if iupac_den > 0 && rng.chance(1, iupac_den) {
            out.push(*rng.pick(&[5u8, 6, 7, 8, 9, 10, 11, 12, 13, 14, 15, 30]));
            continue;
        }
        let b = match mode {
            0 => rng.below(2) as u8,               // two-letter: k-mers recur
            1 => unit[out.len() % period],         // tandem repeat
            2 => if rng.chance(9, 10) { 0 } else { rng.below(4) as u8 }, // homopolymer-ish
            _ => rng.below(4) as u8,
        };
        out.push(b);
    }
    out
}

fn gen_splitters(rng: &mut Rng, contig: &[u8], k: usize) -> (Vec<u64>, &'static str) {
    let win = windows(contig, k);
    let vals = distinct_values(&win);
    let mode = rng.below(7);
    let mut set: Vec<u64> = vec![];
    let name = match mode {
        0 => "empty",
        1 => {
            set = vals.clone();
            "dense"
        }
        2 => {
            let den = *rng.pick(&[2u64, 4, 16, 64, 256]);
            for &v in &vals {
                if rng.chance(1, den) {
                    set.push(v);
                }
            }
            "sparse"
        }
        3 => {
            // windows ending in the last k bases (incl. the very last base)
            for &(e, v) in win.iter().rev() {
                if contig.len() - e < k && rng.chance(1, 2) {
                    set.push(v);
                }
            }
            if let Some(&(_, v)) = win.last() {
                if rng.chance(1, 2) {
                    set.push(v);
                }
            }
            "end-of-contig"
        }
        4 => {
            // a cluster of adjacent / overlapping occurrences
            if !win.is_empty() {
                for _ in 0..rng.range(1, 3) {
                    let i = rng.below(win.len() as u64) as usize;
                    let span = rng.range(1, (k as u64).min(6) + 1) as usize;
                    for j in i..(i + span + 1).min(win.len()) {
                        set.push(win[j].1);
                    }
                }
            }
            "adjacent"
        }
        5 => {
            // first window(s) of the contig
            for &(e, v) in win.iter().take(3) {
                if e <= 2 * k && rng.chance(2, 3) {
                    set.push(v);
                }
            }
            "start-of-contig"
        }
        _ => {
            // a few random positions
            if !win.is_empty() {
                for _ in 0..rng.range(1, 5) {
                    set.push(win[rng.below(win.len() as u64) as usize].1);
                }
            }
            "few"
        }
    };
    // values that do not occur, incl. the sentinel itself
    if rng.chance(1, 3) {
        set.push(rng.next());
    }
    if rng.chance(1, 10) {
        set.push(MISSING_KMER);
    }
    (set, name)
}

pub fn run(ctx: &mut Ctx) -> Report {
    let mut rep = Report::new(
        "C10",
        "exhaustive contigs over {A,C,N} up to a length bound with k<=4 and all subsets (capped) of the occurring canonical \
         k-mers, then random contigs (length 0..3000, codes 0..15/30, N-runs, repeats) with empty/dense/sparse/end-of-contig/\
         adjacent/start splitter sets for k 1..32; both split_at_splitters_with_size and split_at_splitters per case; a case \
         is non-trivial if the contig contains at least one splitter occurrence; distinct by (k, contig, splitter set)",
    );
    if let Some(r) = ctx.replay.clone() {
        let c = &r["case"];
        let k = c["k"].as_u64().unwrap_or(1) as usize;
        let minseg = c["minseg"].as_u64().unwrap_or(0) as usize;
        let contig = unhex(c["contig"].as_str().unwrap_or("-")).unwrap_or_default();
        let spl: Vec<u64> = c["splitters"].as_array().map(|a| a.iter().filter_map(Value::as_u64).collect()).unwrap_or_default();
        one_case(ctx, &mut rep, &Case { k, minseg, contig: &contig, splitters: &spl, origin: "replay" });
        return rep;
    }
    // 1. exhaustive: contigs over {0,1,4}, k <= 4, subsets of the occurring canonical k-mers
    let max_len = ctx.t(9, 10);
    let cap_bits = ctx.t(4, 5); // all subsets when <= cap_bits distinct values, else 2^cap_bits sampled
    let sym = [0u8, 1, 4];
    let mut exhaustive_all_subsets = true;
    for len in 0..=max_len {
        let n = 3u64.pow(len as u32);
        for code in 0..n {
            let mut x = code;
            let contig: Vec<u8> = (0..len).map(|_| { let d = sym[(x % 3) as usize]; x /= 3; d }).collect();
            for k in 1..=4usize {
                let vals = distinct_values(&windows(&contig, k));
                let m = vals.len();
                if m <= cap_bits {
                    for mask in 0u64..(1 << m) {
                        let set: Vec<u64> = (0..m).filter(|i| mask >> i & 1 == 1).map(|i| vals[i]).collect();
                        one_case(ctx, &mut rep, &Case { k, minseg: 0, contig: &contig, splitters: &set, origin: "exhaustive" });
                    }
                } else {
                    exhaustive_all_subsets = false;
                    let mut rng = Rng::new(ctx.seed, 10, code * 64 + (len * 4 + k) as u64);
                    for j in 0u64..(1 << cap_bits) {
                        let mask = match j { 0 => 0, 1 => (1u64 << m) - 1, _ => rng.below(1 << m) };
                        let set: Vec<u64> = (0..m).filter(|i| mask >> i & 1 == 1).map(|i| vals[i]).collect();
                        one_case(ctx, &mut rep, &Case { k, minseg: 0, contig: &contig, splitters: &set, origin: "exhaustive-sampled-subsets" });
                    }
                }
            }
        }
    }
    if !exhaustive_all_subsets {
        rep.notes.push(format!("exhaustive stream: contigs with more than {cap_bits} distinct canonical k-mers got {} sampled subsets (incl. empty and full) instead of all", 1u64 << cap_bits));
    }
    // 2. random contigs, all k
    let n_rand = ctx.t(3000, 60000);
    for c in 0..n_rand {
        let mut rng = Rng::new(ctx.seed, 110, c);
        let k = match rng.below(6) {
            0 => 32,
            1 | 2 => rng.range(1, 5) as usize,
            _ => rng.range(1, 32) as usize,
        };
        let len = match rng.below(8) {
            0 => rng.range(0, (k + 2) as u64),
            1 | 2 | 3 => rng.range(0, (4 * k + 20) as u64),
            4 | 5 => rng.range(0, 400),
            _ => rng.range(0, 3000),
        } as usize;
        let contig = gen_contig(&mut rng, len);
        let (set, name) = gen_splitters(&mut rng, &contig, k);
        let minseg = *rng.pick(&[0usize, 0, 1, 20, 1000, 60000]);
        one_case(ctx, &mut rep, &Case { k, minseg, contig: &contig, splitters: &set, origin: name });
    }
    // 3. k beyond 32 with contigs shorter than k (early return before the k-mer is created)
    for c in 0..ctx.t(40u64, 400) {
        let mut rng = Rng::new(ctx.seed, 111, c);
        let k = rng.range(33, 48) as usize;
        let len = rng.range(0, (k - 1) as u64) as usize;
        let contig = gen_contig(&mut rng, len);
        let set = vec![rng.next(), 0];
        one_case(ctx, &mut rep, &Case { k, minseg: 0, contig: &contig, splitters: &set, origin: "k>32-short" });
    }
    rep
}
