//! C09 LZ-diff: `LZDiff::{new,prepare,encode,decode}` (lz_diff.rs) vs Model/LzDiff.lean, and the
//! property itself (round trip, empty-iff-equal, no 0xFF) evaluated on the real code.
use crate::model::{hex, unhex};
use crate::props::guarded;
use crate::report::Report;
use crate::rng::Rng;
use crate::Ctx;
use ragc_core::lz_diff::LZDiff;
use serde_json::json;

const HASHING_STEP: u32 = 4;

fn real_encode(mm: u32, r: &[u8], t: &[u8]) -> Result<Vec<u8>, String> {
    // exactly as agc_compressor.rs uses it: new(min_match_len); prepare(&reference); encode(&segment)
    guarded(|| {
        let mut lz = LZDiff::new(mm);
        lz.prepare(&r.to_vec());
        lz.encode(&t.to_vec())
    })
}

fn real_decode(mm: u32, r: &[u8], enc: &[u8]) -> Result<Vec<u8>, String> {
    // decompressor.rs: new(min_match_len); prepare(reference); decode(&lz_encoded)
    guarded(|| {
        let mut lz = LZDiff::new(mm);
        lz.prepare(&r.to_vec());
        lz.decode(enc)
    })
}

fn canon(r: &Result<Vec<u8>, String>) -> String {
    match r {
        Ok(v) => format!("ok {}", hex(v)),
        Err(_) => "none".to_string(),
    }
}

/// Token statistics of an encoding produced by the real encoder (lexed the way the decoder does).
#[derive(Default)]
struct EncStats {
    lits: u64,
    bangs: u64,
    nruns: u64,
    matches: u64,
    to_end: u64,
}

fn enc_stats(enc: &[u8]) -> EncStats {
    let mut s = EncStats::default();
    let mut i = 0;
    while i < enc.len() {
        let b = enc[i];
        if b == b'!' {
            s.bangs += 1;
            i += 1;
        } else if b >= b'A' {
            s.lits += 1;
            i += 1;
        } else if b == 30 {
            s.nruns += 1;
            i += 1;
            while i < enc.len() && enc[i] != 4 {
                i += 1;
            }
            i += 1;
        } else {
            s.matches += 1;
            let mut comma = false;
            while i < enc.len() && enc[i] != b'.' {
                if enc[i] == b',' {
                    comma = true;
                }
                i += 1;
            }
            i += 1;
            if !comma {
                s.to_end += 1;
            }
        }
    }
    s
}

fn one_pair(ctx: &mut Ctx, rep: &mut Report, mm: u32, r: &[u8], t: &[u8], origin: &str, stats: bool) {
    let case = json!({"kind": "pair", "mm": mm, "ref": hex(r), "tgt": hex(t), "origin": origin});
    let key_len = (mm - HASHING_STEP + 1) as usize;
    let enc = real_encode(mm, r, t);
    // ---- correspondence: encoder bytes
    if let Some(m) = ctx.ask(&format!("lz-enc {} {} {}", mm, hex(r), hex(t))) {
        let real = canon(&enc);
        if m != real {
            rep.disagree("lz-enc", case.clone(), &m, &real);
        }
    }
    let has30 = t.iter().any(|&c| c == 30);
    let sig_rt = if has30 { "lz-literal-code-30" } else { "lz-roundtrip" };
    let enc = match enc {
        Ok(e) => e,
        Err(p) => {
            rep.case(&(mm, r, t), false);
            rep.oracle_fail(sig_rt, &format!("encode panicked: {p}"), case);
            return;
        }
    };
    // ---- correspondence: decoder on the encoder's output (raw decode, also on the empty string)
    let dec = real_decode(mm, r, &enc);
    if let Some(m) = ctx.ask(&format!("lz-dec {} {} {}", mm, hex(r), hex(&enc))) {
        let real = canon(&dec);
        if m != real {
            rep.disagree("lz-dec", case.clone(), &m, &real);
        }
    }
    // ---- the property on the real code
    // round trip through the reader's convention (decompressor.rs: empty delta = the reference)
    if !t.is_empty() {
        let got: Result<Vec<u8>, String> = if enc.is_empty() { Ok(r.to_vec()) } else { dec.clone() };
        match got {
            Ok(d) if d == t => {}
            Ok(d) => rep.oracle_fail(
                sig_rt,
                &format!("decode(encode(target)) != target: decoded {} symbols, target has {}; encoding {}", d.len(), t.len(), crate::report::clip(&hex(&enc))),
                case.clone(),
            ),
            Err(p) => rep.oracle_fail(sig_rt, &format!("decode panicked on the encoder's output {}: {p}", crate::report::clip(&hex(&enc))), case.clone()),
        }
    }
    // raw decode inverts encode whenever the target differs from the reference (also for the empty target)
    if t != r {
        match &dec {
            Ok(d) if d == t => {}
            _ if !t.is_empty() => {} // already reported above
            _ => rep.oracle_fail("lz-roundtrip", "raw decode of the encoding of the empty target is not empty", case.clone()),
        }
    }
    let empty_expected = t == r || t.is_empty();
    if enc.is_empty() != empty_expected {
        rep.oracle_fail(
            "lz-empty-iff",
            &format!("encoding empty = {}, but target==reference: {}, target empty: {}", enc.is_empty(), t == r, t.is_empty()),
            case.clone(),
        );
    }
    if enc.contains(&0xFF) {
        rep.oracle_fail("lz-separator", "encoding contains the pack separator 0xFF", case.clone());
    }
    // ---- counters
    let st = enc_stats(&enc);
    rep.case(&(mm, r, t), !enc.is_empty());
    if st.nruns > 0 {
        rep.count("branch_nrun_coded");
    }
    if st.bangs > 0 {
        rep.count("branch_bang_rewrite");
    }
    if st.to_end > 0 {
        rep.count("branch_match_to_end");
    }
    if st.matches > 0 {
        rep.count("branch_match");
    }
    if st.matches == 0 && st.nruns == 0 && !enc.is_empty() {
        rep.count("branch_literal_only");
    }
    if r.len() < key_len {
        rep.count("branch_ref_shorter_than_key");
    }
    if t.len() <= key_len {
        rep.count("branch_target_not_longer_than_key");
    }
    if t == r {
        rep.count("branch_target_equals_reference");
    }
    if has30 {
        rep.count("branch_code_30_in_target");
    }
    if stats && st.matches > 0 && r.len() + t.len() <= 20000 {
        // back extensions are not visible in the bytes; the model (byte-equal to the code) counts them
        if let Some(m) = ctx.ask(&format!("lz-stats {} {} {}", mm, hex(r), hex(t))) {
            if let Some(n) = m.strip_prefix("ok ").and_then(|x| x.parse::<u64>().ok()) {
                if n > 0 {
                    rep.count("branch_back_extension");
                }
            }
        }
    }
    if stats && st.matches > 0 && st.bangs > 0 && st.nruns > 0 {
        rep.sample(json!({"mm": mm, "ref_len": r.len(), "tgt_len": t.len(), "enc_len": enc.len(),
            "lits": st.lits, "bangs": st.bangs, "nruns": st.nruns, "matches": st.matches, "to_end": st.to_end,
            "enc_head": crate::report::clip(&String::from_utf8_lossy(&enc[..enc.len().min(60)]).to_string())}));
    }
}

// ------------------------------------------------------------------ token streams for the decoder

fn push_int(out: &mut Vec<u8>, x: i64) {
    out.extend_from_slice(x.to_string().as_bytes());
}

/// A lexically well-formed token stream; positions are in range unless `wild` (then some matches /
/// bangs point outside the padded reference, which must panic in the code and be `none` in the model).
fn gen_stream(rng: &mut Rng, mm: u32, ref_len: usize, wild: bool) -> Vec<u8> {
    let key_len = (mm - HASHING_STEP + 1) as usize;
    let padded = ref_len + key_len;
    let mut out = vec![];
    let mut pred: i64 = 0;
    let n = rng.range(0, 40);
    for _ in 0..n {
        match rng.below(10) {
            0..=3 => {
                out.push(b'A' + rng.below(21) as u8);
                pred += 1;
            }
            4 => {
                if (pred as usize) < padded || (wild && rng.chance(1, 4)) {
                    out.push(b'!');
                    pred += 1;
                }
            }
            5 => {
                out.push(30);
                let cap = if rng.chance(1, 5) { 300 } else { 12 };
                push_int(&mut out, rng.below(cap) as i64);
                out.push(4);
            }
            _ => {
                // match
                let to_end = rng.chance(1, 4);
                let pos: i64 = if wild && rng.chance(1, 3) {
                    rng.range(0, (padded + 20) as u64) as i64 - 10
                } else if to_end {
                    rng.range(0, ref_len as u64) as i64
                } else if padded >= mm as usize {
                    rng.range(0, (padded - mm as usize) as u64) as i64
                } else {
                    continue;
                };
                push_int(&mut out, pos - pred);
                if to_end {
                    out.push(b'.');
                    pred = ref_len as i64;
                } else {
                    let maxl = (padded as i64 - pos).max(mm as i64) as u64;
                    let l = if wild && rng.chance(1, 4) { rng.range(mm as u64, maxl + 10) } else { rng.range(mm as u64, maxl) };
                    out.push(b',');
                    push_int(&mut out, l as i64 - mm as i64);
                    out.push(b'.');
                    pred = pos + l as i64;
                }
                if pred < 0 {
                    pred = 0;
                }
            }
        }
    }
    out
}

fn one_stream(ctx: &mut Ctx, rep: &mut Report, mm: u32, r: &[u8], enc: &[u8], origin: &str) {
    let case = json!({"kind": "stream", "mm": mm, "ref": hex(r), "enc": hex(enc), "origin": origin});
    let dec = real_decode(mm, r, enc);
    rep.case(&(mm, r, enc, 1u8), dec.is_ok() && !enc.is_empty());
    match &dec {
        Ok(_) => rep.count("branch_stream_decodes"),
        Err(_) => rep.count("branch_stream_panics"),
    }
    if let Some(m) = ctx.ask(&format!("lz-dec {} {} {}", mm, hex(r), hex(enc))) {
        let real = canon(&dec);
        if m != real {
            rep.disagree("lz-dec-stream", case, &m, &real);
        }
    }
}

// ------------------------------------------------------------------ generators for pairs

fn all_strings(alpha: &[u8], max_len: usize) -> Vec<Vec<u8>> {
    let mut v = vec![vec![]];
    let mut start = 0;
    for _ in 0..max_len {
        let end = v.len();
        for i in start..end {
            for &a in alpha {
                let mut s = v[i].clone();
                s.push(a);
                v.push(s);
            }
        }
        start = end;
    }
    v
}

fn exhaustive(ctx: &mut Ctx, rep: &mut Report, alpha: &[u8], max_len: usize, mm: u32, origin: &str) {
    let ss = all_strings(alpha, max_len);
    for r in &ss {
        for t in &ss {
            one_pair(ctx, rep, mm, r, t, origin, false);
        }
    }
}

fn rand_sym(rng: &mut Rng, with30: bool) -> u8 {
    if with30 && rng.chance(1, 40) {
        30
    } else if rng.chance(1, 60) {
        rng.range(4, 15) as u8
    } else {
        rng.below(4) as u8
    }
}

fn rand_seq(rng: &mut Rng, len: usize, with30: bool) -> Vec<u8> {
    // low-complexity stretches make hash buckets collide and matches overlap
    let mode = rng.below(6);
    let mut v = Vec::with_capacity(len);
    while v.len() < len {
        match mode {
            0 => v.push(rng.below(2) as u8),
            1 => {
                let unit_len = rng.range(1, 7) as usize;
                let unit: Vec<u8> = (0..unit_len).map(|_| rng.below(4) as u8).collect();
                let reps = rng.range(1, 30);
                for _ in 0..reps {
                    v.extend_from_slice(&unit);
                }
            }
            _ => v.push(rand_sym(rng, with30)),
        }
    }
    v.truncate(len);
    v
}

fn mutate(rng: &mut Rng, r: &[u8], with30: bool) -> Vec<u8> {
    let mut t = r.to_vec();
    let n_ops = rng.range(0, 3 + (r.len() / 200) as u64);
    for _ in 0..n_ops {
        let len = t.len();
        match rng.below(11) {
            9 | 10 => {
                // cluster of SNPs closer together than the minimum match (what the bang rewrite is for)
                if len > 0 {
                    let p = rng.below(len as u64) as usize;
                    let n = rng.range(2, 5);
                    let mut q = p;
                    for _ in 0..n {
                        if q < len {
                            t[q] = (t[q] + 1 + rng.below(3) as u8) % 4;
                        }
                        q += rng.range(1, 12) as usize;
                    }
                }
            }
            0 | 1 => {
                // SNP; half of the time (when there is one) placed just in front of or behind an N run
                if len > 0 {
                    let mut p = rng.below(len as u64) as usize;
                    if rng.chance(1, 2) {
                        let runs: Vec<usize> = (1..len).filter(|&i| t[i] == 4 && t[i - 1] != 4).collect();
                        if !runs.is_empty() {
                            let s0 = *rng.pick(&runs);
                            if rng.chance(1, 2) {
                                p = s0.saturating_sub(rng.range(1, 12) as usize);
                            } else {
                                let mut e = s0;
                                while e < len && t[e] == 4 {
                                    e += 1;
                                }
                                p = (e + rng.below(12) as usize).min(len - 1);
                            }
                        }
                    }
                    t[p] = rand_sym(rng, with30);
                }
            }
            2 => {
                // insertion
                let p = rng.range(0, len as u64) as usize;
                let l = rng.range(1, 12) as usize;
                let ins = rand_seq(rng, l, with30);
                t.splice(p..p, ins);
            }
            3 => {
                // deletion
                if len > 0 {
                    let p = rng.below(len as u64) as usize;
                    let l = (rng.range(1, 30) as usize).min(len - p);
                    t.drain(p..p + l);
                }
            }
            4 | 5 => {
                // N run of length 1..6 (sometimes longer), inserted or overwriting
                let l = if rng.chance(1, 6) { rng.range(7, 300) as usize } else { rng.range(1, 6) as usize };
                let p = rng.range(0, len as u64) as usize;
                if rng.chance(1, 2) {
                    t.splice(p..p, std::iter::repeat(4u8).take(l));
                } else {
                    for q in p..(p + l).min(len) {
                        t[q] = 4;
                    }
                }
            }
            6 => {
                // block move
                if len > 8 {
                    let a = rng.below(len as u64) as usize;
                    let l = (rng.range(1, (len / 2) as u64) as usize).min(len - a);
                    let blk: Vec<u8> = t.drain(a..a + l).collect();
                    let p = rng.range(0, t.len() as u64) as usize;
                    t.splice(p..p, blk);
                }
            }
            7 => {
                // block duplication
                if len > 8 {
                    let a = rng.below(len as u64) as usize;
                    let l = (rng.range(1, 200) as usize).min(len - a);
                    let blk: Vec<u8> = t[a..a + l].to_vec();
                    let p = rng.range(0, t.len() as u64) as usize;
                    t.splice(p..p, blk);
                }
            }
            _ => {
                // truncate at either end
                if len > 0 {
                    let l = rng.below((len as u64 / 4).max(1)) as usize;
                    if rng.chance(1, 2) {
                        t.drain(..l);
                    } else {
                        t.truncate(len - l);
                    }
                }
            }
        }
    }
    t
}

fn random_pair(rng: &mut Rng, max_len: usize, with30: bool) -> (u32, Vec<u8>, Vec<u8>, &'static str) {
    // mostly 5..32; sometimes 4 (key_len 1) and values with key_len >= 32 (key_mask = !0, u64 codes wrap)
    let mm = if rng.chance(1, 4) {
        *rng.pick(&[5u32, 18, 20, 32])
    } else if rng.chance(1, 20) {
        *rng.pick(&[4u32, 33, 35, 36, 40, 70])
    } else {
        rng.range(5, 32) as u32
    };
    let key_len = (mm - HASHING_STEP + 1) as usize;
    // lengths: mostly small, sometimes up to max_len
    let cap = match rng.below(10) {
        0..=3 => 120.min(max_len),
        4..=7 => 1000.min(max_len),
        _ => max_len,
    };
    let rl = rng.range(0, cap as u64) as usize;
    let ref30 = with30 && rng.chance(1, 3);
    let mut r = rand_seq(rng, rl, ref30);
    // assembly gaps: N runs (>= MIN_NRUN_LEN) that reference and target SHARE, so that matches,
    // backward extension and literals meet N-run tokens on both sides
    if rl >= 8 && rng.chance(1, 3) {
        for _ in 0..rng.range(1, 4) {
            let l = (if rng.chance(1, 4) { rng.range(1, 3) } else { rng.range(4, 60) } as usize).min(r.len() / 2);
            let p = rng.below((r.len() - l) as u64 + 1) as usize;
            for q in p..p + l {
                r[q] = 4;
            }
        }
    }
    let (t, origin): (Vec<u8>, &'static str) = match rng.below(12) {
        0 => (r.clone(), "equal"),
        1 => {
            let l = rng.range(0, key_len as u64 + 1) as usize;
            let l = l.min(r.len());
            let p = if r.len() > l { rng.range(0, (r.len() - l) as u64) as usize } else { 0 };
            (r[p..p + l].to_vec(), "shorter-than-key")
        }
        2 => {
            let l = rng.range(0, cap as u64) as usize;
            (rand_seq(rng, l, with30), "unrelated")
        }
        3 => {
            // random prefix + long shared suffix: the last match reaches the end of both
            let keep = rng.range(0, r.len() as u64) as usize;
            let l = rng.range(0, 60) as usize;
            let mut t = rand_seq(rng, l, with30);
            t.extend_from_slice(&r[r.len() - keep..]);
            (t, "shared-suffix")
        }
        4 => {
            // mutated head, untouched tail
            let cut = rng.range(0, r.len() as u64) as usize;
            let mut t = mutate(rng, &r[..cut], with30);
            t.extend_from_slice(&r[cut..]);
            (t, "mutated-head")
        }
        _ => (mutate(rng, &r, with30), "mutated"),
    };
    (mm, r, t, origin)
}

/// lz_diff.rs prints diagnostics with `eprintln!` just before it panics on a malformed stream
/// (hundreds of thousands of lines for the code-30 cases): send this process's stderr to /dev/null.
fn silence_stderr() {
    unsafe {
        let fd = libc::open(b"/dev/null\0".as_ptr() as *const libc::c_char, libc::O_WRONLY);
        if fd >= 0 {
            libc::dup2(fd, 2);
            libc::close(fd);
        }
    }
}

pub fn run(ctx: &mut Ctx) -> Report {
    silence_stderr();
    let mut rep = Report::new(
        "C09",
        "all (reference, target) pairs up to a length bound over {0,1}, {0,4}, {0..3}, {0,4,30} with min-match 5 (and 4); \
         random / mutation-derived pairs (SNPs, indels, N runs, block moves/duplications, shared suffix, equal, shorter than the key) \
         with min-match 5..32 (and 4, 33..70) over codes 0..15, the same with code 30 in a separate stream; random lexically well-formed token \
         streams for the decoder. A pair is non-trivial if its encoding is non-empty; distinct by (min-match, reference, target)",
    );
    if let Some(rp) = ctx.replay.clone() {
        let c = &rp["case"];
        let mm = c["mm"].as_u64().unwrap_or(5) as u32;
        let r = unhex(c["ref"].as_str().unwrap_or("-")).unwrap_or_default();
        if c["kind"] == "stream" {
            let e = unhex(c["enc"].as_str().unwrap_or("-")).unwrap_or_default();
            one_stream(ctx, &mut rep, mm, &r, &e, "replay");
        } else {
            let t = unhex(c["tgt"].as_str().unwrap_or("-")).unwrap_or_default();
            one_pair(ctx, &mut rep, mm, &r, &t, "replay", true);
        }
        return rep;
    }
    // 0. the f64 table sizing, directly
    for n in (0..ctx.t(3000u64, 30000)).chain([1 << 20, (1 << 20) + 1, 7 << 20, (7 << 20) + 3, 123456789]) {
        let f = (n as f64 / 0.7) as u64;
        let mut s = if f == 0 { 1 } else { f };
        while s & (s - 1) != 0 {
            s &= s - 1;
        }
        s <<= 1;
        if s < 8 {
            s = 8;
        }
        if let Some(m) = ctx.ask(&format!("lz-htsize {}", n)) {
            let real = format!("ok {} {}", f, s);
            if m != real {
                rep.disagree("lz-htsize", json!({"kind": "htsize", "n": n}), &m, &real);
            }
        }
    }
    // 1. exhaustive small domains
    let l2 = ctx.t(7, 8);
    exhaustive(ctx, &mut rep, &[0, 1], l2, 5, "all-01");
    exhaustive(ctx, &mut rep, &[0, 4], l2, 5, "all-04");
    exhaustive(ctx, &mut rep, &[0, 1, 2, 3], ctx.t(3, 4), 5, "all-0123");
    exhaustive(ctx, &mut rep, &[0, 4, 30], ctx.t(4, 5), 5, "all-0-4-30");
    exhaustive(ctx, &mut rep, &[0, 1], ctx.t(6, 7), 4, "all-01-mm4");
    rep.exhaustive = true;
    // 2. random and mutation-derived pairs, codes 0..15
    let max_len = ctx.t(4096usize, 40960);
    let n_rand = ctx.t(2500u64, 20000);
    for c in 0..n_rand {
        let mut rng = Rng::new(ctx.seed, 9, c);
        let (mm, r, t, origin) = random_pair(&mut rng, max_len, false);
        one_pair(ctx, &mut rep, mm, &r, &t, origin, true);
    }
    // 3. the same with the unknown-letter code 30 (separate stream: known defect D2)
    let n_30 = ctx.t(300u64, 3000);
    for c in 0..n_30 {
        let mut rng = Rng::new(ctx.seed, 930, c);
        let (mm, r, t, origin) = random_pair(&mut rng, max_len.min(8192), true);
        one_pair(ctx, &mut rep, mm, &r, &t, origin, true);
    }
    // 4. decoder on token streams
    let n_str = ctx.t(4000u64, 40000);
    for c in 0..n_str {
        let mut rng = Rng::new(ctx.seed, 909, c);
        let mm = rng.range(5, 32) as u32;
        let rl = rng.range(0, 300) as usize;
        let r = rand_seq(&mut rng, rl, false);
        let wild = rng.chance(1, 4);
        let e = gen_stream(&mut rng, mm, r.len(), wild);
        one_stream(ctx, &mut rep, mm, &r, &e, if wild { "stream-wild" } else { "stream" });
    }
    rep
}
